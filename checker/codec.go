package main

import (
	"bytes"
	"fmt"
	"go/ast"
	"go/format"
	"go/parser"
	"go/token"
	"go/types"
	"os"
	"strings"
)

// Source normalisation of hand-written fixed-width integer codecs (pre-pass,
// same overlay mechanism as helper inlining).
//
// The id/ack rules (R-ID, R-SIB/wire, R-ROUTE/errstop, R-DEADLINE) recognise a
// wire write as binary.Write(w, order, v) and a wire read as
// binary.Read(r, order, &v). The allocation-free spelling of the same thing
//
//	order.PutUint32(buf[:], v); _, err := w.Write(buf[:])
//	_, err := io.ReadFull(r, buf[:]); ... v := order.Uint32(buf[:])
//
// is rewritten into those calls, so that every rule sees one form:
//
//   - a PutUint32 statement immediately followed by a statement whose
//     assignment (or if-initialiser) is `_, e := W.Write(buf[:])` becomes
//     `e := binary.Write(W, order, v)`;
//   - an assignment `_, e := io.ReadFull(R, buf[:])` whose buffer is decoded
//     later in the same statement list by order.Uint32(buf[:]) (before the
//     buffer is filled again) becomes `e := binary.Read(R, order, &x)`, with x
//     the variable the decoded value was bound to (hoisted in front of the
//     read) or a new variable that replaces the decode expressions.
//
// Only whole-buffer slices of a plain identifier are matched, the decode must
// follow the fill, and a buffer that is no longer mentioned afterwards loses
// its declaration. If the rewritten program does not type-check the original
// is analysed. The rewrite preserves what is sent and what is compared; it
// does not preserve allocation behaviour, which no rule looks at.
func (p *Prog) codecOverlay() (map[string][]byte, []string) {
	files := map[string]bool{}
	for _, f := range p.Funcs {
		if f.Body == nil {
			continue
		}
		fn := p.Fset.Position(f.Body.Pos()).Filename
		if inScopeFile(fn) && strings.HasPrefix(f.Pkg.PkgPath, modPath) {
			files[fn] = true
		}
	}
	overlay := map[string][]byte{}
	var notes []string
	for fn := range files {
		src := p.Overlay[fn]
		if src == nil {
			b, err := os.ReadFile(fn)
			if err != nil {
				continue
			}
			src = b
		}
		if !bytes.Contains(src, []byte("PutUint32")) && !bytes.Contains(src, []byte(".Uint32(")) {
			continue
		}
		fset := token.NewFileSet()
		file, err := parser.ParseFile(fset, fn, src, parser.ParseComments)
		if err != nil {
			continue
		}
		binName, ioName := "", ""
		for _, im := range file.Imports {
			switch im.Path.Value {
			case `"encoding/binary"`:
				binName = "binary"
				if im.Name != nil {
					binName = im.Name.Name
				}
			case `"io"`:
				ioName = "io"
				if im.Name != nil {
					ioName = im.Name.Name
				}
			}
		}
		if binName == "" || binName == "_" || binName == "." {
			continue
		}
		cw := &codecRewriter{bin: binName, io: ioName}
		for _, d := range file.Decls {
			fd, ok := d.(*ast.FuncDecl)
			if !ok || fd.Body == nil {
				continue
			}
			before := cw.n
			cw.block(fd.Body)
			if cw.n != before {
				cw.dropDeadBuffers(fd.Body)
				notes = append(notes, fmt.Sprintf("hand-written uint32 codec in %s rewritten to encoding/binary Read/Write (%d sites)", fd.Name.Name, cw.n-before))
			}
		}
		if cw.n == 0 {
			continue
		}
		p.pruneImports(fset, file)
		var buf bytes.Buffer
		if err := format.Node(&buf, fset, file); err != nil {
			continue
		}
		overlay[fn] = buf.Bytes()
	}
	return overlay, notes
}

type codecRewriter struct {
	bin, io string
	n       int
	bufs    map[string]bool
}

// wholeSlice returns B for the expression B[:].
func wholeSlice(e ast.Expr) string {
	se, ok := ast.Unparen(e).(*ast.SliceExpr)
	if !ok || se.Low != nil || se.High != nil || se.Max != nil {
		return ""
	}
	id, ok := se.X.(*ast.Ident)
	if !ok {
		return ""
	}
	return id.Name
}

// orderCall matches binary.<Order>.<method>(args...) and returns the order
// expression.
func (cw *codecRewriter) orderCall(e ast.Expr, method string) (ast.Expr, *ast.CallExpr) {
	call, ok := ast.Unparen(e).(*ast.CallExpr)
	if !ok {
		return nil, nil
	}
	se, ok := call.Fun.(*ast.SelectorExpr)
	if !ok || se.Sel.Name != method {
		return nil, nil
	}
	ord, ok := se.X.(*ast.SelectorExpr)
	if !ok {
		return nil, nil
	}
	if pk, ok := ord.X.(*ast.Ident); !ok || pk.Name != cw.bin || pk.Obj != nil {
		return nil, nil
	}
	return ord, call
}

// ioAssign finds the assignment `_, e := <call>` carried by a statement
// (plain, or the initialiser of an if statement).
func ioAssign(s ast.Stmt) *ast.AssignStmt {
	switch x := s.(type) {
	case *ast.AssignStmt:
		if len(x.Lhs) == 2 && len(x.Rhs) == 1 {
			return x
		}
	case *ast.IfStmt:
		if as, ok := x.Init.(*ast.AssignStmt); ok && len(as.Lhs) == 2 && len(as.Rhs) == 1 {
			return as
		}
	}
	return nil
}

func isBlank(e ast.Expr) bool {
	id, ok := e.(*ast.Ident)
	return ok && id.Name == "_"
}

func mentions(n ast.Node, name string) int {
	k := 0
	ast.Inspect(n, func(x ast.Node) bool {
		if id, ok := x.(*ast.Ident); ok && id.Name == name {
			k++
		}
		return true
	})
	return k
}

// fills reports whether the statement writes the buffer again.
func (cw *codecRewriter) fills(s ast.Stmt, buf string) bool {
	found := false
	ast.Inspect(s, func(x ast.Node) bool {
		call, ok := x.(*ast.CallExpr)
		if !ok {
			return true
		}
		if _, c := cw.orderCall(call, "PutUint32"); c != nil && len(c.Args) == 2 && wholeSlice(c.Args[0]) == buf {
			found = true
		}
		if se, ok := call.Fun.(*ast.SelectorExpr); ok && len(call.Args) >= 1 {
			if (se.Sel.Name == "ReadFull" || se.Sel.Name == "Read") && wholeSlice(call.Args[len(call.Args)-1]) == buf {
				found = true
			}
		}
		return true
	})
	return found
}

func (cw *codecRewriter) block(b *ast.BlockStmt) {
	if b == nil {
		return
	}
	b.List = cw.list(b.List)
}

func (cw *codecRewriter) list(list []ast.Stmt) []ast.Stmt {
	// nested lists first
	for _, s := range list {
		ast.Inspect(s, func(x ast.Node) bool {
			switch y := x.(type) {
			case *ast.BlockStmt:
				y.List = cw.list(y.List)
				return false
			case *ast.CaseClause:
				y.Body = cw.list(y.Body)
				return false
			case *ast.CommClause:
				y.Body = cw.list(y.Body)
				return false
			}
			return true
		})
	}
	var out []ast.Stmt
	for i := 0; i < len(list); i++ {
		s := list[i]
		// (W) order.PutUint32(buf[:], v) ; _, e := W.Write(buf[:])
		if es, ok := s.(*ast.ExprStmt); ok && i+1 < len(list) {
			if ord, put := cw.orderCall(es.X, "PutUint32"); put != nil && len(put.Args) == 2 {
				if buf := wholeSlice(put.Args[0]); buf != "" {
					next := list[i+1]
					var wcall *ast.CallExpr
					as := ioAssign(next)
					if as != nil && isBlank(as.Lhs[0]) {
						wcall, _ = ast.Unparen(as.Rhs[0]).(*ast.CallExpr)
					} else if nes, ok := next.(*ast.ExprStmt); ok {
						wcall, _ = ast.Unparen(nes.X).(*ast.CallExpr)
						as = nil
					}
					if wcall != nil && len(wcall.Args) == 1 && wholeSlice(wcall.Args[0]) == buf {
						if wse, ok := wcall.Fun.(*ast.SelectorExpr); ok && wse.Sel.Name == "Write" {
							val := put.Args[1]
							if _, isLit := val.(*ast.BasicLit); isLit {
								val = &ast.CallExpr{Fun: ast.NewIdent("uint32"), Args: []ast.Expr{val}}
							}
							nc := &ast.CallExpr{
								Fun:  &ast.SelectorExpr{X: ast.NewIdent(cw.bin), Sel: ast.NewIdent("Write")},
								Args: []ast.Expr{wse.X, ord, val},
							}
							if as != nil {
								as.Lhs = as.Lhs[1:]
								as.Rhs = []ast.Expr{nc}
							} else {
								next.(*ast.ExprStmt).X = nc
							}
							cw.n++
							continue // drop the PutUint32 statement
						}
					}
				}
			}
		}
		// (R) _, e := io.ReadFull(R, buf[:]) ... order.Uint32(buf[:])
		if as := ioAssign(s); as != nil && isBlank(as.Lhs[0]) && cw.io != "" {
			if rcall, ok := ast.Unparen(as.Rhs[0]).(*ast.CallExpr); ok && len(rcall.Args) == 2 {
				rse, isSel := rcall.Fun.(*ast.SelectorExpr)
				pk, isPk := ast.Expr(nil), false
				if isSel {
					pk = rse.X
					if id, ok := pk.(*ast.Ident); ok && id.Name == cw.io && id.Obj == nil && rse.Sel.Name == "ReadFull" {
						isPk = true
					}
				}
				if buf := wholeSlice(rcall.Args[1]); isPk && buf != "" {
					if hoisted := cw.rewriteRead(list, i, as, rcall, buf); hoisted != nil {
						out = append(out, hoisted)
						cw.n++
					}
				}
			}
		}
		out = append(out, s)
	}
	// statements emptied by hoisting are removed
	var out2 []ast.Stmt
	for _, s := range out {
		if _, dead := s.(*ast.EmptyStmt); dead {
			continue
		}
		out2 = append(out2, s)
	}
	return out2
}

// rewriteRead turns the fill at list[i] into a binary.Read and returns the
// declaration to put in front of it, or nil if the pattern does not apply.
func (cw *codecRewriter) rewriteRead(list []ast.Stmt, i int, as *ast.AssignStmt, rcall *ast.CallExpr, buf string) ast.Stmt {
	// decode sites after the fill, up to the next fill of the same buffer
	type site struct {
		stmtIdx int
		call    *ast.CallExpr
		ord     ast.Expr
	}
	var sites []site
	end := len(list)
	for j := i + 1; j < len(list); j++ {
		ast.Inspect(list[j], func(x ast.Node) bool {
			if e, ok := x.(ast.Expr); ok {
				if ord, c := cw.orderCall(e, "Uint32"); c != nil && len(c.Args) == 1 && wholeSlice(c.Args[0]) == buf {
					sites = append(sites, site{j, c, ord})
				}
			}
			return true
		})
		if cw.fills(list[j], buf) {
			end = j + 1
			break
		}
	}
	_ = end
	if len(sites) == 0 {
		return nil
	}
	ordStr := exprString(sites[0].ord)
	for _, st := range sites {
		if exprString(st.ord) != ordStr {
			return nil
		}
	}
	// the buffer must not be read in any other way between the fill and the
	// last decode (a second consumer would see bytes the rewrite removes)
	last := sites[len(sites)-1].stmtIdx
	uses := 0
	for j := i + 1; j <= last; j++ {
		uses += mentions(list[j], buf)
	}
	if uses != len(sites) {
		return nil
	}
	name := ""
	// `x := order.Uint32(buf[:])` as a statement of this list, or as the
	// initialiser of an if statement of this list: x itself becomes the target
	if len(sites) == 1 {
		st := list[sites[0].stmtIdx]
		var def *ast.AssignStmt
		inIf := false
		if a, ok := st.(*ast.AssignStmt); ok {
			def = a
		} else if ifs, ok := st.(*ast.IfStmt); ok {
			if a, ok := ifs.Init.(*ast.AssignStmt); ok {
				def, inIf = a, true
			}
		}
		if def != nil && def.Tok == token.DEFINE && len(def.Lhs) == 1 && len(def.Rhs) == 1 && ast.Unparen(def.Rhs[0]) == ast.Expr(sites[0].call) {
			if id, ok := def.Lhs[0].(*ast.Ident); ok && id.Name != "_" {
				// x must not be mentioned elsewhere in the list before its definition
				// (the hoisted declaration would capture those mentions), nor - for
				// the if form - outside that if statement at all
				clash := false
				for j := 0; j < len(list); j++ {
					if j == sites[0].stmtIdx {
						continue
					}
					if (j < sites[0].stmtIdx || inIf) && mentions(list[j], id.Name) > 0 {
						clash = true
					}
				}
				if !clash {
					name = id.Name
					if inIf {
						list[sites[0].stmtIdx].(*ast.IfStmt).Init = nil
					} else {
						list[sites[0].stmtIdx] = &ast.EmptyStmt{Implicit: true}
					}
				}
			}
		}
	}
	if name == "" {
		name = fmt.Sprintf("wire%d_%s", cw.n+1, buf)
		for _, st := range sites {
			*st.call = ast.CallExpr{Fun: ast.NewIdent("uint32"), Args: []ast.Expr{ast.NewIdent(name)}}
		}
	}
	as.Lhs = as.Lhs[1:]
	as.Rhs = []ast.Expr{&ast.CallExpr{
		Fun:  &ast.SelectorExpr{X: ast.NewIdent(cw.bin), Sel: ast.NewIdent("Read")},
		Args: []ast.Expr{rcall.Args[0], sites[0].ord, &ast.UnaryExpr{Op: token.AND, X: ast.NewIdent(name)}},
	}}
	return &ast.DeclStmt{Decl: &ast.GenDecl{Tok: token.VAR, Specs: []ast.Spec{
		&ast.ValueSpec{Names: []*ast.Ident{ast.NewIdent(name)}, Type: ast.NewIdent("uint32")},
	}}}
}

func exprString(e ast.Expr) string {
	var b bytes.Buffer
	_ = format.Node(&b, token.NewFileSet(), e)
	return b.String()
}

// dropDeadBuffers removes `var buf [N]byte` / `buf := make([]byte, N)`
// declarations of identifiers that are no longer mentioned anywhere else in
// the function.
func (cw *codecRewriter) dropDeadBuffers(body *ast.BlockStmt) {
	var visit func(list []ast.Stmt) []ast.Stmt
	visit = func(list []ast.Stmt) []ast.Stmt {
		var out []ast.Stmt
		for _, s := range list {
			ast.Inspect(s, func(x ast.Node) bool {
				switch y := x.(type) {
				case *ast.BlockStmt:
					y.List = visit(y.List)
					return false
				case *ast.CaseClause:
					y.Body = visit(y.Body)
					return false
				case *ast.CommClause:
					y.Body = visit(y.Body)
					return false
				}
				return true
			})
			name := ""
			switch d := s.(type) {
			case *ast.DeclStmt:
				if gd, ok := d.Decl.(*ast.GenDecl); ok && gd.Tok == token.VAR && len(gd.Specs) == 1 {
					if vs, ok := gd.Specs[0].(*ast.ValueSpec); ok && len(vs.Names) == 1 && len(vs.Values) == 0 {
						if at, ok := vs.Type.(*ast.ArrayType); ok && at.Len != nil {
							if el, ok := at.Elt.(*ast.Ident); ok && el.Name == "byte" {
								name = vs.Names[0].Name
							}
						}
					}
				}
			case *ast.AssignStmt:
				if d.Tok == token.DEFINE && len(d.Lhs) == 1 && len(d.Rhs) == 1 {
					if call, ok := d.Rhs[0].(*ast.CallExpr); ok {
						if id, ok := call.Fun.(*ast.Ident); ok && id.Name == "make" && len(call.Args) == 2 {
							if l, ok := d.Lhs[0].(*ast.Ident); ok {
								name = l.Name
							}
						}
					}
				}
			}
			if name != "" && mentions(body, name) == 1 {
				continue
			}
			out = append(out, s)
		}
		return out
	}
	body.List = visit(body.List)
}

// Receive-until-closed loops (same overlay mechanism).
//
//	for ok := true; ok; { _, ok = <-ch }
//
// receives and discards until ch is closed: it is `for range ch {}` spelled so
// that the block is not empty (what revive's empty-block finding asks for). The
// drain rules look for the range form; the loop is rewritten into it.
func (p *Prog) drainLoopOverlay() (map[string][]byte, []string) {
	files := map[string]bool{}
	for _, f := range p.Funcs {
		if f.Body == nil {
			continue
		}
		fn := p.Fset.Position(f.Body.Pos()).Filename
		if inScopeFile(fn) && strings.HasPrefix(f.Pkg.PkgPath, modPath) {
			files[fn] = true
		}
	}
	overlay := map[string][]byte{}
	var notes []string
	for fn := range files {
		src := p.Overlay[fn]
		if src == nil {
			b, err := os.ReadFile(fn)
			if err != nil {
				continue
			}
			src = b
		}
		if !bytes.Contains(src, []byte("= <-")) {
			continue
		}
		fset := token.NewFileSet()
		file, err := parser.ParseFile(fset, fn, src, parser.ParseComments)
		if err != nil {
			continue
		}
		n := 0
		match := func(fs *ast.ForStmt) ast.Expr {
			if fs.Post != nil || fs.Body == nil || len(fs.Body.List) != 1 {
				return nil
			}
			init, ok := fs.Init.(*ast.AssignStmt)
			if !ok || init.Tok != token.DEFINE || len(init.Lhs) != 1 || len(init.Rhs) != 1 {
				return nil
			}
			okID, isID := init.Lhs[0].(*ast.Ident)
			tv, isT := init.Rhs[0].(*ast.Ident)
			cond, isC := fs.Cond.(*ast.Ident)
			if !isID || !isT || !isC || tv.Name != "true" || cond.Name != okID.Name {
				return nil
			}
			as, ok := fs.Body.List[0].(*ast.AssignStmt)
			if !ok || as.Tok != token.ASSIGN || len(as.Lhs) != 2 || len(as.Rhs) != 1 || !isBlank(as.Lhs[0]) {
				return nil
			}
			if id, ok := as.Lhs[1].(*ast.Ident); !ok || id.Name != okID.Name {
				return nil
			}
			u, ok := as.Rhs[0].(*ast.UnaryExpr)
			if !ok || u.Op != token.ARROW {
				return nil
			}
			return u.X
		}
		var rewrite func(list []ast.Stmt)
		rewrite = func(list []ast.Stmt) {
			for i, s := range list {
				if fs, ok := s.(*ast.ForStmt); ok {
					if ch := match(fs); ch != nil {
						list[i] = &ast.RangeStmt{For: fs.For, X: ch, Tok: token.ILLEGAL, Body: &ast.BlockStmt{Lbrace: fs.Body.Lbrace, Rbrace: fs.Body.Rbrace}}
						n++
						continue
					}
				}
				ast.Inspect(s, func(x ast.Node) bool {
					switch y := x.(type) {
					case *ast.BlockStmt:
						rewrite(y.List)
						return false
					case *ast.CaseClause:
						rewrite(y.Body)
						return false
					case *ast.CommClause:
						rewrite(y.Body)
						return false
					}
					return true
				})
			}
		}
		for _, d := range file.Decls {
			if fd, ok := d.(*ast.FuncDecl); ok && fd.Body != nil {
				rewrite(fd.Body.List)
			}
		}
		if n == 0 {
			continue
		}
		var buf bytes.Buffer
		if err := format.Node(&buf, fset, file); err != nil {
			continue
		}
		overlay[fn] = buf.Bytes()
		notes = append(notes, fmt.Sprintf("%d receive-until-closed loop(s) rewritten to `for range ch {}`", n))
	}
	return overlay, notes
}

// Generated protobuf getters (same overlay mechanism).
//
// protoc-gen-go gives every message a nil-safe getter per field:
// `func (x *M) GetF() T { if x != nil { return x.F }; return zero }`. The id
// and wire-field rules identify a field by its selector, so a call X.GetF() of
// such a getter (declared in the module's internal/plugin package, on a struct
// that has a field F of the getter's result type) is rewritten to X.F. The
// getters of an optional sub-message (a type that another message holds by
// pointer) are left alone: there the nil-safety of the receiver is the point,
// and the knock classification rule evaluates them as getters.
func (p *Prog) getterOverlay() (map[string][]byte, []string) {
	type edit struct{ from, to int }
	edits := map[string][]edit{}
	names := map[string][]string{}
	isGetter := func(fn *types.Func) string {
		if fn == nil || fn.Pkg() == nil || !strings.HasSuffix(fn.Pkg().Path(), "/internal/plugin") || !strings.HasPrefix(fn.Name(), "Get") {
			return ""
		}
		sig, ok := fn.Type().(*types.Signature)
		if !ok || sig.Recv() == nil || sig.Params().Len() != 0 || sig.Results().Len() != 1 {
			return ""
		}
		rt := sig.Recv().Type()
		if pt, ok := rt.(*types.Pointer); ok {
			rt = pt.Elem()
		}
		st, ok := rt.Underlying().(*types.Struct)
		if !ok {
			return ""
		}
		// an optional sub-message (a type that is the pointer-typed field of
		// another message of the package) keeps its getters: there the
		// nil-safety of the receiver is the point
		if named, ok := rt.(*types.Named); ok {
			scope := fn.Pkg().Scope()
			for _, nm := range scope.Names() {
				tn, ok := scope.Lookup(nm).(*types.TypeName)
				if !ok {
					continue
				}
				ost, ok := tn.Type().Underlying().(*types.Struct)
				if !ok {
					continue
				}
				for i := 0; i < ost.NumFields(); i++ {
					if pt, ok := ost.Field(i).Type().(*types.Pointer); ok && types.Identical(pt.Elem(), named) {
						return ""
					}
				}
			}
		}
		field := strings.TrimPrefix(fn.Name(), "Get")
		for i := 0; i < st.NumFields(); i++ {
			if st.Field(i).Name() == field && types.Identical(st.Field(i).Type(), sig.Results().At(0).Type()) {
				return field
			}
		}
		return ""
	}
	for _, f := range p.Funcs {
		if f.Body == nil || f.Decl == nil {
			continue
		}
		fn := p.Fset.Position(f.Body.Pos()).Filename
		if !inScopeFile(fn) || !strings.HasPrefix(f.Pkg.PkgPath, modPath) || strings.HasSuffix(f.Pkg.PkgPath, "/internal/plugin") {
			continue
		}
		info := f.Pkg.TypesInfo
		ast.Inspect(f.Body, func(x ast.Node) bool {
			call, ok := x.(*ast.CallExpr)
			if !ok || len(call.Args) != 0 {
				return true
			}
			se, ok := call.Fun.(*ast.SelectorExpr)
			if !ok {
				return true
			}
			sel := info.Selections[se]
			if sel == nil || sel.Kind() != types.MethodVal {
				return true
			}
			mf, _ := sel.Obj().(*types.Func)
			field := isGetter(mf)
			if field == "" {
				return true
			}
			edits[fn] = append(edits[fn], edit{p.Fset.Position(se.Sel.Pos()).Offset, p.Fset.Position(call.End()).Offset})
			names[fn] = append(names[fn], field)
			return true
		})
	}
	overlay := map[string][]byte{}
	var notes []string
	for fn, es := range edits {
		src := p.Overlay[fn]
		if src == nil {
			b, err := os.ReadFile(fn)
			if err != nil {
				continue
			}
			src = b
		}
		// apply from the end so that offsets stay valid
		idx := make([]int, len(es))
		for i := range idx {
			idx[i] = i
		}
		for i := 0; i < len(idx); i++ {
			for j := i + 1; j < len(idx); j++ {
				if es[idx[j]].from > es[idx[i]].from {
					idx[i], idx[j] = idx[j], idx[i]
				}
			}
		}
		out := append([]byte{}, src...)
		okAll := true
		for _, k := range idx {
			e := es[k]
			if e.from < 0 || e.to > len(out) || e.from >= e.to {
				okAll = false
				break
			}
			out = append(append(append([]byte{}, out[:e.from]...), []byte(names[fn][k])...), out[e.to:]...)
		}
		if !okAll {
			continue
		}
		overlay[fn] = out
		notes = append(notes, fmt.Sprintf("%d generated getter call(s) rewritten to field selectors", len(es)))
	}
	return overlay, notes
}
