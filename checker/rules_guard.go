package main

import (
	"fmt"
	"go/ast"
	"go/token"
	"go/types"
	"sort"
	"strings"
)

// R-GUARD — lockset discipline on shared fields.

// guardedFields are the shared fields (anchors named by the properties). Their
// guarding mutex is inferred on every run: the mutex of the owning struct (or,
// for package variables, a package-level mutex) that is held at most of the
// field's accesses. Every access must then hold that mutex.
var guardedFields = []string{
	"Client.exited", "Client.address", "Client.runner", "Client.client", "Client.protocol", "Client.doneCtx", "Client.ctxCancel",
	"Client.negotiatedVersion", "Client.processKilled", "Client.unixSocketCfg", "Client.launched",
	"MuxBroker.streams",
	"GRPCBroker.clientStreams", "GRPCBroker.serverStreams", "GRPCBroker.listeners",
	"grpcmux.GRPCClientMuxer.acceptListeners",
	"grpcmux.GRPCServerMuxer.acceptChannels",
	"managedClients",
	"RPCServer.DoneCh",
	"GRPCServer.broker",
}

// optionalFields may be absent (introduced by a repair).
var optionalFields = map[string]bool{"Client.launched": true, "GRPCBroker.listeners": true}

// guardReadExceptions: "function|field" -> happens-before reason for an unlocked READ.
var guardReadExceptions = map[string]string{
	"Client.NegotiatedVersion|Client.negotiatedVersion": "documented as valid only after Start returned; Start's unlock happens-before the caller's read",
	"Client.Protocol|Client.protocol":                   "read after this goroutine's own Start() call returned (lock release happens-before)",
	"Client.Kill|Client.doneCtx":                        "read after address != nil was observed under the lock; doneCtx is written before address and never again",
	"Client.Start|Client.ctxCancel":                     "goroutine created by Start while holding the lock, after the field was written; the field is never written again",
	"Client.reattach|Client.ctxCancel":                  "goroutine created by reattach while holding the lock, after the field was written; never written again",
	"Client.dialer|Client.address":                      "called by gRPC/net-rpc dial paths that start after Start returned; address is immutable once set",
	"Client.dialer|Client.protocol":                     "immutable once Start returned",
	"Client.getGRPCMuxer|Client.protocol":               "immutable once Start returned",
	"newGRPCClient|Client.address":                      "only called from Client.Client() with the client lock held (and from test helpers on a private client)",
	"newGRPCClient|Client.unixSocketCfg":                "as above",
	"newGRPCClient|Client.runner":                       "as above",
	"GRPCServer.Init|GRPCServer.broker":                 "single-threaded start-up of Serve: Init runs before the server accepts connections",
}

// fieldWriteExceptions: "Type.field" -> why an unlocked write outside a constructor is safe.
var fieldWriteExceptions = map[string]string{
	"cmdrunner.CmdRunner.pid":          "written once in Start, which the Client calls under Client.l before any reader exists",
	"grpcmux.GRPCServerMuxer.sess":     "written by acceptSession before it closes sessionErrCh; readers wait on that channel (publication by channel close)",
	"ServeConfig.VersionedPlugins":     "single-threaded start-up of Serve",
	"ClientConfig.VersionedPlugins":    "written in Start under Client.l (lockset sees ClientConfig, not Client)",
	"ClientConfig.Plugins":             "written in Start under Client.l",
	"ClientConfig.TLSConfig":           "written in Start under Client.l",
	"ClientConfig.MinPort":             "NewClient defaults: construction, before the client is shared",
	"ClientConfig.MaxPort":             "NewClient defaults: construction",
	"ClientConfig.StartTimeout":        "NewClient defaults: construction",
	"ClientConfig.Stderr":              "NewClient defaults: construction",
	"ClientConfig.SyncStdout":          "NewClient defaults: construction",
	"ClientConfig.SyncStderr":          "NewClient defaults: construction",
	"ClientConfig.AllowedProtocols":    "NewClient defaults: construction",
	"ClientConfig.Logger":              "NewClient defaults: construction",
	"ClientConfig.PluginLogBufferSize": "NewClient defaults: construction",
	"ClientConfig.UnixSocketConfig":    "NewClient defaults: construction",
	"UnixSocketConfig.socketDir":       "written in Start under Client.l through Client.unixSocketCfg",
	"tls.Config.RootCAs":               "written in loadServerCert under Client.l, before any connection uses the config",
	"tls.Config.ClientCAs":             "as above",
	"yamux.Config.Logger":              "freshly created config, local to the constructor",
	"yamux.Config.LogOutput":           "freshly created config, local to the constructor",
	"plugin.StdioData.Data":            "stack-local message in StreamStdio",
	"plugin.StdioData.Channel":         "stack-local message in StreamStdio",
	"ReattachConfig.Pid":               "freshly built value in ReattachConfig()",
}

func isMutexType(t types.Type) bool {
	if pt, ok := t.(*types.Pointer); ok {
		t = pt.Elem()
	}
	ts := t.String()
	return ts == "sync.Mutex" || ts == "sync.RWMutex"
}

// resolveGuardTable infers, for every guarded field, its guarding mutex.
func (p *Prog) resolveGuardTable(c *Ctx, keep func(string) bool) (map[*types.Var]*types.Var, map[*types.Var]string) {
	fieldByName := map[string]*types.Var{}
	cands := map[*types.Var][]*types.Var{} // field -> candidate mutexes
	for _, sp := range scopePkgs {
		pk := p.Pkgs[sp]
		sc := pk.Types.Scope()
		var pkgMutexes []*types.Var
		for _, n := range sc.Names() {
			if v, ok := sc.Lookup(n).(*types.Var); ok && isMutexType(v.Type()) {
				pkgMutexes = append(pkgMutexes, v)
			}
		}
		for _, n := range sc.Names() {
			switch o := sc.Lookup(n).(type) {
			case *types.Var:
				fieldByName[o.Name()] = o
				cands[o] = pkgMutexes
			case *types.TypeName:
				st, ok := o.Type().Underlying().(*types.Struct)
				if !ok {
					continue
				}
				var mus []*types.Var
				for i := 0; i < st.NumFields(); i++ {
					if isMutexType(st.Field(i).Type()) {
						mus = append(mus, st.Field(i))
					}
				}
				for i := 0; i < st.NumFields(); i++ {
					fv := st.Field(i)
					fieldByName[p.FieldName(fv)] = fv
					cands[fv] = mus
				}
			}
		}
	}
	// fields grouped into a new sub-struct are guarded by their canonical owner's mutexes
	ownerMus := map[string][]*types.Var{}
	for fv, mus := range cands {
		if fv.IsField() && len(mus) > 0 {
			n := p.FieldName(fv)
			if i := strings.LastIndex(n, "."); i > 0 {
				ownerMus[n[:i]] = mus
			}
		}
	}
	for fv, mus := range cands {
		if !fv.IsField() || len(mus) > 0 {
			continue
		}
		n := p.FieldName(fv)
		if i := strings.LastIndex(n, "."); i > 0 && len(ownerMus[n[:i]]) > 0 {
			cands[fv] = ownerMus[n[:i]]
		}
	}
	want := map[*types.Var]string{}
	for _, fn := range guardedFields {
		if keep != nil && !keep(fn) {
			continue
		}
		fv := fieldByName[fn]
		if fv == nil {
			if !optionalFields[fn] {
				c.R.Undecided("R-GUARD", "", fn, "guarded field not found in the source")
			}
			continue
		}
		want[fv] = fn
	}
	// count, per field and candidate mutex, the accesses at which it is held
	score := map[*types.Var]map[*types.Var]int{}
	for _, f := range p.Funcs {
		if _, isInit := p.initPhaseReason(f); isInit {
			continue
		}
		for _, a := range p.fieldAccesses(f, func(v *types.Var) bool { return want[v] != "" }) {
			if a.node == nil {
				continue
			}
			held := p.MustHeldAt(f, a.node)
			for _, mu := range cands[a.fv] {
				if held[mu] {
					if score[a.fv] == nil {
						score[a.fv] = map[*types.Var]int{}
					}
					score[a.fv][mu]++
				}
			}
		}
	}
	guard := map[*types.Var]*types.Var{}
	for fv, fn := range want {
		var best *types.Var
		for _, mu := range cands[fv] {
			if score[fv][mu] > 0 && (best == nil || score[fv][mu] > score[fv][best]) {
				best = mu
			}
		}
		if best == nil {
			pos := p.PosOf(fv.Pos())
			c.R.Violate("R-GUARD", pos, "", fn+" has a guarding mutex",
				"the field is shared between goroutines but no mutex of its owner is held at any of its accesses: concurrent readers and writers race", nil)
			continue
		}
		guard[fv] = best
	}
	return guard, want
}

// freshLocals returns local variables of f that are initialised from a
// composite literal, new(), or a call to a module constructor-like function in
// f itself (the object is not yet shared).
func freshLocals(p *Prog, f *Func) map[*types.Var]bool {
	info := f.Pkg.TypesInfo
	out := map[*types.Var]bool{}
	fresh := func(e ast.Expr) bool {
		e = ast.Unparen(e)
		if u, ok := e.(*ast.UnaryExpr); ok && u.Op == token.AND {
			e = ast.Unparen(u.X)
		}
		switch x := e.(type) {
		case *ast.CompositeLit:
			return true
		case *ast.CallExpr:
			if id, ok := x.Fun.(*ast.Ident); ok && id.Name == "new" {
				return true
			}
			switch p.CalleeName(f, x) {
			case "github.com/hashicorp/yamux.DefaultConfig":
				return true
			}
		}
		return false
	}
	walkNoLit(f.Body, func(n ast.Node) bool {
		switch s := n.(type) {
		case *ast.AssignStmt:
			if len(s.Lhs) == len(s.Rhs) {
				for i, l := range s.Lhs {
					if v, ok := identObj(info, l).(*types.Var); ok && !v.IsField() && fresh(s.Rhs[i]) {
						out[v] = true
					}
				}
			}
		case *ast.ValueSpec:
			for i, nm := range s.Names {
				if v, ok := info.Defs[nm].(*types.Var); ok {
					if len(s.Values) == 0 {
						// `var data plugin.StdioData`: zero value local
						if _, isPtr := v.Type().Underlying().(*types.Pointer); !isPtr {
							out[v] = true
						}
					} else if i < len(s.Values) && fresh(s.Values[i]) {
						out[v] = true
					}
				}
			}
		}
		return true
	})
	return out
}

func rootVar(info *types.Info, e ast.Expr) *types.Var {
	for {
		e = ast.Unparen(e)
		switch x := e.(type) {
		case *ast.SelectorExpr:
			if _, ok := info.Selections[x]; ok {
				e = x.X
				continue
			}
			v, _ := info.Uses[x.Sel].(*types.Var)
			return v
		case *ast.StarExpr:
			e = x.X
		case *ast.IndexExpr:
			e = x.X
		case *ast.Ident:
			v, _ := identObj(info, x).(*types.Var)
			return v
		default:
			return nil
		}
	}
}

type fieldAccess struct {
	f     *Func
	sel   ast.Expr
	fv    *types.Var
	write bool
	node  *Node
}

// fieldAccesses lists selector accesses to struct fields (and uses of package
// variables in want) in f's own body.
func (p *Prog) fieldAccesses(f *Func, want func(*types.Var) bool) []fieldAccess {
	info := f.Pkg.TypesInfo
	g := p.Graph(f)
	var out []fieldAccess
	writes := map[ast.Expr]bool{}
	walkNoLit(f.Body, func(n ast.Node) bool {
		switch s := n.(type) {
		case *ast.AssignStmt:
			for _, l := range s.Lhs {
				writes[ast.Unparen(l)] = true
				// m[k] = v writes the map held in the field
				if ix, ok := ast.Unparen(l).(*ast.IndexExpr); ok {
					writes[ast.Unparen(ix.X)] = true
				}
			}
		case *ast.IncDecStmt:
			writes[ast.Unparen(s.X)] = true
		case *ast.CallExpr:
			if id, ok := s.Fun.(*ast.Ident); ok && (id.Name == "delete" || id.Name == "close") && len(s.Args) > 0 {
				if id.Name == "delete" {
					writes[ast.Unparen(s.Args[0])] = true
				}
			}
		}
		return true
	})
	walkNoLit(f.Body, func(n ast.Node) bool {
		switch x := n.(type) {
		case *ast.SelectorExpr:
			if fv := SelField(info, x); fv != nil && want(fv) {
				out = append(out, fieldAccess{f, x, fv, writes[x], g.NodeOf(x)})
			} else if v, ok := info.Uses[x.Sel].(*types.Var); ok && !v.IsField() && want(v) {
				out = append(out, fieldAccess{f, x, v, writes[x], g.NodeOf(x)})
			}
		case *ast.Ident:
			if v, ok := info.Uses[x].(*types.Var); ok && !v.IsField() && v.Parent() == v.Pkg().Scope() && want(v) {
				if se, ok := p.Parent(x).(*ast.SelectorExpr); ok && se.Sel == x {
					return true
				}
				out = append(out, fieldAccess{f, x, v, writes[x], g.NodeOf(x)})
			}
		}
		return true
	})
	return out
}

// initPhase functions run before their receiver is shared between goroutines.
var initPhase = map[string]string{
	"GRPCServer.Init": "single-threaded start-up: Serve calls Init before the server is started (R-ORDER/O6 checks that order)",
}

// initPhaseReason: f is a tabled init-phase function, or an unexported helper
// that is not taken as a value and whose every (plain, synchronous) call site
// lies in an init-phase function.
func (p *Prog) initPhaseReason(f *Func) (string, bool) {
	seen := map[*Func]bool{}
	var rec func(f *Func, depth int) (string, bool)
	rec = func(f *Func, depth int) (string, bool) {
		if r, ok := initPhase[f.Name]; ok {
			return r, true
		}
		if depth > 3 || seen[f] || f.Lit != nil || f.Obj == nil || f.Obj.Exported() || p.takenAsValue(f) {
			return "", false
		}
		seen[f] = true
		ci := p.Calls()
		if len(ci.callers[f]) == 0 {
			return "", false
		}
		reason := ""
		for _, cs := range ci.callers[f] {
			if cs.Kind != "call" || cs.IsIface || cs.Dynamic {
				return "", false
			}
			r, ok := rec(cs.Caller, depth+1)
			if !ok {
				return "", false
			}
			reason = r
		}
		return "helper called only from an init-phase function: " + reason, true
	}
	return rec(f, 0)
}

func ruleGuard(c *Ctx) { ruleGuardScoped(c, nil) }

// ruleGuardScoped checks the guard table (restricted to fields for which
// keep(name) is true, if keep != nil) and, when keep == nil, the general
// field-write discipline and the atomic id counters.
func ruleGuardScoped(c *Ctx, keep func(string) bool) {
	p := c.P
	guard, names := p.resolveGuardTable(c, keep)
	for _, f := range p.Funcs {
		if strings.HasSuffix(p.Fset.Position(f.Body.Pos()).Filename, "testing.go") {
			continue
		}
		info := f.Pkg.TypesInfo
		fresh := freshLocals(p, f)
		acc := p.fieldAccesses(f, func(v *types.Var) bool { return guard[v] != nil })
		for _, a := range acc {
			fn := names[a.fv]
			if fn == "" {
				continue
			}
			if keep != nil && !keep(fn) {
				continue
			}
			if rv := rootVar(info, a.sel); rv != nil && fresh[rv] {
				c.R.Hold("R-GUARD", p.Pos(a.sel), f.Name, accessStr(a, fn), "object under construction in this function (not yet shared)", false)
				continue
			}
			if a.node == nil {
				c.R.Undecided("R-GUARD", f.Name, accessStr(a, fn), "access is not inside a CFG node")
				continue
			}
			if reason, ok := p.initPhaseReason(f); ok {
				c.R.Except("R-GUARD", p.Pos(a.sel), f.Name, accessStr(a, fn), reason)
				continue
			}
			held := p.MustHeldAt(f, a.node)
			lk := guard[a.fv]
			if !a.write && p.rshadow[lk] != nil && held[p.rshadow[lk]] {
				c.R.Hold("R-GUARD", p.Pos(a.sel), f.Name, accessStr(a, fn), p.lockName(lk)+" is held in read mode on every path (a read)", true)
				continue
			}
			if held[lk] {
				c.R.Hold("R-GUARD", p.Pos(a.sel), f.Name, accessStr(a, fn), p.lockName(lk)+" is held on every path (own region or all callers)", true)
				continue
			}
			if !a.write {
				if reason, ok := guardReadExceptions[rootName(f)+"|"+fn]; ok {
					c.R.Except("R-GUARD", p.Pos(a.sel), f.Name, accessStr(a, fn), reason)
					continue
				}
			}
			kind := "read"
			if a.write {
				kind = "written"
			}
			c.R.Violate("R-GUARD", p.Pos(a.sel), f.Name, accessStr(a, fn),
				fmt.Sprintf("%s is %s without %s held (locks certainly held here: {%s}); the field is accessed from several goroutines", fn, kind, p.lockName(lk), held.names(p)), nil)
		}
	}
	if keep != nil {
		if c.R.Count("R-GUARD") < 3 {
			c.R.Undecided("R-GUARD", "", "instance-floor", "fewer than 3 guarded accesses found for this property's fields")
		}
		return
	}
	// (ii) general field-write discipline
	for _, f := range p.Funcs {
		if strings.HasSuffix(p.Fset.Position(f.Body.Pos()).Filename, "testing.go") {
			continue
		}
		info := f.Pkg.TypesInfo
		fresh := freshLocals(p, f)
		inOnce := false
		if f.Lit != nil {
			if call, ok := p.Parent(f.Lit).(*ast.CallExpr); ok {
				if pf := p.EnclosingFunc(call); pf != nil && p.CalleeName(pf, call) == "sync.Once.Do" {
					inOnce = true
				}
			}
		}
		acc := p.fieldAccesses(f, func(v *types.Var) bool { return v.IsField() })
		for _, a := range acc {
			if !a.write || guard[a.fv] != nil && names[a.fv] != "" {
				continue
			}
			fn := p.fieldDisplay(a.fv, info, a.sel)
			if rv := rootVar(info, a.sel); rv != nil && fresh[rv] {
				continue
			}
			construct := "write " + fn
			if reason, ok := p.initPhaseReason(f); ok {
				c.R.Except("R-GUARD/write", p.Pos(a.sel), f.Name, construct, reason)
				continue
			}
			if inOnce {
				c.R.Hold("R-GUARD/write", p.Pos(a.sel), f.Name, construct, "inside sync.Once.Do", true)
				continue
			}
			if a.node != nil {
				if held := p.MustHeldAt(f, a.node); len(held) > 0 {
					if _, tabled := fieldWriteExceptions[fn]; !tabled {
						c.R.Hold("R-GUARD/write", p.Pos(a.sel), f.Name, construct, "a mutex is held: {"+held.names(p)+"}", true)
						continue
					}
				}
			}
			if reason, ok := fieldWriteExceptions[fn]; ok {
				c.R.Except("R-GUARD/write", p.Pos(a.sel), f.Name, construct, reason)
				continue
			}
			// default filling in the constructor: NewClient assigns a field of the
			// configuration it was given only on the edge on which that same field
			// was found to hold its zero value (the existing defaults are all of
			// this shape, and the client is not shared yet)
			if f.Name == "NewClient" && a.node != nil && strings.HasPrefix(fn, "ClientConfig.") {
				g := p.Graph(f)
				fv := a.fv
				if g.OnlyViaEdge(a.node, func(e *Edge) bool {
					at, ok := edgeAtom(info, e)
					if !ok {
						return false
					}
					switch at.Kind {
					case "nil":
						return at.Op == token.EQL && SelField(info, at.X) == fv
					case "len":
						return SelField(info, at.X) == fv && (at.Op == token.EQL && at.K == 0 || at.Op == token.LSS && at.K == 1 || at.Op == token.LEQ && at.K == 0)
					case "cmp":
						if at.Op != token.EQL || SelField(info, at.X) != fv {
							return false
						}
						if k, isK := constInt(info, at.Y); isK && k == 0 {
							return true
						}
						if sv, isS := constString(info, at.Y); isS && sv == "" {
							return true
						}
					case "bool":
						return !at.True && SelField(info, at.X) == fv
					}
					return false
				}) {
					c.R.Hold("R-GUARD/write", p.Pos(a.sel), f.Name, construct, "default filled in by the constructor on the edge on which the field holds its zero value", true)
					continue
				}
			}
			c.R.Violate("R-GUARD/write", p.Pos(a.sel), f.Name, construct,
				"struct field written outside a constructor with no mutex held, not inside sync.Once.Do, and not in the reviewed table: a concurrent reader or writer races with it", nil)
		}
	}
	// (iii) id counters: atomic add only, NextId returns its own increment
	atomicIDs(c)
	c.R.Floor("R-GUARD", 60)
}

func accessStr(a fieldAccess, fn string) string {
	k := "read "
	if a.write {
		k = "write "
	}
	return k + fn
}

func (p *Prog) fieldDisplay(fv *types.Var, info *types.Info, sel ast.Expr) string {
	n := p.FieldName(fv)
	if strings.Contains(n, ".") {
		return n
	}
	// field of a type outside the module: qualify by the selected expression's type
	if se, ok := ast.Unparen(sel).(*ast.SelectorExpr); ok {
		if t := info.TypeOf(se.X); t != nil {
			ts := t.String()
			ts = strings.TrimPrefix(ts, "*")
			if i := strings.LastIndex(ts, "/"); i >= 0 {
				ts = ts[i+1:]
			}
			return ts + "." + fv.Name()
		}
	}
	return n
}

var _ = sort.Strings

// ---------- R-GUARD/lockset: a field written under a mutex is accessed under one common mutex ----------

// ruleLockset: the classic lockset discipline for fields the guard table does
// not name. For every struct field of a module type that some function
// *writes* with a mutex certainly held (so the author meant it to be guarded),
// the sets of mutexes certainly held at all its accesses outside constructors
// and the init phase - reads included, and those made with no mutex at all -
// have a common element. A field appended to under one mutex and drained under
// another is protected by neither.
func ruleLockset(c *Ctx) {
	p := c.P
	type acc struct {
		a    fieldAccess
		held lockSet
	}
	byField := map[*types.Var][]acc{}
	for _, f := range p.Funcs {
		if !notTesting(p, f) {
			continue
		}
		if _, init := p.initPhaseReason(f); init {
			continue
		}
		info := f.Pkg.TypesInfo
		fresh := freshLocals(p, f)
		for _, a := range p.fieldAccesses(f, func(v *types.Var) bool {
			return v.IsField() && v.Pkg() != nil && strings.HasPrefix(v.Pkg().Path(), modPath)
		}) {
			if a.node == nil {
				continue
			}
			if rv := rootVar(info, a.sel); rv != nil && fresh[rv] {
				continue // an object under construction
			}
			// the mutex fields themselves and channel operations are not data accesses
			if t := a.fv.Type().String(); strings.HasPrefix(t, "sync.") {
				continue
			}
			byField[a.fv] = append(byField[a.fv], acc{a, p.MustHeldAt(f, a.node)})
		}
	}
	n, bad := 0, false
	var fields []*types.Var
	for fv := range byField {
		fields = append(fields, fv)
	}
	sort.Slice(fields, func(i, j int) bool { return p.FieldName(fields[i]) < p.FieldName(fields[j]) })
	for _, fv := range fields {
		accs := byField[fv]
		lockedWrite := false
		nWrite := 0
		for _, x := range accs {
			if x.a.write {
				nWrite++
				if len(x.held) > 0 {
					lockedWrite = true
				}
			}
		}
		if !lockedWrite || !ownerHasMutex(fv) {
			continue
		}
		// only fields that are written after construction under a lock are judged
		// here; the tabled ones are judged by R-GUARD with their reviewed exceptions
		fn := p.FieldName(fv)
		tabled := false
		for _, gf := range guardedFields {
			if gf == fn {
				tabled = true
			}
		}
		if tabled {
			continue
		}
		n++
		common := lockSet{}
		first := true
		var odd *acc
		for i := range accs {
			x := accs[i]
			hs := lockSet{}
			for v := range x.held {
				if base := p.rshadowOf[v]; base != nil && !x.a.write {
					hs[base] = true
				} else {
					hs[v] = true
				}
			}
			if first {
				common, first = hs, false
				continue
			}
			next := lockSet{}
			for v := range common {
				if hs[v] {
					next[v] = true
				}
			}
			if len(next) == 0 && len(common) > 0 && odd == nil {
				odd = &accs[i]
			}
			common = next
		}
		construct := "accesses of " + fn + " share a mutex"
		if len(common) == 0 {
			if _, ok := locksetExceptions[fn]; ok {
				c.R.Except("R-GUARD/lockset", p.Pos(accs[0].a.sel), accs[0].a.f.Name, construct, locksetExceptions[fn])
				continue
			}
			bad = true
			where := accs[0]
			if odd != nil {
				where = *odd
			}
			c.R.Violate("R-GUARD/lockset", p.Pos(where.a.sel), where.a.f.Name, construct,
				fn+" is written with a mutex held, but no single mutex is held at all of its accesses (here: {"+where.held.names(p)+"}): two goroutines that each hold \"a\" lock can still touch the field at the same time", nil)
		} else {
			c.R.Hold("R-GUARD/lockset", p.Pos(accs[0].a.sel), "", construct, fmt.Sprintf("%d accesses, all with {%s} held", len(accs), common.names(p)), true)
		}
	}
	if n == 0 && !bad {
		c.R.Hold("R-GUARD/lockset", "-", "", "lockset discipline", "no untabled field is written under a mutex", false)
	}
}

// locksetExceptions: fields for which the common-mutex rule does not apply, with the reason.
var locksetExceptions = map[string]string{}

// ownerHasMutex: the struct that declares fv also has a sync.Mutex / RWMutex
// field (embedded or named) - an object that carries its own lock.
func ownerHasMutex(fv *types.Var) bool {
	if fv.Pkg() == nil {
		return false
	}
	scope := fv.Pkg().Scope()
	for _, name := range scope.Names() {
		tn, ok := scope.Lookup(name).(*types.TypeName)
		if !ok {
			continue
		}
		st, ok := tn.Type().Underlying().(*types.Struct)
		if !ok {
			continue
		}
		owns, hasMu := false, false
		for i := 0; i < st.NumFields(); i++ {
			f := st.Field(i)
			if f == fv {
				owns = true
			}
			if t := f.Type().String(); t == "sync.Mutex" || t == "sync.RWMutex" {
				hasMu = true
			}
		}
		if owns {
			return hasMu
		}
	}
	return false
}
