package main

import (
	"fmt"
	"go/ast"
	"go/token"
	"go/types"
	"strings"
)

func isTLSConfigType(t types.Type) bool {
	if t == nil {
		return false
	}
	s := t.String()
	return s == "crypto/tls.Config" || s == "*crypto/tls.Config"
}

func notTesting(p *Prog, f *Func) bool {
	return !strings.HasSuffix(p.Fset.Position(f.Body.Pos()).Filename, "testing.go")
}

// ---------- R-TLS/config ----------

func ruleTLSConfig(c *Ctx) {
	p := c.P
	n := 0
	for _, f := range p.Funcs {
		if !notTesting(p, f) {
			continue
		}
		info := f.Pkg.TypesInfo
		walkNoLit(f.Body, func(x ast.Node) bool {
			cl, ok := x.(*ast.CompositeLit)
			if !ok || !isTLSConfigType(info.TypeOf(cl)) {
				return true
			}
			n++
			kv := map[string]ast.Expr{}
			for _, el := range cl.Elts {
				if e, ok := el.(*ast.KeyValueExpr); ok {
					if k, ok := e.Key.(*ast.Ident); ok {
						kv[k.Name] = e.Value
					}
				}
			}
			var probs []string
			if v, ok := kv["ClientAuth"]; !ok || objFullName(objOfExpr(info, v)) != "crypto/tls.RequireAndVerifyClientCert" {
				probs = append(probs, "ClientAuth is not tls.RequireAndVerifyClientCert")
			}
			if v, ok := kv["MinVersion"]; !ok {
				probs = append(probs, "MinVersion is not set")
			} else if k, isK := constInt(info, v); !isK || k < 0x0303 {
				probs = append(probs, "MinVersion is below TLS 1.2")
			}
			for _, banned := range []string{"InsecureSkipVerify", "VerifyPeerCertificate", "VerifyConnection"} {
				if _, ok := kv[banned]; ok {
					probs = append(probs, banned+" is set")
				}
			}
			// Certificates: []tls.Certificate{cert} with cert from tls.X509KeyPair(generateCert())
			certOK := false
			if v, ok := kv["Certificates"]; ok {
				if inner, ok := ast.Unparen(v).(*ast.CompositeLit); ok && len(inner.Elts) == 1 {
					if cv, ok := identObj(info, inner.Elts[0]).(*types.Var); ok {
						certOK = p.fromGeneratedPair(f, cv)
					}
				}
			}
			if !certOK {
				probs = append(probs, "Certificates is not exactly the freshly generated key pair (tls.X509KeyPair of generateCert())")
			}
			construct := "tls.Config literal"
			if len(probs) == 0 {
				c.R.Hold("R-TLS/config", p.Pos(cl), f.Name, construct, "requires and verifies client certificates, MinVersion >= TLS 1.2, fresh key pair, no verification bypass", true)
			} else {
				c.R.Violate("R-TLS/config", p.Pos(cl), f.Name, construct, "AutoMTLS configuration is weakened: "+strings.Join(probs, "; "), nil)
			}
			return true
		})
		// stores that weaken a tls.Config anywhere
		walkNoLit(f.Body, func(x ast.Node) bool {
			as, ok := x.(*ast.AssignStmt)
			if !ok {
				return true
			}
			for _, l := range as.Lhs {
				se, ok := ast.Unparen(l).(*ast.SelectorExpr)
				if !ok || !isTLSConfigType(info.TypeOf(se.X)) {
					continue
				}
				switch se.Sel.Name {
				case "RootCAs", "ClientCAs":
					// decided by R-TLS/pools
				case "ClientAuth", "MinVersion", "MaxVersion", "InsecureSkipVerify", "VerifyPeerCertificate", "VerifyConnection", "Certificates", "GetCertificate", "GetClientCertificate", "GetConfigForClient", "CipherSuites":
					c.R.Violate("R-TLS/config", p.Pos(as), f.Name, "store to tls.Config."+se.Sel.Name, "a TLS configuration is modified after construction in a way that can weaken mutual authentication", nil)
				}
			}
			return true
		})
	}
	if n < 2 {
		c.R.Undecided("R-TLS/config", "", "instance-floor", fmt.Sprintf("only %d tls.Config literals found (client and server AutoMTLS expected)", n))
	}
}

func objOfExpr(info *types.Info, e ast.Expr) types.Object {
	switch x := ast.Unparen(e).(type) {
	case *ast.Ident:
		return info.Uses[x]
	case *ast.SelectorExpr:
		return info.Uses[x.Sel]
	}
	return nil
}

// fromGeneratedPair: cv := tls.X509KeyPair(a, b) with (a, b, _) := generateCert().
func (p *Prog) fromGeneratedPair(f *Func, cv *types.Var) bool {
	info := f.Pkg.TypesInfo
	ok := false
	ast.Inspect(f.Body, func(x ast.Node) bool {
		as, isAs := x.(*ast.AssignStmt)
		if !isAs || len(as.Rhs) != 1 || len(as.Lhs) < 1 || identObj(info, as.Lhs[0]) != cv {
			return true
		}
		call, isC := ast.Unparen(as.Rhs[0]).(*ast.CallExpr)
		if !isC || p.CalleeName(f, call) != "crypto/tls.X509KeyPair" || len(call.Args) != 2 {
			return true
		}
		a, _ := identObj(info, call.Args[0]).(*types.Var)
		b, _ := identObj(info, call.Args[1]).(*types.Var)
		// both from one generateCert() call
		ast.Inspect(f.Body, func(y ast.Node) bool {
			as2, isAs2 := y.(*ast.AssignStmt)
			if !isAs2 || len(as2.Rhs) != 1 || len(as2.Lhs) != 3 {
				return true
			}
			c2, isC2 := ast.Unparen(as2.Rhs[0]).(*ast.CallExpr)
			if isC2 && p.CalleeName(f, c2) == modPath+".generateCert" && identObj(info, as2.Lhs[0]) == a && identObj(info, as2.Lhs[1]) == b && a != nil && b != nil {
				ok = true
			}
			return true
		})
		return true
	})
	return ok
}

// ---------- R-TLS/pools ----------

func ruleTLSPools(c *Ctx) {
	p := c.P
	// every store of RootCAs / ClientCAs (assignment or literal key) in scope
	n := 0
	for _, f := range p.Funcs {
		if !notTesting(p, f) {
			continue
		}
		info := f.Pkg.TypesInfo
		check := func(pos ast.Node, field string, val ast.Expr) {
			n++
			construct := "tls.Config." + field + " pool"
			pv, _ := identObj(info, val).(*types.Var)
			if pv == nil {
				c.R.Violate("R-TLS/pools", p.Pos(pos), f.Name, construct, "the pool is not a local variable whose contents can be audited", nil)
				return
			}
			why := p.poolAudit(f, pv)
			if why == "" {
				c.R.Hold("R-TLS/pools", p.Pos(pos), f.Name, construct, "fresh x509.NewCertPool() that receives exactly the peer's handshake certificate", true)
			} else {
				c.R.Violate("R-TLS/pools", p.Pos(pos), f.Name, construct, "the trust pool is not exactly {the peer's handshake certificate}: "+why, nil)
			}
		}
		var feasible map[*Node]bool
		walkNoLit(f.Body, func(x ast.Node) bool {
			switch s := x.(type) {
			case *ast.AssignStmt:
				for i, l := range s.Lhs {
					if se, ok := ast.Unparen(l).(*ast.SelectorExpr); ok && isTLSConfigType(info.TypeOf(se.X)) && (se.Sel.Name == "RootCAs" || se.Sel.Name == "ClientCAs") && i < len(s.Rhs) {
						// a store in code the path domain proves dead (the `peers != nil`
						// branch of a shared helper inlined with a nil argument) is no store
						if feasible == nil {
							fg := p.Graph(f)
							feasible = p.FeasibleReach(f, []*Node{fg.Entry}, nil, nil)
						}
						if sn := p.Graph(f).NodeOf(s); sn != nil && !feasible[sn] {
							continue
						}
						check(s, se.Sel.Name, s.Rhs[i])
					}
				}
			case *ast.CompositeLit:
				if isTLSConfigType(info.TypeOf(s)) {
					for _, el := range s.Elts {
						if kv, ok := el.(*ast.KeyValueExpr); ok {
							if k, ok := kv.Key.(*ast.Ident); ok && (k.Name == "RootCAs" || k.Name == "ClientCAs") {
								check(kv, k.Name, kv.Value)
							}
						}
					}
				}
			}
			return true
		})
	}
	if n < 4 {
		c.R.Undecided("R-TLS/pools", "", "instance-floor", fmt.Sprintf("only %d RootCAs/ClientCAs stores found, 4 expected (both pools on both sides)", n))
	}
	// both pools must be set on both sides: the server literal has both keys, the client function stores both
	if lsc := p.Fn("Client.loadServerCert"); lsc != nil {
		info := lsc.Pkg.TypesInfo
		g := p.Graph(lsc)
		for _, fld := range []string{"RootCAs", "ClientCAs"} {
			fn := fld
			isStore := func(m *Node) bool {
				as, ok := m.Ast.(*ast.AssignStmt)
				if !ok {
					return false
				}
				for _, l := range as.Lhs {
					if se, ok := ast.Unparen(l).(*ast.SelectorExpr); ok && se.Sel.Name == fn && isTLSConfigType(info.TypeOf(se.X)) {
						return true
					}
				}
				return false
			}
			seen := g.Reach([]*Node{g.Entry}, isStore, func(e *Edge) bool { return errNonNilEdge(info, e) })
			// paths that return a nil error must have stored the pool
			miss := false
			for m := range seen {
				if rs, ok := m.Ast.(*ast.ReturnStmt); ok && len(rs.Results) == 1 && isNilIdent(info, rs.Results[0]) {
					miss = true
				}
			}
			if miss {
				c.R.Violate("R-TLS/pools", p.Pos(lsc.Node()), lsc.Name, "client pins the server certificate in "+fld, "loadServerCert can succeed without setting "+fld+": the client would trust the system roots / accept any client certificate", nil)
			} else {
				c.R.Hold("R-TLS/pools", p.Pos(lsc.Node()), lsc.Name, "client pins the server certificate in "+fld, "every successful return has stored the pool", true)
			}
		}
	} else {
		c.R.Undecided("R-TLS/pools", "Client.loadServerCert", "anchor", "function not found")
	}
}

// poolAudit returns "" when pv is a fresh pool that receives exactly one
// certificate derived from the peer's handshake data.
func (p *Prog) poolAudit(f *Func, pv *types.Var) string {
	info := f.Pkg.TypesInfo
	fresh := false
	adds := 0
	why := ""
	ast.Inspect(f.Body, func(x ast.Node) bool {
		switch s := x.(type) {
		case *ast.AssignStmt:
			for i, l := range s.Lhs {
				if identObj(info, l) == pv && i < len(s.Rhs) {
					if call, ok := ast.Unparen(s.Rhs[i]).(*ast.CallExpr); ok && p.CalleeName(f, call) == "crypto/x509.NewCertPool" {
						fresh = true
					} else {
						why = "the pool is assigned from something other than x509.NewCertPool()"
					}
				}
			}
		case *ast.CallExpr:
			se, ok := ast.Unparen(s.Fun).(*ast.SelectorExpr)
			if !ok || identObj(info, se.X) != pv {
				return true
			}
			switch se.Sel.Name {
			case "AddCert":
				adds++
				// argument: x509.ParseCertificate(decode(param))
				cv, _ := identObj(info, s.Args[0]).(*types.Var)
				if cv == nil || !p.varFromCallChain(f, cv, []string{"crypto/x509.ParseCertificate", "encoding/base64.Encoding.DecodeString"}, func(e ast.Expr) bool {
					v, ok := identObj(info, e).(*types.Var)
					return ok && isParamOf(info, f, v)
				}) {
					why = "AddCert receives something other than the parsed certificate from the handshake field"
				}
			case "AppendCertsFromPEM":
				adds++
				// argument: []byte(os.Getenv("PLUGIN_CLIENT_CERT"))
				arg := ast.Unparen(s.Args[0])
				if conv, ok := arg.(*ast.CallExpr); ok && len(conv.Args) == 1 {
					arg = ast.Unparen(conv.Args[0])
				}
				v, _ := identObj(info, arg).(*types.Var)
				okSrc := false
				if v != nil {
					ast.Inspect(f.Body, func(y ast.Node) bool {
						if as, ok := y.(*ast.AssignStmt); ok && len(as.Lhs) == 1 && identObj(info, as.Lhs[0]) == v {
							if call, ok := ast.Unparen(as.Rhs[0]).(*ast.CallExpr); ok && p.CalleeName(f, call) == "os.Getenv" {
								if k, ok := constString(info, call.Args[0]); ok && k == "PLUGIN_CLIENT_CERT" {
									okSrc = true
								}
							}
						}
						return true
					})
				}
				if !okSrc {
					why = "AppendCertsFromPEM receives something other than os.Getenv(\"PLUGIN_CLIENT_CERT\")"
				}
			case "AppendCertsFromPEMFile", "AddCertWithConstraint":
				why = "unexpected pool mutation " + se.Sel.Name
			}
		}
		return true
	})
	if why != "" {
		return why
	}
	if !fresh {
		return "the pool does not come from x509.NewCertPool() in this function (e.g. system roots)"
	}
	if adds != 1 {
		return fmt.Sprintf("%d certificates are added to the pool, expected exactly the peer's", adds)
	}
	return ""
}

// varFromCallChain: v := chain[0](w), w := chain[1](x), ..., and src(x).
func (p *Prog) varFromCallChain(f *Func, v *types.Var, chain []string, src func(ast.Expr) bool) bool {
	info := f.Pkg.TypesInfo
	cur := v
	for i, want := range chain {
		var arg ast.Expr
		found := false
		ast.Inspect(f.Body, func(x ast.Node) bool {
			as, ok := x.(*ast.AssignStmt)
			if !ok || len(as.Rhs) != 1 || len(as.Lhs) < 1 || identObj(info, as.Lhs[0]) != cur {
				return true
			}
			call, ok := ast.Unparen(as.Rhs[0]).(*ast.CallExpr)
			if ok && p.CalleeName(f, call) == want && len(call.Args) >= 1 {
				arg = call.Args[0]
				found = true
			}
			return true
		})
		if !found {
			return false
		}
		a := ast.Unparen(arg)
		if conv, ok := a.(*ast.CallExpr); ok && len(conv.Args) == 1 { // []byte(x)
			if tv, ok := info.Types[conv.Fun]; ok && tv.IsType() {
				a = ast.Unparen(conv.Args[0])
			}
		}
		if i == len(chain)-1 {
			return src(a)
		}
		nv, _ := identObj(info, a).(*types.Var)
		if nv == nil {
			return false
		}
		cur = nv
	}
	return false
}

// ---------- R-TLS/use ----------

func ruleTLSUse(c *Ctx) {
	p := c.P
	tlsFields := map[string]bool{"ClientConfig.TLSConfig": true, "GRPCBroker.tls": true, "GRPCServer.TLS": true}
	isOwnerTLS := func(info *types.Info, e ast.Expr) (string, bool) {
		if fv := SelField(info, e); fv != nil {
			n := p.FieldName(fv)
			return n, tlsFields[n]
		}
		return "", false
	}
	nDial, nBroker, nFactory := 0, 0, 0
	for _, f := range p.Funcs {
		if !notTesting(p, f) {
			continue
		}
		info := f.Pkg.TypesInfo
		g := p.Graph(f)
		for _, call := range f.Calls() {
			switch p.CalleeName(f, call) {
			case modPath + ".dialGRPCConn":
				nDial++
				// the TLS argument is the one of type *tls.Config, wherever it stands
				tlsArg := call.Args[0]
				for _, a := range call.Args {
					if t := info.TypeOf(a); t != nil && t.String() == "*crypto/tls.Config" {
						tlsArg = a
						break
					}
				}
				if n, ok := isOwnerTLS(info, tlsArg); ok {
					c.R.Hold("R-TLS/use", p.Pos(call), f.Name, "dialGRPCConn TLS argument", "receives "+n, true)
				} else {
					c.R.Violate("R-TLS/use", p.Pos(call), f.Name, "dialGRPCConn TLS argument", "a gRPC connection to the plugin is dialled with "+exprStr(tlsArg)+" instead of the owner's TLS configuration: with AutoMTLS this connection would be plaintext/unauthenticated", nil)
				}
			case modPath + ".newGRPCBroker":
				nBroker++
				if n, ok := isOwnerTLS(info, call.Args[1]); ok {
					c.R.Hold("R-TLS/use", p.Pos(call), f.Name, "newGRPCBroker TLS argument", "receives "+n, true)
				} else {
					c.R.Violate("R-TLS/use", p.Pos(call), f.Name, "newGRPCBroker TLS argument", "the broker is built with "+exprStr(call.Args[1])+" instead of the owner's TLS configuration: brokered connections would not be mutually authenticated", nil)
				}
			}
			// gRPC server factory calls: value of type func([]grpc.ServerOption) *grpc.Server
			if t := info.TypeOf(call.Fun); t != nil {
				if sig, ok := t.Underlying().(*types.Signature); ok && sig.Params().Len() == 1 && sig.Results().Len() == 1 &&
					sig.Params().At(0).Type().String() == "[]google.golang.org/grpc.ServerOption" && sig.Results().At(0).Type().String() == "*google.golang.org/grpc.Server" {
					if p.Callee(f, call) == nil || isVarCallee(p.Callee(f, call)) {
						nFactory++
						p.factoryOpts(c, f, g, call)
					}
				}
			}
		}
	}
	if nDial < 3 || nBroker < 2 || nFactory < 2 {
		c.R.Undecided("R-TLS/use", "", "instance-floor", fmt.Sprintf("dialGRPCConn calls=%d (3), newGRPCBroker calls=%d (2), server factory calls=%d (2)", nDial, nBroker, nFactory))
	}
	// inside dialGRPCConn: insecure only when tls == nil, credentials otherwise
	if d := p.Fn("dialGRPCConn"); d != nil {
		info := d.Pkg.TypesInfo
		g := p.Graph(d)
		var tlsP *types.Var
		for _, fd := range d.Type.Params.List {
			for _, nm := range fd.Names {
				if v, ok := info.Defs[nm].(*types.Var); ok && isTLSConfigType(v.Type()) {
					tlsP = v
				}
			}
		}
		// The option idioms accepted:
		//   WithTransportCredentials(NewTLS(tls))            direct
		//   V = NewTLS(tls) ... WithTransportCredentials(V)   through a local V
		// Anything else that selects transport security (WithInsecure, other
		// credentials, another value stored in V) counts as insecure.
		isNewTLS := func(e ast.Expr) bool {
			inner, ok := ast.Unparen(e).(*ast.CallExpr)
			return ok && p.CalleeName(d, inner) == "google.golang.org/grpc/credentials.NewTLS" && len(inner.Args) == 1 && identObj(info, inner.Args[0]) == tlsP && tlsP != nil
		}
		var credVar *types.Var
		var useNode *Node
		for _, m := range g.Nodes {
			for _, call := range callsIn(m.Ast) {
				if p.CalleeName(d, call) == "google.golang.org/grpc.WithTransportCredentials" && len(call.Args) == 1 {
					if v, ok := identObj(info, call.Args[0]).(*types.Var); ok && !v.IsField() && v.Parent() != nil && v.Parent() != d.Pkg.Types.Scope() {
						credVar, useNode = v, m
					}
				}
			}
		}
		var insecure, creds []*Node
		var dial *Node
		for _, m := range g.Nodes {
			for _, call := range callsIn(m.Ast) {
				switch p.CalleeName(d, call) {
				case "google.golang.org/grpc.WithInsecure":
					insecure = append(insecure, m)
				case "google.golang.org/grpc.WithTransportCredentials":
					if len(call.Args) == 1 && isNewTLS(call.Args[0]) {
						creds = append(creds, m)
					} else if len(call.Args) == 1 && credVar != nil && identObj(info, call.Args[0]) == credVar {
						// decided through the assignments to V below
					} else {
						insecure = append(insecure, m)
					}
				case "google.golang.org/grpc.Dial", "google.golang.org/grpc.DialContext", "google.golang.org/grpc.NewClient":
					dial = m
				}
			}
			if credVar != nil {
				for _, as := range assignsIn(m.Ast) {
					for k, l := range as.lhs {
						if identObj(info, l) != credVar && info.Defs[identOf(l)] != credVar {
							continue
						}
						if k < len(as.rhs) && len(as.rhs) == len(as.lhs) && isNewTLS(as.rhs[k]) {
							creds = append(creds, m)
						} else {
							insecure = append(insecure, m)
						}
					}
				}
			}
		}
		isCreds := func(x *Node) bool {
			for _, m := range creds {
				if m == x {
					return true
				}
			}
			return false
		}
		tlsNilEdge := func(e *Edge) bool {
			at, isAt := edgeAtom(info, e)
			return isAt && at.Kind == "nil" && at.Op == token.EQL && identObj(info, at.X) == tlsP
		}
		ok := tlsP != nil && len(creds) > 0 && dial != nil
		if ok {
			// assuming tls != nil: every path to Dial installs NewTLS(tls) ...
			seen := g.Reach([]*Node{g.Entry}, isCreds, tlsNilEdge)
			if _, r := seen[dial]; r {
				ok = false
			}
			// ... and nothing insecure is selected after it (or instead of it)
			feasible := g.Reach([]*Node{g.Entry}, nil, tlsNilEdge)
			for _, i := range insecure {
				if _, r := feasible[i]; !r || isCreds(i) {
					continue
				}
				after := g.ReachAfter(i, isCreds, tlsNilEdge)
				if _, r := after[dial]; r {
					ok = false
				}
			}
			// through a local: the option carrying V is on every path to Dial
			// and V is not overwritten between NewTLS and that use
			if useNode != nil && ok {
				seenU := g.Reach([]*Node{g.Entry}, func(x *Node) bool { return x == useNode }, tlsNilEdge)
				if _, r := seenU[dial]; r {
					// the direct form may still cover the path
					seenD := g.Reach([]*Node{g.Entry}, func(x *Node) bool {
						if x == useNode {
							return true
						}
						for _, call := range callsIn(x.Ast) {
							if p.CalleeName(d, call) == "google.golang.org/grpc.WithTransportCredentials" && len(call.Args) == 1 && isNewTLS(call.Args[0]) {
								return true
							}
						}
						return false
					}, tlsNilEdge)
					if _, r2 := seenD[dial]; r2 {
						ok = false
					}
				}
				for _, i := range insecure {
					if _, r := feasible[i]; !r || isCreds(i) || i == useNode {
						continue
					}
					after := g.ReachAfter(i, isCreds, tlsNilEdge)
					if _, r := after[useNode]; r {
						ok = false
					}
				}
			}
		}
		if ok {
			c.R.Hold("R-TLS/use", p.Pos(d.Node()), d.Name, "transport security option", "WithInsecure only when tls == nil; otherwise WithTransportCredentials(NewTLS(tls)) is passed before Dial", true)
		} else {
			c.R.Violate("R-TLS/use", p.Pos(d.Node()), d.Name, "transport security option", "a gRPC dial can use plaintext although a TLS configuration was supplied (silent downgrade)", nil)
		}
	} else {
		c.R.Undecided("R-TLS/use", "dialGRPCConn", "anchor", "function not found")
	}
	// net/rpc: listener / connections wrapped under a non-nil config
	for _, w := range []struct {
		fn, wrap, before, field string
	}{
		{"Serve", "crypto/tls.NewListener", modPath + ".ServerProtocol.Serve", ""},
		{"newRPCClient", "crypto/tls.Client", modPath + ".NewRPCClient", "ClientConfig.TLSConfig"},
		{"Client.dialer", "crypto/tls.Client", "", "ClientConfig.TLSConfig"},
	} {
		f := p.Fn(w.fn)
		if f == nil {
			c.R.Undecided("R-TLS/use", w.fn, "anchor", "function not found")
			continue
		}
		info := f.Pkg.TypesInfo
		g := p.Graph(f)
		var wrapN *Node
		var cfgExpr ast.Expr
		for _, m := range g.Nodes {
			for _, call := range callsIn(m.Ast) {
				if p.CalleeName(f, call) == w.wrap && len(call.Args) == 2 {
					wrapN = m
					cfgExpr = call.Args[1]
				}
			}
		}
		construct := "net/rpc transport wrapped in TLS"
		if wrapN == nil {
			c.R.Violate("R-TLS/use", p.Pos(f.Node()), f.Name, construct, "the net/rpc transport is no longer wrapped with "+shortName(w.wrap)+" when a TLS configuration exists", nil)
			continue
		}
		cfgPath := accessPath(info, cfgExpr)
		if w.field != "" {
			// a local bound once to the owner's field (the parameter of an inlined
			// dial helper) stands for the field
			ownerExpr := ast.Unparen(p.Deref(f, cfgExpr))
			if n, ok := isOwnerTLS(info, ownerExpr); !ok || n != w.field {
				c.R.Violate("R-TLS/use", p.Pos(wrapN.Ast), f.Name, construct, "the connection is wrapped with "+exprStr(cfgExpr)+" instead of "+w.field, nil)
				continue
			}
		}
		// every path on which the config is non-nil passes the wrap before the transport is used
		bad := false
		nTests := 0
		for _, m := range g.Nodes {
			for _, e := range m.Succs {
				at, isAt := edgeAtom(info, e)
				if !isAt || at.Kind != "nil" || at.Op != token.NEQ || accessPath(info, at.X) != cfgPath {
					continue
				}
				ee := e
				if !g.OnlyViaEdge(wrapN, func(x *Edge) bool { return x == ee }) {
					continue // not the test that guards the wrap
				}
				nTests++
				seen := g.Reach([]*Node{e.To}, func(x *Node) bool { return x == wrapN }, nil)
				if _, r := seen[g.Exit]; r {
					// Exit reachable without the wrap: allowed only through an error return
					for m2 := range seen {
						if rs, ok := m2.Ast.(*ast.ReturnStmt); ok && len(rs.Results) > 0 && isNilIdent(info, rs.Results[len(rs.Results)-1]) {
							bad = true
						}
					}
				}
				if w.before != "" {
					for m2 := range seen {
						for _, call := range callsIn(m2.Ast) {
							if p.CalleeName(f, call) == w.before {
								bad = true
							}
						}
					}
				}
			}
		}
		if bad || nTests == 0 {
			c.R.Violate("R-TLS/use", p.Pos(wrapN.Ast), f.Name, construct, "with a non-nil TLS configuration the net/rpc transport can be used without being wrapped in TLS (plaintext downgrade)", nil)
		} else {
			c.R.Hold("R-TLS/use", p.Pos(wrapN.Ast), f.Name, construct, "on the non-nil edge of the configuration test the wrap is passed before the transport is used", true)
		}
	}
	// Serve: the tls config built there reaches GRPCServer.TLS and the net/rpc wrap
	if sv := p.Fn("Serve"); sv != nil {
		info := sv.Pkg.TypesInfo
		// the variable(s) holding the AutoMTLS config: bound to the literal, or copies of such a variable
		cfgVars := map[types.Object]bool{}
		for round := 0; round < 3; round++ {
			ast.Inspect(sv.Body, func(x ast.Node) bool {
				as, ok := x.(*ast.AssignStmt)
				if !ok || len(as.Lhs) != len(as.Rhs) {
					return true
				}
				for i, l := range as.Lhs {
					r := ast.Unparen(as.Rhs[i])
					if u, ok := r.(*ast.UnaryExpr); ok && u.Op == token.AND {
						if cl, ok := u.X.(*ast.CompositeLit); ok && isTLSConfigType(info.TypeOf(cl)) {
							cfgVars[identObj(info, l)] = true
						}
					}
					if o := identObj(info, r); o != nil && cfgVars[o] {
						cfgVars[identObj(info, l)] = true
					}
				}
				return true
			})
		}
		ok := false
		ast.Inspect(sv.Body, func(x ast.Node) bool {
			cl, isCl := x.(*ast.CompositeLit)
			if !isCl {
				return true
			}
			if t := info.TypeOf(cl); t == nil || !strings.HasSuffix(t.String(), "go-plugin.GRPCServer") {
				return true
			}
			for _, el := range cl.Elts {
				if kv, isKv := el.(*ast.KeyValueExpr); isKv {
					if k, isK := kv.Key.(*ast.Ident); isK && k.Name == "TLS" && (cfgVars[identObj(info, kv.Value)] || cfgVars[identObj(info, p.Deref(sv, kv.Value))]) {
						ok = true
					}
				}
			}
			return true
		})
		if ok {
			c.R.Hold("R-TLS/use", p.Pos(sv.Node()), sv.Name, "AutoMTLS config reaches the gRPC server", "GRPCServer{TLS: tlsConfig} with the variable that holds the AutoMTLS / provider configuration", true)
		} else {
			c.R.Violate("R-TLS/use", p.Pos(sv.Node()), sv.Name, "AutoMTLS config reaches the gRPC server", "the TLS configuration built in Serve is not the one given to the gRPC server", nil)
		}
	}
}

func isVarCallee(o types.Object) bool {
	_, ok := o.(*types.Var)
	return ok
}

// factoryOpts: the options passed to a gRPC server factory contain
// grpc.Creds(credentials.NewTLS(F)) whenever the owner's TLS field F is non-nil.
func (p *Prog) factoryOpts(c *Ctx, f *Func, g *Graph, call *ast.CallExpr) {
	info := f.Pkg.TypesInfo
	construct := "gRPC server factory options"
	ov, _ := identObj(info, call.Args[0]).(*types.Var)
	// a temporary that is assigned once, from the options variable (the shape an
	// inlined `s.serverOptions()` leaves behind)
	for i := 0; i < 3 && ov != nil; i++ {
		d := p.singleDef(f, ov)
		if d == nil {
			break
		}
		src, isV := identObj(info, ast.Unparen(d)).(*types.Var)
		if !isV || src.IsField() {
			break
		}
		ov = src
	}
	callN := g.NodeOf(call)
	if ov == nil || callN == nil {
		c.R.Violate("R-TLS/use", p.Pos(call), f.Name, construct, "the options passed to the server factory are not a local variable", nil)
		return
	}
	var credN *Node
	var tlsPath string
	for _, m := range g.Nodes {
		as, ok := m.Ast.(*ast.AssignStmt)
		if !ok || len(as.Lhs) != 1 || identObj(info, as.Lhs[0]) != ov {
			continue
		}
		ast.Inspect(as.Rhs[0], func(x ast.Node) bool {
			cc, ok := x.(*ast.CallExpr)
			if !ok || p.CalleeName(f, cc) != "google.golang.org/grpc.Creds" {
				return true
			}
			if inner, ok := ast.Unparen(cc.Args[0]).(*ast.CallExpr); ok && p.CalleeName(f, inner) == "google.golang.org/grpc/credentials.NewTLS" {
				if fv := SelField(info, inner.Args[0]); fv != nil {
					n := p.FieldName(fv)
					if n == "GRPCBroker.tls" || n == "GRPCServer.TLS" {
						credN = m
						tlsPath = accessPath(info, inner.Args[0])
					}
				}
			}
			return true
		})
	}
	if credN == nil {
		c.R.Violate("R-TLS/use", p.Pos(call), f.Name, construct, "the server is created without grpc.Creds(credentials.NewTLS(<owner's TLS config>)): with AutoMTLS it would accept plaintext, unauthenticated peers", nil)
		return
	}
	bad := false
	nTests := 0
	for _, m := range g.Nodes {
		for _, e := range m.Succs {
			at, isAt := edgeAtom(info, e)
			if !isAt || at.Kind != "nil" || at.Op != token.NEQ || accessPath(info, at.X) != tlsPath {
				continue
			}
			nTests++
			seen := g.Reach([]*Node{e.To}, func(x *Node) bool { return x == credN }, nil)
			if _, r := seen[callN]; r {
				bad = true
			}
		}
	}
	// and no later assignment drops the option
	for m := range g.ReachAfter(credN, nil, nil) {
		if as, ok := m.Ast.(*ast.AssignStmt); ok && len(as.Lhs) == 1 && identObj(info, as.Lhs[0]) == ov && m != credN && reachable(g, m, callN) {
			if cc, ok := ast.Unparen(as.Rhs[0]).(*ast.CallExpr); !ok || p.CalleeName(f, cc) != "builtin.append" || identObj(info, cc.Args[0]) != ov {
				bad = true
			}
		}
	}
	// the test must be unavoidable
	seen := g.Reach([]*Node{g.Entry}, func(x *Node) bool {
		for _, e := range x.Succs {
			if at, ok := edgeAtom(info, e); ok && at.Kind == "nil" && accessPath(info, at.X) == tlsPath {
				return true
			}
		}
		return false
	}, nil)
	if _, r := seen[callN]; r {
		bad = true
	}
	if bad || nTests == 0 {
		c.R.Violate("R-TLS/use", p.Pos(call), f.Name, construct, "with a non-nil TLS configuration the server factory can be called without the TLS credentials option", nil)
	} else {
		c.R.Hold("R-TLS/use", p.Pos(call), f.Name, construct, "under a non-nil owner TLS config the options contain grpc.Creds(credentials.NewTLS(config)) on every path to the factory call", true)
	}
}

// ---------- C12: the client certificate that travels is the generated one ----------

func ruleEnvCertOnly(c *Ctx) {
	p := c.P
	f := p.Fn("Client.Start")
	if f == nil {
		c.R.Undecided("R-TABLE/cert", "Client.Start", "anchor", "function not found")
		return
	}
	info := f.Pkg.TypesInfo
	var certArg *types.Var
	var site ast.Node
	for _, call := range f.Calls() {
		if p.envKeyOf(f, call) == "PLUGIN_CLIENT_CERT" && len(call.Args) >= 2 {
			// the value is the last argument ("KEY=%s", v  or  "%s=%s", key, v)
			certArg, _ = identObj(info, call.Args[len(call.Args)-1]).(*types.Var)
			site = call
		}
	}
	if certArg == nil {
		// "PLUGIN_CLIENT_CERT=" + string(v): the last operand of the concatenation
		ast.Inspect(f.Body, func(x ast.Node) bool {
			be, isB := x.(*ast.BinaryExpr)
			if !isB || be.Op != token.ADD || certArg != nil {
				return true
			}
			if _, nested := p.Parent(be).(*ast.BinaryExpr); nested {
				return true
			}
			if p.envKeyOf(f, be) != "PLUGIN_CLIENT_CERT" {
				return true
			}
			ops := concatOperands(be)
			last := ast.Unparen(ops[len(ops)-1])
			if conv, isC := last.(*ast.CallExpr); isC && len(conv.Args) == 1 {
				if tv, ok := info.Types[conv.Fun]; ok && tv.IsType() {
					last = ast.Unparen(conv.Args[0])
				}
			}
			certArg, _ = identObj(info, last).(*types.Var)
			site = be
			return true
		})
	}
	ok := false
	if certArg != nil {
		ast.Inspect(f.Body, func(x ast.Node) bool {
			as, isAs := x.(*ast.AssignStmt)
			if !isAs || len(as.Lhs) != 3 || len(as.Rhs) != 1 {
				return true
			}
			if call, isC := as.Rhs[0].(*ast.CallExpr); isC && p.CalleeName(f, call) == modPath+".generateCert" && identObj(info, as.Lhs[0]) == certArg {
				// the same PEM is the certificate half of the TLS key pair
				ast.Inspect(f.Body, func(y ast.Node) bool {
					if c2, isC2 := y.(*ast.CallExpr); isC2 && p.CalleeName(f, c2) == "crypto/tls.X509KeyPair" && identObj(info, c2.Args[0]) == certArg {
						ok = true
					}
					return true
				})
			}
			return true
		})
	}
	if ok {
		c.R.Hold("R-TABLE/cert", p.Pos(site), f.Name, "PLUGIN_CLIENT_CERT carries the generated certificate", "the PEM sent to the plugin is the certificate half of the key pair in the client's TLS config", true)
	} else {
		pos := p.Pos(f.Node())
		if site != nil {
			pos = p.Pos(site)
		}
		c.R.Violate("R-TABLE/cert", pos, f.Name, "PLUGIN_CLIENT_CERT carries the generated certificate", "the certificate sent to the plugin is not the one the client presents", nil)
	}
	// server announces its own generated leaf: checked by R-TABLE/handshake (C16); here the client side consumer
	if lsc := p.Fn("Client.loadServerCert"); lsc != nil {
		// called with parts[5]
		si := p.startInfo(c, "R-TABLE/cert")
		if si != nil {
			found := false
			for _, call := range si.f.Calls() {
				if p.FnOf(asFunc(p.Callee(si.f, call))) == lsc && len(call.Args) == 1 && si.isPartsIdx(call.Args[0], 5) {
					found = true
				}
			}
			if found {
				c.R.Hold("R-TABLE/cert", p.Pos(lsc.Node()), lsc.Name, "handshake field 6 is the pinned certificate", "loadServerCert(parts[5])", true)
			} else {
				c.R.Violate("R-TABLE/cert", p.Pos(lsc.Node()), lsc.Name, "handshake field 6 is the pinned certificate", "the certificate pinned by the client is not handshake field 6", nil)
			}
		}
	}
}

type assignPair struct{ lhs, rhs []ast.Expr }

// assignsIn lists the assignments and var declarations directly in a node's
// statement (not inside nested function literals).
func assignsIn(n ast.Node) []assignPair {
	var out []assignPair
	if n == nil {
		return nil
	}
	walkNoLit(n, func(x ast.Node) bool {
		switch s := x.(type) {
		case *ast.AssignStmt:
			out = append(out, assignPair{s.Lhs, s.Rhs})
		case *ast.ValueSpec:
			var l []ast.Expr
			for _, nm := range s.Names {
				l = append(l, nm)
			}
			out = append(out, assignPair{l, s.Values})
		}
		return true
	})
	return out
}

func identOf(e ast.Expr) *ast.Ident {
	id, _ := ast.Unparen(e).(*ast.Ident)
	return id
}

// ---------- R-TLS/certgen ----------

// ruleCertGen — the AutoMTLS credential generator: every key and certificate
// is produced from crypto/rand.Reader, the certificate is self-signed with
// the generated key over that key's public half, and the private key that is
// returned is that same key. (If the key were predictable, or the returned key
// did not belong to the certificate, "only the peer holding the announced
// certificate" would not identify anybody.)
func ruleCertGen(c *Ctx) {
	p := c.P
	n := 0
	for _, f := range p.Funcs {
		if f.Decl == nil || !notTesting(p, f) {
			continue
		}
		info := f.Pkg.TypesInfo
		var create *ast.CallExpr
		for _, call := range f.Calls() {
			if p.CalleeName(f, call) == "crypto/x509.CreateCertificate" {
				create = call
			}
		}
		if create == nil || len(create.Args) != 5 {
			continue
		}
		n++
		isCryptoRand := func(e ast.Expr) bool {
			return objFullName(objOfExpr(info, p.Deref(f, e))) == "crypto/rand.Reader"
		}
		var probs []string
		if !isCryptoRand(create.Args[0]) {
			probs = append(probs, "x509.CreateCertificate does not draw from crypto/rand.Reader")
		}
		// key generation calls
		var keyVar *types.Var
		for _, call := range f.Calls() {
			nm := p.CalleeName(f, call)
			if !strings.HasSuffix(nm, ".GenerateKey") || !strings.HasPrefix(nm, "crypto/") {
				continue
			}
			okRand := false
			for _, a := range call.Args {
				if isCryptoRand(a) {
					okRand = true
				}
			}
			if !okRand {
				probs = append(probs, nm+" does not draw from crypto/rand.Reader")
			}
			if v := assignedVar(p, info, call); v != nil {
				keyVar = v
			}
		}
		if keyVar == nil {
			probs = append(probs, "no generated key found")
		} else {
			// signed with the generated key, over its public half, self-signed
			if identObj(info, create.Args[4]) != keyVar {
				probs = append(probs, "the certificate is not signed with the generated key")
			}
			pubOK := false
			if pc, ok := ast.Unparen(p.Deref(f, create.Args[3])).(*ast.CallExpr); ok {
				if se, ok := pc.Fun.(*ast.SelectorExpr); ok && se.Sel.Name == "Public" && identObj(info, se.X) == keyVar {
					pubOK = true
				}
			}
			if u, ok := ast.Unparen(p.Deref(f, create.Args[3])).(*ast.UnaryExpr); ok && u.Op == token.AND {
				if se, ok := u.X.(*ast.SelectorExpr); ok && se.Sel.Name == "PublicKey" && identObj(info, se.X) == keyVar {
					pubOK = true
				}
			}
			if !pubOK {
				probs = append(probs, "the certified public key is not the generated key's public half")
			}
			if identObj(info, create.Args[1]) == nil || identObj(info, create.Args[1]) != identObj(info, create.Args[2]) {
				probs = append(probs, "the certificate is not self-signed (template and parent differ)")
			}
			// the private key returned is the generated key
			marshalled := false
			for _, call := range f.Calls() {
				nm := p.CalleeName(f, call)
				if strings.HasPrefix(nm, "crypto/x509.Marshal") && strings.Contains(nm, "PrivateKey") && len(call.Args) == 1 {
					if identObj(info, call.Args[0]) == keyVar {
						marshalled = true
					} else {
						probs = append(probs, "a private key other than the generated one is marshalled")
					}
				}
			}
			if !marshalled {
				probs = append(probs, "the generated private key is not what is returned")
			}
		}
		if len(probs) == 0 {
			c.R.Hold("R-TLS/certgen", p.Pos(f.Node()), f.Name, "AutoMTLS credentials", "key and certificate from crypto/rand.Reader; self-signed with the generated key; that key is returned", true)
		} else {
			c.R.Violate("R-TLS/certgen", p.Pos(f.Node()), f.Name, "AutoMTLS credentials", strings.Join(probs, "; ")+": the certificate announced in the handshake no longer identifies a peer that holds an unpredictable key", nil)
		}
	}
	if n == 0 {
		c.R.Undecided("R-TLS/certgen", "generateCert", "anchor", "no function calling x509.CreateCertificate found")
	}
}

// ---------- R-TLS/automtls: AutoMTLS is never skipped or undone ----------

// ruleAutoMTLSGate —
// (server) in Serve, whenever the client certificate variable
// (os.Getenv("PLUGIN_CLIENT_CERT")) is non-empty and no TLS provider gave a
// configuration, every path to the point where the server starts serving
// assigns the mutual-TLS configuration literal: no further condition (e.g.
// "the certificate parsed") may let the plugin fall back to plaintext.
// (client) the only stores to ClientConfig.TLSConfig in the module assign a
// tls.Config literal (the AutoMTLS configuration); it is never reset to nil or
// replaced by something else after it was set.
func ruleAutoMTLSGate(c *Ctx) {
	p := c.P
	// --- server ---
	if f := p.Fn("Serve"); f != nil {
		info := f.Pkg.TypesInfo
		g := p.Graph(f)
		var certVar, cfgVar *types.Var
		var getN, assignN, serveN *Node
		for _, m := range g.Nodes {
			as, ok := m.Ast.(*ast.AssignStmt)
			if ok && len(as.Lhs) == 1 && len(as.Rhs) == 1 {
				if call, isC := ast.Unparen(as.Rhs[0]).(*ast.CallExpr); isC && p.CalleeName(f, call) == "os.Getenv" && len(call.Args) == 1 {
					if k, isK := constString(info, call.Args[0]); isK && k == "PLUGIN_CLIENT_CERT" {
						certVar, _ = identObj(info, as.Lhs[0]).(*types.Var)
						getN = m
					}
				}
				if u, isU := ast.Unparen(as.Rhs[0]).(*ast.UnaryExpr); isU && u.Op == token.AND {
					if cl, isCL := u.X.(*ast.CompositeLit); isCL && isTLSConfigType(info.TypeOf(cl)) {
						cfgVar, _ = identObj(info, as.Lhs[0]).(*types.Var)
						assignN = m
					}
				}
			}
			if _, isGo := m.Ast.(*ast.GoStmt); isGo {
				for _, call := range callsIn(m.Ast) {
					if p.CalleeName(f, call) == modPath+".ServerProtocol.Serve" {
						serveN = m
					}
				}
			}
		}
		if certVar == nil || cfgVar == nil || getN == nil || assignN == nil || serveN == nil {
			c.R.Undecided("R-TLS/automtls", f.Name, "anchors", fmt.Sprintf("client-cert variable=%v tls config literal=%v serve site=%v", certVar != nil, assignN != nil, serveN != nil))
		} else {
			cut := func(e *Edge) bool {
				at, ok := p.EdgeAtom(f, e)
				if !ok {
					return false
				}
				if at.Kind == "cmp" && at.Op == token.EQL && identObj(info, at.X) == certVar {
					if s, isS := constString(info, at.Y); isS && s == "" {
						return true
					}
				}
				// a configuration from the TLS provider: any local *tls.Config known non-nil
				if at.Kind == "nil" && at.Op == token.NEQ {
					if v, isV := identObj(info, at.X).(*types.Var); isV && !v.IsField() && isTLSConfigType(derefType(v.Type())) {
						return true
					}
				}
				return false
			}
			// the gate tests the variable as read from the environment: no other assignment to it
			var reDef ast.Node
			ast.Inspect(f.Body, func(x ast.Node) bool {
				if as, ok := x.(*ast.AssignStmt); ok && as != getN.Ast {
					for _, l := range as.Lhs {
						if id, ok := ast.Unparen(l).(*ast.Ident); ok && (info.Uses[id] == certVar || info.Defs[id] == certVar) {
							reDef = as
						}
					}
				}
				return true
			})
			if reDef != nil {
				c.R.Violate("R-TLS/automtls", p.Pos(reDef), f.Name, "client certificate variable holds the environment value",
					"the variable read from PLUGIN_CLIENT_CERT is assigned again before the AutoMTLS gate tests it: for values on which this assignment empties it the plugin skips mutual TLS and serves plaintext although the host asked for AutoMTLS", nil)
			} else {
				c.R.Hold("R-TLS/automtls", p.Pos(getN.Ast), f.Name, "client certificate variable holds the environment value", "single assignment, from os.Getenv(PLUGIN_CLIENT_CERT)", true)
			}
			seen := g.ReachAfter(getN, func(m *Node) bool { return m == assignN }, cut)
			// only feasible paths count (an inlined helper records its failure in err
			// and the caller panics on it further down)
			var afterGet []*Node
			for _, e := range getN.Succs {
				if !cut(e) {
					afterGet = append(afterGet, e.To)
				}
			}
			feas := p.FeasibleReach(f, afterGet, func(m *Node) bool { return m == assignN }, cut)
			if _, bad := seen[serveN]; bad && feas[serveN] {
				c.R.Violate("R-TLS/automtls", p.Pos(assignN.Ast), f.Name, "server AutoMTLS is not conditional on anything but the certificate being present",
					"with PLUGIN_CLIENT_CERT set and no TLS provider there is a path on which the plugin starts serving without the mutual-TLS configuration: it then serves plaintext to anybody", p.PathTo(seen, serveN))
			} else {
				c.R.Hold("R-TLS/automtls", p.Pos(assignN.Ast), f.Name, "server AutoMTLS is not conditional on anything but the certificate being present", "with a non-empty client certificate and no provider configuration every path to `go server.Serve` assigns the mutual-TLS tls.Config literal", true)
			}
		}
	} else {
		c.R.Undecided("R-TLS/automtls", "Serve", "anchor", "function not found")
	}
	// --- client ---
	tlsF := p.FieldObj(modPath, "ClientConfig", "TLSConfig")
	if tlsF == nil {
		c.R.Undecided("R-TLS/automtls", "ClientConfig.TLSConfig", "anchor", "field not found")
		return
	}
	nStores := 0
	for _, f := range p.Funcs {
		if !notTesting(p, f) {
			continue
		}
		info := f.Pkg.TypesInfo
		walkNoLit(f.Body, func(x ast.Node) bool {
			as, ok := x.(*ast.AssignStmt)
			if !ok {
				return true
			}
			for i, l := range as.Lhs {
				if SelField(info, l) != tlsF {
					continue
				}
				nStores++
				okStore := false
				if len(as.Rhs) == len(as.Lhs) {
					r := ast.Unparen(p.Deref(f, as.Rhs[i]))
					if u, isU := r.(*ast.UnaryExpr); isU && u.Op == token.AND {
						if cl, isCL := u.X.(*ast.CompositeLit); isCL && isTLSConfigType(info.TypeOf(cl)) {
							okStore = true
						}
					}
				}
				if okStore {
					c.R.Hold("R-TLS/automtls", p.Pos(as), f.Name, "store to ClientConfig.TLSConfig", "assigns a tls.Config literal (audited by R-TLS/config)", true)
				} else {
					c.R.Violate("R-TLS/automtls", p.Pos(as), f.Name, "store to ClientConfig.TLSConfig", "the client's TLS configuration is overwritten with something other than the audited tls.Config literal (e.g. nil): an AutoMTLS client would then talk plaintext or unauthenticated TLS", nil)
				}
			}
			return true
		})
	}
	if nStores == 0 {
		c.R.Undecided("R-TLS/automtls", "Client.Start", "instance-floor", "no store to ClientConfig.TLSConfig found (the AutoMTLS configuration is expected)")
	}
}

func derefType(t types.Type) types.Type {
	if pt, ok := t.Underlying().(*types.Pointer); ok {
		return pt.Elem()
	}
	return t
}
