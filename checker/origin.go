package main

import (
	"go/ast"
	"go/token"
	"go/types"
)

// originWalk is a small path-sensitive value-origin analysis. Along every
// feasible path from the entry of f it tracks, for locals and for one
// designated field (dst), which *origin* the current value has: leaf(e)
// classifies an expression as an origin label ("" = unknown); copies between
// locals and into dst propagate the label. When a comparison `X == ""` /
// `X != ""` (or against an equal named constant) is taken on a value of origin
// `tested`, the fact "E" (empty: "true"/"false") is recorded. The states in
// which the normal exit of f is reached are returned as (origin of dst, E).
func (p *Prog) originWalk(f *Func, dst *types.Var, leaf func(ast.Expr) string, tested string) (out [][2]string, capped bool) {
	g := p.Graph(f)
	info := f.Pkg.TypesInfo
	origin := func(s Store, e ast.Expr) string {
		e = ast.Unparen(e)
		for i := 0; i < 3; i++ {
			if call, ok := e.(*ast.CallExpr); ok && len(call.Args) == 1 {
				if tv, ok := info.Types[call.Fun]; ok && tv.IsType() {
					e = ast.Unparen(call.Args[0])
					continue
				}
			}
			break
		}
		if l := leaf(e); l != "" {
			return l
		}
		if SelField(info, e) == dst {
			return s.Get("O:DST")
		}
		if v, ok := identObj(info, e).(*types.Var); ok && !v.IsField() {
			return s.Get("O:" + varKey(v))
		}
		return ""
	}
	pd := &pathDomain{p: p, f: f}
	type item struct {
		n *Node
		s Store
	}
	seen := map[*Node]map[string]bool{}
	var work []item
	push := func(n *Node, s Store) {
		k := s.Key()
		if seen[n] == nil {
			seen[n] = map[string]bool{}
		}
		if seen[n][k] {
			return
		}
		if len(seen[n]) >= stateCap {
			capped = true
			return
		}
		seen[n][k] = true
		work = append(work, item{n, s})
	}
	push(g.Entry, NewStore())
	outSeen := map[[2]string]bool{}
	for len(work) > 0 {
		cur := work[len(work)-1]
		work = work[:len(work)-1]
		if cur.n == g.Exit {
			k := [2]string{cur.s.Get("O:DST"), cur.s.Get("E")}
			if !outSeen[k] {
				outSeen[k] = true
				out = append(out, k)
			}
			continue
		}
		outs := []Store{cur.s}
		if cur.n.Kind == NNormal {
			outs = pd.Transfer(cur.n, cur.s)
		}
		for _, o := range outs {
			set := func(l ast.Expr, og string) {
				key := ""
				if SelField(info, l) == dst {
					key = "O:DST"
				} else if v, ok := identObj(info, l).(*types.Var); ok && !v.IsField() {
					key = "O:" + varKey(v)
				}
				if key == "" {
					return
				}
				if og == "" && key == "O:DST" {
					o = o.With(key, "?") // stored, from an origin the caller does not know
				} else if og == "" {
					o = o.Without(key)
				} else {
					o = o.With(key, og)
				}
			}
			if as, ok := cur.n.Ast.(*ast.AssignStmt); ok {
				if len(as.Lhs) == len(as.Rhs) {
					ogs := make([]string, len(as.Rhs))
					for i := range as.Rhs {
						ogs[i] = origin(cur.s, as.Rhs[i])
					}
					for i, l := range as.Lhs {
						set(l, ogs[i])
					}
				} else {
					for _, l := range as.Lhs {
						set(l, "")
					}
				}
			}
			if vs, ok := cur.n.Ast.(*ast.ValueSpec); ok {
				for i, nm := range vs.Names {
					og := ""
					if len(vs.Values) == len(vs.Names) {
						og = origin(cur.s, vs.Values[i])
					}
					set(nm, og)
				}
			}
			for _, e := range cur.n.Succs {
				s2, ok := pd.Refine(e, o)
				if !ok {
					continue
				}
				if at, isAt := edgeAtom(info, e); isAt && at.Kind == "cmp" && (at.Op == token.EQL || at.Op == token.NEQ) {
					x, y := at.X, at.Y
					if _, isS := constString(info, x); isS {
						x, y = y, x
					}
					if sv, isS := constString(info, y); isS && sv == "" && origin(o, x) == tested {
						if at.Op == token.EQL {
							s2 = s2.With("E", "true")
						} else {
							s2 = s2.With("E", "false")
						}
					}
				}
				push(e.To, s2)
			}
		}
	}
	return out, capped
}
