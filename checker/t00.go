package main

func init() {
	register(&propDef{ID: "T00", Rules: []func(*Ctx){ruleSibClose, ruleSibDispense, ruleSibSwitch, ruleExpiry, ruleAtomicIDs}, Explanation: "test", NotDecided: "n/a"})
}
