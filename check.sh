#!/bin/sh
# usage: check.sh <property> <quick|thorough>
# Builds the checker if needed and decides one property on /repo's working tree.
set -u
cd "$(dirname "$0")"
export GOFLAGS=-mod=mod GOPROXY=off
unset GOWORK
if [ ! -x bin/gpcheck ] || [ -n "$(find checker -newer bin/gpcheck -name '*.go' 2>/dev/null | head -1)" ]; then
  (cd checker && go build -o ../bin/gpcheck .) || { echo "VIOLATION property=$1 replay=/verif/replay/build-failed"; exit 1; }
fi
exec bin/gpcheck -prop "$1" -tier "${2:-quick}" -repo "${VERIF_REPO:-/repo}" -verif "$(pwd)"
