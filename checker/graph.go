package main

import (
	"go/ast"
	"go/constant"
	"go/token"
	"go/types"

	"golang.org/x/tools/go/cfg"
)

// Engine E2: node-level control-flow graph built from go/cfg.

type NodeKind int

const (
	NNormal NodeKind = iota
	NEntry
	NExit  // normal return (return statement or falling off the end)
	NAbort // no-return call (panic, os.Exit, log.Fatal)
	NEmpty // synthetic node for an empty block
)

type Node struct {
	ID    int
	Kind  NodeKind
	Ast   ast.Node
	Block *cfg.Block
	Succs []*Edge
	Preds []*Edge
}

type Edge struct {
	From, To *Node
	// For two-way branches: Cond is the controlling expression and Branch is
	// +1 on the true edge, -1 on the false edge. For a tagged switch, Tag is
	// the switch tag and Cond the case expression (true edge = tag == Cond).
	Cond   ast.Expr
	Tag    ast.Expr
	Branch int
	// SelectComm is set on the edge into a select clause (nil Comm = default).
	Select *ast.SelectStmt
	Comm   *ast.CommClause
}

type Graph struct {
	Fn    *Func
	Entry *Node
	Exit  *Node
	Abort *Node
	Nodes []*Node
	// owner maps every AST node inside a CFG node (not descending into
	// function literals) to that CFG node.
	owner map[ast.Node]*Node
	cfg   *cfg.CFG
}

func (p *Prog) mayReturn(f *Func) func(*ast.CallExpr) bool {
	return func(call *ast.CallExpr) bool {
		name := p.CalleeName(f, call)
		switch name {
		case "builtin.panic", "os.Exit", "log.Fatal", "log.Fatalf", "log.Fatalln", "runtime.Goexit",
			"log.Panic", "log.Panicf", "log.Panicln":
			return false
		}
		return true
	}
}

// Graph builds (and caches) the node-level CFG of f.
func (p *Prog) Graph(f *Func) *Graph {
	if g := p.graphs[f]; g != nil {
		return g
	}
	c := cfg.New(f.Body, p.mayReturn(f))
	g := &Graph{Fn: f, owner: map[ast.Node]*Node{}, cfg: c}
	newNode := func(k NodeKind, a ast.Node, b *cfg.Block) *Node {
		n := &Node{ID: len(g.Nodes), Kind: k, Ast: a, Block: b}
		g.Nodes = append(g.Nodes, n)
		return n
	}
	g.Entry = newNode(NEntry, nil, nil)
	g.Exit = newNode(NExit, nil, nil)
	g.Abort = newNode(NAbort, nil, nil)
	first := map[*cfg.Block]*Node{}
	last := map[*cfg.Block]*Node{}
	link := func(a, b *Node) *Edge {
		e := &Edge{From: a, To: b}
		a.Succs = append(a.Succs, e)
		b.Preds = append(b.Preds, e)
		return e
	}
	caseTag := map[ast.Expr]ast.Expr{} // case expr -> tag of its switch
	selOf := map[*ast.CommClause]*ast.SelectStmt{}
	commOf := map[ast.Node]*ast.CommClause{} // comm statement -> its clause
	ast.Inspect(f.Body, func(n ast.Node) bool {
		switch s := n.(type) {
		case *ast.FuncLit:
			return false
		case *ast.SwitchStmt:
			if s.Tag != nil {
				for _, cl := range s.Body.List {
					for _, e := range cl.(*ast.CaseClause).List {
						caseTag[e] = s.Tag
					}
				}
			}
		case *ast.SelectStmt:
			for _, cl := range s.Body.List {
				selOf[cl.(*ast.CommClause)] = s
				if cm := cl.(*ast.CommClause).Comm; cm != nil {
					commOf[cm] = cl.(*ast.CommClause)
				}
			}
		}
		return true
	})
	own := func(a ast.Node, n *Node) {
		ast.Inspect(a, func(x ast.Node) bool {
			if x == nil {
				return true
			}
			if _, ok := x.(*ast.FuncLit); ok {
				g.owner[x] = n
				return false
			}
			if _, dup := g.owner[x]; !dup {
				g.owner[x] = n
			}
			return true
		})
	}
	isComposite := func(e ast.Expr) bool {
		switch x := ast.Unparen(e).(type) {
		case *ast.BinaryExpr:
			return x.Op == token.LAND || x.Op == token.LOR
		case *ast.UnaryExpr:
			return x.Op == token.NOT
		}
		return false
	}
	pending := map[*cfg.Block]ast.Expr{}
	for _, b := range c.Blocks {
		if !b.Live {
			continue
		}
		var prev *Node
		// go/cfg evaluates every comm statement of a select before branching;
		// for path rules the communication belongs to its own clause, so comm
		// statements are moved to the head of their clause's block.
		nodes := b.Nodes
		if b.Kind == cfg.KindSelectCaseBody {
			if cc, ok := b.Stmt.(*ast.CommClause); ok && cc.Comm != nil {
				nodes = append([]ast.Node{cc.Comm}, nodes...)
			}
		}
		for idx, a := range nodes {
			if _, isComm := commOf[a]; isComm && !(b.Kind == cfg.KindSelectCaseBody && idx == 0) {
				continue
			}
			// go/cfg keeps `a && b`, `a || b`, `!a` conditions as one node; they are
			// expanded into one node per operand with short-circuit edges below.
			if idx == len(nodes)-1 && len(b.Succs) == 2 && b.Succs[0].Kind != cfg.KindRangeBody {
				if ce, ok := a.(ast.Expr); ok && isComposite(ce) {
					if _, isCase := caseTag[ce]; !isCase {
						pending[b] = ce
						continue
					}
				}
			}
			n := newNode(NNormal, a, b)
			own(a, n)
			if prev != nil {
				link(prev, n)
			} else {
				first[b] = n
			}
			prev = n
		}
		if prev == nil {
			n := newNode(NEmpty, nil, b)
			first[b] = n
			prev = n
		}
		last[b] = prev
	}
	var expand func(e ast.Expr, b *cfg.Block, t, f *Node) *Node
	expand = func(e ast.Expr, b *cfg.Block, t, f *Node) *Node {
		switch x := ast.Unparen(e).(type) {
		case *ast.BinaryExpr:
			if x.Op == token.LAND {
				y := expand(x.Y, b, t, f)
				return expand(x.X, b, y, f)
			}
			if x.Op == token.LOR {
				y := expand(x.Y, b, t, f)
				return expand(x.X, b, t, y)
			}
		case *ast.UnaryExpr:
			if x.Op == token.NOT {
				return expand(x.X, b, f, t)
			}
		}
		n := newNode(NNormal, e, b)
		own(e, n)
		et := link(n, t)
		et.Cond, et.Branch = e, +1
		ef := link(n, f)
		ef.Cond, ef.Branch = e, -1
		return n
	}
	for _, b := range c.Blocks {
		if !b.Live {
			continue
		}
		ln := last[b]
		if pe, ok := pending[b]; ok {
			entry := expand(pe, b, first[b.Succs[0]], first[b.Succs[1]])
			g.owner[pe] = entry
			link(ln, entry)
			continue
		}
		if len(b.Succs) == 0 {
			if b.Kind == cfg.KindSelectAfterCase {
				// "no clause ready" of a select without default: the goroutine
				// blocks; there is no such control-flow edge.
				continue
			}
			if ln.Ast != nil {
				if es, ok := ln.Ast.(*ast.ExprStmt); ok {
					if call, ok := es.X.(*ast.CallExpr); ok && !p.mayReturn(f)(call) {
						link(ln, g.Abort)
						continue
					}
				}
			}
			link(ln, g.Exit)
			continue
		}
		for i, s := range b.Succs {
			e := link(ln, first[s])
			if len(b.Succs) == 2 && ln.Ast != nil {
				if ce, ok := ln.Ast.(ast.Expr); ok && b.Succs[0].Kind != cfg.KindRangeBody {
					if t, ok := caseTag[ce]; ok {
						e.Tag = t
					}
					e.Cond = ce
					if i == 0 {
						e.Branch = +1
					} else {
						e.Branch = -1
					}
				}
			}
			if s.Kind == cfg.KindSelectCaseBody {
				if cc, ok := s.Stmt.(*ast.CommClause); ok {
					e.Comm = cc
					e.Select = selOf[cc]
				}
			}
		}
	}
	if len(c.Blocks) > 0 {
		link(g.Entry, first[c.Blocks[0]])
	} else {
		link(g.Entry, g.Exit)
	}
	p.graphs[f] = g
	return g
}

// NodeOf returns the CFG node that contains AST node a (in this function, not
// inside a nested literal), or nil.
func (g *Graph) NodeOf(a ast.Node) *Node { return g.owner[a] }

// Reach computes the set of nodes reachable from the given start nodes
// (inclusive) while never entering a node for which avoid returns true and
// never taking an edge for which cut returns true.
func (g *Graph) Reach(starts []*Node, avoid func(*Node) bool, cut func(*Edge) bool) map[*Node]*Edge {
	seen := map[*Node]*Edge{}
	var work []*Node
	for _, s := range starts {
		if s == nil || (avoid != nil && avoid(s)) {
			continue
		}
		if _, ok := seen[s]; !ok {
			seen[s] = nil
			work = append(work, s)
		}
	}
	for len(work) > 0 {
		n := work[len(work)-1]
		work = work[:len(work)-1]
		for _, e := range n.Succs {
			if cut != nil && cut(e) {
				continue
			}
			if _, ok := seen[e.To]; ok {
				continue
			}
			if avoid != nil && avoid(e.To) {
				continue
			}
			seen[e.To] = e
			work = append(work, e.To)
		}
	}
	return seen
}

// ReachAfter is Reach starting from the successors of n (n itself excluded
// unless it is on a cycle).
func (g *Graph) ReachAfter(n *Node, avoid func(*Node) bool, cut func(*Edge) bool) map[*Node]*Edge {
	seen := map[*Node]*Edge{}
	var work []*Node
	for _, e := range n.Succs {
		if cut != nil && cut(e) {
			continue
		}
		if avoid != nil && avoid(e.To) {
			continue
		}
		if _, ok := seen[e.To]; !ok {
			seen[e.To] = e
			work = append(work, e.To)
		}
	}
	for len(work) > 0 {
		x := work[len(work)-1]
		work = work[:len(work)-1]
		for _, e := range x.Succs {
			if cut != nil && cut(e) {
				continue
			}
			if _, ok := seen[e.To]; ok {
				continue
			}
			if avoid != nil && avoid(e.To) {
				continue
			}
			seen[e.To] = e
			work = append(work, e.To)
		}
	}
	return seen
}

// PathTo reconstructs a path (as positions) to node n from a Reach result.
func (p *Prog) PathTo(seen map[*Node]*Edge, n *Node) []string {
	var rev []string
	guard := 0
	for cur := n; cur != nil && guard < 10000; guard++ {
		if cur.Ast != nil {
			rev = append(rev, p.Pos(cur.Ast))
		} else if cur.Kind == NExit {
			rev = append(rev, "exit")
		} else if cur.Kind == NAbort {
			rev = append(rev, "abort")
		}
		e := seen[cur]
		if e == nil {
			break
		}
		cur = e.From
	}
	// reverse and compress consecutive duplicates
	var out []string
	for i := len(rev) - 1; i >= 0; i-- {
		if len(out) == 0 || out[len(out)-1] != rev[i] {
			out = append(out, rev[i])
		}
	}
	if len(out) > 14 {
		out = append(append([]string{}, out[:6]...), append([]string{"..."}, out[len(out)-7:]...)...)
	}
	return out
}

// Dominates reports whether every path from entry to b passes through a
// (a != b), computed by removing a.
func (g *Graph) Dominates(a, b *Node) bool {
	if a == b {
		return true
	}
	seen := g.Reach([]*Node{g.Entry}, func(n *Node) bool { return n == a }, nil)
	_, ok := seen[b]
	return !ok
}

// DominatedBy reports whether every path from entry to n passes through some
// node of set.
func (g *Graph) DominatedBy(n *Node, set func(*Node) bool) bool {
	if set(n) {
		return true
	}
	seen := g.Reach([]*Node{g.Entry}, set, nil)
	_, ok := seen[n]
	return !ok
}

// OnlyViaEdge reports whether every path from entry to n uses an edge for
// which via returns true.
func (g *Graph) OnlyViaEdge(n *Node, via func(*Edge) bool) bool {
	seen := g.Reach([]*Node{g.Entry}, nil, via)
	_, ok := seen[n]
	return !ok
}

// MustPassAfter: every path from (after) node n to a normal exit passes a
// node in set. Returns ok and, if not ok, a witness path.
func (p *Prog) MustPassAfter(g *Graph, n *Node, set func(*Node) bool, cut func(*Edge) bool) (bool, []string) {
	seen := g.ReachAfter(n, set, cut)
	if _, bad := seen[g.Exit]; bad {
		return false, p.PathTo(seen, g.Exit)
	}
	return true, nil
}

// ---- small AST helpers shared by rules ----

// walkNoLit walks a but does not descend into function literals.
func walkNoLit(a ast.Node, fn func(ast.Node) bool) {
	ast.Inspect(a, func(n ast.Node) bool {
		if n == nil {
			return true
		}
		if _, ok := n.(*ast.FuncLit); ok && n != a {
			return false
		}
		return fn(n)
	})
}

// callsIn returns the call expressions inside node a, in source order, not
// descending into function literals.
func callsIn(a ast.Node) []*ast.CallExpr {
	var out []*ast.CallExpr
	if a == nil {
		return nil
	}
	walkNoLit(a, func(n ast.Node) bool {
		if c, ok := n.(*ast.CallExpr); ok {
			out = append(out, c)
		}
		return true
	})
	return out
}

// allCalls returns every call expression in the body of f (not nested literals).
func (f *Func) Calls() []*ast.CallExpr { return callsIn(f.Body) }

// usesObj reports whether a references object o (not descending into literals
// unless deep).
func usesObj(info *types.Info, a ast.Node, o types.Object, deep bool) bool {
	found := false
	ast.Inspect(a, func(n ast.Node) bool {
		if found || n == nil {
			return false
		}
		if _, ok := n.(*ast.FuncLit); ok && !deep && n != a {
			return false
		}
		if id, ok := n.(*ast.Ident); ok {
			if info.Uses[id] == o || info.Defs[id] == o {
				found = true
			}
		}
		return true
	})
	return found
}

func identObj(info *types.Info, e ast.Expr) types.Object {
	id, ok := ast.Unparen(e).(*ast.Ident)
	if !ok {
		return nil
	}
	if o := info.Uses[id]; o != nil {
		return o
	}
	return info.Defs[id]
}

func isNilIdent(info *types.Info, e ast.Expr) bool {
	id, ok := ast.Unparen(e).(*ast.Ident)
	if !ok {
		return false
	}
	_, isNil := info.Uses[id].(*types.Nil)
	return isNil
}

// stripNot removes parentheses and leading negations; returns the inner
// expression and whether the polarity was flipped.
func stripNot(e ast.Expr) (ast.Expr, bool) {
	neg := false
	for {
		e = ast.Unparen(e)
		u, ok := e.(*ast.UnaryExpr)
		if !ok || u.Op != token.NOT {
			return e, neg
		}
		neg = !neg
		e = u.X
	}
}

// constString returns the constant string value of e if it has one.
func constString(info *types.Info, e ast.Expr) (string, bool) {
	tv, ok := info.Types[e]
	if !ok || tv.Value == nil || tv.Value.Kind() != constant.String {
		return "", false
	}
	return constant.StringVal(tv.Value), true
}

func constInt(info *types.Info, e ast.Expr) (int64, bool) {
	tv, ok := info.Types[e]
	if !ok || tv.Value == nil || tv.Value.Kind() != constant.Int {
		return 0, false
	}
	return constant.Int64Val(tv.Value)
}
