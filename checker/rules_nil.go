package main

import (
	"fmt"
	"go/ast"
	"go/token"
	"go/types"
	"strconv"
	"strings"
)

// factsDomain tracks, per access path, "known non-nil" and a lower bound of
// len(path). Used by R-NILGUARD and R-IDX.
type factsDomain struct {
	p     *Prog
	f     *Func
	track func(ap string) bool // which access paths to track (nil = all)
}

func (d *factsDomain) want(ap string) bool { return d.track == nil || d.track(ap) }

func (d *factsDomain) Transfer(n *Node, s Store) []Store {
	info := d.f.Pkg.TypesInfo
	kill := func(ap string) {
		for _, k := range append(s.Keys("nn:"), s.Keys("len:")...) {
			kp := k[strings.Index(k, ":")+1:]
			if kp == ap || strings.HasPrefix(kp, ap+".") {
				s = s.Without(k)
			}
		}
	}
	assign := func(l, r ast.Expr, tuple bool) {
		ap := accessPath(info, l)
		if ap == "" {
			return
		}
		kill(ap)
		if r == nil || tuple || !d.want(ap) {
			return
		}
		if d.p.isNonNilExpr(d.f, r) {
			s = s.With("nn:"+ap, "1")
		}
		if call, ok := ast.Unparen(r).(*ast.CallExpr); ok {
			switch d.p.CalleeName(d.f, call) {
			case "strings.Split":
				if sep, ok := constString(info, call.Args[1]); ok && sep != "" {
					s = s.With("len:"+ap, "1")
				}
			case "builtin.make":
				s = s.With("nn:"+ap, "1")
			}
		}
		if rp := accessPath(info, r); rp != "" {
			if s.Has("nn:" + rp) {
				s = s.With("nn:"+ap, "1")
			}
			if s.Has("len:" + rp) {
				s = s.With("len:"+ap, s.Get("len:"+rp))
			}
		}
	}
	switch a := n.Ast.(type) {
	case *ast.AssignStmt:
		if a.Tok == token.ASSIGN || a.Tok == token.DEFINE {
			if len(a.Lhs) == len(a.Rhs) {
				for i := range a.Lhs {
					assign(a.Lhs[i], a.Rhs[i], false)
				}
			} else {
				for i := range a.Lhs {
					assign(a.Lhs[i], nil, true)
				}
			}
		} else {
			for _, l := range a.Lhs {
				if ap := accessPath(info, l); ap != "" {
					kill(ap)
				}
			}
		}
	case *ast.DeclStmt:
		if gd, ok := a.Decl.(*ast.GenDecl); ok {
			for _, sp := range gd.Specs {
				if vs, ok := sp.(*ast.ValueSpec); ok && len(vs.Values) == len(vs.Names) {
					for i, nm := range vs.Names {
						assign(nm, vs.Values[i], false)
					}
				}
			}
		}
	case *ast.ValueSpec:
		if len(a.Values) == len(a.Names) {
			for i, nm := range a.Names {
				assign(nm, a.Values[i], false)
			}
		}
	}
	return []Store{s}
}

func (d *factsDomain) Refine(e *Edge, s Store) (Store, bool) {
	info := d.f.Pkg.TypesInfo
	at, ok := edgeAtom(info, e)
	if !ok {
		return s, true
	}
	switch at.Kind {
	case "nil":
		ap := accessPath(info, at.X)
		if ap == "" || !d.want(ap) {
			return s, true
		}
		if at.Op == token.NEQ {
			return s.With("nn:"+ap, "1"), true
		}
		if s.Has("nn:" + ap) {
			return s, false
		}
	case "len":
		ap := accessPath(info, at.X)
		if ap == "" || !d.want(ap) {
			return s, true
		}
		cur, _ := strconv.ParseInt(s.Get("len:"+ap), 10, 64)
		lb := cur
		switch at.Op {
		case token.GEQ:
			lb = at.K
		case token.GTR:
			lb = at.K + 1
		case token.EQL:
			lb = at.K
		case token.LSS:
			if cur >= at.K {
				return s, false
			}
		case token.LEQ:
			if cur > at.K {
				return s, false
			}
		}
		if lb > cur {
			return s.With("len:"+ap, strconv.FormatInt(lb, 10)), true
		}
	}
	return s, true
}

// ---- R-IDX ----

// ruleIdx: every constant index into the split handshake line is in bounds.
func ruleIdx(c *Ctx) {
	p := c.P
	f := p.Fn("Client.Start")
	if f == nil {
		c.R.Undecided("R-IDX", "Client.Start", "anchor", "function not found")
		return
	}
	info := f.Pkg.TypesInfo
	g := p.Graph(f)
	// the variable bound to strings.Split(line, "|")
	var parts *types.Var
	for _, call := range f.Calls() {
		if p.CalleeName(f, call) == "strings.Split" {
			if sep, ok := constString(info, call.Args[1]); ok && sep == "|" {
				parts = assignedVar(p, info, call)
			}
		}
	}
	if parts == nil {
		c.R.Undecided("R-IDX", f.Name, "strings.Split(line, \"|\")", "the split of the handshake line was not found")
		return
	}
	pk := fmt.Sprintf("%s#%d", parts.Name(), parts.Pos())
	res := Interp(g, &factsDomain{p, f, func(ap string) bool { return ap == pk }}, NewStore())
	if res.Capped {
		c.R.Undecided("R-IDX", f.Name, "state-cap", "state cap hit")
		return
	}
	n := 0
	ord := map[int64]int{}
	walkNoLit(f.Body, func(x ast.Node) bool {
		ix, ok := x.(*ast.IndexExpr)
		if !ok || identObj(info, ix.X) != parts {
			return true
		}
		k, isConst := constInt(info, ix.Index)
		n++
		if !isConst {
			c.R.Undecided("R-IDX", f.Name, exprStr(ix), "non-constant index into the handshake fields")
			return true
		}
		ord[k]++
		construct := fmt.Sprintf("%s #%d", exprStr(ix), ord[k])
		node := g.NodeOf(ix)
		worst := int64(1 << 40)
		var ws Store
		for _, s := range res.In[node] {
			lb, _ := strconv.ParseInt(s.Get("len:"+pk), 10, 64)
			if lb < worst {
				worst, ws = lb, s
			}
		}
		// conditions inside the same node (len(parts) >= 6 && len(parts[5]) > 50 are split
		// into separate CFG nodes by go/cfg, so the state at the node already reflects them)
		if len(res.In[node]) == 0 {
			c.R.Hold("R-IDX", p.Pos(ix), f.Name, construct, "unreachable", false)
			return true
		}
		// tightness: the first read of an optional field k (and of the last
		// mandatory one) must be possible on lines that have exactly k+1 fields;
		// a stricter guard silently ignores a field the plugin did send
		if worst > k && k >= 3 && ord[k] == 1 {
			if worst == k+1 {
				c.R.Hold("R-IDX/tight", p.Pos(ix), f.Name, construct, fmt.Sprintf("read whenever the line has at least %d fields", k+1), true)
			} else {
				c.R.Violate("R-IDX/tight", p.Pos(ix), f.Name, construct,
					fmt.Sprintf("field %d of the handshake line is only read when the line has at least %d fields: on a line with exactly %d fields it is ignored although it is present (the reported protocol / certificate / multiplexing flag is then not what the line says)", k, worst, k+1), nil)
			}
		}
		if worst > k {
			c.R.Hold("R-IDX", p.Pos(ix), f.Name, construct, fmt.Sprintf("len(%s) >= %d on every path reaching the index", parts.Name(), worst), true)
		} else {
			c.R.Violate("R-IDX", p.Pos(ix), f.Name, construct,
				fmt.Sprintf("on some path only len(%s) >= %d is established, so index %d can be out of range: a short handshake line panics the host", parts.Name(), worst, k),
				res.PathOf(p, node, ws))
		}
		return true
	})
	if n < 7 {
		c.R.Undecided("R-IDX", f.Name, "instance-floor", fmt.Sprintf("only %d index sites into the handshake fields found, at least 7 (one per field) were confirmed by hand", n))
	}
}

// ---- R-NILGUARD ----

var configTypes = []string{"ClientConfig", "ServeConfig", "ReattachConfig", "ServeTestConfig"}

// ruleNilGuard: optional configuration pointers are never dereferenced unguarded.
func ruleNilGuard(c *Ctx) {
	p := c.P
	// 1. optional fields: pointer/func/interface fields of the config structs
	// that are compared with nil somewhere in the module.
	cand := map[*types.Var]string{}
	for _, tn := range configTypes {
		o := p.Pkgs[modPath].Types.Scope().Lookup(tn)
		if o == nil {
			c.R.Undecided("R-NILGUARD", "", tn, "config type not found")
			continue
		}
		st := o.Type().Underlying().(*types.Struct)
		for i := 0; i < st.NumFields(); i++ {
			fv := st.Field(i)
			switch fv.Type().Underlying().(type) {
			case *types.Pointer, *types.Signature, *types.Interface:
				cand[fv] = tn + "." + fv.Name()
			}
		}
	}
	optional := map[*types.Var]string{}
	for _, f := range p.Funcs {
		info := f.Pkg.TypesInfo
		walkNoLit(f.Body, func(x ast.Node) bool {
			be, ok := x.(*ast.BinaryExpr)
			if !ok || (be.Op != token.EQL && be.Op != token.NEQ) {
				return true
			}
			for _, pair := range [][2]ast.Expr{{be.X, be.Y}, {be.Y, be.X}} {
				if isNilIdent(info, pair[1]) {
					if fv := SelField(info, pair[0]); fv != nil && cand[fv] != "" {
						optional[fv] = cand[fv]
					}
				}
			}
			return true
		})
	}
	// fields that NewClient defaults to a non-nil value are not optional afterwards
	if nc := p.Fn("NewClient"); nc != nil {
		info := nc.Pkg.TypesInfo
		ast.Inspect(nc.Body, func(x ast.Node) bool {
			ifs, ok := x.(*ast.IfStmt)
			if !ok {
				return true
			}
			be, ok := ifs.Cond.(*ast.BinaryExpr)
			if !ok || be.Op != token.EQL || !isNilIdent(info, be.Y) {
				return true
			}
			fv := SelField(info, be.X)
			if fv == nil || optional[fv] == "" {
				return true
			}
			for _, st := range ifs.Body.List {
				if as, ok := st.(*ast.AssignStmt); ok && len(as.Lhs) == 1 && SelField(info, as.Lhs[0]) == fv && !isNilIdent(info, as.Rhs[0]) {
					c.R.Hold("R-NILGUARD", p.Pos(as), nc.Name, "default "+optional[fv], "NewClient replaces a nil value, so the field is non-nil in every Client", false)
					delete(optional, fv)
				}
			}
			return true
		})
	} else {
		c.R.Undecided("R-NILGUARD", "NewClient", "anchor", "function not found")
	}
	if len(optional) < 6 {
		c.R.Undecided("R-NILGUARD", "", "optional fields", fmt.Sprintf("only %d nil-checked config fields discovered, expected at least 6", len(optional)))
	}
	// client state that is nil in some states of a live Client: the runner is
	// unset by Kill and never set for a plugin reattached in test mode
	if rf := p.FieldObj(modPath, "Client", "runner"); rf != nil {
		optional[rf] = "Client.runner"
	}
	ci := p.Calls()
	n := 0
	for _, f := range p.Funcs {
		if strings.HasSuffix(p.Fset.Position(f.Body.Pos()).Filename, "testing.go") {
			continue
		}
		info := f.Pkg.TypesInfo
		// dereference sites: X.F.sel, X.F(...), *X.F, X.F[...] where F is optional
		type site struct {
			expr ast.Expr // the X.F expression
			at   ast.Node
			fv   *types.Var
			bind ast.Expr // for a local bound once to X.F: the X.F expression at the binding
		}
		var sites []site
		walkNoLit(f.Body, func(x ast.Node) bool {
			var inner ast.Expr
			switch e := x.(type) {
			case *ast.SelectorExpr:
				inner = e.X
			case *ast.CallExpr:
				inner = e.Fun
			case *ast.StarExpr:
				inner = e.X
			default:
				return true
			}
			inner = ast.Unparen(inner)
			// a local bound once to an optional field stands for that field
			if lv, isV := identObj(info, inner).(*types.Var); isV && !lv.IsField() && lv.Parent() != nil && lv.Parent() != f.Pkg.Types.Scope() {
				if d := p.singleDef(f, lv); d != nil {
					if fv := SelField(info, ast.Unparen(d)); fv != nil && optional[fv] != "" {
						if _, isIface := fv.Type().Underlying().(*types.Interface); !isIface {
							// decided where the local is bound: the field must be known
							// non-nil there (the local cannot change afterwards)
							sites = append(sites, site{inner, x, fv, ast.Unparen(d)})
						}
						return true
					}
				}
			}
			if fv := SelField(info, inner); fv != nil && optional[fv] != "" {
				if _, isIface := fv.Type().Underlying().(*types.Interface); isIface {
					if _, isCall := x.(*ast.CallExpr); isCall {
						return true // X.F(...) on an interface field is a conversion, not a call
					}
				}
				sites = append(sites, site{inner, x, fv, nil})
			}
			return true
		})
		if len(sites) == 0 {
			continue
		}
		g := p.Graph(f)
		res := Interp(g, &factsDomain{p, f, func(ap string) bool {
			for _, st := range sites {
				if ap == accessPath(info, st.expr) || (st.bind != nil && ap == accessPath(info, st.bind)) {
					return true
				}
			}
			return false
		}}, NewStore())
		if res.Capped {
			c.R.Undecided("R-NILGUARD", f.Name, "state-cap", "state cap hit")
			continue
		}
		ord := map[string]int{}
		for _, st := range sites {
			n++
			ap := accessPath(info, st.expr)
			name := optional[st.fv]
			ord[name]++
			construct := fmt.Sprintf("deref %s #%d", name, ord[name])
			node := g.NodeOf(st.at)
			if node == nil || ap == "" {
				c.R.Undecided("R-NILGUARD", f.Name, construct, "site is not inside a CFG node or has no access path")
				continue
			}
			okAll := true
			var bad Store
			for _, s := range res.In[node] {
				if !s.Has("nn:" + ap) {
					okAll, bad = false, s
				}
			}
			if !okAll && st.bind != nil {
				// the local cannot change after its binding: the field known non-nil there is enough
				if bn, bap := g.NodeOf(st.bind), accessPath(info, st.bind); bn != nil && bap != "" {
					okAll = true
					for _, s := range res.In[bn] {
						if !s.Has("nn:" + bap) {
							okAll = false
						}
					}
				}
			}
			if okAll {
				c.R.Hold("R-NILGUARD", p.Pos(st.at), f.Name, construct, "a non-nil test or non-nil assignment of the same access path dominates the dereference on every path", true)
				continue
			}
			// interprocedural: every caller guards the same field (bound 2)
			if p.callersGuard(ci, f, st.fv, 2) {
				c.R.Hold("R-NILGUARD", p.Pos(st.at), f.Name, construct, "every call site of this function is dominated by a non-nil test of the field", true)
				continue
			}
			c.R.Violate("R-NILGUARD", p.Pos(st.at), f.Name, construct,
				"optional configuration field "+name+" is dereferenced on a path with no non-nil test (here or in every caller): a nil value panics the process", res.PathOf(p, node, bad))
		}
	}
	if n < 8 {
		c.R.Undecided("R-NILGUARD", "", "instance-floor", fmt.Sprintf("only %d dereferences of optional fields found, at least 8 were confirmed by hand", n))
	}
}

// callersGuard: all call sites of f are reached only after a non-nil test of
// field fv (matched by field identity on any access path), directly or, with
// depth left, because their own callers guard.
func (p *Prog) callersGuard(ci *callIndex, f *Func, fv *types.Var, depth int) bool {
	if f.Obj != nil && f.Obj.Exported() {
		return false
	}
	var sites []*CallSite
	if f.Lit != nil {
		// a literal runs where it is invoked / deferred / started: treat its creation site as the call
		par := f.Parent
		if par == nil {
			return false
		}
		for _, cs := range ci.sites[par] {
			for _, ce := range cs.Callees {
				if ce == f {
					sites = append(sites, cs)
				}
			}
			for _, l := range cs.ArgLits {
				if l == f {
					sites = append(sites, cs)
				}
			}
		}
	} else {
		sites = ci.callers[f]
	}
	if len(sites) == 0 {
		return false
	}
	for _, cs := range sites {
		if cs.Node == nil {
			return false
		}
		caller := cs.Caller
		g := p.Graph(caller)
		info := caller.Pkg.TypesInfo
		res := Interp(g, &factsDomain{p, caller, func(ap string) bool { return strings.HasSuffix(ap, "."+fv.Name()) }}, NewStore())
		if res.Capped {
			return false
		}
		okAll := len(res.In[cs.Node]) > 0
		for _, s := range res.In[cs.Node] {
			has := false
			for _, k := range s.Keys("nn:") {
				if strings.HasSuffix(k, "."+fv.Name()) && pathEndsInField(info, caller, k, fv) {
					has = true
				}
			}
			if !has {
				okAll = false
			}
		}
		if okAll {
			continue
		}
		if depth > 1 && p.callersGuard(ci, caller, fv, depth-1) {
			continue
		}
		return false
	}
	return true
}

// pathEndsInField is a name-level check that the fact's access path ends in
// the field (paths are built from field selections, so the last segment is the
// field's name; the type check guards against equally named fields).
func pathEndsInField(info *types.Info, f *Func, key string, fv *types.Var) bool {
	found := false
	walkNoLit(f.Body, func(x ast.Node) bool {
		if se, ok := x.(*ast.SelectorExpr); ok && SelField(info, se) == fv {
			if "nn:"+accessPath(info, se) == key {
				found = true
			}
		}
		return !found
	})
	return found
}

// ruleKillDoneCtx: Client.doneCtx exists only once runner.Start has succeeded,
// while Client.runner is recorded before that - Kill after a launch that failed
// runs with a runner and a nil doneCtx. In Kill every method call on the
// context (the field, or a local bound once to it) therefore lies behind an
// edge that establishes a started plugin: Client.address (or the local it was
// read into) != nil, or the context itself != nil. Decided on feasible paths:
// the "graceful" flag of the existing code is false unless the address was set.
func ruleKillDoneCtx(c *Ctx) {
	p := c.P
	f := p.Fn("Client.Kill")
	if f == nil {
		c.R.Undecided("R-NILGUARD", "Client.Kill", "anchor", "function not found")
		return
	}
	info := f.Pkg.TypesInfo
	g := p.Graph(f)
	ctxF := p.FieldObj(modPath, "Client", "doneCtx")
	addrF := p.FieldObj(modPath, "Client", "address")
	isField := func(e ast.Expr, fv *types.Var) bool {
		e = ast.Unparen(e)
		if SelField(info, e) == fv && fv != nil {
			return true
		}
		if v, ok := identObj(info, e).(*types.Var); ok && !v.IsField() {
			if d := p.singleDef(f, v); d != nil && SelField(info, ast.Unparen(d)) == fv {
				return true
			}
		}
		return false
	}
	established := func(e *Edge) bool {
		at, ok := edgeAtom(info, e)
		if !ok || at.Kind != "nil" || at.Op != token.NEQ {
			return false
		}
		return isField(at.X, addrF) || isField(at.X, ctxF)
	}
	seen := p.FeasibleReach(f, []*Node{g.Entry}, nil, established)
	n, bad := 0, false
	walkNoLit(f.Body, func(x ast.Node) bool {
		call, ok := x.(*ast.CallExpr)
		if !ok {
			return true
		}
		se, ok := ast.Unparen(call.Fun).(*ast.SelectorExpr)
		if !ok || !isField(se.X, ctxF) {
			return true
		}
		n++
		node := g.NodeOf(call)
		construct := "call " + exprStr(call.Fun) + "() on the exit context"
		// ctx != nil && ctx.Err() ... inside one expression: guarded by short circuit
		shortCircuit := false
		for cur, child := p.Parent(call), ast.Node(call); cur != nil; child, cur = cur, p.Parent(cur) {
			be, isBin := cur.(*ast.BinaryExpr)
			if !isBin {
				if _, isExpr := cur.(ast.Expr); !isExpr {
					break
				}
				continue
			}
			if be.Op == token.LAND && ast.Node(be.Y) == child {
				if l, isL := ast.Unparen(be.X).(*ast.BinaryExpr); isL && l.Op == token.NEQ && isNilIdent(info, l.Y) && (isField(l.X, ctxF) || isField(l.X, addrF)) {
					shortCircuit = true
				}
			}
		}
		if shortCircuit {
			c.R.Hold("R-NILGUARD", p.Pos(call), f.Name, construct, "right operand of `ctx != nil && ...`", true)
			return true
		}
		if node != nil && seen[node] {
			bad = true
			c.R.Violate("R-NILGUARD", p.Pos(call), f.Name, construct, "Kill calls a method on Client.doneCtx on a path on which neither the address nor the context was found non-nil: after a launch that failed inside runner.Start the runner is recorded but the context was never created, so the customary deferred Kill panics the host", nil)
		} else {
			c.R.Hold("R-NILGUARD", p.Pos(call), f.Name, construct, "reachable only behind Client.address != nil (or the context != nil) on feasible paths", true)
		}
		return true
	})
	if n == 0 && !bad {
		c.R.Hold("R-NILGUARD", p.Pos(f.Node()), f.Name, "calls on the exit context in Kill", "none", false)
	}
}
