package main

import (
	"bufio"
	"fmt"
	"io"
	"os"
	"os/exec"
	"path/filepath"
	"sort"
	"strings"
	"sync"
)

// Self-validation: patch mutants. A mutant is a unified diff (with "# props:",
// "# rule:", "# tags:" header lines) under /verif/mutants or a seeded change
// under /verif/seeded/<name>/patch.diff (+ meta.json). A mutant is applied to a
// scratch copy of the repository's working tree under the system temp
// directory, the property's rules are run on that copy in a subprocess, and the
// copy is removed. "Detected" = the check exits 1 with at least one violated
// (not merely undecided) obligation.

type mutant struct {
	Name  string
	Path  string
	Props []string
	Rule  string
	Tags  []string
}

func loadMutants(verif string) []mutant {
	var out []mutant
	parseHeader := func(path string, m *mutant) {
		f, err := os.Open(path)
		if err != nil {
			return
		}
		defer f.Close()
		sc := bufio.NewScanner(f)
		for sc.Scan() {
			line := sc.Text()
			if !strings.HasPrefix(line, "# ") {
				break
			}
			kv := strings.SplitN(strings.TrimPrefix(line, "# "), ":", 2)
			if len(kv) != 2 {
				continue
			}
			val := strings.TrimSpace(kv[1])
			switch strings.TrimSpace(kv[0]) {
			case "props":
				for _, x := range strings.Split(val, ",") {
					m.Props = append(m.Props, strings.TrimSpace(x))
				}
			case "rule":
				m.Rule = val
			case "tags":
				for _, x := range strings.Split(val, ",") {
					m.Tags = append(m.Tags, strings.TrimSpace(x))
				}
			}
		}
	}
	files, _ := filepath.Glob(filepath.Join(verif, "mutants", "*.diff"))
	sort.Strings(files)
	for _, f := range files {
		m := mutant{Name: strings.TrimSuffix(filepath.Base(f), ".diff"), Path: f}
		parseHeader(f, &m)
		out = append(out, m)
	}
	seeded, _ := filepath.Glob(filepath.Join(verif, "seeded", "*", "patch.diff"))
	sort.Strings(seeded)
	for _, f := range seeded {
		dir := filepath.Dir(f)
		m := mutant{Name: "seeded/" + filepath.Base(dir), Path: f, Tags: []string{"seeded"}}
		// meta.json: {"property": "C03", "detected_by": ["C03", ...], ...}
		if b, err := os.ReadFile(filepath.Join(dir, "props.txt")); err == nil {
			for _, x := range strings.Fields(strings.ReplaceAll(string(b), ",", " ")) {
				m.Props = append(m.Props, x)
			}
		}
		out = append(out, m)
	}
	return out
}

func copyTree(src, dst string) error {
	return filepath.Walk(src, func(path string, info os.FileInfo, err error) error {
		if err != nil {
			return err
		}
		rel, _ := filepath.Rel(src, path)
		if info.IsDir() {
			switch info.Name() {
			case ".git", "examples", "docs", "test", ".github":
				if rel != "." {
					return filepath.SkipDir
				}
			}
			return os.MkdirAll(filepath.Join(dst, rel), 0o755)
		}
		if !info.Mode().IsRegular() {
			return nil
		}
		ext := filepath.Ext(path)
		if ext != ".go" && info.Name() != "go.mod" && info.Name() != "go.sum" {
			return nil
		}
		in, err := os.Open(path)
		if err != nil {
			return err
		}
		defer in.Close()
		out, err := os.Create(filepath.Join(dst, rel))
		if err != nil {
			return err
		}
		defer out.Close()
		_, err = io.Copy(out, in)
		return err
	})
}

// runOneMutant returns "detected", "missed", "skipped: reason".
func runOneMutant(repo string, m mutant, prop string) (string, string) {
	tmp, err := os.MkdirTemp("", "gpmut-")
	if err != nil {
		return "skipped: " + err.Error(), ""
	}
	defer os.RemoveAll(tmp)
	work := filepath.Join(tmp, "repo")
	if err := copyTree(repo, work); err != nil {
		return "skipped: copy failed: " + err.Error(), ""
	}
	ap := exec.Command("git", "apply", "--whitespace=nowarn", m.Path)
	ap.Dir = work
	if out, err := ap.CombinedOutput(); err != nil {
		return "skipped: patch does not apply to the current tree (" + strings.TrimSpace(firstLine(string(out))) + ")", ""
	}
	// must still type-check: the checker reports load errors as undecided; tell them apart
	vdir := filepath.Join(tmp, "verif")
	os.MkdirAll(vdir, 0o755)
	self, _ := os.Executable()
	cmd := exec.Command(self, "-prop", prop, "-tier", "quick", "-repo", work, "-verif", vdir)
	cmd.Env = append(os.Environ(), "GOFLAGS=-mod=mod", "GOPROXY=off")
	out, _ := cmd.CombinedOutput()
	txt := string(out)
	if strings.Contains(txt, "rule=load") {
		return "skipped: mutant does not compile", ""
	}
	var rules []string
	for _, line := range strings.Split(txt, "\n") {
		line = strings.TrimSpace(line)
		if strings.HasPrefix(line, "rule=") && strings.Contains(line, "kind=violated") {
			r := strings.Fields(line)[0]
			r = strings.TrimPrefix(r, "rule=")
			if !has(rules, r) {
				rules = append(rules, r)
			}
		}
	}
	if len(rules) > 0 {
		return "detected", strings.Join(rules, ",")
	}
	if strings.Contains(txt, "kind=undecided") {
		return "detected", "undecided"
	}
	return "missed", ""
}

func firstLine(s string) string {
	if i := strings.Index(s, "\n"); i >= 0 {
		return s[:i]
	}
	return s
}

type mutJob struct {
	m    mutant
	prop string
}

func runMutantJobs(repo string, jobs []mutJob, verbose bool) *MutantResult {
	res := &MutantResult{}
	var mu sync.Mutex
	var wg sync.WaitGroup
	sem := make(chan struct{}, 8)
	for _, j := range jobs {
		wg.Add(1)
		go func(j mutJob) {
			defer wg.Done()
			sem <- struct{}{}
			defer func() { <-sem }()
			st, rules := runOneMutant(repo, j.m, j.prop)
			mu.Lock()
			defer mu.Unlock()
			label := j.m.Name + "@" + j.prop
			switch {
			case st == "detected":
				res.Tried++
				res.Detected++
				res.Names = append(res.Names, label+" by "+rules)
			case st == "missed":
				res.Tried++
				res.Missed = append(res.Missed, label)
			default:
				res.Skipped++
			}
			if verbose {
				fmt.Printf("mutant %-40s %s %s\n", label, st, rules)
			}
		}(j)
	}
	wg.Wait()
	sort.Strings(res.Names)
	sort.Strings(res.Missed)
	return res
}

// mutantSweep runs every mutant that names the property (thorough tier).
func mutantSweep(repo, verif string, pd *propDef) *MutantResult {
	var jobs []mutJob
	for _, m := range loadMutants(verif) {
		if has(m.Props, pd.ID) {
			jobs = append(jobs, mutJob{m, pd.ID})
		}
	}
	if len(jobs) == 0 {
		return &MutantResult{}
	}
	return runMutantJobs(repo, jobs, false)
}

func runMutants(repo, verif string, pd *propDef, verbose bool) int {
	res := mutantSweep(repo, verif, pd)
	fmt.Printf("%s: %d mutants tried, %d detected, %d skipped; missed: %v\n", pd.ID, res.Tried, res.Detected, res.Skipped, res.Missed)
	return 0
}

// runSelftest applies the "selftest" mutants (re-introductions of the repaired
// defects) and requires each to be reported by its first property. A mutant
// that no longer applies to the tree is skipped, not failed.
func runSelftest(repo, verif string) int {
	var jobs []mutJob
	for _, m := range loadMutants(verif) {
		if has(m.Tags, "selftest") && len(m.Props) > 0 {
			jobs = append(jobs, mutJob{m, m.Props[0]})
		}
	}
	res := runMutantJobs(repo, jobs, true)
	fmt.Printf("selftest: %d mutants tried, %d detected, %d skipped\n", res.Tried, res.Detected, res.Skipped)
	if len(res.Missed) > 0 {
		fmt.Printf("selftest FAILED: the checker no longer reports %v\n", res.Missed)
		return 1
	}
	return 0
}
