package main

import (
	"fmt"
	"go/ast"
	"go/types"
	"sort"
	"strings"
)

// Engine E4: lock regions. Locks are identified by the mutex *variable*
// (struct field, embedded field, or package variable) — a may-alias
// abstraction over objects.

type lockSet map[*types.Var]bool

func (s lockSet) clone() lockSet {
	o := lockSet{}
	for k := range s {
		o[k] = true
	}
	return o
}

func (s lockSet) names(p *Prog) string {
	var out []string
	for v := range s {
		out = append(out, p.lockName(v))
	}
	sort.Strings(out)
	return strings.Join(out, ",")
}

func (p *Prog) lockName(v *types.Var) string {
	if v.IsField() {
		return p.FieldName(v)
	}
	return v.Name()
}

// lockOp classifies a call as a mutex operation on a lock variable.
func (p *Prog) lockOp(f *Func, call *ast.CallExpr) (*types.Var, string) {
	info := f.Pkg.TypesInfo
	sel, ok := ast.Unparen(call.Fun).(*ast.SelectorExpr)
	if !ok {
		return nil, ""
	}
	full := p.CalleeName(f, call)
	op := ""
	switch full {
	case "sync.Mutex.Lock", "sync.RWMutex.Lock":
		op = "lock"
	case "sync.Mutex.Unlock", "sync.RWMutex.Unlock":
		op = "unlock"
	case "sync.RWMutex.RLock":
		op = "lock"
	case "sync.RWMutex.RUnlock":
		op = "unlock"
	default:
		return nil, ""
	}
	// a read lock holds the mutex in shared mode only: it is tracked under a
	// shadow variable, which protects reads but not writes (R-GUARD)
	if full == "sync.RWMutex.RLock" || full == "sync.RWMutex.RUnlock" {
		v, _ := p.lockVarOf(info, sel)
		if v == nil {
			return nil, ""
		}
		return p.readShadow(v), op
	}
	v, _ := p.lockVarOf(info, sel)
	if v == nil {
		return nil, ""
	}
	return v, op
}

// readShadow returns the variable that stands for "v held in read mode".
func (p *Prog) readShadow(v *types.Var) *types.Var {
	if p.rshadow == nil {
		p.rshadow = map[*types.Var]*types.Var{}
		p.rshadowOf = map[*types.Var]*types.Var{}
	}
	if sh := p.rshadow[v]; sh != nil {
		return sh
	}
	sh := types.NewVar(v.Pos(), v.Pkg(), p.lockName(v)+"(read)", v.Type())
	p.rshadow[v] = sh
	p.rshadowOf[sh] = v
	return sh
}

func (p *Prog) lockVarOf(info *types.Info, sel *ast.SelectorExpr) (*types.Var, string) {
	s := info.Selections[sel]
	if s == nil {
		return nil, ""
	}
	op := ""
	idx := s.Index()
	if len(idx) > 1 {
		t := s.Recv()
		var fv *types.Var
		for _, i := range idx[:len(idx)-1] {
			if pt, ok := t.Underlying().(*types.Pointer); ok {
				t = pt.Elem()
			}
			st, ok := t.Underlying().(*types.Struct)
			if !ok {
				return nil, ""
			}
			fv = st.Field(i)
			t = fv.Type()
		}
		return fv, op
	}
	if fv := SelField(info, sel.X); fv != nil {
		return fv, op
	}
	if v, ok := identObj(info, sel.X).(*types.Var); ok {
		return v, op
	}
	if se, ok := ast.Unparen(sel.X).(*ast.SelectorExpr); ok {
		if v, ok := info.Uses[se.Sel].(*types.Var); ok {
			return v, op
		}
	}
	return nil, ""
}

type lockInfo struct {
	must map[*Node]lockSet // held on every path before the node executes
	may  map[*Node]lockSet // held on some path before the node executes
}

var lockCache = map[*Func]*lockInfo{}

// Locks computes intraprocedural must/may lock sets (entry = no locks).
func (p *Prog) Locks(f *Func) *lockInfo {
	if li := lockCache[f]; li != nil {
		return li
	}
	g := p.Graph(f)
	gen := map[*Node][]*types.Var{}
	kill := map[*Node][]*types.Var{}
	universe := lockSet{}
	for _, n := range g.Nodes {
		if n.Ast == nil {
			continue
		}
		if _, isDefer := n.Ast.(*ast.DeferStmt); isDefer {
			continue // a deferred Unlock releases at exit: the lock stays held until then
		}
		if _, isGo := n.Ast.(*ast.GoStmt); isGo {
			continue
		}
		for _, call := range callsIn(n.Ast) {
			if v, op := p.lockOp(f, call); v != nil {
				universe[v] = true
				if op == "lock" {
					gen[n] = append(gen[n], v)
				} else {
					kill[n] = append(kill[n], v)
				}
			}
		}
	}
	li := &lockInfo{must: map[*Node]lockSet{}, may: map[*Node]lockSet{}}
	if len(universe) == 0 {
		for _, n := range g.Nodes {
			li.must[n] = lockSet{}
			li.may[n] = lockSet{}
		}
		lockCache[f] = li
		return li
	}
	out := func(in lockSet, n *Node) lockSet {
		o := in.clone()
		for _, v := range gen[n] {
			o[v] = true
		}
		for _, v := range kill[n] {
			delete(o, v)
		}
		return o
	}
	// may: union, start empty
	for _, n := range g.Nodes {
		li.may[n] = lockSet{}
	}
	changed := true
	for changed {
		changed = false
		for _, n := range g.Nodes {
			o := out(li.may[n], n)
			for _, e := range n.Succs {
				for v := range o {
					if !li.may[e.To][v] {
						li.may[e.To][v] = true
						changed = true
					}
				}
			}
		}
	}
	// must: intersection, start full except entry
	for _, n := range g.Nodes {
		if n == g.Entry {
			li.must[n] = lockSet{}
		} else {
			li.must[n] = universe.clone()
		}
	}
	changed = true
	for changed {
		changed = false
		for _, n := range g.Nodes {
			if n == g.Entry {
				continue
			}
			var acc lockSet
			for _, e := range n.Preds {
				o := out(li.must[e.From], e.From)
				if acc == nil {
					acc = o
				} else {
					for v := range acc {
						if !o[v] {
							delete(acc, v)
						}
					}
				}
			}
			if acc == nil {
				acc = lockSet{}
			}
			if len(acc) != len(li.must[n]) {
				li.must[n] = acc
				changed = true
			}
		}
	}
	lockCache[f] = li
	return li
}

// MustHeldAt returns the locks certainly held just before node n of f
// executes, including those every caller holds (EntryHeld).
func (p *Prog) MustHeldAt(f *Func, n *Node) lockSet {
	s := p.Locks(f).must[n].clone()
	for v := range p.EntryHeld(f) {
		s[v] = true
	}
	return s
}

var entryHeldCache = map[*Prog]map[*Func]lockSet{}

// EntryHeld: locks held at every call of f ("callers all hold it"). Exported
// functions and methods, functions without module callers, and goroutine
// bodies hold nothing at entry.
func (p *Prog) EntryHeld(f *Func) lockSet {
	m := entryHeldCache[p]
	if m == nil {
		m = p.computeEntryHeld()
		entryHeldCache[p] = m
	}
	return m[f]
}

func (p *Prog) computeEntryHeld() map[*Func]lockSet {
	ci := p.Calls()
	all := lockSet{}
	for _, f := range p.Funcs {
		li := p.Locks(f)
		for _, s := range li.may {
			for v := range s {
				all[v] = true
			}
		}
	}
	// literal creation sites that run the literal synchronously
	type litSite struct {
		parent *Func
		node   *Node
		kind   string
	}
	litSites := map[*Func][]litSite{}
	for _, f := range p.Funcs {
		for _, cs := range ci.sites[f] {
			for _, ce := range cs.Callees {
				if ce.Lit != nil {
					litSites[ce] = append(litSites[ce], litSite{f, cs.Node, cs.Kind})
				}
			}
			if cs.ViaOnce {
				for _, l := range cs.ArgLits {
					litSites[l] = append(litSites[l], litSite{f, cs.Node, "call"})
				}
			}
		}
	}
	held := map[*Func]lockSet{}
	open := func(f *Func) bool { // may be entered from outside the module or as a value
		if f.Lit != nil {
			return len(litSites[f]) == 0
		}
		if f.Obj != nil && f.Obj.Exported() {
			return true
		}
		if len(ci.callers[f]) == 0 {
			return true
		}
		// method values / function values taken (e.g. c.dialer): treat as open
		return p.takenAsValue(f)
	}
	for _, f := range p.Funcs {
		if open(f) {
			held[f] = lockSet{}
		} else {
			held[f] = all.clone()
		}
	}
	changed := true
	for changed {
		changed = false
		for _, f := range p.Funcs {
			if open(f) {
				continue
			}
			var acc lockSet
			meet := func(s lockSet) {
				if acc == nil {
					acc = s.clone()
					return
				}
				for v := range acc {
					if !s[v] {
						delete(acc, v)
					}
				}
			}
			if f.Lit != nil {
				for _, ls := range litSites[f] {
					if ls.kind == "go" || ls.node == nil {
						meet(lockSet{})
						continue
					}
					s := p.Locks(ls.parent).must[ls.node].clone()
					for v := range held[ls.parent] {
						s[v] = true
					}
					if ls.kind == "defer" {
						// runs at exit: locks released by non-deferred unlocks may be gone;
						// use the must-set at the function's exit instead.
						g := p.Graph(ls.parent)
						s = p.Locks(ls.parent).must[g.Exit].clone()
						// deferred unlocks registered before this defer run after it (LIFO),
						// so locks held at exit are still held.
						for v := range held[ls.parent] {
							s[v] = true
						}
					}
					meet(s)
				}
			} else {
				for _, cs := range ci.callers[f] {
					if cs.Kind == "go" || cs.Node == nil {
						meet(lockSet{})
						continue
					}
					s := p.Locks(cs.Caller).must[cs.Node].clone()
					for v := range held[cs.Caller] {
						s[v] = true
					}
					if cs.Kind == "defer" {
						g := p.Graph(cs.Caller)
						s = p.Locks(cs.Caller).must[g.Exit].clone()
						for v := range held[cs.Caller] {
							s[v] = true
						}
					}
					meet(s)
				}
			}
			if acc == nil {
				acc = lockSet{}
			}
			if len(acc) != len(held[f]) {
				held[f] = acc
				changed = true
			}
		}
	}
	return held
}

var takenCache = map[*Prog]map[*types.Func]bool{}

// takenAsValue reports whether the function is referenced other than as the
// callee of a call (method value, function value).
func (p *Prog) takenAsValue(f *Func) bool {
	m := takenCache[p]
	if m == nil {
		m = map[*types.Func]bool{}
		for _, sp := range scopePkgs {
			pk := p.Pkgs[sp]
			for _, file := range pk.Syntax {
				ast.Inspect(file, func(n ast.Node) bool {
					id, ok := n.(*ast.Ident)
					if !ok {
						return true
					}
					fo, ok := pk.TypesInfo.Uses[id].(*types.Func)
					if !ok {
						return true
					}
					// find the outermost selector this ident belongs to
					var e ast.Node = id
					if se, ok := p.Parent(id).(*ast.SelectorExpr); ok && se.Sel == id {
						e = se
					}
					par := p.Parent(e)
					for {
						if pe, ok := par.(*ast.ParenExpr); ok {
							e, par = pe, p.Parent(pe)
							continue
						}
						break
					}
					if call, ok := par.(*ast.CallExpr); ok && call.Fun == e {
						return true
					}
					m[fo] = true
					return true
				})
			}
		}
		takenCache[p] = m
	}
	return f.Obj != nil && m[f.Obj]
}

// ---------- R-LOCKPAIR and R-LOCKORDER ----------

// ruleLockPair: a mutex locked in a function is released on every path to the
// function's return: by a deferred unlock registered while it is held, or by
// an explicit unlock before the return.
func ruleLockPair(c *Ctx) {
	p := c.P
	n := 0
	for _, f := range p.Funcs {
		li := p.Locks(f)
		g := p.Graph(f)
		held := li.may[g.Exit]
		// locks acquired anywhere in f
		acquired := lockSet{}
		for _, call := range f.Calls() {
			if v, op := p.lockOp(f, call); v != nil && op == "lock" {
				acquired[v] = true
			}
		}
		for v := range acquired {
			n++
			construct := "lock/unlock pairing of " + p.lockName(v)
			if !held[v] {
				c.R.Hold("R-LOCKPAIR", p.Pos(f.Node()), f.Name, construct, "explicitly unlocked on every path to the return", true)
				continue
			}
			// held at exit on some path: every such path must have registered a deferred unlock
			isDeferUnlock := func(m *Node) bool {
				ds, ok := m.Ast.(*ast.DeferStmt)
				if !ok {
					return false
				}
				lv, op := p.lockOp(f, ds.Call)
				return lv == v && op == "unlock"
			}
			// paths from each lock acquisition to exit that avoid both an explicit unlock and a deferred unlock
			bad := false
			var witness []string
			for _, m := range g.Nodes {
				isLock := false
				if _, isDefer := m.Ast.(*ast.DeferStmt); isDefer {
					continue
				}
				for _, call := range callsIn(m.Ast) {
					if lv, op := p.lockOp(f, call); lv == v && op == "lock" {
						isLock = true
					}
				}
				if !isLock {
					continue
				}
				seen := g.ReachAfter(m, func(x *Node) bool {
					if isDeferUnlock(x) {
						return true
					}
					if _, isDefer := x.Ast.(*ast.DeferStmt); isDefer {
						return false
					}
					for _, call := range callsIn(x.Ast) {
						if lv, op := p.lockOp(f, call); lv == v && op == "unlock" {
							return true
						}
					}
					return false
				}, nil)
				if _, leak := seen[g.Exit]; leak {
					bad = true
					witness = p.PathTo(seen, g.Exit)
				}
			}
			if bad {
				c.R.Violate("R-LOCKPAIR", p.Pos(f.Node()), f.Name, construct,
					"there is a path on which "+p.lockName(v)+" is locked and the function returns without unlocking it (no deferred unlock was registered): every later user of the lock hangs", witness)
			} else {
				c.R.Hold("R-LOCKPAIR", p.Pos(f.Node()), f.Name, construct, "released by a deferred unlock registered right after the lock, on every path", true)
			}
		}
	}
	if n < 20 {
		c.R.Undecided("R-LOCKPAIR", "", "instance-floor", fmt.Sprintf("only %d lock acquisitions found, 25 were confirmed by hand", n))
	}
}

// ruleLockOrder: the "held while acquiring" relation between mutexes is acyclic
// (intra-procedural regions plus synchronous module callees).
func ruleLockOrder(c *Ctx) {
	p := c.P
	ci := p.Calls()
	// acquires(f): locks f may acquire synchronously, transitively
	acq := map[*Func]lockSet{}
	for _, f := range p.Funcs {
		s := lockSet{}
		for _, call := range f.Calls() {
			if v, op := p.lockOp(f, call); v != nil && op == "lock" {
				s[v] = true
			}
		}
		acq[f] = s
	}
	changed := true
	for changed {
		changed = false
		for _, f := range p.Funcs {
			for _, cs := range ci.sites[f] {
				if cs.Kind == "go" {
					continue
				}
				cands := append([]*Func{}, cs.Callees...)
				if cs.ViaOnce {
					cands = append(cands, cs.ArgLits...)
				}
				for _, ce := range cands {
					for v := range acq[ce] {
						if !acq[f][v] {
							acq[f][v] = true
							changed = true
						}
					}
				}
			}
		}
	}
	type edge struct{ a, b *types.Var }
	edges := map[edge]string{}
	// self re-acquisition: while a mutex of object X is held, a method is called
	// on the same X that (transitively) takes that mutex again. sync.Mutex is not
	// reentrant: the goroutine deadlocks with itself.
	nSelf := 0
	for _, f := range p.Funcs {
		li := p.Locks(f)
		g := p.Graph(f)
		info := f.Pkg.TypesInfo
		// owner expression of each mutex locked in f: c.l.Lock() -> "c"
		owner := map[*types.Var]string{}
		for _, call := range f.Calls() {
			if v, op := p.lockOp(f, call); v != nil && op == "lock" {
				if se, ok := ast.Unparen(call.Fun).(*ast.SelectorExpr); ok {
					if mu, ok := ast.Unparen(se.X).(*ast.SelectorExpr); ok {
						owner[v] = accessPath(info, mu.X)
					} else if id, ok := ast.Unparen(se.X).(*ast.Ident); ok {
						// embedded mutex: m.Lock()
						owner[v] = accessPath(info, id)
					}
				}
			}
		}
		for _, cs := range ci.sites[f] {
			if cs.Kind != "call" || cs.Node == nil || cs.Dynamic || cs.IsIface {
				continue
			}
			se, ok := ast.Unparen(cs.Call.Fun).(*ast.SelectorExpr)
			if !ok {
				continue
			}
			recv := accessPath(info, se.X)
			if recv == "" {
				continue
			}
			for h := range li.must[cs.Node] {
				if owner[h] == "" || owner[h] != recv {
					continue
				}
				for _, ce := range cs.Callees {
					if acq[ce][h] {
						nSelf++
						c.R.Violate("R-LOCKORDER/self", p.Pos(cs.Call), f.Name, "call "+ce.Name+" with "+p.lockName(h)+" held",
							"the call is made while "+p.lockName(h)+" of the same object is certainly held, and "+ce.Name+" acquires that mutex: sync.Mutex is not reentrant, so the goroutine deadlocks with itself (and every other user of the object behind it) whenever this statement executes", nil)
					}
				}
			}
		}
		// the same within one function (what is left of the above once the callee
		// has been inlined): a Lock of a mutex that is certainly held here
		for _, m := range g.Nodes {
			if m.Ast == nil {
				continue
			}
			if _, isDefer := m.Ast.(*ast.DeferStmt); isDefer {
				continue
			}
			for _, call := range callsIn(m.Ast) {
				v, op := p.lockOp(f, call)
				if v == nil || op != "lock" || p.rshadowOf[v] != nil {
					continue
				}
				if li.must[m][v] {
					nSelf++
					c.R.Violate("R-LOCKORDER/self", p.Pos(call), f.Name, "lock "+p.lockName(v)+" while it is held",
						p.lockName(v)+" is locked here although it is certainly held already on every path to this statement: sync.Mutex is not reentrant, so the goroutine deadlocks with itself (and every other user of the object behind it) whenever this statement executes", nil)
				}
			}
		}
	}
	if nSelf == 0 {
		c.R.Hold("R-LOCKORDER/self", "-", "", "no self re-acquisition", "no method that takes an object's mutex is called on that object while the mutex is certainly held", true)
	}
	for _, f := range p.Funcs {
		li := p.Locks(f)
		g := p.Graph(f)
		for _, m := range g.Nodes {
			if m.Ast == nil {
				continue
			}
			if _, isGo := m.Ast.(*ast.GoStmt); isGo {
				continue
			}
			heldHere := li.may[m]
			if len(heldHere) == 0 {
				continue
			}
			for _, call := range callsIn(m.Ast) {
				if v, op := p.lockOp(f, call); v != nil && op == "lock" {
					for h := range heldHere {
						if h != v {
							edges[edge{h, v}] = p.Pos(call) + " in " + f.Name
						}
					}
				}
			}
			for _, cs := range ci.sites[f] {
				if cs.Node != m || cs.Kind == "go" {
					continue
				}
				for _, ce := range cs.Callees {
					for v := range acq[ce] {
						for h := range heldHere {
							if h != v {
								edges[edge{h, v}] = p.Pos(cs.Call) + " in " + f.Name + " (via " + ce.Name + ")"
							}
						}
					}
				}
			}
		}
	}
	// cycle detection
	adj := map[*types.Var][]*types.Var{}
	for e := range edges {
		adj[e.a] = append(adj[e.a], e.b)
	}
	var cyc []string
	state := map[*types.Var]int{}
	var stack []*types.Var
	var dfs func(v *types.Var) bool
	dfs = func(v *types.Var) bool {
		state[v] = 1
		stack = append(stack, v)
		for _, w := range adj[v] {
			if state[w] == 1 {
				for i := len(stack) - 1; i >= 0; i-- {
					cyc = append(cyc, p.lockName(stack[i]))
					if stack[i] == w {
						break
					}
				}
				return true
			}
			if state[w] == 0 && dfs(w) {
				return true
			}
		}
		stack = stack[:len(stack)-1]
		state[v] = 2
		return false
	}
	found := false
	for v := range adj {
		if state[v] == 0 && dfs(v) {
			found = true
			break
		}
	}
	var desc []string
	for e, where := range edges {
		desc = append(desc, p.lockName(e.a)+" -> "+p.lockName(e.b)+" at "+where)
	}
	sort.Strings(desc)
	if found {
		c.R.Violate("R-LOCKORDER", "-", "", "lock order is acyclic", "mutexes are acquired in a cyclic order ("+strings.Join(cyc, " <- ")+"): two goroutines taking them in opposite order deadlock. Edges: "+strings.Join(desc, "; "), nil)
	} else {
		c.R.Hold("R-LOCKORDER", "-", "", "lock order is acyclic", fmt.Sprintf("%d held-while-acquiring edges, no cycle: %s", len(edges), strings.Join(desc, "; ")), true)
	}
}
