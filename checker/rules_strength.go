package main

import (
	"fmt"
	"go/ast"
	"go/token"
	"go/types"
	"sort"
	"strings"
)

// Rules added after seeded changes showed gaps (see DESIGN.md, seeded table).

// ---------- R-GUARD/getorcreate: lookup-or-create of a pending slot is one critical section ----------

func ruleGetOrCreate(c *Ctx) {
	p := c.P
	guard, names := p.resolveGuardTable(&Ctx{P: p, R: NewReport("", "")}, nil)
	n := 0
	for _, f := range p.Funcs {
		info := f.Pkg.TypesInfo
		g := p.Graph(f)
		// a comma-ok (or plain) read of m[k] and a store m[k] = v on the same guarded map
		type acc struct {
			n  *Node
			fv *types.Var
		}
		var reads, writes []acc
		for _, m := range g.Nodes {
			as, ok := m.Ast.(*ast.AssignStmt)
			if !ok {
				continue
			}
			for _, r := range as.Rhs {
				if ix, ok := ast.Unparen(r).(*ast.IndexExpr); ok {
					if fv := SelField(info, ix.X); fv != nil && guard[fv] != nil {
						reads = append(reads, acc{m, fv})
					}
				}
			}
			for _, l := range as.Lhs {
				if ix, ok := ast.Unparen(l).(*ast.IndexExpr); ok {
					if fv := SelField(info, ix.X); fv != nil && guard[fv] != nil {
						writes = append(writes, acc{m, fv})
					}
				}
			}
		}
		// a store is covered when some lookup of the same map dominates it and the
		// lock is held from that lookup to the store (double-checked creation:
		// a first lookup under a read lock, a second one under the write lock)
		covered := map[*Node]bool{}
		for _, r := range reads {
			for _, w := range writes {
				if r.fv != w.fv || !reachable(g, r.n, w.n) || !g.Dominates(r.n, w.n) {
					continue
				}
				lk := guard[r.fv]
				good := p.MustHeldAt(f, w.n)[lk] && p.MustHeldAt(f, r.n)[lk]
				for x := range g.ReachAfter(r.n, func(x *Node) bool { return x == w.n }, nil) {
					if x.Ast != nil && reachable(g, x, w.n) && !p.MustHeldAt(f, x)[lk] {
						good = false
					}
				}
				if good {
					covered[w.n] = true
				}
			}
		}
		for _, r := range reads {
			for _, w := range writes {
				if r.fv != w.fv || !reachable(g, r.n, w.n) {
					continue
				}
				n++
				lk := guard[r.fv]
				construct := "lookup-or-create on " + names[r.fv]
				if covered[w.n] {
					c.R.Hold("R-GUARD/getorcreate", p.Pos(w.n.Ast), f.Name, construct, p.lockName(lk)+" is held continuously from a lookup that dominates the store to the store", true)
					continue
				}
				bad := false
				seen := g.ReachAfter(r.n, func(x *Node) bool { return x == w.n }, nil)
				for x := range seen {
					if x.Ast == nil || !reachable(g, x, w.n) {
						continue
					}
					if !p.MustHeldAt(f, x)[lk] {
						bad = true
					}
				}
				if !p.MustHeldAt(f, w.n)[lk] || !p.MustHeldAt(f, r.n)[lk] {
					bad = true
				}
				if bad {
					c.R.Violate("R-GUARD/getorcreate", p.Pos(w.n.Ast), f.Name, construct,
						"the map is looked up and, on a miss, stored into in two separate critical sections: two goroutines asking for the same id at the same time each create an entry and one overwrites the other (accept and dial then wait on different slots)", nil)
				} else {
					c.R.Hold("R-GUARD/getorcreate", p.Pos(w.n.Ast), f.Name, construct, p.lockName(lk)+" is held continuously from the lookup to the store", true)
				}
			}
		}
	}
	if n < 3 {
		c.R.Undecided("R-GUARD/getorcreate", "", "instance-floor", fmt.Sprintf("only %d lookup-or-create sites on guarded maps found, 3 were confirmed by hand", n))
	}
}

// ---------- R-EXPIRY/nonblocking: the broker loops never wait for anything but their receive ----------

func ruleRunNonBlocking(c *Ctx) {
	p := c.P
	ci := p.Calls()
	for _, spec := range []struct{ fn, recv string }{
		{"MuxBroker.Run", "github.com/hashicorp/yamux.Session.AcceptStream"},
		{"GRPCBroker.Run", modPath + ".streamer.Recv"},
	} {
		f := p.Fn(spec.fn)
		if f == nil {
			c.R.Undecided("R-EXPIRY/nonblocking", spec.fn, "anchor", "function not found")
			continue
		}
		bad := false
		for _, op := range p.BlockOps(f) {
			if op.Class != "A" {
				bad = true
				c.R.Violate("R-EXPIRY/nonblocking", p.Pos(op.Ast), f.Name, "loop body does not wait: "+op.Desc,
					"the broker's dispatch loop contains a blocking operation: while it waits for one id, inbound connections for every other id queue behind it", nil)
			}
		}
		for _, cs := range ci.sites[f] {
			if cs.Kind == "go" || cs.Full == spec.recv {
				continue
			}
			for _, ce := range cs.Callees {
				if w := p.MayBlock(ce); w != nil {
					bad = true
					c.R.Violate("R-EXPIRY/nonblocking", p.Pos(cs.Call), f.Name, "loop body does not wait: call "+ce.Name,
						"the broker's dispatch loop synchronously calls "+ce.Name+", which waits ("+w.Desc+" in "+w.F.Name+"): one unmatched id stalls every other id on the connection", nil)
				}
			}
		}
		if !bad {
			c.R.Hold("R-EXPIRY/nonblocking", p.Pos(f.Node()), f.Name, "loop body does not wait", "apart from its receive, the dispatch loop contains only non-blocking operations; waiting is done in goroutines", true)
		}
	}
}

// ---------- R-SIB/stream: both broker stream pumps close their quit channel on every exit ----------

func ruleStreamClose(c *Ctx) {
	p := c.P
	n := 0
	for _, f := range p.Funcs {
		if f.Decl == nil || f.Obj == nil || f.Obj.Name() != "StartStream" || recvNamed(f) == "" {
			continue
		}
		// receiver type must have Send, Recv, Close (the streamer role)
		sig := f.Obj.Type().(*types.Signature)
		ms := types.NewMethodSet(sig.Recv().Type())
		hasAll := true
		for _, m := range []string{"Send", "Recv", "Close"} {
			if ms.Lookup(f.Obj.Pkg(), m) == nil {
				hasAll = false
			}
		}
		if !hasAll {
			continue
		}
		n++
		info := f.Pkg.TypesInfo
		g := p.Graph(f)
		var recvV types.Object
		if f.Decl.Recv != nil && len(f.Decl.Recv.List) == 1 && len(f.Decl.Recv.List[0].Names) == 1 {
			recvV = info.Defs[f.Decl.Recv.List[0].Names[0]]
		}
		isDeferClose := func(m *Node) bool {
			var call *ast.CallExpr
			switch st := m.Ast.(type) {
			case *ast.DeferStmt:
				call = st.Call
			case *ast.ExprStmt:
				// an explicit receiver.Close() in front of an early return
				call, _ = st.X.(*ast.CallExpr)
			}
			if call == nil {
				return false
			}
			se, ok := ast.Unparen(call.Fun).(*ast.SelectorExpr)
			return ok && se.Sel.Name == "Close" && identObj(info, se.X) == recvV
		}
		seen := g.Reach([]*Node{g.Entry}, isDeferClose, nil)
		if _, miss := seen[g.Exit]; miss {
			c.R.Violate("R-SIB/stream", p.Pos(f.Node()), f.Name, "pump closes the broker stream on every exit",
				"StartStream can return without closing the streamer's quit channel (e.g. when the stream cannot be opened because the plugin is already dead): Send/Recv, and therefore broker Accept/Dial, then block forever", p.PathTo(seen, g.Exit))
		} else {
			c.R.Hold("R-SIB/stream", p.Pos(f.Node()), f.Name, "pump closes the broker stream on every exit", "receiver.Close() is deferred, or called, before any return", true)
		}
	}
	if n < 2 {
		c.R.Undecided("R-SIB/stream", "", "instance-floor", fmt.Sprintf("only %d StartStream pumps found, 2 expected", n))
	}
}

// ---------- R-FRESH/msg: a value sent on a channel inside a loop is produced in that iteration ----------

func ruleFreshMsg(c *Ctx) {
	p := c.P
	n := 0
	for _, f := range p.Funcs {
		if !notTesting(p, f) {
			continue
		}
		info := f.Pkg.TypesInfo
		ast.Inspect(f.Body, func(x ast.Node) bool {
			var body *ast.BlockStmt
			switch l := x.(type) {
			case *ast.ForStmt:
				body = l.Body
			case *ast.RangeStmt:
				body = l.Body
			default:
				return true
			}
			walkNoLit(body, func(y ast.Node) bool {
				ss, ok := y.(*ast.SendStmt)
				if !ok {
					return true
				}
				v, ok := identObj(info, ss.Value).(*types.Var)
				if !ok || v.IsField() {
					return true
				}
				switch v.Type().Underlying().(type) {
				case *types.Pointer, *types.Slice, *types.Map:
				default:
					return true
				}
				// innermost loop only
				if inner := innermostLoop(p, ss); inner != x {
					return true
				}
				n++
				defined := false
				walkNoLit(body, func(z ast.Node) bool {
					switch s := z.(type) {
					case *ast.AssignStmt:
						for _, l := range s.Lhs {
							if identObj(info, l) == v && z.Pos() < ss.Pos() {
								defined = true
							}
						}
					case *ast.ValueSpec:
						for _, nm := range s.Names {
							if info.Defs[nm] == v {
								defined = true
							}
						}
					}
					return true
				})
				if r, ok := x.(*ast.RangeStmt); ok {
					if identObj(info, r.Value) == v || identObj(info, r.Key) == v {
						defined = true
					}
				}
				if !defined {
					// or re-bound after the hand-over: no path from the send back to it
					// without an assignment to the variable
					g := p.Graph(f)
					if sn := g.NodeOf(ss); sn != nil {
						rebinds := func(m *Node) bool {
							if m == sn || m.Ast == nil {
								return false
							}
							as, ok := m.Ast.(*ast.AssignStmt)
							if !ok {
								return false
							}
							for _, l := range as.Lhs {
								if identObj(info, l) == types.Object(v) {
									return true
								}
							}
							return false
						}
						var starts []*Node
						for _, e := range sn.Succs {
							starts = append(starts, e.To)
						}
						if _, again := g.Reach(starts, rebinds, nil)[sn]; !again {
							defined = true
						}
					}
				}
				construct := "value sent on " + p.chanDesc(f, ss.Chan)
				if defined {
					c.R.Hold("R-FRESH/msg", p.Pos(ss), f.Name, construct, "the sent reference is (re)bound inside the loop iteration before the send (or after it, on every path to the next send)", true)
				} else {
					c.R.Violate("R-FRESH/msg", p.Pos(ss), f.Name, construct,
						"the same object is sent on the channel in every iteration (it is bound outside the loop): a later message overwrites one that is still parked at the receiver, so an id can be handed another id's connection info", nil)
				}
				return true
			})
			return true
		})
	}
	if n < 3 {
		c.R.Undecided("R-FRESH/msg", "", "instance-floor", fmt.Sprintf("only %d in-loop sends of references found, 4 were confirmed by hand", n))
	}
}

func innermostLoop(p *Prog, n ast.Node) ast.Node {
	for cur := p.Parent(n); cur != nil; cur = p.Parent(cur) {
		switch cur.(type) {
		case *ast.ForStmt, *ast.RangeStmt:
			return cur
		case *ast.FuncLit, *ast.FuncDecl:
			return nil
		}
	}
	return nil
}

// ---------- R-ID/translate: the dialled address is the translated one ----------

func ruleTranslate(c *Ctx) {
	p := c.P
	for _, fn := range []string{"GRPCBroker.DialWithOptions", "Client.Start"} {
		f := p.Fn(fn)
		if f == nil {
			c.R.Undecided("R-ID/translate", fn, "anchor", "function not found")
			continue
		}
		info := f.Pkg.TypesInfo
		var nv, av types.Object
		ast.Inspect(f.Body, func(x ast.Node) bool {
			as, ok := x.(*ast.AssignStmt)
			if !ok || len(as.Rhs) != 1 || len(as.Lhs) != 3 {
				return true
			}
			if call, ok := ast.Unparen(as.Rhs[0]).(*ast.CallExpr); ok && strings.HasSuffix(p.CalleeName(f, call), "/runner.AddrTranslator.PluginToHost") {
				nv, av = identObj(info, as.Lhs[0]), identObj(info, as.Lhs[1])
			}
			return true
		})
		if nv == nil || av == nil {
			c.R.Violate("R-ID/translate", p.Pos(f.Node()), f.Name, "address translation", "the plugin-announced address is no longer passed through AddrTranslator.PluginToHost", nil)
			continue
		}
		ok := false
		bad := ""
		ast.Inspect(f.Body, func(x ast.Node) bool {
			sw, isSw := x.(*ast.SwitchStmt)
			if !isSw || sw.Tag == nil {
				return true
			}
			hasResolve := false
			ast.Inspect(sw.Body, func(y ast.Node) bool {
				if call, isC := y.(*ast.CallExpr); isC {
					nm := p.CalleeName(f, call)
					if nm == "net.ResolveTCPAddr" || nm == "net.ResolveUnixAddr" {
						hasResolve = true
						if identObj(info, call.Args[1]) != av {
							bad = "the address resolved is not the translated address"
						}
					}
				}
				return true
			})
			if !hasResolve {
				return true
			}
			if identObj(info, sw.Tag) == nv {
				ok = true
			} else {
				bad = "the network that selects tcp/unix resolution is " + exprStr(sw.Tag) + ", not the translated network"
			}
			return true
		})
		// ... and the translation has happened by then: with a translator present,
		// no path reaches a resolve call without passing the PluginToHost assignment
		if ok && bad == "" {
			g := p.Graph(f)
			isTr := func(m *Node) bool {
				if m.Ast == nil {
					return false
				}
				for _, call := range callsIn(m.Ast) {
					if strings.HasSuffix(p.CalleeName(f, call), "/runner.AddrTranslator.PluginToHost") {
						return true
					}
				}
				return false
			}
			noTranslator := func(e *Edge) bool {
				at, isAt := edgeAtom(info, e)
				if !isAt || at.Kind != "nil" || at.Op != token.EQL {
					return false
				}
				t := info.TypeOf(at.X)
				return t != nil && strings.HasSuffix(t.String(), "runner.AddrTranslator")
			}
			seen := g.Reach([]*Node{g.Entry}, isTr, noTranslator)
			for m := range seen {
				if m.Ast == nil {
					continue
				}
				for _, call := range callsIn(m.Ast) {
					if nm := p.CalleeName(f, call); nm == "net.ResolveTCPAddr" || nm == "net.ResolveUnixAddr" {
						bad = "the address is resolved on a path on which PluginToHost has not run yet (the translation comes too late to have an effect)"
					}
				}
			}
		}
		if ok && bad == "" {
			c.R.Hold("R-ID/translate", p.Pos(f.Node()), f.Name, "translated network and address are what is resolved", "the switch tag and the resolved address are the results of PluginToHost", true)
		} else {
			if bad == "" {
				bad = "no tcp/unix resolution switch on the translated network found"
			}
			c.R.Violate("R-ID/translate", p.Pos(f.Node()), f.Name, "translated network and address are what is resolved", bad+": with a runner whose translation changes the network the connection is dialled on the wrong transport", nil)
		}
	}
}

// ---------- constructors store the TLS config they are given ----------

func ruleCtorStoresTLS(c *Ctx) {
	p := c.P
	f := p.Fn("newGRPCBroker")
	if f == nil {
		c.R.Undecided("R-TLS/use", "newGRPCBroker", "anchor", "function not found")
		return
	}
	info := f.Pkg.TypesInfo
	var tlsP *types.Var
	for _, fd := range f.Type.Params.List {
		for _, nm := range fd.Names {
			if v, ok := info.Defs[nm].(*types.Var); ok && isTLSConfigType(v.Type()) {
				tlsP = v
			}
		}
	}
	tlsF := p.FieldObj(modPath, "GRPCBroker", "tls")
	ok := false
	ast.Inspect(f.Body, func(x ast.Node) bool {
		switch s := x.(type) {
		case *ast.KeyValueExpr:
			if k, isK := s.Key.(*ast.Ident); isK && info.Uses[k] == tlsF && tlsP != nil && identObj(info, s.Value) == tlsP {
				ok = true
			}
		case *ast.AssignStmt:
			for i, l := range s.Lhs {
				if SelField(info, l) == tlsF && i < len(s.Rhs) && tlsP != nil && identObj(info, s.Rhs[i]) == tlsP {
					ok = true
				}
			}
		}
		return true
	})
	if ok {
		c.R.Hold("R-TLS/use", p.Pos(f.Node()), f.Name, "constructor stores its TLS parameter", "GRPCBroker.tls is initialised from the *tls.Config parameter", true)
	} else {
		c.R.Violate("R-TLS/use", p.Pos(f.Node()), f.Name, "constructor stores its TLS parameter", "the broker constructor drops the TLS configuration it is given: every brokered server and dial silently falls back to plaintext", nil)
	}
}

// ---------- R-DRAIN/newline: the newline stripped by ReadLine is re-added exactly at line ends ----------

func ruleStderrNewline(c *Ctx) {
	p := c.P
	f := p.Fn("Client.logStderr")
	if f == nil {
		c.R.Undecided("R-DRAIN/newline", "Client.logStderr", "anchor", "function not found")
		return
	}
	info := f.Pkg.TypesInfo
	g := p.Graph(f)
	stderrF := p.FieldObj(modPath, "ClientConfig", "Stderr")
	var readN *Node
	var prefV, errV *types.Var
	for _, m := range g.Nodes {
		as, ok := m.Ast.(*ast.AssignStmt)
		if !ok || len(as.Rhs) != 1 || len(as.Lhs) != 3 {
			continue
		}
		if call, ok := ast.Unparen(as.Rhs[0]).(*ast.CallExpr); ok && p.CalleeName(f, call) == "bufio.Reader.ReadLine" {
			readN = m
			prefV, _ = identObj(info, as.Lhs[1]).(*types.Var)
			errV, _ = identObj(info, as.Lhs[2]).(*types.Var)
		}
	}
	if readN == nil || prefV == nil {
		// another reader idiom (ReadString/ReadBytes keep the delimiter): nothing to re-add
		c.R.Hold("R-DRAIN/newline", p.Pos(f.Node()), f.Name, "newline re-added at line ends", "the reader idiom in use does not strip the delimiter", false)
		return
	}
	isNL := func(m *Node) bool {
		for _, call := range callsIn(m.Ast) {
			se, ok := ast.Unparen(call.Fun).(*ast.SelectorExpr)
			if !ok || se.Sel.Name != "Write" || SelField(info, se.X) != stderrF || len(call.Args) != 1 {
				continue
			}
			if cl, ok := ast.Unparen(call.Args[0]).(*ast.CompositeLit); ok && len(cl.Elts) == 1 {
				if bl, ok := cl.Elts[0].(*ast.BasicLit); ok && bl.Value == `'\n'` {
					return true
				}
			}
		}
		return false
	}
	prefixEdge := func(e *Edge, want bool) bool {
		at, ok := edgeAtom(info, e)
		return ok && at.Kind == "bool" && identObj(info, at.X) == prefV && at.True == want
	}
	errEdge := func(e *Edge) bool {
		at, ok := edgeAtom(info, e)
		if !ok || identObj(info, at.X) != errV {
			return false
		}
		return (at.Kind == "nil" && at.Op == token.NEQ) || (at.Kind == "cmp" && at.Op == token.EQL)
	}
	// the prefix state of the previous chunk is carried into the next iteration:
	// some variable declared outside the read loop is assigned isPrefix
	{
		carried := false
		var loopPos, loopEnd token.Pos
		ast.Inspect(f.Body, func(x ast.Node) bool {
			if fs, ok := x.(*ast.ForStmt); ok && fs.Pos() <= readN.Ast.Pos() && readN.Ast.End() <= fs.End() {
				loopPos, loopEnd = fs.Pos(), fs.End()
			}
			return true
		})
		for _, m := range g.Nodes {
			as, ok := m.Ast.(*ast.AssignStmt)
			if !ok || len(as.Lhs) != len(as.Rhs) {
				continue
			}
			for i, r := range as.Rhs {
				if identObj(info, r) == prefV {
					if lv, ok := identObj(info, as.Lhs[i]).(*types.Var); ok && lv != prefV && (lv.Pos() < loopPos || lv.Pos() > loopEnd) {
						carried = true
					}
				}
			}
		}
		if carried {
			c.R.Hold("R-DRAIN/newline", p.Pos(readN.Ast), f.Name, "prefix state carried to the next chunk", "a variable declared outside the read loop is assigned isPrefix", true)
		} else {
			c.R.Violate("R-DRAIN/newline", p.Pos(readN.Ast), f.Name, "prefix state carried to the next chunk", "nothing records that the chunk just read was the prefix of a longer line: the rest of that line is then parsed and logged as if it were a line of its own (wrong level, a forged JSON record)", nil)
		}
	}
	// (a) a complete line (isPrefix false): a newline is written before the next read
	seenA := g.ReachAfter(readN, isNL, func(e *Edge) bool { return errEdge(e) || prefixEdge(e, true) })
	_, missA := seenA[readN]
	// (b) an incomplete chunk (isPrefix true): no newline is written before the next read
	seenB := g.ReachAfter(readN, func(x *Node) bool { return x == readN }, func(e *Edge) bool { return errEdge(e) || prefixEdge(e, false) })
	extraB := false
	for m := range seenB {
		if m.Ast != nil && isNL(m) {
			extraB = true
		}
	}
	if !missA && !extraB {
		c.R.Hold("R-DRAIN/newline", p.Pos(readN.Ast), f.Name, "newline re-added exactly at line ends", "after a read with isPrefix false every path writes '\\n' to config.Stderr before the next read; with isPrefix true none does", true)
	} else {
		why := "a completed stderr line can be forwarded without its newline"
		if extraB {
			why = "a newline is written to config.Stderr after a chunk that did not end its line (isPrefix true): long lines are forwarded with spurious newlines"
		}
		c.R.Violate("R-DRAIN/newline", p.Pos(readN.Ast), f.Name, "newline re-added exactly at line ends", why, nil)
	}
}

// ---------- panic-trace flag discipline (part of R-TABLE/levels) ----------

// The flag that turns unprefixed stderr lines into Error records is true at
// the next read exactly after a `panic:` line (and stays true over unprefixed
// lines), and false after every [LEVEL] line and every parsed hclog record;
// an unprefixed line is logged with Error iff the flag is set. Decided with
// the path domain (constant booleans), so it does not depend on where in the
// clause structure the assignments sit.
func rulePanicFlag(c *Ctx) {
	p := c.P
	f := p.Fn("Client.logStderr")
	if f == nil {
		c.R.Undecided("R-TABLE/levels", "Client.logStderr", "anchor", "function not found")
		return
	}
	info := f.Pkg.TypesInfo
	g := p.Graph(f)
	isLogger := func(e ast.Expr) bool {
		t := info.TypeOf(e)
		return t != nil && strings.HasSuffix(t.String(), "go-hclog.Logger")
	}
	var readN *Node
	for _, m := range g.Nodes {
		for _, call := range callsIn(m.Ast) {
			if strings.HasPrefix(p.CalleeName(f, call), "bufio.Reader.Read") {
				readN = m
			}
		}
	}
	// prefix tests: edges on which strings.HasPrefix(line, K) holds / does not hold
	type pe struct {
		pre  string
		t, f *Edge
	}
	var prefixes []pe
	for _, m := range g.Nodes {
		var cur pe
		for _, e := range m.Succs {
			at, ok := edgeAtom(info, e)
			if !ok || at.Kind != "call" {
				continue
			}
			call := at.X.(*ast.CallExpr)
			if p.CalleeName(f, call) != "strings.HasPrefix" {
				continue
			}
			k, isK := constString(info, call.Args[1])
			if !isK {
				continue
			}
			cur.pre = k
			if at.True {
				cur.t = e
			} else {
				cur.f = e
			}
		}
		if cur.t != nil && cur.f != nil {
			prefixes = append(prefixes, cur)
		}
	}
	// the flag: the bool local that guards an Error call in the fallback after all prefix tests failed
	var flag *types.Var
	for _, m := range g.Nodes {
		for _, e := range m.Succs {
			at, ok := edgeAtom(info, e)
			if !ok || at.Kind != "bool" {
				continue
			}
			if v, isV := identObj(info, at.X).(*types.Var); isV && !v.IsField() && types.Identical(v.Type(), types.Typ[types.Bool]) {
				for _, px := range prefixes {
					if px.pre != "panic:" {
						continue
					}
					// within the same iteration: reachable without passing a read
					seen := g.Reach([]*Node{px.f.To}, func(x *Node) bool {
						for _, call := range callsIn(x.Ast) {
							if strings.HasPrefix(p.CalleeName(f, call), "bufio.Reader.Read") {
								return true
							}
						}
						return false
					}, nil)
					if _, ok := seen[m]; ok {
						flag = v
					}
				}
			}
		}
	}
	if readN == nil || flag == nil || len(prefixes) < 6 {
		c.R.Violate("R-TABLE/levels", p.Pos(f.Node()), f.Name, "panic-trace flag", fmt.Sprintf("no flag selects Error for unprefixed lines inside a panic trace (read=%v flag=%v prefixes=%d)", readN != nil, flag != nil, len(prefixes)), nil)
		return
	}
	fk := "P:" + varKey(flag)
	flagAtNextRead := func(from *Node, init Store) (vals map[string]bool) {
		vals = map[string]bool{}
		st := p.FeasibleStates(f, []*Node{from}, init, nil, nil, nil, func(x *Node) bool { return x == readN })
		for _, s := range st[readN] {
			v := s.Get(fk)
			if v == "" {
				v = "?"
			}
			vals[v] = true
		}
		return
	}
	var probs []string
	for _, px := range prefixes {
		for _, start := range []string{"true", "false"} {
			vals := flagAtNextRead(px.t.To, NewStore().With(fk, start))
			want := "false"
			if px.pre == "panic:" {
				want = "true"
			}
			if len(vals) != 1 || !vals[want] {
				probs = append(probs, fmt.Sprintf("after a %q line (flag was %s) the flag is %v at the next read, want %s", px.pre, start, keysOf(vals), want))
			}
		}
	}
	// parsed hclog record: the success edge of the JSON parse
	var parseErr *types.Var
	var parseN *Node
	for _, m := range g.Nodes {
		if as, ok := m.Ast.(*ast.AssignStmt); ok && len(as.Lhs) == 2 && len(as.Rhs) == 1 {
			if call, ok := ast.Unparen(as.Rhs[0]).(*ast.CallExpr); ok {
				if ce := p.FnOf(asFunc(p.Callee(f, call))); ce != nil && p.callsAny(ce, "encoding/json.Unmarshal") {
					parseErr, _ = identObj(info, as.Lhs[1]).(*types.Var)
					parseN = m
				}
			}
		}
	}
	nJSON := 0
	if parseErr != nil {
		for _, m := range g.Nodes {
			for _, e := range m.Succs {
				at, ok := edgeAtom(info, e)
				if !ok || at.Kind != "nil" || at.Op != token.EQL || identObj(info, at.X) != parseErr || !g.Dominates(parseN, m) {
					continue
				}
				nJSON++
				vals := flagAtNextRead(e.To, NewStore().With(fk, "true"))
				if len(vals) != 1 || !vals["false"] {
					probs = append(probs, fmt.Sprintf("after a parsed hclog record the flag is %v at the next read, want false", keysOf(vals)))
				}
			}
		}
	}
	if nJSON == 0 {
		probs = append(probs, "the JSON parse success edge was not found")
	}
	// unprefixed line: Error iff flag. Start where the last prefix test failed.
	var lastFalse *Node
	for _, px := range prefixes {
		isLast := true
		within := g.Reach([]*Node{px.f.To}, func(x *Node) bool { return x == readN }, nil)
		for _, py := range prefixes {
			if _, r := within[py.t.From]; r && py.t != px.t {
				isLast = false
			}
		}
		if isLast {
			lastFalse = px.f.To
		}
	}
	if lastFalse == nil {
		probs = append(probs, "the fallback after the prefix tests was not found")
	} else {
		for _, start := range []string{"true", "false"} {
			st := p.FeasibleStates(f, []*Node{lastFalse}, NewStore().With(fk, start), func(x *Node) bool { return x == readN }, nil, nil, nil)
			methods := map[string]bool{}
			for m := range st {
				if m.Ast == nil {
					continue
				}
				for _, call := range callsIn(m.Ast) {
					if se, ok := call.Fun.(*ast.SelectorExpr); ok && isLogger(se.X) {
						methods[se.Sel.Name] = true
					}
				}
			}
			want := "Debug"
			if start == "true" {
				want = "Error"
			}
			if len(methods) != 1 || !methods[want] {
				probs = append(probs, fmt.Sprintf("an unprefixed line with the flag %s is logged with %v, want %s", start, keysOf(methods), want))
			}
			// and keeps the flag
			vals := flagAtNextRead(lastFalse, NewStore().With(fk, start))
			if len(vals) != 1 || !vals[start] {
				probs = append(probs, fmt.Sprintf("an unprefixed line changes the flag from %s to %v", start, keysOf(vals)))
			}
		}
	}
	if len(probs) == 0 {
		c.R.Hold("R-TABLE/levels", p.Pos(f.Node()), f.Name, "panic-trace flag", fmt.Sprintf("true at the next read exactly after a `panic:` line, false after each of the other %d prefixes and after a parsed hclog record; unprefixed lines are logged with Error iff it is set and leave it unchanged", len(prefixes)-1), true)
	} else {
		c.R.Violate("R-TABLE/levels", p.Pos(f.Node()), f.Name, "panic-trace flag", "the panic-trace fallback level is wrong: "+strings.Join(probs, "; "), nil)
	}
}

func keysOf(m map[string]bool) []string {
	var out []string
	for k := range m {
		out = append(out, k)
	}
	sort.Strings(out)
	return out
}

// ---------- the context given to runner.Kill never expires ----------

func ruleKillCtx(c *Ctx) {
	p := c.P
	n := 0
	for _, f := range p.Funcs {
		if !notTesting(p, f) {
			continue
		}
		for _, call := range f.Calls() {
			if p.CalleeName(f, call) != modPath+"/runner.AttachedRunner.Kill" || len(call.Args) != 1 {
				continue
			}
			n++
			org := p.ctxOrigin(f, call.Args[0])
			if org == "" || org == "?" {
				// a variable of an enclosing function
				for q := f.Parent; q != nil && (org == "" || org == "?" || strings.HasPrefix(org, "parameter")); q = q.Parent {
					org = p.ctxOrigin(q, call.Args[0])
				}
			}
			if strings.HasPrefix(org, "parameter") && f.Parent != nil {
				for q := f.Parent; q != nil; q = q.Parent {
					if o2 := p.ctxOrigin(q, call.Args[0]); !strings.HasPrefix(o2, "parameter") && o2 != "?" {
						org = o2
					}
				}
			}
			construct := "context of runner.Kill"
			if org == "context.Background" || org == "context.TODO" || org == "context.WithoutCancel" {
				c.R.Hold("R-EXIT/killctx", p.Pos(call), f.Name, construct, org+"(): the kill request cannot be pre-empted by an expired deadline or a cancellation", true)
			} else {
				c.R.Violate("R-EXIT/killctx", p.Pos(call), f.Name, construct,
					"the plugin is killed with a context that can already be cancelled or expired (origin: "+org+"): a runner that honours its context refuses the kill, e.g. after a start timeout, and the process is left running", nil)
			}
		}
	}
	if n < 2 {
		c.R.Undecided("R-EXIT/killctx", "", "instance-floor", fmt.Sprintf("only %d runner.Kill calls found, 2 expected (Start's cleanup, Client.Kill)", n))
	}
}

// onlyObligations runs rule on a scratch report and keeps the obligations the
// filter accepts (used to share one clause of a larger rule with another
// property without importing its whole table).
func onlyObligations(rule func(*Ctx), keep func(*Obligation) bool) func(*Ctx) {
	return func(c *Ctx) {
		tmp := NewReport(c.R.Prop, c.R.Tier)
		rule(&Ctx{P: c.P, R: tmp, Thorough: c.Thorough})
		for _, o := range tmp.Obs {
			if keep(o) {
				c.R.add(o)
			}
		}
	}
}

// ---------- R-DEADLINE ----------

// ruleDeadline — no absolute I/O deadline stays armed on a connection that
// outlives the function. SetDeadline/SetReadDeadline/SetWriteDeadline take a
// point in time, not a per-operation timeout: a deadline armed for a
// negotiation and not cleared for the same direction fires later on a healthy
// long-lived connection (writes fail with "i/o deadline reached", bytes are
// lost). For every arming call, every path to the function's exit must pass a
// call that clears that direction on the same connection (zero time), or
// close the connection.
func ruleDeadline(c *Ctx) {
	p := c.P
	n := 0
	for _, f := range p.Funcs {
		if !notTesting(p, f) {
			continue
		}
		info := f.Pkg.TypesInfo
		g := p.Graph(f)
		type dl struct {
			node  *Node
			conn  string
			dirs  string // "R", "W" or "RW"
			clear bool
			call  *ast.CallExpr
		}
		var calls []dl
		for _, call := range f.Calls() {
			se, ok := ast.Unparen(call.Fun).(*ast.SelectorExpr)
			if !ok || len(call.Args) != 1 {
				continue
			}
			dirs := ""
			switch se.Sel.Name {
			case "SetDeadline":
				dirs = "RW"
			case "SetReadDeadline":
				dirs = "R"
			case "SetWriteDeadline":
				dirs = "W"
			default:
				continue
			}
			if sig, ok := info.TypeOf(call.Fun).(*types.Signature); !ok || sig.Params().Len() != 1 || sig.Params().At(0).Type().String() != "time.Time" {
				continue
			}
			zero := false
			if cl, ok := ast.Unparen(call.Args[0]).(*ast.CompositeLit); ok && len(cl.Elts) == 0 {
				zero = true
			}
			calls = append(calls, dl{g.NodeOf(call), exprStr(se.X), dirs, zero, call})
		}
		for _, a := range calls {
			if a.clear || a.node == nil {
				continue
			}
			n++
			for _, dir := range []string{"R", "W"} {
				if !strings.Contains(a.dirs, dir) {
					continue
				}
				cleared := func(m *Node) bool {
					for _, b := range calls {
						if b.node == m && b.clear && b.conn == a.conn && strings.Contains(b.dirs, dir) {
							return true
						}
					}
					// closing the connection ends its life
					for _, call := range callsIn(m.Ast) {
						if se, ok := ast.Unparen(call.Fun).(*ast.SelectorExpr); ok && se.Sel.Name == "Close" && exprStr(se.X) == a.conn {
							return true
						}
					}
					return false
				}
				seen := g.ReachAfter(a.node, cleared, nil)
				name := map[string]string{"R": "read", "W": "write"}[dir]
				if _, leaks := seen[g.Exit]; leaks {
					c.R.Violate("R-DEADLINE", p.Pos(a.call), f.Name, name+" deadline on "+a.conn,
						"an absolute "+name+" deadline is armed on the connection and there is a path to the function's exit on which it is neither cleared for that direction nor the connection closed: the deadline fires later on the healthy connection and "+name+"s fail (data lost, calls cut short)", p.PathTo(seen, g.Exit))
				} else {
					c.R.Hold("R-DEADLINE", p.Pos(a.call), f.Name, name+" deadline on "+a.conn, "cleared or connection closed on every path to the exit", true)
				}
			}
		}
	}
	if n == 0 {
		c.R.Hold("R-DEADLINE", "-", "", "no absolute I/O deadline is armed anywhere in scope", "0 SetDeadline/SetReadDeadline/SetWriteDeadline calls with a non-zero time", false)
	}
}

// ---------- R-ID/role ----------

// ruleIDRoles — the gRPC broker keeps two pending tables keyed by id, one per
// role: serverStreams for ids this side accepted (its own NextId namespace),
// clientStreams for ids this side dials (the peer's namespace). Both sides
// count from 1, so equal numbers denote different connections: code acting in
// one role must never touch the other role's table. Accept-side functions
// (and everything they call or start) may only access serverStreams;
// dial-side functions only clientStreams.
func ruleIDRoles(c *Ctx) {
	p := c.P
	roles := []struct {
		roots  []string
		forbid string
		role   string
	}{
		{[]string{"GRPCBroker.Accept", "GRPCBroker.AcceptAndServe", "GRPCBroker.listenForKnocks"}, "GRPCBroker.clientStreams", "accept"},
		{[]string{"GRPCBroker.DialWithOptions", "GRPCBroker.Dial", "GRPCBroker.knock", "GRPCBroker.muxDial", "GRPCBroker.timeoutWait"}, "GRPCBroker.serverStreams", "dial"},
	}
	for _, r := range roles {
		var roots []*Func
		for _, nm := range r.roots {
			if f := p.Fn(nm); f != nil {
				roots = append(roots, f)
			} else {
				c.R.Undecided("R-ID/role", nm, "anchor", "function not found")
			}
		}
		reach := p.ReachableFuncs(roots, true)
		bad := false
		for rf := range reach {
			// a callee shared by both roles (Run is not reachable from either) is fine as long as it does not touch the table
			for _, a := range p.fieldAccesses(rf, func(v *types.Var) bool { return v.IsField() && p.FieldName(v) == r.forbid }) {
				bad = true
				c.R.Violate("R-ID/role", p.Pos(a.sel), rf.Name, r.role+"-side code touches "+r.forbid,
					"code reachable from the "+r.role+" side of the broker accesses the other role's pending table: the two id namespaces overlap numerically, so this disturbs an unrelated connection with the same number (lost ack / stale knock)", nil)
			}
		}
		if !bad {
			c.R.Hold("R-ID/role", "-", strings.Join(r.roots, ","), r.role+"-side code never touches "+r.forbid, fmt.Sprintf("%d functions reachable from the %s side inspected", len(reach), r.role), true)
		}
	}
}

// ---------- R-ORDER/stdio: chunks are forwarded by the loop that received them ----------

// ruleStdioSequential — every loop on the synced-stdio path forwards the chunk
// it just received itself, in the same goroutine: no `go` statement inside the
// loop body. (Handing each chunk to a fresh goroutine lets later chunks of the
// same stream overtake earlier ones: bytes arrive out of order.)
func ruleStdioSequential(c *Ctx) {
	p := c.P
	n := 0
	for _, nm := range []string{"grpcStdioClient.Run", "grpcStdioServer.StreamStdio", "copyChan", "copyStream", "Client.logStderr"} {
		f := p.Fn(nm)
		if f == nil {
			c.R.Undecided("R-ORDER/stdio", nm, "anchor", "function not found")
			continue
		}
		loops := 0
		bad := false
		walkNoLit(f.Body, func(x ast.Node) bool {
			var body *ast.BlockStmt
			switch l := x.(type) {
			case *ast.ForStmt:
				body = l.Body
			case *ast.RangeStmt:
				body = l.Body
			}
			if body == nil {
				return true
			}
			loops++
			ast.Inspect(body, func(y ast.Node) bool {
				if gs, ok := y.(*ast.GoStmt); ok {
					bad = true
					c.R.Violate("R-ORDER/stdio", p.Pos(gs), f.Name, "chunk forwarded by the receiving loop",
						"a goroutine is started per received chunk inside the forwarding loop: chunks of one stream can overtake each other, so output arrives out of order", nil)
				}
				return true
			})
			return true
		})
		n++
		if !bad {
			c.R.Hold("R-ORDER/stdio", p.Pos(f.Node()), f.Name, "chunk forwarded by the receiving loop", fmt.Sprintf("%d loop(s), no go statement inside", loops), false)
		}
	}
	if n < 4 {
		c.R.Undecided("R-ORDER/stdio", "", "instance-floor", "fewer than 4 functions of the stdio path found")
	}
}

// ---------- R-SIB/runnerkill, R-ORDER/O1 path immutability ----------

// ruleRunnerKill — sibling implementations of runner Kill in the module
// (started process, reattached process) signal the process on every path:
// the only way to return without calling os.Process.Kill is the edge on which
// the *os.Process is nil (never started).
func ruleRunnerKill(c *Ctx) {
	p := c.P
	n := 0
	for _, f := range p.Funcs {
		if f.Decl == nil || f.Obj == nil || f.Obj.Name() != "Kill" || f.Decl.Recv == nil || f.Pkg.PkgPath != modPath+"/internal/cmdrunner" {
			continue
		}
		sig := f.Obj.Type().(*types.Signature)
		if sig.Params().Len() != 1 || sig.Results().Len() != 1 || !isErrorType(sig.Results().At(0).Type()) {
			continue
		}
		n++
		info := f.Pkg.TypesInfo
		g := p.Graph(f)
		kills := func(m *Node) bool {
			for _, call := range callsIn(m.Ast) {
				switch p.CalleeName(f, call) {
				case "os.Process.Kill":
					return true
				case "os.Process.Signal":
					// only the signal that cannot be caught or ignored counts (Serve
					// deliberately swallows interrupts)
					if len(call.Args) == 1 {
						switch objFullName(objOfExpr(info, call.Args[0])) {
						case "os.Kill", "syscall.SIGKILL":
							return true
						}
					}
				}
			}
			return false
		}
		procNil := func(e *Edge) bool {
			at, ok := edgeAtom(info, e)
			if !ok || at.Kind != "nil" || at.Op != token.EQL {
				return false
			}
			t := info.TypeOf(at.X)
			return t != nil && t.String() == "*os.Process"
		}
		seen := g.Reach([]*Node{g.Entry}, kills, procNil)
		if _, miss := seen[g.Exit]; miss {
			c.R.Violate("R-SIB/runnerkill", p.Pos(f.Node()), f.Name, "Kill signals the process", "there is a path through the runner's Kill that returns without calling os.Process.Kill although a process exists: Client.Kill then waits for an exit that never comes (or reports a live plugin as killed)", p.PathTo(seen, g.Exit))
		} else {
			c.R.Hold("R-SIB/runnerkill", p.Pos(f.Node()), f.Name, "Kill signals the process", "every path with a non-nil *os.Process calls os.Process.Kill", true)
		}
	}
	if n < 2 {
		c.R.Undecided("R-SIB/runnerkill", "", "instance-floor", fmt.Sprintf("only %d runner Kill implementations found in internal/cmdrunner, 2 expected", n))
	}
}

// ruleCmdPathImmutable — nothing in the module assigns exec.Cmd.Path (or
// exec.Cmd.Args): the file SecureConfig.Check hashed is the file that is
// executed.
func ruleCmdPathImmutable(c *Ctx) {
	p := c.P
	pathF := p.fieldByQualifiedName("os/exec", "Cmd", "Path")
	argsF := p.fieldByQualifiedName("os/exec", "Cmd", "Args")
	if pathF == nil {
		c.R.Undecided("R-ORDER/O1", "exec.Cmd.Path", "anchor", "field not resolved")
		return
	}
	bad := false
	for _, f := range p.Funcs {
		if !notTesting(p, f) {
			continue
		}
		info := f.Pkg.TypesInfo
		ast.Inspect(f.Body, func(x ast.Node) bool {
			as, ok := x.(*ast.AssignStmt)
			if !ok {
				return true
			}
			for _, l := range as.Lhs {
				fv := SelField(info, l)
				if ix, isIx := ast.Unparen(l).(*ast.IndexExpr); isIx {
					fv = SelField(info, ix.X)
					if fv != argsF {
						fv = nil
					}
				}
				if fv != nil && (fv == pathF || fv == argsF) {
					bad = true
					c.R.Violate("R-ORDER/O1", p.Pos(as), f.Name, "the verified command path is what is executed", "the module rewrites exec.Cmd."+fv.Name()+" of the caller's command: the file that is executed need not be the file SecureConfig.Check hashed", nil)
				}
			}
			return true
		})
	}
	if !bad {
		c.R.Hold("R-ORDER/O1", "-", "", "the verified command path is what is executed", "no assignment to exec.Cmd.Path / exec.Cmd.Args anywhere in scope", false)
	}
}

// ---------- R-ORDER/O6 serve-after-print cannot bail out ----------

// ruleServeServes — the ServerProtocol.Serve implementations are started
// after the handshake line was printed; from then on the host believes the
// announced address is being served. Every path through them must therefore
// reach the accept loop on the listener they were given (grpc.Server.Serve(lis)
// / lis.Accept()): nothing that can fail (and return) may be placed before it —
// such set-up belongs in Init, which runs before the print.
func ruleServeServes(c *Ctx) {
	p := c.P
	n := 0
	for _, f := range p.Funcs {
		if f.Decl == nil || f.Obj == nil || f.Obj.Name() != "Serve" || f.Decl.Recv == nil || f.Pkg.PkgPath != modPath {
			continue
		}
		sig := f.Obj.Type().(*types.Signature)
		if sig.Params().Len() != 1 || sig.Params().At(0).Type().String() != "net.Listener" || sig.Results().Len() != 0 {
			continue
		}
		n++
		info := f.Pkg.TypesInfo
		g := p.Graph(f)
		lis := sig.Params().At(0)
		serves := func(m *Node) bool {
			for _, call := range callsIn(m.Ast) {
				switch p.CalleeName(f, call) {
				case "google.golang.org/grpc.Server.Serve":
					if len(call.Args) == 1 && identObj(info, call.Args[0]) == lis {
						return true
					}
				case "net.Listener.Accept":
					if se, ok := ast.Unparen(call.Fun).(*ast.SelectorExpr); ok && identObj(info, se.X) == lis {
						return true
					}
				}
			}
			return false
		}
		seen := g.Reach([]*Node{g.Entry}, serves, nil)
		if _, miss := seen[g.Exit]; miss {
			c.R.Violate("R-ORDER/O6", p.Pos(f.Node()), f.Name, "Serve reaches the accept loop on every path", "the protocol server can return before it starts accepting on the listener whose address was already announced in the handshake line (fallible set-up placed after the print instead of in Init): the host connects to an address nobody serves", p.PathTo(seen, g.Exit))
		} else {
			c.R.Hold("R-ORDER/O6", p.Pos(f.Node()), f.Name, "Serve reaches the accept loop on every path", "no return before the listener given to Serve is being accepted on", true)
		}
	}
	if n < 2 {
		c.R.Undecided("R-ORDER/O6", "", "instance-floor", fmt.Sprintf("only %d ServerProtocol.Serve implementations found, 2 expected", n))
	}
}

// ---------- R-SIB/switch: the yamux server muxer wraps the listener only for gRPC ----------

// ruleMuxOnlyGRPC — in Serve the listener is wrapped in the gRPC broker
// multiplexer only on the gRPC arm of the protocol switch. The net/rpc server
// speaks yamux itself on the raw connection; behind the multiplexer a net/rpc
// plugin would be unreachable for a host that allows both protocols and
// requests multiplexing.
func ruleMuxOnlyGRPC(c *Ctx) {
	p := c.P
	f := p.Fn("Serve")
	if f == nil {
		c.R.Undecided("R-SIB/switch", "Serve", "anchor", "function not found")
		return
	}
	info := f.Pkg.TypesInfo
	g := p.Graph(f)
	n := 0
	for _, call := range f.Calls() {
		if p.CalleeName(f, call) != modPath+"/internal/grpcmux.NewGRPCServerMuxer" {
			continue
		}
		n++
		node := g.NodeOf(call)
		ok := node != nil && g.OnlyViaEdge(node, func(e *Edge) bool {
			if e.Tag == nil || e.Branch <= 0 || e.Cond == nil {
				// if protoType == ProtocolGRPC { ... }
				at, isAt := edgeAtom(info, e)
				if isAt && at.Kind == "cmp" && at.Op == token.EQL {
					return objFullName(objOfExpr(info, at.Y)) == modPath+".ProtocolGRPC" || objFullName(objOfExpr(info, at.X)) == modPath+".ProtocolGRPC"
				}
				return false
			}
			return objFullName(objOfExpr(info, e.Cond)) == modPath+".ProtocolGRPC"
		})
		if ok {
			c.R.Hold("R-SIB/switch", p.Pos(call), f.Name, "server muxer only on the gRPC arm", "NewGRPCServerMuxer is reachable only through the ProtocolGRPC case", true)
		} else {
			c.R.Violate("R-SIB/switch", p.Pos(call), f.Name, "server muxer only on the gRPC arm", "the listener can be wrapped in the gRPC multiplexer for a net/rpc plugin: a host that allows both protocols and requests multiplexing then fails on first use with a transport error instead of working", nil)
		}
	}
	if n == 0 {
		c.R.Undecided("R-SIB/switch", f.Name, "server muxer", "no call of grpcmux.NewGRPCServerMuxer found in Serve")
		return
	}
	// the muxer that wraps the listener is the one the gRPC server (and through
	// it the broker) is given: same variable, by identity
	var muxVar *types.Var
	for _, call := range f.Calls() {
		if p.CalleeName(f, call) == modPath+"/internal/grpcmux.NewGRPCServerMuxer" {
			muxVar = assignedVar(p, info, call)
		}
	}
	given := false
	nLit := 0
	ast.Inspect(f.Body, func(x ast.Node) bool {
		cl, ok := x.(*ast.CompositeLit)
		if !ok {
			return true
		}
		if t := info.TypeOf(cl); t == nil || !strings.HasSuffix(t.String(), "go-plugin.GRPCServer") {
			return true
		}
		nLit++
		for _, el := range cl.Elts {
			if kv, ok := el.(*ast.KeyValueExpr); ok {
				if k, ok := kv.Key.(*ast.Ident); ok {
					if fv, isF := info.Uses[k].(*types.Var); isF && p.FieldName(fv) == "GRPCServer.muxer" && muxVar != nil && identObj(info, kv.Value) == muxVar {
						given = true
					}
				}
			}
		}
		return true
	})
	// ... and it really wraps the listener that is served
	{
		var servedL *types.Var
		for _, call := range f.Calls() {
			if p.CalleeName(f, call) == modPath+".ServerProtocol.Serve" && len(call.Args) == 1 {
				servedL, _ = identObj(info, call.Args[0]).(*types.Var)
			}
		}
		// copies var <- var (incl. the temporaries an inlined helper's results go through)
		from := map[types.Object][]types.Object{}
		ast.Inspect(f.Body, func(x ast.Node) bool {
			if as, ok := x.(*ast.AssignStmt); ok && len(as.Lhs) == len(as.Rhs) {
				for i, l := range as.Lhs {
					lo, ro := identObj(info, l), identObj(info, as.Rhs[i])
					if lo != nil && ro != nil {
						from[lo] = append(from[lo], ro)
					}
				}
			}
			return true
		})
		wraps := false
		seenO := map[types.Object]bool{}
		var walkO func(o types.Object, d int)
		walkO = func(o types.Object, d int) {
			if o == nil || seenO[o] || d > 6 {
				return
			}
			seenO[o] = true
			if muxVar != nil && o == types.Object(muxVar) {
				wraps = true
				return
			}
			for _, r := range from[o] {
				walkO(r, d+1)
			}
		}
		if servedL != nil {
			walkO(servedL, 0)
		}
		if servedL == nil {
			c.R.Undecided("R-SIB/switch", f.Name, "server muxer wraps the served listener", "the listener passed to ServerProtocol.Serve is not a variable")
		} else if wraps {
			c.R.Hold("R-SIB/switch", p.Pos(f.Node()), f.Name, "server muxer wraps the served listener", "the listener variable that is served is assigned the muxer", true)
		} else {
			c.R.Violate("R-SIB/switch", p.Pos(f.Node()), f.Name, "server muxer wraps the served listener",
				"the multiplexer is created but the listener that is served is never replaced by it: the plugin announces multiplexing support and serves the raw listener, so the host's yamux session meets a gRPC server and every call fails", nil)
		}
	}
	if nLit == 0 {
		c.R.Undecided("R-SIB/switch", f.Name, "server muxer handed to the gRPC server", "no GRPCServer literal found in Serve")
	} else if given {
		c.R.Hold("R-SIB/switch", p.Pos(f.Node()), f.Name, "server muxer handed to the gRPC server", "GRPCServer{muxer: v} with the variable that NewGRPCServerMuxer was assigned to", true)
	} else {
		c.R.Violate("R-SIB/switch", p.Pos(f.Node()), f.Name, "server muxer handed to the gRPC server",
			"the multiplexer that wraps the plugin's listener is not the value stored in GRPCServer.muxer (a different or shadowed variable): the listener is multiplexed but the server's broker believes multiplexing is off, so main calls work and every brokered connection times out", nil)
	}
}

// ---------- R-SIB/wire: both ends of the net/rpc broker handshake agree on the encoding ----------

// ruleWireAgreement — the id and its ack travel as a fixed-size integer written
// and read with encoding/binary. All such reads and writes in the module use
// the same byte order and the same integer type (uint32), so that what Dial
// writes is what Run reads and what Accept acknowledges is what Dial compares.
func ruleWireAgreement(c *Ctx) {
	p := c.P
	orders := map[string]int{}
	types_ := map[string]int{}
	n := 0
	var first string
	for _, f := range p.Funcs {
		if !notTesting(p, f) {
			continue
		}
		info := f.Pkg.TypesInfo
		for _, call := range f.Calls() {
			nm := p.CalleeName(f, call)
			if nm != "encoding/binary.Read" && nm != "encoding/binary.Write" || len(call.Args) != 3 {
				continue
			}
			n++
			o := objFullName(objOfExpr(info, call.Args[1]))
			orders[o]++
			t := info.TypeOf(call.Args[2])
			ts := ""
			if t != nil {
				ts = strings.TrimPrefix(t.String(), "*")
			}
			types_[ts]++
			if first == "" {
				first = p.Pos(call)
			}
		}
	}
	// a hand-written codec that the normaliser (codec.go) did not turn into
	// binary.Read / binary.Write is not in the full-read / full-write form
	for _, f := range p.Funcs {
		if !notTesting(p, f) {
			continue
		}
		for _, call := range f.Calls() {
			nm := p.CalleeName(f, call)
			if strings.HasSuffix(nm, "ndian.Uint32") || strings.HasSuffix(nm, "ndian.PutUint32") || strings.HasSuffix(nm, "ByteOrder.Uint32") || strings.HasSuffix(nm, "ByteOrder.PutUint32") {
				if !strings.HasPrefix(nm, "encoding/binary.") {
					continue
				}
				c.R.Violate("R-SIB/wire", p.Pos(call), f.Name, "hand-written id codec "+exprStr(call.Fun),
					"a 4-byte id/ack is encoded or decoded by hand in a form that is not `PutUint32(buf[:], v)` immediately followed by one Write(buf[:])`, or `io.ReadFull(r, buf[:])` followed by `Uint32(buf[:])`: a single Read may return fewer than 4 bytes (the rest of the buffer is then stale), and a Write that is not the next statement can be reordered or skipped", nil)
			}
		}
	}
	if n < 4 {
		c.R.Undecided("R-SIB/wire", "", "instance-floor", fmt.Sprintf("only %d encoding/binary reads/writes found, 4 expected (id write/read, ack write/read)", n))
		return
	}
	if len(orders) == 1 && len(types_) == 1 {
		c.R.Hold("R-SIB/wire", first, "", "id/ack wire encoding agrees on both ends", fmt.Sprintf("%d reads/writes, one byte order, one integer type", n), true)
	} else {
		c.R.Violate("R-SIB/wire", first, "", "id/ack wire encoding agrees on both ends", fmt.Sprintf("the id/ack reads and writes do not all use the same byte order and integer type (orders %v, types %v): the peer decodes a different id than was sent", orders, types_), nil)
	}
}

// ---------- R-ID/knock protocol table ----------

// ruleKnockTable — the multiplexing knock handshake uses two message shapes:
// request {Knock:true, Ack:false} and acknowledgement {Knock:true, Ack:true}
// (a plain connection-info message has Knock == nil). Senders build them as
// literals; receivers classify them with boolean conditions. The rule
// evaluates every such condition on the literals the other side sends:
//
//	Run's "this is a knock request" test: true for the request literal, false
//	  for the ack literal and for a plain message;
//	listenForKnocks' rejection test: false for the request, true for the ack;
//	knock's rejection test: false for the ack, true for the request.
func ruleKnockTable(c *Ctx) {
	p := c.P
	type lit struct{ knock, ack bool }
	// sender literals
	lits := map[string]lit{}
	for _, nm := range []string{"GRPCBroker.knock", "GRPCBroker.listenForKnocks"} {
		f := p.Fn(nm)
		if f == nil {
			c.R.Undecided("R-ID/knock", nm, "anchor", "function not found")
			return
		}
		info := f.Pkg.TypesInfo
		ast.Inspect(f.Body, func(x ast.Node) bool {
			cl, ok := x.(*ast.CompositeLit)
			if !ok {
				return true
			}
			t := info.TypeOf(cl)
			if t == nil || !strings.HasSuffix(t.String(), "internal/plugin.ConnInfo_Knock") {
				return true
			}
			l := lit{}
			for _, el := range cl.Elts {
				kv, ok := el.(*ast.KeyValueExpr)
				if !ok {
					continue
				}
				k, _ := kv.Key.(*ast.Ident)
				v, _ := ast.Unparen(kv.Value).(*ast.Ident)
				if k == nil || v == nil {
					continue
				}
				switch k.Name {
				case "Knock":
					l.knock = v.Name == "true"
				case "Ack":
					l.ack = v.Name == "true"
				}
			}
			lits[nm] = l
			return true
		})
	}
	req, okReq := lits["GRPCBroker.knock"]
	ack, okAck := lits["GRPCBroker.listenForKnocks"]
	if !okReq || !okAck {
		c.R.Undecided("R-ID/knock", "", "knock message literals", "the request literal in knock or the acknowledgement literal in listenForKnocks was not found")
		return
	}
	if req.knock && !req.ack && ack.knock && ack.ack {
		c.R.Hold("R-ID/knock", p.Pos(p.Fn("GRPCBroker.knock").Node()), "GRPCBroker.knock", "knock message shapes", "request {Knock:true, Ack:false}, acknowledgement {Knock:true, Ack:true}", true)
	} else {
		c.R.Violate("R-ID/knock", p.Pos(p.Fn("GRPCBroker.knock").Node()), "GRPCBroker.knock", "knock message shapes", fmt.Sprintf("the knock request is sent as %+v and the acknowledgement as %+v; the handshake needs request {true,false} and acknowledgement {true,true}", req, ack), nil)
	}
	type env struct {
		nilKnock, knock, ack bool
	}
	var eval func(f *Func, e ast.Expr, v env) (bool, bool)
	eval = func(f *Func, e ast.Expr, v env) (bool, bool) {
		info := f.Pkg.TypesInfo
		e = ast.Unparen(p.Deref(f, e))
		switch x := e.(type) {
		case *ast.CallExpr:
			// nil-safe protobuf getters: m.GetKnock().GetAck() is false for a nil Knock
			if se, ok := x.Fun.(*ast.SelectorExpr); ok && len(x.Args) == 0 {
				nm := p.CalleeName(f, x)
				if strings.HasSuffix(nm, "ConnInfo_Knock.GetKnock") {
					return !v.nilKnock && v.knock, true
				}
				if strings.HasSuffix(nm, "ConnInfo_Knock.GetAck") {
					return !v.nilKnock && v.ack, true
				}
				_ = se
			}
			// a module predicate helper that just returns a condition on its argument
			if ce := p.FnOf(asFunc(p.Callee(f, x))); ce != nil && ce.Decl != nil {
				if rs := soleReturn(ce); rs != nil {
					return eval(ce, rs.Results[0], v)
				}
			}
		case *ast.UnaryExpr:
			if x.Op == token.NOT {
				r, ok := eval(f, x.X, v)
				return !r, ok
			}
		case *ast.BinaryExpr:
			switch x.Op {
			case token.LAND, token.LOR:
				a, ok1 := eval(f, x.X, v)
				// short-circuit: the right operand is not evaluated (a nil Knock is never dereferenced)
				if x.Op == token.LAND && ok1 && !a {
					return false, true
				}
				if x.Op == token.LOR && ok1 && a {
					return true, true
				}
				b, ok2 := eval(f, x.Y, v)
				if x.Op == token.LAND {
					return a && b, ok1 && ok2
				}
				return a || b, ok1 && ok2
			case token.EQL, token.NEQ:
				if isNilIdent(info, x.Y) {
					if t := info.TypeOf(x.X); t != nil && strings.HasSuffix(t.String(), "internal/plugin.ConnInfo_Knock") {
						if x.Op == token.EQL {
							return v.nilKnock, true
						}
						return !v.nilKnock, true
					}
					if gc, ok := ast.Unparen(x.X).(*ast.CallExpr); ok && strings.HasSuffix(p.CalleeName(f, gc), "ConnInfo.GetKnock") {
						if x.Op == token.EQL {
							return v.nilKnock, true
						}
						return !v.nilKnock, true
					}
					if fv := SelField(info, x.X); fv != nil && fv.Name() == "Knock" {
						if x.Op == token.EQL {
							return v.nilKnock, true
						}
						return !v.nilKnock, true
					}
				}
				if id, ok := ast.Unparen(x.Y).(*ast.Ident); ok && (id.Name == "true" || id.Name == "false") {
					r, ok2 := eval(f, x.X, v)
					want := id.Name == "true"
					if x.Op == token.NEQ {
						want = !want
					}
					return r == want, ok2
				}
			}
		case *ast.SelectorExpr:
			if fv := SelField(info, x); fv != nil {
				if t := info.TypeOf(x.X); t != nil && strings.HasSuffix(t.String(), "internal/plugin.ConnInfo_Knock") {
					if v.nilKnock {
						// a nil-safe getter result dereferenced directly would panic; a
						// guarded use never gets here because && short-circuits
						return false, false
					}
					switch fv.Name() {
					case "Knock":
						return v.knock, true
					case "Ack":
						return v.ack, true
					}
				}
				if inner := SelField(info, x.X); inner != nil && inner.Name() == "Knock" {
					if v.nilKnock {
						return false, false // would dereference nil
					}
					switch fv.Name() {
					case "Knock":
						return v.knock, true
					case "Ack":
						return v.ack, true
					}
				}
			}
		}
		return false, false
	}
	// the condition of the if statement in f that mentions .Knock.Ack
	var mentionsAck func(f *Func, e ast.Expr, depth int) bool
	mentionsAck = func(f *Func, e ast.Expr, depth int) bool {
		mentions := false
		ast.Inspect(p.Deref(f, e), func(y ast.Node) bool {
			if se, ok := y.(*ast.SelectorExpr); ok && (se.Sel.Name == "Ack" || se.Sel.Name == "GetAck") {
				mentions = true
			}
			if id, ok := y.(*ast.Ident); ok && depth < 3 {
				if d := p.Deref(f, id); d != ast.Expr(id) && mentionsAck(f, d, depth+1) {
					mentions = true
				}
			}
			if call, ok := y.(*ast.CallExpr); ok && depth < 2 {
				if ce := p.FnOf(asFunc(p.Callee(f, call))); ce != nil && ce.Decl != nil {
					if rs := soleReturn(ce); rs != nil && mentionsAck(ce, rs.Results[0], depth+1) {
						mentions = true
					}
				}
			}
			return true
		})
		return mentions
	}
	condOf := func(f *Func) ast.Expr {
		var out ast.Expr
		ast.Inspect(f.Body, func(x ast.Node) bool {
			if out != nil {
				return true
			}
			switch st := x.(type) {
			case *ast.IfStmt:
				if mentionsAck(f, st.Cond, 0) {
					out = st.Cond
				}
			case *ast.SwitchStmt:
				if st.Tag == nil {
					for _, cl := range st.Body.List {
						for _, ce := range cl.(*ast.CaseClause).List {
							if out == nil && mentionsAck(f, ce, 0) {
								out = ce
							}
						}
					}
				}
			}
			return true
		})
		return out
	}
	reqEnv := env{false, true, false}
	ackEnv := env{false, true, true}
	plainEnv := env{true, false, false}
	type expect struct {
		fn   string
		what string
		envs []env
		want []bool
	}
	for _, ex := range []expect{
		{"GRPCBroker.Run", "Run routes knock requests to the accept side and everything else to the dial side", []env{reqEnv, ackEnv, plainEnv}, []bool{true, false, false}},
		{"GRPCBroker.listenForKnocks", "listenForKnocks accepts requests and rejects acknowledgements", []env{reqEnv, ackEnv}, []bool{false, true}},
		{"GRPCBroker.knock", "knock accepts acknowledgements and rejects requests", []env{ackEnv, reqEnv}, []bool{false, true}},
	} {
		f := p.Fn(ex.fn)
		if f == nil {
			c.R.Undecided("R-ID/knock", ex.fn, "anchor", "function not found")
			continue
		}
		cond := condOf(f)
		if cond == nil {
			c.R.Undecided("R-ID/knock", ex.fn, ex.what, "no condition on the Ack flag found")
			continue
		}
		okAll, decided := true, true
		for i, ev := range ex.envs {
			r, ok := eval(f, cond, ev)
			if !ok {
				decided = false
			} else if r != ex.want[i] {
				okAll = false
			}
		}
		switch {
		case !decided:
			c.R.Undecided("R-ID/knock", ex.fn, ex.what, "the classification condition `"+exprStr(cond)+"` is not a boolean combination of Knock == nil, Knock.Knock and Knock.Ack")
		case okAll:
			c.R.Hold("R-ID/knock", p.Pos(cond), f.Name, ex.what, "`"+exprStr(cond)+"` evaluated on the literals the other side sends", true)
		default:
			c.R.Violate("R-ID/knock", p.Pos(cond), f.Name, ex.what, "the condition `"+exprStr(cond)+"` misclassifies the messages the other side sends (request {Knock:true,Ack:false}, acknowledgement {Knock:true,Ack:true}, plain message Knock==nil): the knock handshake cannot complete, or a message reaches the wrong side's pending table", nil)
		}
	}
}

// soleReturn: the function body is a sequence of simple assignments followed
// by its only return statement (one result). Returns that statement.
func soleReturn(f *Func) *ast.ReturnStmt {
	if f.Body == nil || len(f.Body.List) == 0 {
		return nil
	}
	n := 0
	walkNoLit(f.Body, func(x ast.Node) bool {
		if _, ok := x.(*ast.ReturnStmt); ok {
			n++
		}
		return true
	})
	rs, ok := f.Body.List[len(f.Body.List)-1].(*ast.ReturnStmt)
	if !ok || n != 1 || len(rs.Results) != 1 {
		return nil
	}
	for _, st := range f.Body.List[:len(f.Body.List)-1] {
		if _, ok := st.(*ast.AssignStmt); !ok {
			return nil
		}
	}
	return rs
}

// ---------- R-ALIAS/append: appending to a shared slice never writes into its backing array ----------

// ruleSharedAppend: `x := append(shared, more...)` where shared is a
// package-level slice of the module and the result goes somewhere else is only
// safe when shared has no spare capacity - otherwise the new elements are
// written into shared's own backing array, and two goroutines doing it at the
// same time (two dials, two launches) overwrite each other's elements. The
// slice must therefore be declared with a composite literal (len == cap) or no
// value at all, and never be written afterwards.
func ruleSharedAppend(c *Ctx) {
	p := c.P
	n, bad := 0, false
	for _, f := range p.Funcs {
		if !notTesting(p, f) {
			continue
		}
		info := f.Pkg.TypesInfo
		ast.Inspect(f.Body, func(x ast.Node) bool {
			call, ok := x.(*ast.CallExpr)
			if !ok || len(call.Args) < 2 || p.CalleeName(f, call) != "builtin.append" {
				return true
			}
			v, ok := identObj(info, call.Args[0]).(*types.Var)
			if !ok || v.IsField() || v.Pkg() == nil || v.Parent() != v.Pkg().Scope() || !strings.HasPrefix(v.Pkg().Path(), modPath) {
				return true
			}
			// stored back into the same variable: an ordinary extension
			if as, isAs := p.Parent(call).(*ast.AssignStmt); isAs && len(as.Lhs) == len(as.Rhs) {
				for i, r := range as.Rhs {
					if ast.Unparen(r) == ast.Expr(call) && identObj(info, as.Lhs[i]) == types.Object(v) {
						return true
					}
				}
			}
			n++
			full := p.pkgVarNeverWritten(v)
			if full {
				for _, pkg := range p.Pkgs {
					for _, file := range pkg.Syntax {
						for _, d := range file.Decls {
							gd, isGen := d.(*ast.GenDecl)
							if !isGen {
								continue
							}
							for _, sp := range gd.Specs {
								vs, isVS := sp.(*ast.ValueSpec)
								if !isVS {
									continue
								}
								for i, nm := range vs.Names {
									if pkg.TypesInfo.Defs[nm] != types.Object(v) || i >= len(vs.Values) {
										continue
									}
									if _, isLit := ast.Unparen(vs.Values[i]).(*ast.CompositeLit); !isLit {
										full = false
									}
								}
							}
						}
					}
				}
			}
			construct := "append(" + v.Name() + ", ...)"
			if full {
				c.R.Hold("R-ALIAS/append", p.Pos(call), f.Name, construct, "the shared slice is declared with a composite literal (no spare capacity) and never written: the append copies", true)
			} else {
				bad = true
				c.R.Violate("R-ALIAS/append", p.Pos(call), f.Name, construct,
					"the result of appending to the package-level slice "+v.Name()+" is used elsewhere, and the slice may have spare capacity (it is not a never-written composite literal): the appended elements are written into the shared backing array, so overlapping calls overwrite each other's elements (one connection is dialled with another's dialer)", nil)
			}
			return true
		})
	}
	if n == 0 && !bad {
		c.R.Hold("R-ALIAS/append", "", "", "appends to shared slices", "no append to a package-level slice of the module whose result is stored elsewhere", false)
	}
}

// ---------- R-IDX/find: the result of a substring search is tested before it is used as a bound ----------

// ruleFindIndex: strings/bytes Index, LastIndex, IndexByte, ... return -1 when
// nothing is found. A local bound to such a result may be used as an index or
// slice bound (alone or as i+k / i-k) only where the program has established
// that it is not negative: from the definition, the use is reachable only
// across an edge i >= 0, i > -1, i != -1 (or the false edge of i < 0, i == -1).
// (What is searched in this library is text that comes from the plugin: a line
// cut short makes the search fail, and the slice expression panics the host.)
func ruleFindIndex(c *Ctx) {
	p := c.P
	finders := map[string]bool{}
	for _, pk := range []string{"strings", "bytes"} {
		for _, fn := range []string{"Index", "LastIndex", "IndexByte", "LastIndexByte", "IndexRune", "IndexAny", "LastIndexAny", "IndexFunc", "LastIndexFunc"} {
			finders[pk+"."+fn] = true
		}
	}
	n, bad := 0, false
	for _, f := range p.Funcs {
		if !notTesting(p, f) {
			continue
		}
		info := f.Pkg.TypesInfo
		g := p.Graph(f)
		for _, m := range g.Nodes {
			as, ok := m.Ast.(*ast.AssignStmt)
			if !ok || len(as.Lhs) != 1 || len(as.Rhs) != 1 {
				continue
			}
			call, ok := ast.Unparen(as.Rhs[0]).(*ast.CallExpr)
			if !ok || !finders[p.CalleeName(f, call)] {
				continue
			}
			v, ok := identObj(info, as.Lhs[0]).(*types.Var)
			if !ok || v.IsField() {
				continue
			}
			n++
			nonNeg := func(e *Edge) bool {
				at, ok := edgeAtom(info, e)
				if !ok || at.Kind != "cmp" {
					return false
				}
				x, y, op := at.X, at.Y, at.Op
				if identObj(info, y) == types.Object(v) {
					x, y, op = y, x, swapOp(op)
				}
				if identObj(info, x) != types.Object(v) {
					return false
				}
				k, isK := constInt(info, y)
				if !isK {
					return false
				}
				switch op {
				case token.GEQ:
					return k >= 0
				case token.GTR:
					return k >= -1
				case token.NEQ:
					return k == -1
				case token.EQL:
					return k >= 0
				}
				return false
			}
			isBoundUse := func(x *Node) ast.Node {
				if x.Ast == nil || x == m {
					return nil
				}
				var hit ast.Node
				usesV := func(e ast.Expr) bool {
					if e == nil {
						return false
					}
					e = ast.Unparen(e)
					if be, ok := e.(*ast.BinaryExpr); ok && (be.Op == token.ADD || be.Op == token.SUB) {
						return identObj(info, be.X) == types.Object(v) || identObj(info, be.Y) == types.Object(v)
					}
					return identObj(info, e) == types.Object(v)
				}
				walkNoLit(x.Ast, func(y ast.Node) bool {
					switch z := y.(type) {
					case *ast.SliceExpr:
						if usesV(z.Low) || usesV(z.High) || usesV(z.Max) {
							hit = z
						}
					case *ast.IndexExpr:
						if t := info.TypeOf(z.X); t != nil {
							if _, isMap := t.Underlying().(*types.Map); !isMap && usesV(z.Index) {
								hit = z
							}
						}
					}
					return true
				})
				return hit
			}
			var starts []*Node
			for _, e := range m.Succs {
				starts = append(starts, e.To)
			}
			redefines := func(x *Node) bool {
				if x.Ast == nil || x == m {
					return false
				}
				defs, _ := nodeDefsUses(info, x.Ast)
				_, re := defs[v]
				return re
			}
			seen := g.Reach(starts, redefines, nonNeg)
			for x := range seen {
				if use := isBoundUse(x); use != nil {
					bad = true
					c.R.Violate("R-IDX/find", p.Pos(use), f.Name, "bound "+v.Name()+" = "+exprStr(call.Fun)+"(...)",
						"the result of a substring search is used as an index or slice bound on a path on which it was not established to be non-negative: when nothing is found it is -1 and the expression panics (a handshake line cut short, an address without the separator)", nil)
				}
			}
		}
	}
	// a search call written directly into the bound is never tested
	for _, f := range p.Funcs {
		if !notTesting(p, f) {
			continue
		}
		info := f.Pkg.TypesInfo
		isFind := func(e ast.Expr) *ast.CallExpr {
			if e == nil {
				return nil
			}
			e = ast.Unparen(e)
			if be, ok := e.(*ast.BinaryExpr); ok && (be.Op == token.ADD || be.Op == token.SUB) {
				for _, side := range []ast.Expr{be.X, be.Y} {
					if call, ok := ast.Unparen(side).(*ast.CallExpr); ok && finders[p.CalleeName(f, call)] {
						return call
					}
				}
				return nil
			}
			if call, ok := e.(*ast.CallExpr); ok && finders[p.CalleeName(f, call)] {
				return call
			}
			return nil
		}
		walkNoLit(f.Body, func(y ast.Node) bool {
			var call *ast.CallExpr
			switch z := y.(type) {
			case *ast.SliceExpr:
				for _, b := range []ast.Expr{z.Low, z.High, z.Max} {
					if cc := isFind(b); cc != nil {
						call = cc
					}
				}
			case *ast.IndexExpr:
				if t := info.TypeOf(z.X); t != nil {
					if _, isMap := t.Underlying().(*types.Map); !isMap {
						call = isFind(z.Index)
					}
				}
			}
			if call != nil {
				n++
				bad = true
				c.R.Violate("R-IDX/find", p.Pos(y), f.Name, "bound "+exprStr(call.Fun)+"(...) used directly",
					"the result of a substring search is written straight into an index or slice bound: when nothing is found it is -1 and the expression panics (a handshake line cut short, an address without the separator)", nil)
			}
			return true
		})
	}
	if !bad {
		c.R.Hold("R-IDX/find", "-", "", "search results are tested before they are used as bounds", fmt.Sprintf("%d search results bound to locals, none reaches an index or slice bound untested", n), n > 0)
	}
}

// ---------- R-CTX/afterfunc: a context callback registered for the duration of an operation is withdrawn when the operation succeeds ----------

// ruleAfterFunc: context.AfterFunc(ctx, f) keeps f armed until ctx ends - long
// after the function that registered it has returned, if nobody calls the stop
// function. Where the callback exists to abort the operation in progress (it
// closes the stream being dialled), leaving it armed means a later, perfectly
// ordinary cancel of the caller's context (defer cancel()) closes the
// connection that was handed out. So the stop result is bound, and every path
// from the registration to a return that reports success (a nil error) calls it.
func ruleAfterFunc(c *Ctx) {
	p := c.P
	n, bad := 0, false
	for _, f := range p.Funcs {
		if !notTesting(p, f) {
			continue
		}
		info := f.Pkg.TypesInfo
		g := p.Graph(f)
		for _, m := range g.Nodes {
			if m.Ast == nil {
				continue
			}
			for _, call := range callsIn(m.Ast) {
				if p.CalleeName(f, call) != "context.AfterFunc" {
					continue
				}
				n++
				construct := "context.AfterFunc(" + exprStr(call.Args[0]) + ", ...) is stopped on success"
				var stopV *types.Var
				if as, ok := m.Ast.(*ast.AssignStmt); ok && len(as.Lhs) == 1 && len(as.Rhs) == 1 && ast.Unparen(as.Rhs[0]) == ast.Expr(call) {
					stopV, _ = identObj(info, as.Lhs[0]).(*types.Var)
				}
				if stopV == nil {
					bad = true
					c.R.Violate("R-CTX/afterfunc", p.Pos(call), f.Name, construct, "the stop function of context.AfterFunc is discarded: the callback stays armed after this function has returned and fires when the caller's context ends, on whatever the operation handed out", nil)
					continue
				}
				stops := func(x *Node) bool {
					if x.Ast == nil {
						return false
					}
					hit := false
					ast.Inspect(x.Ast, func(y ast.Node) bool {
						if _, isLit := y.(*ast.FuncLit); isLit {
							// a deferred closure that calls stop counts
						}
						if cc, ok := y.(*ast.CallExpr); ok && identObj(info, cc.Fun) == types.Object(stopV) {
							hit = true
						}
						return true
					})
					return hit
				}
				var starts []*Node
				for _, e := range m.Succs {
					starts = append(starts, e.To)
				}
				seen := g.Reach(starts, stops, nil)
				leak := false
				for x := range seen {
					rs, isR := x.Ast.(*ast.ReturnStmt)
					if !isR || len(rs.Results) == 0 {
						continue
					}
					last := rs.Results[len(rs.Results)-1]
					if isErrorType(info.TypeOf(last)) && isNilIdent(info, last) {
						leak = true
						c.R.Violate("R-CTX/afterfunc", p.Pos(rs), f.Name, construct, "this return reports success while the callback registered with context.AfterFunc is still armed: when the caller's context ends later (the usual defer cancel()) the callback runs on the connection that was just handed out", nil)
					}
				}
				if leak {
					bad = true
				} else {
					c.R.Hold("R-CTX/afterfunc", p.Pos(call), f.Name, construct, "every path to a successful return calls the stop function", true)
				}
			}
		}
	}
	if n == 0 && !bad {
		c.R.Hold("R-CTX/afterfunc", "", "", "context callbacks", "no context.AfterFunc in the module", false)
	}
}
