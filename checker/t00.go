package main

func init() {
	register(&propDef{ID: "T00", Rules: []func(*Ctx){ruleIDMux, ruleIDGRPC, ruleIDKnock, ruleSlot, ruleMuxSer}, Explanation: "test", NotDecided: "n/a"})
}
