package main

import "strings"

// scope helpers
func fnIn(names ...string) func(*Func) bool {
	return func(f *Func) bool {
		root := f
		for root.Parent != nil {
			root = root.Parent
		}
		for _, n := range names {
			if root.Name == n {
				return true
			}
		}
		return false
	}
}

func fieldIn(prefixes ...string) func(string) bool {
	return func(n string) bool {
		for _, p := range prefixes {
			if strings.HasPrefix(n, p) {
				return true
			}
		}
		return false
	}
}

func scoped(rule func(*Ctx, func(*Func) bool), only func(*Func) bool) func(*Ctx) {
	return func(c *Ctx) { rule(c, only) }
}

func guardOn(prefixes ...string) func(*Ctx) {
	return func(c *Ctx) { ruleGuardScoped(c, fieldIn(prefixes...)) }
}

var startPath = fnIn("Client.Start", "Client.checkProtoVersion", "Client.loadServerCert", "Client.reattach")
var connectPath = fnIn("Client.Client", "newRPCClient", "NewRPCClient", "newGRPCClient", "dialGRPCConn", "newGRPCStdioClient",
	"RPCClient.Dispense", "GRPCClient.Dispense", "GRPCClient.Ping", "RPCClient.Ping", "Client.dialer", "netAddrDialer", "Client.getGRPCMuxer",
	"grpcmux.NewGRPCClientMuxer", "MuxBroker.Dial", "MuxBroker.Accept", "GRPCBroker.DialWithOptions", "GRPCBroker.Accept", "GRPCBroker.knock", "GRPCBroker.muxDial")

func init() {
	register(&propDef{ID: "C01",
		Rules: []func(*Ctx){ruleTranslateDirections, ruleStdoutLines, ruleErrL3, ruleTranslate,
			scoped(ruleErrL1Scoped, startPath), scoped(ruleErrL2Scoped, startPath),
			ruleIdx, ruleNilGuard, ruleGate, ruleHandshakeTable,
			scoped(ruleBoundScoped, fnIn("Client.Start")), ruleOrderStart,
			ruleAddrResolved, onlyObligations(ruleTLSPools, func(o *Obligation) bool { return strings.HasPrefix(o.Construct, "client pins the server certificate") }),
		},
		Technique:   "path-sensitive abstract interpretation over go/cfg (error nil-ness, len lower bounds, non-nil facts), dominance queries for validation gates, writer/reader table extraction",
		Explanation: "Decides on every path of Client.Start and its helpers: every error produced while parsing the handshake line is read and, if non-nil, returned before the address is committed (R-ERR L1/L2); every constant index into the split line is within the established length (R-IDX); no optional config pointer is dereferenced unguarded (R-NILGUARD); the success commit is dominated by the core-version, app-version, address, protocol, certificate and multiplexing gates (R-GATE); the protocol/version/address reported are the line's fields (R-TABLE/handshake); the wait has a StartTimeout arm and an exit arm (R-BOUND); kill-on-error defer reads the named result (R-ORDER/O3). No nil-able result is dereferenced before the error returned with it was tested, anywhere in scope (R-ERR/L3); the stdout scanner hands every scanned line, unmodified, to the parser (R-DRAIN/lines). A handshake field k >= 3 is read whenever the line has at least k+1 fields (R-IDX/tight); the handshake address is translated with PluginToHost. No return of Start is reached with a certainly-nil error on a path without an assignment to the address result (R-ADDR); loadServerCert cannot succeed without pinning the certificate (R-TLS/pools, client side).",
		NotDecided:  "what strconv.Atoi, ParseBool, net.Resolve*Addr and x509.ParseCertificate accept (library contracts); that the returned address is dialable.",
		Assume:      []string{"net.ResolveTCPAddr/ResolveUnixAddr return a non-nil address iff the error is nil", "strings.Split with a non-empty separator returns at least one element"},
	})
	register(&propDef{ID: "C02",
		Rules: []func(*Ctx){cfgWritersFor("ServeConfig.VersionedPlugins", "ServeConfig.Plugins", "ClientConfig.VersionedPlugins", "ClientConfig.Plugins", "HandshakeConfig.ProtocolVersion"), ruleServedSet, ruleLegacyFold, ruleLegacyFoldServer, ruleVersionNegotiation, ruleVersionListParse, ruleEnvVersionsOnly, onlyObligations(ruleEnv, func(o *Obligation) bool {
			return o.Rule == "R-ORDER/O5" || (o.Rule == "R-TABLE/env" && strings.Contains(o.Construct, "PLUGIN_PROTOCOL_VERSIONS"))
		})},
		Technique:   "typestate (sorted-descending) and loop-shape analysis of the negotiation function; map-key/value pairing by object identity; table agreement offered=accepted",
		Explanation: "Decides for the algorithm in the tree: the list ranged by the outer loop that contains the match return is sorted descending at the loop head; the match is an == between the two loop variables; the returned version, plugin set and protocol are those of the matched key; the fallback return is reachable only after the loop (lowest); legacy fields are folded into the map before it is ranged on both sides; the client accepts only a key of the map it offered and stores the set of the same key; the offered list is exactly the map's keys. An element of the offered list that does not parse is skipped and never ends the parse loop; the offered-version variable is written after the inherited host environment so that the client's value wins (R-ORDER/O5). Both protocol servers are given the third result of protocolVersion; the client folds the legacy pair into VersionedPlugins only when that version is absent and a legacy set exists. The plugin side folds the legacy pair only when a legacy set exists (R-NEG); the library assigns the Plugins/VersionedPlugins/ProtocolVersion configuration fields only at the reviewed sites (R-CFG/writers).",
		NotDecided:  "the arithmetic fact that the first match in a descending list is the maximum of the intersection (taken as the algorithm's contract); a different negotiation algorithm is reported as undecided rather than verified.",
		Assume:      []string{"sort.Sort(sort.Reverse(sort.IntSlice(x))) leaves x in descending order"},
	})
	register(&propDef{ID: "C03",
		Rules: []func(*Ctx){ruleDialAddrResolved, ruleErrL1, ruleErrL2, ruleCommaOk, ruleChanClosers, onlyObligations(ruleSlot, func(o *Obligation) bool { return strings.HasSuffix(o.Construct, ".send") }), onlyObligations(ruleLockOrder, func(o *Obligation) bool { return o.Rule == "R-LOCKORDER/self" }), ruleIdx, ruleWindows, ruleOrderO4, ruleErrL3, ruleClientCache, ruleStreamClose,
			ruleExit, ruleCtx, ruleBound, ruleWG,
			scoped(ruleErrL1Scoped, connectPath), scoped(ruleErrL2Scoped, connectPath),
		},
		Technique:   "CFG must-pass-through (exit bookkeeping after Wait), context-origin resolution, blocking-operation classification with reviewed table, WaitGroup pairing, error-path interpretation on the connect/dispense paths",
		Explanation: "Decides: both goroutines that wait on the plugin cancel the context stored in Client.doneCtx and set Client.exited under the lock on every path after Wait (R-EXIT); the context handed to GRPCPlugin.GRPCClient and the stdio stream originates from Client.doneCtx (R-CTX); every blocking operation in the module is non-blocking, timer-bounded, cancellable or a reviewed bare wait, and the start/kill/broker waits have constant or configured timers (R-BOUND); WaitGroup Add/Done/Wait are paired (R-WG); errors on the connect and dispense paths are returned (R-ERR). No result is dereferenced before its error was tested (R-ERR/L3); the stdout drain is registered before any return of Start (R-ORDER/O4). Constant handshake indexes are in bounds (R-IDX); the pending-window timers of both brokers agree and lie within 3-10 s, constant context deadlines within 0.1-10 s (R-BOUND/window). No method that takes an object's mutex is called on that object while the mutex is certainly held (R-LOCKORDER/self).",
		NotDecided:  "that net/rpc, yamux and grpc-go fail in-flight calls when the peer dies (library behaviour); crash-point timing; host panics outside the listed constructs.",
		Assume:      []string{"yamux with default config (keep-alive on) fails a session whose peer is gone", "grpc-go fails RPCs on a closed connection"},
	})
	register(&propDef{ID: "C04",
		Rules: []func(*Ctx){ruleManaged, ruleRunnerWait, onlyObligations(ruleLockOrder, func(o *Obligation) bool { return o.Rule == "R-LOCKORDER/self" }), ruleProcNil, ruleKilledFlag, onlyObligations(ruleDrain, func(o *Obligation) bool { return strings.Contains(o.Construct, "loop ends on read error") }),
			ruleWindows, ruleRunnerKill, ruleKillCtx, ruleOrderO4,
			ruleKill, ruleBoundRPC, scoped(ruleBoundScoped, fnIn("Client.Kill", "CleanupClients")), ruleSibClose, ruleWG,
			guardOn("Client.", "managedClients", "RPCServer.DoneCh", "GRPCServer.broker"), ruleClose1,
		},
		Technique:   "CFG path enumeration of Client.Kill (kill-or-exited on every exit), context-origin resolution for the shutdown RPC, sibling cross-check of ClientProtocol.Close, lockset, close-once classification",
		Explanation: "Decides: every exit of Kill other than the no-runner early return and the arm that observed the exit context passes runner.Kill on the runner read under the lock; the grace wait is a short constant timer with an exit arm; the shutdown RPC carries a deadline (R-BOUND/rpc); both Close implementations send their protocol's shutdown request first and return its error / close the connection (R-SIB); Kill's deferred function waits for the management goroutines and CleanupClients adds/waits per client (R-WG); repeated or concurrent Kill touches shared fields only under the lock (R-GUARD) and closes no channel twice (R-CLOSE1). The runner Kill implementations signal the process on every path with a non-nil process (R-SIB/runnerkill); the net/rpc Quit handler does not end the server before its reply is written, and the control-connection server ends it afterwards iff Quit was requested. Constant context deadlines lie within 0.1-10 s; pending-window timers agree (R-BOUND/window). exec.Cmd.Process is dereferenced only behind a non-nil test or the command's Start (R-NILGUARD/proc); the library never branches on the Killed flag (R-GLOBAL/killed); the stderr read loop ends on a read error; no self re-acquisition of a held mutex (R-LOCKORDER/self).",
		NotDecided:  "that the OS reaps the process; SIGSTOP behaviour; real latencies.",
		Assume:      []string{"context.WithTimeout bounds a unary gRPC call", "os.Process.Kill delivers SIGKILL"},
	})
	register(&propDef{ID: "C05",
		Rules: []func(*Ctx){scoped(ruleErrL1Scoped, func(f *Func) bool { return strings.HasPrefix(f.Name, "cmdrunner.") }), scoped(ruleErrL2Scoped, func(f *Func) bool { return strings.HasPrefix(f.Name, "cmdrunner.") }), ruleRunnerKill, onlyObligations(ruleLockOrder, func(o *Obligation) bool { return o.Rule == "R-LOCKORDER/self" }), onlyObligations(ruleOnce, func(o *Obligation) bool { return strings.Contains(o.Construct, "launch gate") }), ruleKillCtx, ruleOrderO4,
			ruleOrderStart, scoped(ruleErrL2Scoped, startPath), scoped(ruleErrL1Scoped, startPath), ruleKill, ruleSocketDir,
			scoped(ruleBoundScoped, fnIn("Client.Start")), onlyObligations(ruleDrain, func(o *Obligation) bool { return strings.Contains(o.Construct, "loop ends on read error") }),
		},
		Technique:   "dominance/ordering queries on Client.Start (runner recorded before launch; kill-on-error defer registered right after a successful launch and reading the named result), error-path interpretation, Kill path enumeration",
		Explanation: "Decides: the runner is stored in the client before it is started (O2); the deferred cleanup is registered immediately after a successful runner.Start with no return in between, and kills the runner iff the named result err is non-nil or a panic is in flight (O3); every post-launch failure is returned as a non-nil error so the guard fires (R-ERR/L2); Kill force-kills when no address was negotiated (R-EXIT/kill) and removes the socket directory on every non-early exit (R-RES/socketdir). Start stores client state (socket directory, runner) only behind the launched-once test, so a refused second Start cannot wipe what Kill has to clean up. Every blocking wait in Start is bounded (R-BOUND on Start); the stderr read loop ends on a read error; the socket-directory local of Kill is bound once; no self re-acquisition of a held mutex (R-LOCKORDER/self).",
		NotDecided:  "process liveness itself (that Kill on the runner ends the process).",
		Assume:      []string{"deferred functions run on every return and on panic"},
	})
	register(&propDef{ID: "C06",
		Rules: []func(*Ctx){ruleBrokerRuns, ruleRunErrStops, ruleNoCopySync, onlyObligations(ruleLockBlock, func(o *Obligation) bool { return strings.HasPrefix(o.Func, "MuxBroker.") }), ruleExpiryDrain, ruleRunDispatch, rulePendDone, ruleWindows, ruleSlotCapacityOne, ruleWireAgreement, ruleDeadline, ruleGetOrCreate, ruleExpiry, ruleRunNonBlocking, ruleFreshMsg,
			ruleIDMux, ruleSlot, guardOn("MuxBroker."), scoped(ruleBoundScoped, fnIn("MuxBroker.Accept", "MuxBroker.timeoutWait", "MuxBroker.Run", "MuxBroker.Dial")), ruleAtomicIDs,
		},
		Technique:   "origin (def-use) resolution of the brokered id on both ends, channel-capacity check, lockset on the pending map, timer-arm classification",
		Explanation: "Decides the id-keyed hand-off structure: Dial writes its id parameter to the wire and fails unless the echoed ack equals it; Run files each inbound stream under the id read from that stream; Accept takes from the slot of its id parameter and echoes the same id; Dispense hands the same id to the response and to Accept, and the client dials the id it received (R-ID); the slot channel has capacity >= 1 so parking never blocks (R-SLOT); the id map is touched only under the broker mutex (R-GUARD); accept and expiry have 5 s timers (R-BOUND); NextId is an atomic add with no other writer. No absolute I/O deadline stays armed on a connection that outlives the function (R-DEADLINE). The id/ack wire encoding agrees on both ends (R-SIB/wire); the pending-window timers agree (R-BOUND/window); pending slots have capacity exactly 1. Every healthy iteration of Run offers the inbound stream to its id's slot (R-ROUTE/all); Accept cancels the slot's expiry once it took the connection (R-PEND/done); an expired slot closes the connection parked in it on every feasible path from the timer arm (R-EXPIRY/drain); no wait under the broker mutex.",
		NotDecided:  "routing under all interleavings and byte integrity/order of yamux streams (schedule and library properties with no static bound in reach).",
		Assume:      []string{"yamux delivers each stream's bytes in order to its peer only"},
	})
	register(&propDef{ID: "C07",
		Rules: []func(*Ctx){ruleBrokerRuns, ruleWireFields, ruleDialAddrResolved, scoped(ruleErrL1Scoped, func(f *Func) bool { return strings.HasPrefix(f.Name, "GRPCBroker.") || f.Name == "dialGRPCConn" }), ruleNoCopySync, onlyObligations(ruleLockBlock, func(o *Obligation) bool { return strings.HasPrefix(o.Func, "GRPCBroker.") }), ruleRunDispatch, rulePendDone, ruleNoAppendToParam, ruleWindows, ruleTranslateDirections, ruleSlotCapacityOne, ruleIDRoles, ruleDeadline, ruleGetOrCreate, ruleExpiry, ruleRunNonBlocking, ruleFreshMsg, ruleTranslate, ruleCtorStoresTLS,
			ruleIDGRPC, ruleSlot, guardOn("GRPCBroker."), scoped(ruleErrL1Scoped, fnIn("GRPCBroker.DialWithOptions", "GRPCBroker.Accept", "GRPCBroker.AcceptAndServe")),
			scoped(ruleErrL2Scoped, fnIn("GRPCBroker.DialWithOptions", "GRPCBroker.Accept")), scoped(ruleBoundScoped, fnIn("GRPCBroker.DialWithOptions", "GRPCBroker.timeoutWait", "GRPCBroker.Run")),
			ruleTLSUse, ruleAtomicIDs,
		},
		Technique:   "origin resolution of ConnInfo.ServiceId on both ends, channel-capacity check, lockset, error-path interpretation, TLS option provenance",
		Explanation: "Decides: Accept advertises its id parameter with the address of the listener it just opened; Run files each message under msg.ServiceId; Dial waits on the slot of its id parameter and dials the address in that message, returning translation/resolve errors (R-ID, R-ERR); slots are buffered (R-SLOT); both pending maps are touched only under the broker mutex (R-GUARD); the dial wait and the expiry have 5 s timers (R-BOUND); brokered servers and dials use the broker's TLS config (R-TLS/use). No absolute I/O deadline stays armed on a connection that outlives the function (R-DEADLINE); accept-side code touches only the accept-side pending table and dial-side code only the dial-side one (R-ID/role). The pending-window timers agree (R-BOUND/window); Accept translates with HostToPlugin and DialWithOptions with PluginToHost; pending slots have capacity exactly 1; no append into a caller-owned option slice (R-ALIAS). Every healthy iteration of Run offers the message to its id's slot (R-ROUTE/all); DialWithOptions cancels the slot's expiry once it took the connection info (R-PEND/done); the dial serialisation mutex excuses a bounded wait only in the multiplexed dialer (R-LOCKBLOCK, designated holders).",
		NotDecided:  "routing under all interleavings; that grpc-go connects to the address it was given.",
	})
	register(&propDef{ID: "C08",
		Rules: []func(*Ctx){ruleWireFields, scoped(ruleErrL1Scoped, func(f *Func) bool { return strings.HasPrefix(f.Name, "grpcmux.") }), scoped(ruleErrL2Scoped, func(f *Func) bool { return strings.HasPrefix(f.Name, "grpcmux.") }), ruleMuxListenerHook, onlyObligations(ruleClose1, func(o *Obligation) bool { return strings.HasPrefix(o.Func, "grpcmux.") || strings.Contains(o.Construct, "grpcmux.") }), ruleWindows, onlyObligations(ruleRunDispatch, func(o *Obligation) bool { return o.Func == "GRPCBroker.Run" || o.Func == "" }), ruleKnockTable, ruleMuxOnlyGRPC, ruleIDRoles, ruleDeadline, ruleLockPair, ruleGetOrCreate,
			ruleOrderO8, ruleMuxSer, ruleSlot, ruleIDKnock, guardOn("grpcmux.", "GRPCBroker.serverStreams", "GRPCBroker.clientStreams"),
		},
		Technique:   "dominance query (listener registration before knock goroutine), must-held lockset for the serialised dial, channel-capacity check, id origin resolution",
		Explanation: "Decides: in the multiplexed Accept the listener for the id is registered with the muxer before the goroutine that answers knocks starts (O8, the dial-first failure); the knock and the stream dial both run with dialMutex held (R-MUXSER); the server muxer reads the knocked id only after session.Accept returned and routes un-knocked streams to the default listener; knockCh and waitCh are buffered (R-SLOT); knock and ack compare msg.ServiceId with the id (R-ID); the listener maps are touched only under acceptMutex (R-GUARD). Accept-side and dial-side pending tables are never mixed (R-ID/role); the hand-off of a knocked stream is a send that cannot give up; the server muxer wraps the listener only on the gRPC arm; no deadline stays armed (R-DEADLINE). The knock message shapes and every receiver-side classification condition are evaluated against each other (R-ID/knock table). Every healthy iteration of GRPCBroker.Run offers the message (knock or ack) to its id's slot (R-ROUTE/all).",
		NotDecided:  "the four-goroutine hand-off under all schedules; behaviour when brokered connections are not established sequentially (excluded by the API contract).",
	})
	register(&propDef{ID: "C09",
		Rules: []func(*Ctx){ruleChanClosers, ruleGRPCBrokerClose, ruleRunErrStops, ruleMuxListenerHook, ruleSlot, ruleExpiryDrain, ruleRunDispatch, onlyObligations(ruleSibClose, func(o *Obligation) bool { return strings.HasPrefix(o.Construct, "closes the") }), ruleWindows, ruleSlotCapacityOne, ruleBrokerCloseCloses, ruleIDRoles, ruleLockPair, ruleLockOrder, ruleRunNonBlocking, ruleStreamClose,
			ruleLockBlock, scoped(ruleBoundScoped, fnIn("MuxBroker.Accept", "MuxBroker.Run", "MuxBroker.timeoutWait", "MuxBroker.Dial", "GRPCBroker.DialWithOptions", "GRPCBroker.knock", "GRPCBroker.timeoutWait", "GRPCBroker.Run", "GRPCBroker.listenForKnocks", "GRPCBroker.Accept", "grpcmux.GRPCServerMuxer.session")),
			ruleRes, ruleExpiry, ruleClose1,
		},
		Technique:   "lock-region x blocking-operation analysis (intra- and inter-procedural), timer-arm classification, resource typestate on inbound streams, close-once classification",
		Explanation: "Decides: no send/receive/select/Wait executes while a broker mutex may be held, directly or in a synchronous callee (R-LOCKBLOCK); every broker accept/dial/knock wait has a constant 5 s timer arm (R-BOUND); an inbound stream that cannot be parked is closed, so its dialer fails instead of hanging (R-RES); every parked dial-side slot gets an expiry goroutine and both Run loops exit on session/stream error (R-EXPIRY); no channel is closed twice (R-CLOSE1). Pending slots have capacity exactly 1; MuxBroker.Close closes the yamux session; accept-side and dial-side pending tables are never mixed (R-ID/role); pending-window timers agree. Every healthy iteration of both Run loops hands the message to a slot (R-ROUTE/all); an expired net/rpc slot closes its parked connection (R-EXPIRY/drain); closing the client closes the broker (R-SIB/close).",
		NotDecided:  "the expiry-instant race as a timing fact (its harmful effect, a blocking receive under the lock, is what R-LOCKBLOCK excludes); goroutine termination after Close.",
	})
	register(&propDef{ID: "C10",
		Rules:       []func(*Ctx){ruleLoopCarried, ruleIdxOutput, ruleKVForward, ruleJSONKeys, ruleDrainSink, ruleStdioSequential, ruleStdoutLines, ruleStderrNewline, rulePanicFlag, ruleAssert, ruleDrain, ruleOrderO4, ruleLogLevels, onlyObligations(ruleWG, func(o *Obligation) bool { return strings.Contains(o.Construct, "pipe") })},
		Technique:   "call-graph reachability from the reader goroutines + type-assertion form check; loop-exit analysis against a reader effect table; case-to-method table agreement",
		Explanation: "Decides: no single-result type assertion is reachable from the stdout/stderr reader goroutines (R-ASSERT); the stderr loop ends only on a non-nil read error and every successfully read chunk passes config.Stderr.Write(line) before the next read; the stdout scanner's early stop (ErrTooLong) is followed by a drain of the same reader (R-DRAIN); the drain goroutine for the line channel is registered right after its producer (O4); each [LEVEL] prefix and hclog level is logged with the method of the same name, panic: with Error, default Debug or Error inside a panic trace (R-TABLE/levels). Every scanned stdout line is handed on (R-DRAIN/lines); the goroutines reading the two pipes are counted in the WaitGroup the reaper waits for before runner.Wait (R-WG); chunks are forwarded by the loop that received them (R-ORDER/stdio). Each hclog key read from the JSON record is the key removed from the remainder; the fallback drain of stdout copies to io.Discard. Constant indexes/slice bounds on plugin-derived strings and slices in the reader goroutines are covered by an established length, and never applied to an unmeasured call result (R-IDX/out); every element of the JSON key/value remainder reaches every append of its loop (R-TABLE/kv); the stderr read loop ends on a read error.",
		NotDecided:  "newline/continuation reconstruction for every buffer size (value-level); hclog's own formatting.",
		Assume:      []string{"bufio.Reader.ReadLine returns a non-nil error only at EOF or read failure", "bufio.Scanner stops with ErrTooLong at a 64 KiB token"},
	})
	register(&propDef{ID: "C11",
		Rules:       []func(*Ctx){onlyObligations(ruleWireFields, func(o *Obligation) bool { return strings.Contains(o.Construct, "StdioData") }), ruleCopyChanExits, ruleStdioDelivery, ruleNoCloseWriter, scoped(ruleBoundScoped, fnIn("grpcStdioServer.StreamStdio", "grpcStdioClient.Run", "copyChan")), ruleDrainSink, ruleDefaults, ruleStdioSequential, ruleDeadline, ruleCtx, ruleStdioWiring, ruleFresh, ruleCopyChan},
		Technique:   "label propagation (stdout/stderr) over resolved fields, parameters and constants; allocation-site-in-loop check; statement ordering in the chunk loop",
		Explanation: "Decides the wiring and aliasing conditions: every edge of the stdio path joins equal labels (os.Pipe pair -> os.Stdout/os.Stderr and the server's Stdout/Stderr fields -> stdoutCh/stderrCh -> STDOUT/STDERR tags -> host stdout/stderr writers <- SyncStdout/SyncStderr; net/rpc stream 0/1 on both ends) (R-TABLE/stdio); the chunk sent on the channel is backed by an array declared inside the loop body, so a later read cannot overwrite bytes in flight (R-FRESH); data[:n] is sent before the error of the same read is acted on and the hand-off is an unconditional blocking send (O10). Every loop of the stdio path forwards the chunk it received itself (no goroutine per chunk: R-ORDER/stdio); no absolute deadline stays armed on the stdio streams (R-DEADLINE). Every non-empty read is forwarded (guard n > 0); NewClient stores a default only into the field it found unset (R-DEFAULTS). No value held as an io.Writer is asserted to a closer (R-OWN/writer); the context of the long-lived stdio stream is the context parameter as received (R-CTX); the stdio handlers' waits have a cancellation arm (R-BOUND).",
		NotDecided:  "byte-exactness and ordering themselves (gRPC stream, yamux and io.Copy contracts); data written before the host attaches.",
	})
	register(&propDef{ID: "C12",
		Rules:       []func(*Ctx){scoped(ruleErrL1Scoped, fnIn("generateCert", "Serve")), scoped(ruleErrL2Scoped, fnIn("generateCert")), cfgWritersFor("ClientConfig.TLSConfig", "ClientConfig.AutoMTLS", "ServeConfig.TLSProvider"), onlyObligations(ruleEnv, func(o *Obligation) bool { return o.Rule == "R-ORDER/O5" && strings.Contains(o.Construct, "before the runner is created") }), ruleCtorStoresTLS, ruleTLSConfig, ruleTLSPools, ruleTLSUse, ruleCertGen, ruleAutoMTLSGate, ruleEnvCertOnly, scoped(ruleErrL2Scoped, fnIn("Client.Start", "Client.loadServerCert")), scoped(ruleErrL1Scoped, fnIn("Client.loadServerCert"))},
		Technique:   "composite-literal and field-store audit of every tls.Config in scope; origin resolution of certificate pools; provenance of TLS options at every listener/dial constructor call site",
		Explanation: "Decides what go-plugin itself contributes to mutual authentication: both tls.Config literals require and verify client certificates, set MinVersion >= TLS 1.2, carry the freshly generated pair and no verification bypass, and no store weakens them (R-TLS/config); RootCAs and ClientCAs are, on both sides, a fresh pool that received exactly the peer's handshake certificate (R-TLS/pools); every gRPC server factory call, dialGRPCConn call and broker construction passes the owner's TLS config, the insecure dial option is dominated by tls == nil, and the net/rpc listener/conn are wrapped under a non-nil config (R-TLS/use); the two certificates travel in PLUGIN_CLIENT_CERT and handshake field 6; a certificate that cannot be parsed or pinned fails the start (R-ERR on Start/loadServerCert). The credential generator draws key and certificate from crypto/rand.Reader, self-signs with the generated key over its public half, and returns that same key (R-TLS/certgen). The server builds the mutual-TLS configuration on every path on which a client certificate is present and no provider configuration exists, and the only stores to ClientConfig.TLSConfig assign the audited literal (R-TLS/automtls). The client-certificate variable tested by the AutoMTLS gate holds the environment value (single assignment); TLSConfig/AutoMTLS/TLSProvider are assigned only at the reviewed site (R-CFG/writers).",
		NotDecided:  "that crypto/tls enforces what is configured.",
		Assume:      []string{"crypto/tls with ClientAuth=RequireAndVerifyClientCert and a single-certificate pool accepts only that certificate's key"},
	})
	register(&propDef{ID: "C13",
		Rules:       []func(*Ctx){cfgWritersFor("SecureConfig.Checksum", "SecureConfig.Hash", "ClientConfig.SecureConfig", "ClientConfig.Cmd"), ruleCmdPathImmutable, ruleSecureOrder, ruleCmp, ruleSentinelSecure, scoped(ruleErrL1Scoped, fnIn("SecureConfig.Check")), scoped(ruleErrL2Scoped, fnIn("SecureConfig.Check"))},
		Technique:   "dominance of every launch site by the checksum gate; origin resolution of the compared operands; sentinel-return check",
		Explanation: "Decides: SecureConfig.Check(cmd.Path) with both results tested dominates every launch site in Start (O1, G-sum); the boolean returned by Check is subtle.ConstantTimeCompare (or bytes.Equal) of the un-sliced Hash.Sum(nil) after io.Copy(Hash, file) of the file opened from the path parameter against the un-sliced Checksum (R-CMP); the empty-checksum and nil-hash guards return their sentinels before the file is opened, a mismatch returns ErrChecksumsDoNotMatch (R-SENT). Nothing in the module assigns exec.Cmd.Path or Args, so the hashed file is the executed file. The library never assigns SecureConfig.Checksum/Hash, ClientConfig.SecureConfig or ClientConfig.Cmd (R-CFG/writers).",
		NotDecided:  "hash function behaviour; replacement of the file between check and exec (documented upstream).",
		Assume:      []string{"subtle.ConstantTimeCompare returns 1 iff the slices have equal length and contents"},
	})
	register(&propDef{ID: "C14",
		Rules:       []func(*Ctx){ruleCommaOk, cfgWritersFor("ClientConfig.AllowedProtocols", "ClientConfig.GRPCBrokerMultiplex", "ClientConfig.TLSConfig", "ClientConfig.AutoMTLS", "ClientConfig.Reattach", "ClientConfig.RunnerFunc", "ServeConfig.GRPCServer", "ServeConfig.TLSProvider"), onlyObligations(ruleEnv, func(o *Obligation) bool { return o.Rule == "R-ORDER/O5" && strings.Contains(o.Construct, "before the runner is created") }), ruleWindows, ruleVersionNegotiation, ruleTLSConfig, ruleTranslateDirections, ruleDialOptions, ruleHostEnvFilter, ruleMuxOnlyGRPC, ruleCtorStoresTLS, ruleGateExcl, ruleGateProtoMux, ruleSibDispense, ruleSibSwitch, ruleOrderStart, ruleTLSUse},
		Technique:   "dominance queries for configuration gates, sibling cross-check of Dispense implementations and protocol switches, TLS option provenance",
		Explanation: "Decides: the exclusivity checks (exactly one of Cmd/Reattach/RunnerFunc; SecureConfig or multiplexing with Reattach) return errors before any launch site (G-excl); the announced protocol must be in AllowedProtocols and the multiplexing field must be present and true when requested, failing with an error that is or wraps ErrGRPCBrokerMuxNotSupported (G-proto, G-mux); all three Dispense implementations return a non-nil error on a map miss; Client() and Serve switch over both protocols with an error/panic default; NewClient defaults AllowedProtocols to exactly net/rpc (R-SIB); refused configurations terminate the plugin (O3); plaintext is used only when no TLS config exists (R-TLS/use). The yamux server muxer wraps the listener only on the gRPC arm of the protocol switch. dialGRPCConn lifts the message size limit in both directions (R-SIB/dialopts); translation directions (R-ID/translate); the host-environment filter drops the feature variables whatever their value. Every store to Client.address in Start is behind all handshake gates, including the evaluation of the multiplexing request (all commits, not only the last); both tls.Config literals require client certificates (R-TLS/config); the option fields are assigned only at the reviewed sites (R-CFG/writers).",
		NotDecided:  "the end-to-end behaviour of each cell of the configuration matrix.",
	})
	register(&propDef{ID: "C15",
		Rules:       []func(*Ctx){cfgWritersFor("ReattachConfig.Test", "ReattachConfig.Protocol", "ReattachConfig.Addr", "ClientConfig.Reattach"), ruleRunnerWait, ruleProcHandle, onlyObligations(ruleSibClose, func(o *Obligation) bool { return strings.HasPrefix(o.Construct, "Quit ") }), ruleRunnerKill, ruleReattach, ruleSentinelReattach, ruleExit, ruleGateExcl},
		Technique:   "dominance (runner recorded only outside test mode), field-provenance of address/protocol, sentinel-return check, exit bookkeeping",
		Explanation: "Decides: in reattach the store to Client.runner is dominated by the false edge of Reattach.Test; address and protocol come from the ReattachConfig with net/rpc as default; Client.ReattachConfig() and the test-mode literal in Serve fill Protocol, Addr, Pid, Test from the negotiated protocol, the listener address, the pid and true; both failure paths of the reattach probe return ErrProcessNotFound; the reattach goroutine cancels the context and marks exit. Both runner Kill implementations call os.Process.Kill on every path with a process (R-SIB/runnerkill). The control-connection server ends the plugin only on an edge on which the quit flag is known to be set. The process handle stored in the attached runner is not released (R-RES/handle); the reattach configuration fields are never assigned by the library (R-CFG/writers).",
		NotDecided:  "that the address reaches the same plugin instance (a run-time value).",
	})
	register(&propDef{ID: "C16",
		Rules:       []func(*Ctx){scoped(ruleErrL1Scoped, fnIn("Serve", "serverListener", "serverListener_tcp", "serverListener_unix", "setGroupWritable", "ServeMux", "protocolVersion")), scoped(ruleErrL2Scoped, fnIn("serverListener", "serverListener_tcp", "serverListener_unix", "setGroupWritable")), ruleVersionNegotiation, cfgWritersFor("HandshakeConfig.MagicCookieKey", "HandshakeConfig.MagicCookieValue"), onlyObligations(ruleHostEnvFilter, func(o *Obligation) bool { return strings.Contains(o.Construct, "PLUGIN_MULTIPLEX_GRPC") }), ruleServeMuxExit, ruleServeServes, ruleCookie, ruleOrderServe, ruleHandshakeTable, ruleStdout},
		Technique:   "dominance of listener/print sites by the cookie gate, statement ordering in Serve, format-string/argument table extraction, who-may-write audit of os.Stdout",
		Explanation: "Decides: the empty key/value test and the exact != comparison of os.Getenv(key) with the value set exit code 1 and return before any listen or print site, and the deferred os.Exit reads that variable (G-cookie); the listener and server.Init precede the handshake print, print and Sync precede the os.Stdout swap (O6); the line is Sprintf(\"%d|%d|%s|%s|%s|%s\") of core version, negotiated version, listener network/address, protocol and certificate, with a seventh field only under os.Getenv(PLUGIN_MULTIPLEX_GRPC) != \"\" (R-TABLE/handshake); the only write to the real stdout in scope is that print (R-STDOUT). Both ServerProtocol.Serve implementations reach the accept loop on the announced listener on every path (nothing fallible between the print and accepting). ServeMux exits with status 1 on improper invocation. The inherited PLUGIN_MULTIPLEX_GRPC is filtered from the host environment (the seventh field appears only when this host asked); the magic cookie fields are never assigned (R-CFG/writers).",
		NotDecided:  "the exit status as observed by the OS; that a listening socket queues connections before Accept (kernel contract).",
	})
	register(&propDef{ID: "C17",
		Rules:       []func(*Ctx){cfgWritersFor("ClientConfig.AutoMTLS", "ClientConfig.GRPCBrokerMultiplex", "ClientConfig.SkipHostEnv", "ClientConfig.VersionedPlugins", "ClientConfig.Cmd", "ClientConfig.UnixSocketConfig", "ClientConfig.HandshakeConfig", "HandshakeConfig.MagicCookieKey", "HandshakeConfig.MagicCookieValue", "HandshakeConfig.ProtocolVersion"), ruleLegacyFold, ruleDefaults, ruleHostEnvFilter, ruleEnv},
		Technique:   "extraction of every element reaching exec.Cmd.Env with its dominating configuration conditions, compared with the reference table and with every os.Getenv reachable from Serve",
		Explanation: "Decides the whole structural content of the property: each control variable is appended under exactly its configuration condition, the host environment exactly when SkipHostEnv is false and before every control variable, stdin unconditionally, the offered versions are the keys of the map the acceptance check ranges; every variable the server reads is one the client writes; conditional 'exactly when' variables are filtered out of the inherited environment. A control variable's conditions beyond the gates common to all of them are exactly its feature condition. NewClient defaults (R-DEFAULTS); the host-environment filter tests NAME= on the environment entry itself; legacy fold only if absent and set. The configuration fields that determine the launch environment are assigned only at the reviewed sites (R-CFG/writers).",
		NotDecided:  "exec.Cmd's duplicate-key resolution (later entries win).",
		Assume:      []string{"exec.Cmd de-duplicates Env keeping the last value"},
	})
	register(&propDef{ID: "C18",
		Rules:       []func(*Ctx){ruleChanClosers, ruleAcceptAndServeCloses, ruleMuxListenerHook, ruleGRPCBrokerClose, ruleCopyChanExits, ruleClose1, ruleBrokerListeners, ruleIDRoles, ruleBrokerCloseCloses, onlyObligations(ruleSibClose, func(o *Obligation) bool {
			return strings.HasPrefix(o.Construct, "closes the") || strings.HasPrefix(o.Construct, "Shutdown stops")
		}), ruleWrapClose, ruleRes, ruleSocketDir, ruleStopClosesBroker, ruleWG, ruleBound},
		Technique:   "wrapper-closes-wrapped audit of every net.Listener implementation, resource typestate (listener closed on every return), Kill path enumeration",
		Explanation: "Decides: every module type that implements net.Listener and is built from a listener retains it and closes it on every path through Close; rmListener also runs its extra close function and the file listener removes the path it listens on (R-WRAPCLOSE); Serve and AcceptAndServe close their listener on every return after creation (R-RES, O7); Kill removes the socket directory on every non-early exit (R-RES/socketdir); Stop/GracefulStop close the broker; Kill waits for the management goroutines (R-WG); of the goroutine clause the necessary condition that no go-plugin goroutine can park forever: every blocking operation is non-blocking, timer-bounded, cancellation-terminated or in the reviewed table with its wake-up argument (R-BOUND). Both ClientProtocol.Close implementations close connection and broker on every path on which no close step failed (R-SIB/close). MuxBroker.Close closes the session; accept/dial pending tables are not mixed (R-ID/role). Every brokered listener Accept creates is recorded in the broker, GRPCBroker.Close closes the recorded listeners in its own goroutine, and GRPCServer.Stop closes the broker before it stops the server, so the socket files are gone before the plugin process can exit (R-RES/brokerls).",
		NotDecided:  "the rest of the goroutine clause: that each loop actually exits within seconds of Kill is a liveness property over runtime events; R-BOUND only excludes operations that can wait forever.",
	})
	register(&propDef{ID: "C19",
		Rules:       []func(*Ctx){ruleNoCopySync, ruleKillClears, ruleOnce, guardOn("Client.")},
		Technique:   "typestate of the launch region (once-flag tested before, stored before, never reset) via dominance queries; cache-structure check of Client(); lockset on Client fields",
		Explanation: "Decides: all launch sites in Start are reachable only when a Client once-flag was observed unset, the flag is stored on every path before the first launch site and never reset anywhere in the module; Client() creates a protocol client only when none is cached, returns the cached one otherwise and clears the cache on failure; all of this runs under the client lock (R-GUARD). Every field whose set value short-circuits Start (address, launched) is never reset anywhere. Client state is stored by Start only behind the launched-once test; the protocol-client cache is reset only by Client(); Kill clears the runner reference.",
		NotDecided:  "pointer equality of returned values across calls (follows from the cache structure but is a run-time fact).",
	})
	register(&propDef{ID: "C20",
		Rules:       []func(*Ctx){ruleCommaOk, ruleNoCopySync, ruleNoAppendToParam, ruleFresh, ruleErrL3, ruleLockPair, ruleLockOrder, ruleGetOrCreate, ruleGuard, ruleClose1, ruleLockBlock, ruleNilGuard, ruleAssert},
		Technique:   "lockset analysis with inferred guards and caller summaries, field-write discipline, atomic-only id counters, close-once classification",
		Explanation: "Decides: every access to a shared field named by the property's anchors holds the mutex inferred as its guard, in its own lock region or in all callers (reviewed happens-before exceptions for reads only); every other struct-field write outside constructors is under a mutex, inside sync.Once.Do or in the reviewed table; the id counters are touched only through sync/atomic; every close() is inside Once.Do, nil-test-and-clear under a mutex, a local single owner, or a reviewed shared close (R-CLOSE1); no blocking under a mutex; no unguarded optional-pointer dereference; no panicking assertion on plugin data. No nil-able result is dereferenced before its error was tested (R-ERR/L3); the chunk buffer sent on the stdio channel is allocated per iteration (R-FRESH); a reply channel is closed only after the reply was received (R-CLOSE1/reply). No append into a slice parameter (R-ALIAS).",
		NotDecided:  "races the lockset abstraction cannot express (happens-before through channels beyond the tabled exceptions), races inside dependencies, uniqueness of ids beyond 'atomic add, no other writer'.",
		Assume:      []string{"sync/atomic.AddUint32 returns distinct values to concurrent callers until wrap-around"},
	})
}
