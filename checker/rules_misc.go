package main

import (
	"fmt"
	"go/ast"
	"go/token"
	"go/types"
	"strings"
)

// ---------- R-REATTACH ----------

func ruleReattach(c *Ctx) {
	p := c.P
	f := p.Fn("Client.reattach")
	if f == nil {
		c.R.Undecided("R-REATTACH", "Client.reattach", "anchor", "function not found")
		return
	}
	info := f.Pkg.TypesInfo
	g := p.Graph(f)
	fld := func(t, n string) *types.Var { return p.FieldObj(modPath, t, n) }
	runnerF, addrF, protoF, nvF := fld("Client", "runner"), fld("Client", "address"), fld("Client", "protocol"), fld("Client", "negotiatedVersion")
	rTest, rAddr, rProto, rPV, rPid, rFunc := fld("ReattachConfig", "Test"), fld("ReattachConfig", "Addr"), fld("ReattachConfig", "Protocol"), fld("ReattachConfig", "ProtocolVersion"), fld("ReattachConfig", "Pid"), fld("ReattachConfig", "ReattachFunc")
	hold := func(ok bool, construct, good, bad string) {
		if ok {
			c.R.Hold("R-REATTACH", p.Pos(f.Node()), f.Name, construct, good, true)
		} else {
			c.R.Violate("R-REATTACH", p.Pos(f.Node()), f.Name, construct, bad, nil)
		}
	}
	// runner recorded only outside test mode
	nStores, okStores := 0, true
	for _, m := range g.Nodes {
		as, ok := m.Ast.(*ast.AssignStmt)
		if !ok {
			continue
		}
		for _, l := range as.Lhs {
			if SelField(info, l) == runnerF {
				nStores++
				mm := m
				if !g.OnlyViaEdge(mm, func(e *Edge) bool {
					at, isAt := edgeAtom(info, e)
					return isAt && at.Kind == "bool" && !at.True && SelField(info, at.X) == rTest
				}) {
					okStores = false
				}
			}
		}
	}
	hold(nStores >= 1 && okStores, "runner recorded only outside test mode", "Client.runner is stored only on the false edge of Reattach.Test, so Kill cannot reach a test-mode server's process",
		"in test mode the reattached runner is recorded (or outside test mode it is not): Kill would kill the in-process test server / could not kill a real plugin")
	// client state is recorded only once the attach has succeeded: a failed
	// reattach must leave the client as it was (Start's "already started"
	// shortcut tests Client.address)
	{
		var rfNode *Node
		var rfErr *types.Var
		for _, m := range g.Nodes {
			as, ok := m.Ast.(*ast.AssignStmt)
			if !ok || len(as.Rhs) != 1 || len(as.Lhs) != 2 {
				continue
			}
			call, ok := ast.Unparen(as.Rhs[0]).(*ast.CallExpr)
			if !ok {
				continue
			}
			if t := info.TypeOf(call); t != nil {
				if tup, ok := t.(*types.Tuple); ok && tup.Len() == 2 && strings.HasSuffix(tup.At(0).Type().String(), "runner.AttachedRunner") {
					rfNode = m
					rfErr, _ = identObj(info, as.Lhs[1]).(*types.Var)
				}
			}
		}
		if rfNode == nil || rfErr == nil {
			c.R.Undecided("R-REATTACH", f.Name, "attach call", "the call that returns the attached runner was not found")
		} else {
			early := g.Reach([]*Node{g.Entry}, func(x *Node) bool { return x == rfNode }, nil)
			failed := map[*Node]*Edge{}
			for _, m := range g.Nodes {
				for _, e := range m.Succs {
					at, isAt := edgeAtom(info, e)
					if isAt && at.Kind == "nil" && at.Op == token.NEQ && identObj(info, at.X) == rfErr {
						for k, v := range g.Reach([]*Node{e.To}, nil, nil) {
							failed[k] = v
						}
					}
				}
			}
			var bad ast.Node
			for _, set := range []map[*Node]*Edge{early, failed} {
				for m := range set {
					as, ok := m.Ast.(*ast.AssignStmt)
					if !ok {
						continue
					}
					for _, l := range as.Lhs {
						if fv := SelField(info, l); fv != nil && strings.HasPrefix(p.FieldName(fv), "Client.") {
							bad = as
						}
					}
				}
			}
			if bad != nil {
				c.R.Violate("R-REATTACH", p.Pos(bad), f.Name, "client state recorded only after a successful attach",
					"a field of the Client is assigned before the attach call has succeeded (or on its error path): after a failed reattach the client keeps that state, and since Start treats a recorded address as \"already started\" the next Start/Client/Protocol call reports success for a plugin that was never reached", nil)
			} else {
				c.R.Hold("R-REATTACH", p.Pos(rfNode.Ast), f.Name, "client state recorded only after a successful attach", "no store to a Client field is reachable before the attach call or from its error edge", true)
			}
		}
	}
	// reattach takes the protocol it is given: the allowed-protocol list is a
	// filter for what a launched plugin may announce and does not apply here
	// (its default, net/rpc only, would refuse every gRPC plugin whose host did
	// not repeat the list in the reattaching configuration)
	if apF := p.FieldObj(modPath, "ClientConfig", "AllowedProtocols"); apF != nil {
		var use ast.Node
		ast.Inspect(f.Body, func(x ast.Node) bool {
			if se, ok := x.(*ast.SelectorExpr); ok && SelField(info, se) == apF {
				use = se
			}
			return true
		})
		if use != nil {
			c.R.Violate("R-REATTACH", p.Pos(use), f.Name, "reattach does not filter by AllowedProtocols", "the reattach path consults ClientConfig.AllowedProtocols: a reattach configuration for a gRPC plugin is refused unless the host repeats the allowed list, although the protocol was negotiated when the plugin was launched", nil)
		} else {
			c.R.Hold("R-REATTACH", p.Pos(f.Node()), f.Name, "reattach does not filter by AllowedProtocols", "no read of ClientConfig.AllowedProtocols on the reattach path", true)
		}
	}
	// address and protocol come from the reattach config
	srcOf := func(dst *types.Var) []*types.Var {
		var out []*types.Var
		for _, m := range g.Nodes {
			as, ok := m.Ast.(*ast.AssignStmt)
			if !ok {
				continue
			}
			for i, l := range as.Lhs {
				if SelField(info, l) == dst && i < len(as.Rhs) {
					out = append(out, SelField(info, as.Rhs[i]))
				}
			}
		}
		return out
	}
	as := srcOf(addrF)
	hold(len(as) == 1 && as[0] == rAddr, "address from ReattachConfig.Addr", "", "the client's address after reattach is not ReattachConfig.Addr")
	ps := srcOf(protoF)
	okP := false
	nConst := 0
	for _, s := range ps {
		if s == rProto {
			okP = true
		}
		if s == nil {
			nConst++
		}
	}
	// the default store is `= ProtocolNetRPC` under `protocol == ""`
	okDefault := false
	for _, m := range g.Nodes {
		a, ok := m.Ast.(*ast.AssignStmt)
		if !ok || len(a.Lhs) != 1 || SelField(info, a.Lhs[0]) != protoF {
			continue
		}
		if s, isS := constString(info, a.Rhs[0]); isS && s == "netrpc" {
			mm := m
			if g.OnlyViaEdge(mm, func(e *Edge) bool {
				at, isAt := edgeAtom(info, e)
				if !isAt || at.Kind != "cmp" || at.Op != token.EQL || SelField(info, at.X) != protoF {
					return false
				}
				s2, ok2 := constString(info, at.Y)
				return ok2 && s2 == ""
			}) {
				okDefault = true
			}
		}
	}
	if !(okP && okDefault && nConst == 1) {
		// the same, decided on values: on every feasible path to the normal exit
		// Client.protocol holds the configured protocol when that was tested
		// non-empty, and the net/rpc constant when it was tested empty
		outs, capped := p.originWalk(f, protoF, func(e ast.Expr) string {
			if SelField(info, e) == rProto {
				return "R"
			}
			if sv, isS := constString(info, e); isS && sv == "netrpc" {
				return "K"
			}
			return ""
		}, "R")
		okVal := !capped && len(outs) > 0
		sawR, sawK := false, false
		for _, o := range outs {
			switch {
			case o[0] == "R" && o[1] == "false":
				sawR = true
			case o[0] == "K" && o[1] == "true":
				sawK = true
			case o[0] == "":
				// an exit on which the protocol was not stored (the error returns)
			default:
				okVal = false
			}
		}
		if okVal && sawR && sawK {
			okP, okDefault, nConst = true, true, 1
		}
	}
	hold(okP && okDefault && nConst == 1, "protocol from ReattachConfig.Protocol, default net/rpc", "", "the protocol after reattach is not ReattachConfig.Protocol with net/rpc as the default for an empty value")
	nv := srcOf(nvF)
	hold(len(nv) == 1 && nv[0] == rPV, "negotiated version from ReattachConfig.ProtocolVersion", "", "the negotiated version after a test-mode reattach is not ReattachConfig.ProtocolVersion")
	// default reattach func: cmdrunner.ReattachFunc(Pid, Addr) under ReattachFunc == nil
	okRF := false
	for _, call := range f.Calls() {
		if strings.HasSuffix(p.CalleeName(f, call), "cmdrunner.ReattachFunc") && len(call.Args) == 2 && SelField(info, call.Args[0]) == rPid && SelField(info, call.Args[1]) == rAddr {
			n := g.NodeOf(call)
			if n != nil && g.OnlyViaEdge(n, func(e *Edge) bool {
				at, isAt := edgeAtom(info, e)
				return isAt && at.Kind == "nil" && at.Op == token.EQL
			}) {
				okRF = true
			}
		}
	}
	_ = rFunc
	hold(okRF, "default probe uses Pid and Addr of the config", "cmdrunner.ReattachFunc(Reattach.Pid, Reattach.Addr) when no ReattachFunc is given", "the default reattach probe does not use the pid and address of the reattach configuration")

	// Client.ReattachConfig()
	rc := p.Fn("Client.ReattachConfig")
	if rc == nil {
		c.R.Undecided("R-REATTACH", "Client.ReattachConfig", "anchor", "function not found")
	} else {
		rinfo := rc.Pkg.TypesInfo
		okLit, okPid, okAsIs := false, false, false
		ast.Inspect(rc.Body, func(x ast.Node) bool {
			switch s := x.(type) {
			case *ast.CompositeLit:
				if t := rinfo.TypeOf(s); t != nil && strings.HasSuffix(t.String(), "go-plugin.ReattachConfig") {
					var pr, ad bool
					for _, el := range s.Elts {
						if kv, ok := el.(*ast.KeyValueExpr); ok {
							switch kv.Key.(*ast.Ident).Name {
							case "Protocol":
								pr = SelField(rinfo, kv.Value) == protoF
							case "Addr":
								ad = SelField(rinfo, kv.Value) == addrF
							}
						}
					}
					okLit = pr && ad
				}
			case *ast.AssignStmt:
				if len(s.Lhs) == 1 && SelField(rinfo, s.Lhs[0]) == rPid {
					if se, ok := ast.Unparen(s.Rhs[0]).(*ast.SelectorExpr); ok && se.Sel.Name == "Pid" {
						okPid = true
					}
				}
			case *ast.ReturnStmt:
				if len(s.Results) == 1 {
					if fv := SelField(rinfo, s.Results[0]); fv != nil && fv.Name() == "Reattach" {
						okAsIs = true
					}
				}
			}
			return true
		})
		if !okAsIs {
			// a field-by-field copy of the configuration the client was given: the
			// fields that decide how the plugin is reached and whether it may be
			// killed (Pid, ReattachFunc, Test) are each copied from the same field
			copied := map[string]bool{}
			ast.Inspect(rc.Body, func(x ast.Node) bool {
				as, ok := x.(*ast.AssignStmt)
				if !ok || len(as.Lhs) != len(as.Rhs) {
					return true
				}
				for i, l := range as.Lhs {
					lf := SelField(rinfo, l)
					rse, isSel := ast.Unparen(as.Rhs[i]).(*ast.SelectorExpr)
					if lf == nil || !isSel || !strings.HasPrefix(p.FieldName(lf), "ReattachConfig.") {
						continue
					}
					rf := SelField(rinfo, rse)
					if rf != lf {
						continue
					}
					baseX := ast.Unparen(rse.X)
					// through a local bound once to the configured value (r := c.config.Reattach)
					if bv, isV := identObj(rinfo, baseX).(*types.Var); isV && !bv.IsField() {
						if d := p.singleDef(rc, bv); d != nil {
							baseX = ast.Unparen(d)
						}
					}
					if base := SelField(rinfo, baseX); base != nil && p.FieldName(base) == "ClientConfig.Reattach" {
						copied[lf.Name()] = true
					}
				}
				return true
			})
			if copied["Pid"] && copied["ReattachFunc"] && copied["Test"] {
				okAsIs = true
				okPid = true
			}
		}
		// a caller edits what it gets (Pid, ReattachFunc, Test): every call hands
		// out a value of its own, never one kept in the Client
		{
			var kept ast.Node
			ast.Inspect(rc.Body, func(x ast.Node) bool {
				se, ok := x.(*ast.SelectorExpr)
				if !ok {
					return true
				}
				if fv := SelField(rinfo, se); fv != nil && strings.HasPrefix(p.FieldName(fv), "Client.") {
					t := fv.Type()
					if pt, isP := t.Underlying().(*types.Pointer); isP {
						t = pt.Elem()
					}
					if strings.HasSuffix(t.String(), "go-plugin.ReattachConfig") {
						kept = se
					}
				}
				return true
			})
			// a kept config is harmless when what is returned is a copy of it: no
			// return hands out the field, a pointer bound to it, or its address
			if kept != nil {
				isKept := func(e ast.Expr) bool {
					fv := SelField(rinfo, ast.Unparen(e))
					if fv == nil || !strings.HasPrefix(p.FieldName(fv), "Client.") {
						return false
					}
					t := fv.Type()
					if pt, isP := t.Underlying().(*types.Pointer); isP {
						t = pt.Elem()
					}
					return strings.HasSuffix(t.String(), "go-plugin.ReattachConfig")
				}
				handsOut := false
				nRet := 0
				walkNoLit(rc.Body, func(x ast.Node) bool {
					rs, ok := x.(*ast.ReturnStmt)
					if !ok || len(rs.Results) != 1 {
						return true
					}
					nRet++
					r := ast.Unparen(rs.Results[0])
					if u, isU := r.(*ast.UnaryExpr); isU && u.Op == token.AND {
						// &local: the local must be a struct value of its own
						r = ast.Unparen(u.X)
						if isKept(r) {
							handsOut = true
						}
						if v, isV := identObj(rinfo, r).(*types.Var); isV && !v.IsField() {
							if _, isStruct := v.Type().Underlying().(*types.Struct); !isStruct {
								handsOut = true
							}
						} else if _, isLit := r.(*ast.CompositeLit); !isLit {
							handsOut = true
						}
						return true
					}
					if isKept(r) {
						handsOut = true
						return true
					}
					if v, isV := identObj(rinfo, r).(*types.Var); isV && !v.IsField() {
						// a pointer local: every definition must be a fresh literal or
						// the address of a struct local, never the kept field
						ast.Inspect(rc.Body, func(y ast.Node) bool {
							as, isAs := y.(*ast.AssignStmt)
							if !isAs || len(as.Lhs) != len(as.Rhs) {
								return true
							}
							for i, l := range as.Lhs {
								if identObj(rinfo, l) != types.Object(v) {
									continue
								}
								d := ast.Unparen(as.Rhs[i])
								if isKept(d) {
									handsOut = true
								}
								if u, isU := d.(*ast.UnaryExpr); isU && u.Op == token.AND && isKept(u.X) {
									handsOut = true
								}
							}
							return true
						})
						return true
					}
					return true
				})
				if !handsOut && nRet > 0 {
					kept = nil
				}
			}
			if kept != nil {
				c.R.Violate("R-REATTACH", p.Pos(kept), rc.Name, "every call returns its own ReattachConfig",
					"ReattachConfig() keeps the value it hands out in the Client and returns it again: what one caller sets on it (Test, Pid, ReattachFunc) is what the next caller reattaches with", nil)
			} else {
				c.R.Hold("R-REATTACH", p.Pos(rc.Node()), rc.Name, "every call returns its own ReattachConfig", "no Client field of type ReattachConfig is handed out (none exists, or every return gives a literal or the address of a struct copy)", true)
			}
		}
		if okLit && okPid && okAsIs {
			c.R.Hold("R-REATTACH", p.Pos(rc.Node()), rc.Name, "reattach config reports what was negotiated", "Protocol and Addr are the client's, Pid the launched process's; an existing reattach config is returned as is", true)
		} else {
			c.R.Violate("R-REATTACH", p.Pos(rc.Node()), rc.Name, "reattach config reports what was negotiated", fmt.Sprintf("ReattachConfig() does not report the negotiated protocol/address/pid (literal=%v pid=%v asIs=%v)", okLit, okPid, okAsIs), nil)
		}
	}
	// Serve's test-mode literal
	if si := p.serveInfo(c, "R-REATTACH"); si != nil {
		sinfo := si.info
		var pvVars []*types.Var
		for _, m := range si.g.Nodes {
			for _, call := range callsIn(m.Ast) {
				if p.CalleeName(si.f, call) == modPath+".protocolVersion" {
					if a, ok := m.Ast.(*ast.AssignStmt); ok {
						for _, l := range a.Lhs {
							v, _ := identObj(sinfo, l).(*types.Var)
							pvVars = append(pvVars, v)
						}
					}
				}
			}
		}
		lv := assignedVarOfNode(p, sinfo, si.listen)
		ok := false
		ast.Inspect(si.f.Body, func(x ast.Node) bool {
			cl, isCl := x.(*ast.CompositeLit)
			if !isCl {
				return true
			}
			if t := sinfo.TypeOf(cl); t == nil || !strings.HasSuffix(t.String(), "go-plugin.ReattachConfig") {
				return true
			}
			got := map[string]bool{}
			for _, el := range cl.Elts {
				kv, isKv := el.(*ast.KeyValueExpr)
				if !isKv {
					continue
				}
				switch kv.Key.(*ast.Ident).Name {
				case "Protocol":
					got["p"] = len(pvVars) == 3 && (identObj(sinfo, kv.Value) == pvVars[1] || identObj(sinfo, p.Deref(si.f, kv.Value)) == pvVars[1])
				case "ProtocolVersion":
					got["v"] = len(pvVars) == 3 && (identObj(sinfo, kv.Value) == pvVars[0] || identObj(sinfo, p.Deref(si.f, kv.Value)) == pvVars[0])
				case "Addr":
					if call, isC := ast.Unparen(p.Deref(si.f, kv.Value)).(*ast.CallExpr); isC {
						if se, isS := call.Fun.(*ast.SelectorExpr); isS && se.Sel.Name == "Addr" && identObj(sinfo, se.X) == lv {
							got["a"] = true
						}
					}
				case "Pid":
					if call, isC := ast.Unparen(kv.Value).(*ast.CallExpr); isC && p.CalleeName(si.f, call) == "os.Getpid" {
						got["i"] = true
					}
				case "Test":
					if id, isI := kv.Value.(*ast.Ident); isI && id.Name == "true" {
						got["t"] = true
					}
				}
			}
			if got["p"] && got["v"] && got["a"] && got["i"] && got["t"] {
				ok = true
			}
			return true
		})
		if ok {
			c.R.Hold("R-REATTACH", p.Pos(si.f.Node()), "Serve", "test-mode reattach config", "Protocol/ProtocolVersion negotiated, Addr of the listener, own pid, Test=true", true)
		} else {
			c.R.Violate("R-REATTACH", p.Pos(si.f.Node()), "Serve", "test-mode reattach config", "the reattach configuration emitted in test mode does not describe this server (protocol, version, listener address, pid, Test=true)", nil)
		}
		// test mode ends on context cancellation: the final select has the ctx.Done arm which closes the listener
		okStop := false
		for _, op := range p.BlockOps(si.f) {
			if op.Kind == "select" && op.HasCtx {
				okStop = true
			}
		}
		if okStop {
			c.R.Hold("R-REATTACH", p.Pos(si.f.Node()), "Serve", "test-mode server stops on context cancellation", "the final wait has a ctx.Done() arm", false)
		} else {
			c.R.Violate("R-REATTACH", p.Pos(si.f.Node()), "Serve", "test-mode server stops on context cancellation", "Serve no longer waits on the test context", nil)
		}
	}
}

func ruleSentinelReattach(c *Ctx) {
	p := c.P
	rf := p.Fn("cmdrunner.ReattachFunc")
	if rf == nil {
		c.R.Undecided("R-SENT", "cmdrunner.ReattachFunc", "anchor", "function not found")
		return
	}
	var lit *Func
	for _, lf := range p.Funcs {
		if lf.Lit != nil && lf.Parent == rf {
			lit = lf
		}
	}
	if lit == nil {
		c.R.Undecided("R-SENT", rf.Name, "probe closure", "closure not found")
		return
	}
	info := lit.Pkg.TypesInfo
	g := p.Graph(lit)
	sent := p.Pkgs[modPath+"/internal/cmdrunner"].Types.Scope().Lookup("ErrProcessNotFound")
	n := 0
	ok := sent != nil
	for _, m := range g.Nodes {
		for _, e := range m.Succs {
			if !errNonNilEdge(info, e) {
				continue
			}
			n++
			seen := p.FeasibleReach(lit, []*Node{e.To}, func(x *Node) bool {
				rs, isR := x.Ast.(*ast.ReturnStmt)
				return isR && len(rs.Results) == 2 && identObj(info, rs.Results[1]) == sent
			}, nil)
			if seen[g.Exit] {
				ok = false
			}
		}
	}
	// the probe dials the address it was given, on every way to a successful
	// attach: no feasible path from the entry to a `return ..., nil` avoids
	// the net.Dial (a socket file that exists may be left over from a plugin
	// that died)
	dials := false
	for _, call := range lit.Calls() {
		if p.CalleeName(lit, call) == "net.Dial" {
			dials = true
		}
	}
	if dials {
		isDial := func(x *Node) bool {
			if x.Ast == nil {
				return false
			}
			for _, call := range callsIn(x.Ast) {
				if p.CalleeName(lit, call) == "net.Dial" {
					return true
				}
			}
			return false
		}
		noDial := p.FeasibleReach(lit, []*Node{g.Entry}, isDial, nil)
		for m := range noDial {
			if rs, isR := m.Ast.(*ast.ReturnStmt); isR && len(rs.Results) == 2 && isNilIdent(info, rs.Results[1]) {
				dials = false
				c.R.Violate("R-SENT", p.Pos(rs), lit.Name, "a successful attach has connected to the address", "the reattach function can report success without having connected to the plugin's address on this path: a stale socket file (or any check short of a connection) makes a dead plugin look alive, and the client attaches to nothing instead of failing with ErrProcessNotFound", nil)
			}
		}
	}
	if ok && n >= 2 && dials {
		c.R.Hold("R-SENT", p.Pos(lit.Node()), lit.Name, "probe failure -> ErrProcessNotFound", fmt.Sprintf("%d failure edges (process lookup, dial), all return the sentinel", n), true)
	} else {
		c.R.Violate("R-SENT", p.Pos(lit.Node()), lit.Name, "probe failure -> ErrProcessNotFound", "reattaching when nothing is listening does not fail with ErrProcessNotFound on every failure path of the probe", nil)
	}
}

// ---------- C02: version negotiation ----------

func ruleVersionNegotiation(c *Ctx) {
	p := c.P
	f := p.Fn("protocolVersion")
	if f == nil {
		c.R.Undecided("R-NEG", "protocolVersion", "anchor", "the negotiation function was not found")
		return
	}
	info := f.Pkg.TypesInfo
	g := p.Graph(f)
	vpF := p.FieldObj(modPath, "ServeConfig", "VersionedPlugins")
	und := func(what string) {
		c.R.Undecided("R-NEG", f.Name, what, "the negotiation algorithm is not in the recognised shape (descending sort, first match, else lowest); teach the rule the new idiom")
	}
	// (1) outer loop: a range statement containing a 3-result return, not nested in another range over a slice
	var outer *ast.RangeStmt
	ast.Inspect(f.Body, func(x ast.Node) bool {
		rs, ok := x.(*ast.RangeStmt)
		if !ok || outer != nil {
			return true
		}
		has := false
		ast.Inspect(rs.Body, func(y ast.Node) bool {
			if r, ok := y.(*ast.ReturnStmt); ok && len(r.Results) == 3 {
				has = true
			}
			return true
		})
		if has {
			outer = rs
			return false
		}
		return true
	})
	if outer == nil || outer.Value == nil {
		und("outer loop")
		return
	}
	sv, _ := identObj(info, outer.X).(*types.Var)
	ov, _ := identObj(info, outer.Value).(*types.Var)
	if sv == nil || ov == nil {
		und("outer loop variables")
		return
	}
	rangeN := g.NodeOf(outer.X)
	// the ranged variable may be a plain copy of the list that was built and
	// sorted (`tmp := list` as left by helper inlining): follow it
	for i := 0; i < 3; i++ {
		d := p.singleDef(f, sv)
		if d == nil {
			break
		}
		src, ok := identObj(info, ast.Unparen(d)).(*types.Var)
		if !ok || src.IsField() {
			break
		}
		sv = src
	}
	// (2) sorted descending at the loop head
	var sortN *Node
	for _, call := range f.Calls() {
		if p.CalleeName(f, call) != "sort.Sort" || len(call.Args) != 1 {
			continue
		}
		rev, ok := ast.Unparen(call.Args[0]).(*ast.CallExpr)
		if !ok || p.CalleeName(f, rev) != "sort.Reverse" {
			continue
		}
		conv, ok := ast.Unparen(rev.Args[0]).(*ast.CallExpr)
		if !ok || len(conv.Args) != 1 || identObj(info, conv.Args[0]) != sv {
			continue
		}
		if t := info.TypeOf(conv.Fun); t == nil || t.String() != "sort.IntSlice" {
			continue
		}
		sortN = g.NodeOf(call)
	}
	if sortN == nil {
		// sort.Slice(list, func(i, j int) bool { return list[i] > list[j] }) / slices.SortFunc with a descending comparator
		for _, call := range f.Calls() {
			nm := p.CalleeName(f, call)
			if (nm == "sort.Slice" || nm == "sort.SliceStable" || nm == "slices.SortFunc" || nm == "slices.SortStableFunc") && len(call.Args) == 2 && identObj(info, call.Args[0]) == sv {
				if ci, ct, cb := p.comparatorOf(f, call.Args[1]); ct != nil && descendingCmp(ci, ct, cb, sv, nm) {
					sortN = g.NodeOf(call)
				}
			}
		}
	}
	if sortN == nil {
		// list := slices.SortedFunc(seq, descending comparator): the definition is the sort
		for _, m := range g.Nodes {
			as, ok := m.Ast.(*ast.AssignStmt)
			if !ok || len(as.Lhs) != 1 || len(as.Rhs) != 1 || identObj(info, as.Lhs[0]) != sv {
				continue
			}
			call, ok := ast.Unparen(as.Rhs[0]).(*ast.CallExpr)
			if !ok || len(call.Args) != 2 {
				continue
			}
			if nm := p.CalleeName(f, call); nm == "slices.SortedFunc" || nm == "slices.SortedStableFunc" {
				if ci, ct, cb := p.comparatorOf(f, call.Args[1]); ct != nil && descendingCmp(ci, ct, cb, sv, "slices.SortFunc") {
					sortN = m
				}
			}
		}
	}
	if sortN == nil {
		// slices.Sort(list) followed by slices.Reverse(list)
		var s1, s2 *Node
		for _, call := range f.Calls() {
			nm := p.CalleeName(f, call)
			if len(call.Args) == 1 && identObj(info, call.Args[0]) == sv {
				if nm == "slices.Sort" || nm == "sort.Ints" {
					s1 = g.NodeOf(call)
				}
				if nm == "slices.Reverse" {
					s2 = g.NodeOf(call)
				}
			}
		}
		// list := slices.Sorted(seq) is an ascending sort by definition
		if s1 == nil {
			for _, m := range g.Nodes {
				as, ok := m.Ast.(*ast.AssignStmt)
				if !ok || len(as.Lhs) != 1 || len(as.Rhs) != 1 || identObj(info, as.Lhs[0]) != sv {
					continue
				}
				if call, ok := ast.Unparen(as.Rhs[0]).(*ast.CallExpr); ok && p.CalleeName(f, call) == "slices.Sorted" {
					s1 = m
				}
			}
		}
		if s1 != nil && s2 != nil && g.Dominates(s1, s2) {
			sortN = s2
		}
	}
	if sortN == nil || rangeN == nil {
		c.R.Violate("R-NEG", p.Pos(outer), f.Name, "served versions sorted descending", "the list of served versions is not sorted in descending order before the first-match loop: the first match is then not the highest common version", nil)
	} else {
		okSorted := g.Dominates(sortN, rangeN)
		for m := range g.ReachAfter(sortN, func(x *Node) bool { return x == rangeN }, nil) {
			if m.Ast == nil {
				continue
			}
			defs, _ := nodeDefsUses(info, m.Ast)
			if _, re := defs[sv]; re {
				okSorted = false
			}
		}
		if okSorted {
			c.R.Hold("R-NEG", p.Pos(sortN.Ast), f.Name, "served versions sorted descending", "a descending sort of the list dominates the loop head and the list is not modified in between", true)
		} else {
			c.R.Violate("R-NEG", p.Pos(sortN.Ast), f.Name, "served versions sorted descending", "the served-version list can be modified (or the sort skipped) between the descending sort and the first-match loop", nil)
		}
	}
	// (3)-(5) the body
	var pvVar, psVar *types.Var // protoVersion := version ; pluginSet := VersionedPlugins[version]
	ast.Inspect(outer.Body, func(x ast.Node) bool {
		as, ok := x.(*ast.AssignStmt)
		if !ok || len(as.Lhs) != 1 || len(as.Rhs) != 1 {
			return true
		}
		if identObj(info, as.Rhs[0]) == ov {
			pvVar, _ = identObj(info, as.Lhs[0]).(*types.Var)
		}
		if ix, ok := ast.Unparen(as.Rhs[0]).(*ast.IndexExpr); ok && SelField(info, ix.X) == vpF && identObj(info, ix.Index) == ov {
			psVar, _ = identObj(info, as.Lhs[0]).(*types.Var)
		}
		return true
	})
	isVer := func(o types.Object) bool { return o != nil && (o == ov || o == pvVar) }
	var matchRet *ast.ReturnStmt
	var inner *ast.RangeStmt
	ast.Inspect(outer.Body, func(x ast.Node) bool {
		if rs, ok := x.(*ast.RangeStmt); ok {
			ast.Inspect(rs.Body, func(y ast.Node) bool {
				if r, ok := y.(*ast.ReturnStmt); ok && len(r.Results) == 3 {
					matchRet, inner = r, rs
				}
				return true
			})
		}
		return true
	})
	var containsList *types.Var
	if matchRet == nil {
		// alternative idiom: if slices.Contains(offered, version) { return ... }
		ast.Inspect(outer.Body, func(x ast.Node) bool {
			if _, isRange := x.(*ast.RangeStmt); isRange {
				return false
			}
			if r, ok := x.(*ast.ReturnStmt); ok && len(r.Results) == 3 && matchRet == nil {
				matchRet = r
			}
			return true
		})
	}
	if matchRet == nil || (inner != nil && inner.Value == nil) {
		und("match return")
		return
	}
	retN := g.NodeOf(matchRet)
	var iv types.Object
	if inner != nil {
		iv = identObj(info, inner.Value)
	}
	okMatch := retN != nil && g.OnlyViaEdge(retN, func(e *Edge) bool {
		at, isAt := edgeAtom(info, e)
		if !isAt {
			return false
		}
		if inner == nil {
			// looked-up form: offered[i] == served (e.g. after a binary search)
			if at.Kind == "cmp" && at.Op == token.EQL {
				for _, pr := range [][2]ast.Expr{{at.X, at.Y}, {at.Y, at.X}} {
					if ix, ok := ast.Unparen(pr[0]).(*ast.IndexExpr); ok && isVer(identObj(info, pr[1])) {
						if lv, ok := identObj(info, ix.X).(*types.Var); ok && !lv.IsField() && p.completeSearch(f, g, ix, lv, isVer) {
							containsList = lv
							return true
						}
					}
				}
				return false
			}
			if at.Kind != "call" || !at.True {
				return false
			}
			call := at.X.(*ast.CallExpr)
			nm := p.CalleeName(f, call)
			if (nm != "slices.Contains" && nm != "golang.org/x/exp/slices.Contains") || len(call.Args) != 2 || !isVer(identObj(info, call.Args[1])) {
				return false
			}
			containsList, _ = identObj(info, call.Args[0]).(*types.Var)
			return containsList != nil
		}
		if at.Kind != "cmp" || at.Op != token.EQL {
			return false
		}
		a, b := identObj(info, at.X), identObj(info, at.Y)
		return (a == iv && isVer(b)) || (b == iv && isVer(a))
	})
	if okMatch {
		c.R.Hold("R-NEG", p.Pos(matchRet), f.Name, "match is equality of offered and served version", "the in-loop return is reachable only through `offered == served`", true)
	} else {
		c.R.Violate("R-NEG", p.Pos(matchRet), f.Name, "match is equality of offered and served version", "a version can be announced without being equal to one the host offered, or the lookup is not a complete membership test (an indexed comparison is accepted only behind a binary search that assumes the order the offered list was sorted in)", nil)
	}
	// the host's list is the parsed PLUGIN_PROTOCOL_VERSIONS
	var cl *types.Var
	var clSite ast.Node = matchRet
	if inner != nil {
		cl, _ = identObj(info, inner.X).(*types.Var)
		clSite = inner
	} else {
		cl = containsList
	}
	okCL := false
	if cl != nil {
		// the list variable and the locals it is copied from
		lists := map[types.Object]bool{cl: true}
		for round := 0; round < 3; round++ {
			ast.Inspect(f.Body, func(x ast.Node) bool {
				if as, ok := x.(*ast.AssignStmt); ok && len(as.Lhs) == len(as.Rhs) {
					for i, l := range as.Lhs {
						if lists[identObj(info, l)] {
							if o := identObj(info, as.Rhs[i]); o != nil {
								lists[o] = true
							}
						}
					}
				}
				return true
			})
		}
		ast.Inspect(f.Body, func(x ast.Node) bool {
			as, ok := x.(*ast.AssignStmt)
			if !ok || len(as.Lhs) != 1 || !lists[identObj(info, as.Lhs[0])] {
				return true
			}
			if call, ok := ast.Unparen(as.Rhs[0]).(*ast.CallExpr); ok && p.CalleeName(f, call) == "builtin.append" && len(call.Args) == 2 {
				if v, ok := identObj(info, call.Args[1]).(*types.Var); ok {
					for _, c2 := range f.Calls() {
						if p.CalleeName(f, c2) == "strconv.Atoi" && assignedVar(p, info, c2) == v {
							okCL = true
						}
					}
				}
			}
			return true
		})
	}
	envOK := false
	for _, call := range f.Calls() {
		if p.CalleeName(f, call) == "os.Getenv" {
			if k, ok := constString(info, call.Args[0]); ok && k == "PLUGIN_PROTOCOL_VERSIONS" {
				envOK = true
			}
		}
	}
	if okCL && envOK {
		c.R.Hold("R-NEG", p.Pos(clSite), f.Name, "offered list is the parsed PLUGIN_PROTOCOL_VERSIONS", "each element is strconv.Atoi of a comma-separated field; unparsable fields are skipped", true)
	} else {
		c.R.Violate("R-NEG", p.Pos(clSite), f.Name, "offered list is the parsed PLUGIN_PROTOCOL_VERSIONS", "the list matched against is not the host's offered versions", nil)
	}
	// (4) the returned triple
	chkTriple := func(r *ast.ReturnStmt, what string) {
		o0, o2 := identObj(info, r.Results[0]), identObj(info, r.Results[2])
		if isVer(o0) && o2 == psVar && psVar != nil {
			c.R.Hold("R-NEG", p.Pos(r), f.Name, what+" returns the version and the set registered under it", "results are the loop's version and VersionedPlugins[version]", true)
		} else {
			c.R.Violate("R-NEG", p.Pos(r), f.Name, what+" returns the version and the set registered under it", "the plugin set returned is not the one registered under the returned version: the two sides would proceed with sets of different versions", nil)
		}
	}
	chkTriple(matchRet, "match")
	// (5) protocol derived from the chosen set
	ptVar, _ := identObj(info, matchRet.Results[1]).(*types.Var)
	okPT := false
	if ptVar != nil && psVar != nil {
		ast.Inspect(outer.Body, func(x ast.Node) bool {
			rs, ok := x.(*ast.RangeStmt)
			if !ok || identObj(info, rs.X) != psVar {
				return true
			}
			inRange := map[types.Object]bool{}
			ast.Inspect(rs.Body, func(y ast.Node) bool {
				if as, ok := y.(*ast.AssignStmt); ok {
					for _, l := range as.Lhs {
						if o := identObj(info, l); o != nil {
							inRange[o] = true
						}
					}
				}
				return true
			})
			if inRange[ptVar] {
				okPT = true
			}
			// or through one temporary assigned in the range (an inlined helper's result)
			ast.Inspect(outer.Body, func(y ast.Node) bool {
				if as, ok := y.(*ast.AssignStmt); ok && len(as.Lhs) == len(as.Rhs) {
					for i, l := range as.Lhs {
						if identObj(info, l) == ptVar && inRange[identObj(info, as.Rhs[i])] {
							okPT = true
						}
					}
				}
				return true
			})
			return true
		})
	}
	if okPT {
		c.R.Hold("R-NEG", p.Pos(outer), f.Name, "wire protocol taken from the chosen set", "the protocol variable is assigned while ranging the plugin set of the current version", true)
	} else {
		c.R.Violate("R-NEG", p.Pos(outer), f.Name, "wire protocol taken from the chosen set", "the announced wire protocol is not derived from the plugin set of the announced version", nil)
	}
	// (6) fallback return after the loop
	var fb *ast.ReturnStmt
	for _, st := range f.Body.List {
		if r, ok := st.(*ast.ReturnStmt); ok && len(r.Results) == 3 {
			fb = r
		}
	}
	if fb == nil {
		und("fallback return")
	} else {
		fbN := g.NodeOf(fb)
		after := fbN != nil && rangeN != nil && g.Dominates(rangeN, fbN)
		if after {
			chkTriple(fb, "fallback (lowest)")
		} else {
			c.R.Violate("R-NEG", p.Pos(fb), f.Name, "fallback after the loop", "the no-match return does not come after the complete descending loop (it would not be the lowest version)", nil)
		}
	}
	// (7) the served list is the key set of the map, after the legacy fields were folded in
	var buildRange *ast.RangeStmt
	ast.Inspect(f.Body, func(x ast.Node) bool {
		if rs, ok := x.(*ast.RangeStmt); ok && SelField(info, rs.X) == vpF && rs.Key != nil {
			k := identObj(info, rs.Key)
			ast.Inspect(rs.Body, func(y ast.Node) bool {
				if as, ok := y.(*ast.AssignStmt); ok && len(as.Lhs) == 1 && identObj(info, as.Lhs[0]) == sv {
					if call, ok := ast.Unparen(as.Rhs[0]).(*ast.CallExpr); ok && p.CalleeName(f, call) == "builtin.append" && len(call.Args) == 2 && identObj(info, call.Args[1]) == k {
						buildRange = rs
					}
				}
				return true
			})
		}
		return true
	})
	var foldN *Node
	for _, m := range g.Nodes {
		if as, ok := m.Ast.(*ast.AssignStmt); ok && len(as.Lhs) == 1 {
			if ix, ok := ast.Unparen(as.Lhs[0]).(*ast.IndexExpr); ok && SelField(info, ix.X) == vpF {
				foldN = m
			}
		}
	}
	// alternative idiom: list := slices.Collect(maps.Keys(VersionedPlugins)) / maps.Keys(...)
	var collectN *Node
	for _, m := range g.Nodes {
		as, ok := m.Ast.(*ast.AssignStmt)
		if !ok || len(as.Lhs) != 1 || len(as.Rhs) != 1 || identObj(info, as.Lhs[0]) != sv {
			continue
		}
		ast.Inspect(as.Rhs[0], func(x ast.Node) bool {
			if call, ok := x.(*ast.CallExpr); ok && strings.HasSuffix(p.CalleeName(f, call), "maps.Keys") && len(call.Args) == 1 && SelField(info, call.Args[0]) == vpF {
				collectN = m
			}
			return true
		})
	}
	if buildRange == nil && collectN != nil && foldN != nil {
		_, before := g.ReachAfter(foldN, nil, nil)[collectN]
		_, afterwards := g.ReachAfter(collectN, nil, nil)[foldN]
		if before && !afterwards {
			c.R.Hold("R-NEG", p.Pos(collectN.Ast), f.Name, "served list = keys of the map incl. legacy fields", "maps.Keys(VersionedPlugins) is taken after the legacy ProtocolVersion/Plugins were stored into the map", true)
		} else {
			c.R.Violate("R-NEG", p.Pos(collectN.Ast), f.Name, "served list = keys of the map incl. legacy fields", "the legacy fields are folded in after the key list was built", nil)
		}
	} else if buildRange != nil && foldN != nil {
		brN := g.NodeOf(buildRange.X)
		_, before := g.ReachAfter(foldN, nil, nil)[brN]
		_, afterwards := g.ReachAfter(brN, nil, nil)[foldN]
		if before && !afterwards {
			c.R.Hold("R-NEG", p.Pos(buildRange), f.Name, "served list = keys of the map incl. legacy fields", "the legacy ProtocolVersion/Plugins are stored into VersionedPlugins before its keys are collected", true)
		} else {
			c.R.Violate("R-NEG", p.Pos(buildRange), f.Name, "served list = keys of the map incl. legacy fields", "the legacy fields are folded in after the key list was built", nil)
		}
	} else {
		c.R.Violate("R-NEG", p.Pos(f.Node()), f.Name, "served list = keys of the map incl. legacy fields", "the served-version list is not built from the keys of ServeConfig.VersionedPlugins with the legacy fields folded in", nil)
	}
}

// ruleEnvVersionsOnly: the client half of C02.
func ruleEnvVersionsOnly(c *Ctx) {
	p := c.P
	f := p.Fn("Client.Start")
	if f == nil {
		c.R.Undecided("R-NEG", "Client.Start", "anchor", "function not found")
		return
	}
	p.envVersions(c, f)
	if cp := p.Fn("Client.checkProtoVersion"); cp != nil {
		p.gateAppCallee(c, cp)
	} else {
		c.R.Undecided("R-NEG", "Client.checkProtoVersion", "anchor", "function not found")
	}
	info := f.Pkg.TypesInfo
	g := p.Graph(f)
	// G-app on the Start side (accept only after the check; store what it returned): reuse the gate
	si := p.startInfo(c, "R-NEG")
	if si == nil {
		return
	}
	vars, n := si.varsFromCall(p, func(call *ast.CallExpr) bool {
		return len(call.Args) == 1 && si.isPartsIdx(call.Args[0], 1) && p.FnOf(asFunc(p.Callee(f, call))) != nil
	})
	if n == nil || len(vars) != 3 {
		c.R.Undecided("R-NEG", f.Name, "version check call", "no module call taking handshake field 2 found")
		return
	}
	ev := vars[2]
	ok := si.gatePass(func(e *Edge) bool {
		at, isAt := edgeAtom(info, e)
		return isAt && at.Kind == "nil" && at.Op == token.EQL && identObj(info, at.X) == ev
	})
	nvF := p.FieldObj(modPath, "Client", "negotiatedVersion")
	plF := p.FieldObj(modPath, "ClientConfig", "Plugins")
	stV, stP := false, false
	for _, m := range g.Nodes {
		if as, isAs := m.Ast.(*ast.AssignStmt); isAs && len(as.Lhs) == 1 && len(as.Rhs) == 1 {
			if SelField(info, as.Lhs[0]) == nvF && identObj(info, as.Rhs[0]) == vars[0] && si.mustPassNode(m) {
				stV = true
			}
			if SelField(info, as.Lhs[0]) == plF && identObj(info, as.Rhs[0]) == vars[1] && si.mustPassNode(m) {
				stP = true
			}
		}
	}
	if ok && stV && stP {
		c.R.Hold("R-NEG", p.Pos(n.Ast), f.Name, "client proceeds with the announced version's set", "accepted only after the check of field 2 succeeded; negotiatedVersion and Plugins are its results", true)
	} else {
		c.R.Violate("R-NEG", p.Pos(n.Ast), f.Name, "client proceeds with the announced version's set", "the client can proceed without the announced version being one it offered, or with a plugin set other than that version's", nil)
	}
}

// ---------- C11 ----------

func streamLabel(name string) string {
	l := strings.ToLower(name)
	switch {
	case strings.Contains(l, "stdout") || strings.Contains(l, "srcout"):
		return "out"
	case strings.Contains(l, "stderr") || strings.Contains(l, "srcerr"):
		return "err"
	}
	return ""
}

func (p *Prog) exprLabel(f *Func, e ast.Expr) string {
	info := f.Pkg.TypesInfo
	e = ast.Unparen(e)
	if s, ok := constString(info, e); ok {
		return streamLabel(s)
	}
	switch x := e.(type) {
	case *ast.Ident:
		if o := identObj(info, x); o != nil {
			return streamLabel(o.Name())
		}
	case *ast.SelectorExpr:
		return streamLabel(x.Sel.Name)
	case *ast.IndexExpr:
		if k, ok := constInt(info, x.Index); ok {
			if k == 0 {
				return "out"
			}
			if k == 1 {
				return "err"
			}
		}
	case *ast.UnaryExpr:
		return p.exprLabel(f, x.X)
	}
	return ""
}

func ruleStdioWiring(c *Ctx) {
	p := c.P
	n := 0
	edge := func(f *Func, site ast.Node, what string, a, b string) {
		n++
		construct := fmt.Sprintf("%s #%d", what, n)
		if a != "" && a == b {
			c.R.Hold("R-TABLE/stdio", p.Pos(site), f.Name, construct, "both ends are the "+map[string]string{"out": "stdout", "err": "stderr"}[a]+" stream", true)
		} else {
			c.R.Violate("R-TABLE/stdio", p.Pos(site), f.Name, construct, fmt.Sprintf("this link of the synced-stdio path joins %q with %q: output would be delivered on the wrong stream (or the link is no longer recognisable)", a, b), nil)
		}
	}
	// 1. Serve: pipes
	if f := p.Fn("Serve"); f != nil {
		info := f.Pkg.TypesInfo
		type pipe struct{ r, w *types.Var }
		var pipes []pipe
		ast.Inspect(f.Body, func(x ast.Node) bool {
			as, ok := x.(*ast.AssignStmt)
			if !ok || len(as.Rhs) != 1 || len(as.Lhs) != 3 {
				return true
			}
			if call, ok := as.Rhs[0].(*ast.CallExpr); ok && p.CalleeName(f, call) == "os.Pipe" {
				r, _ := identObj(info, as.Lhs[0]).(*types.Var)
				w, _ := identObj(info, as.Lhs[1]).(*types.Var)
				pipes = append(pipes, pipe{r, w})
			}
			return true
		})
		for _, pp := range pipes {
			lab := ""
			ast.Inspect(f.Body, func(x ast.Node) bool {
				switch s := x.(type) {
				case *ast.AssignStmt:
					for i, l := range s.Lhs {
						if se, ok := l.(*ast.SelectorExpr); ok && i < len(s.Rhs) && identObj(info, s.Rhs[i]) == pp.w && strings.HasPrefix(objFullName(info.Uses[se.Sel]), "os.Std") {
							lab = streamLabel(se.Sel.Name)
						}
					}
				}
				return true
			})
			ast.Inspect(f.Body, func(x ast.Node) bool {
				switch s := x.(type) {
				case *ast.KeyValueExpr:
					if k, ok := s.Key.(*ast.Ident); ok && identObj(info, s.Value) == pp.r && (k.Name == "Stdout" || k.Name == "Stderr") {
						edge(f, s, "pipe read end -> server field", lab, streamLabel(k.Name))
					}
				case *ast.CallExpr:
					if p.CalleeName(f, s) == "io.TeeReader" && len(s.Args) == 2 && identObj(info, s.Args[0]) == pp.r {
						edge(f, s, "test-mode tee", lab, p.exprLabel(f, s.Args[1]))
					}
				}
				return true
			})
		}
		if len(pipes) != 2 {
			c.R.Undecided("R-TABLE/stdio", f.Name, "os.Pipe pairs", fmt.Sprintf("%d os.Pipe calls found, 2 expected", len(pipes)))
		}
	}
	// 2. positional argument labels at calls into the stdio path
	argEdges := func(fn string, callee string, from int) {
		f := p.Fn(fn)
		if f == nil {
			c.R.Undecided("R-TABLE/stdio", fn, "anchor", "function not found")
			return
		}
		found := false
		var calls []*ast.CallExpr
		ast.Inspect(f.Body, func(x ast.Node) bool {
			if call, ok := x.(*ast.CallExpr); ok {
				calls = append(calls, call)
			}
			return true
		})
		for _, call := range calls {
			holder := p.EnclosingFunc(call)
			if holder == nil {
				holder = f
			}
			ce := p.FnOf(asFunc(p.Callee(holder, call)))
			if ce == nil || ce.Name != callee {
				continue
			}
			found = true
			for i := from; i < len(call.Args); i++ {
				pv := paramVar(ce, i)
				if pv == nil {
					continue
				}
				edge(f, call.Args[i], "argument -> parameter of "+callee, p.exprLabel(f, call.Args[i]), streamLabel(pv.Name()))
			}
		}
		if !found {
			// the call may have moved to the caller of fn: take it wherever it is
			for _, g := range p.Funcs {
				if g.Decl == nil || strings.HasSuffix(p.Fset.Position(g.Body.Pos()).Filename, "testing.go") {
					continue
				}
				for _, call := range g.Calls() {
					holder := p.EnclosingFunc(call)
					if holder == nil {
						holder = g
					}
					ce := p.FnOf(asFunc(p.Callee(holder, call)))
					if ce == nil || ce.Name != callee {
						continue
					}
					found = true
					for i := from; i < len(call.Args); i++ {
						if pv := paramVar(ce, i); pv != nil {
							edge(g, call.Args[i], "argument -> parameter of "+callee, p.exprLabel(g, call.Args[i]), streamLabel(pv.Name()))
						}
					}
				}
			}
		}
		if !found {
			c.R.Undecided("R-TABLE/stdio", fn, "call of "+callee, "call not found")
		}
	}
	argEdges("GRPCServer.Init", "newGRPCStdioServer", 1)
	argEdges("newGRPCClient", "grpcStdioClient.Run", 0)
	argEdges("newRPCClient", "RPCClient.SyncStreams", 0)
	// 3. newGRPCStdioServer: copyChan(log, ch, src) and the struct literal
	if f := p.Fn("newGRPCStdioServer"); f != nil {
		info := f.Pkg.TypesInfo
		chLabel := map[types.Object]string{}
		for _, call := range f.Calls() {
			if ce := p.FnOf(asFunc(p.Callee(f, call))); ce != nil && ce.Name == "copyChan" && len(call.Args) == 3 {
				chLabel[identObj(info, call.Args[1])] = p.exprLabel(f, call.Args[2])
				edge(f, call, "copyChan(channel, source)", p.exprLabel(f, call.Args[1]), p.exprLabel(f, call.Args[2]))
			}
		}
		ast.Inspect(f.Body, func(x ast.Node) bool {
			if kv, ok := x.(*ast.KeyValueExpr); ok {
				if k, ok := kv.Key.(*ast.Ident); ok && strings.HasSuffix(k.Name, "Ch") {
					edge(f, kv, "channel -> server field", chLabel[identObj(info, kv.Value)], streamLabel(k.Name))
				}
			}
			return true
		})
	}
	// 4. StreamStdio: channel field -> tag constant
	if f := p.Fn("grpcStdioServer.StreamStdio"); f != nil {
		info := f.Pkg.TypesInfo
		ast.Inspect(f.Body, func(x ast.Node) bool {
			cc, ok := x.(*ast.CommClause)
			if !ok || cc.Comm == nil {
				return true
			}
			var chLab string
			ast.Inspect(cc.Comm, func(y ast.Node) bool {
				if u, ok := y.(*ast.UnaryExpr); ok && u.Op == token.ARROW {
					chLab = p.exprLabel(f, u.X)
				}
				return true
			})
			for _, st := range cc.Body {
				if as, ok := st.(*ast.AssignStmt); ok && len(as.Lhs) == 1 {
					if se, ok := as.Lhs[0].(*ast.SelectorExpr); ok && se.Sel.Name == "Channel" {
						tag := ""
						if o := objOfExpr(info, as.Rhs[0]); o != nil {
							tag = streamLabel(o.Name())
						}
						edge(f, as, "channel -> wire tag", chLab, tag)
					}
				}
			}
			return true
		})
	}
	// 5. client Run: tag constant -> writer parameter
	if f := p.Fn("grpcStdioClient.Run"); f != nil {
		info := f.Pkg.TypesInfo
		n0 := n
		wlabel := map[types.Object]string{}
		for _, fd := range f.Type.Params.List {
			for _, nm := range fd.Names {
				if v, ok := info.Defs[nm].(*types.Var); ok && v.Type().String() == "io.Writer" {
					wlabel[v] = []string{"out", "err", "", ""}[min(len(wlabel), 3)]
				}
			}
		}
		// table form: map[Channel]io.Writer{STDOUT: stdout, STDERR: stderr}
		ast.Inspect(f.Body, func(x ast.Node) bool {
			kv, ok := x.(*ast.KeyValueExpr)
			if !ok {
				return true
			}
			if o := objOfExpr(info, kv.Key); o != nil && strings.Contains(o.Name(), "StdioData_") {
				edge(f, kv, "wire tag -> host writer", streamLabel(o.Name()), wlabel[identObj(info, ast.Unparen(kv.Value))])
			}
			return true
		})
		// switch/if form: inside the region selected by a channel tag (a case
		// clause, or the then-branch of `ch == TAG`) every use of one of Run's
		// writer parameters is a link; the parameters are labelled by position
		// (Run(stdout, stderr): the callers are checked by the sinks clause)
		tagOf := func(x ast.Node) (string, []ast.Stmt) {
			switch y := x.(type) {
			case *ast.CaseClause:
				if len(y.List) == 1 {
					if o := objOfExpr(info, y.List[0]); o != nil && strings.Contains(o.Name(), "StdioData_") {
						return streamLabel(o.Name()), y.Body
					}
				}
			case *ast.IfStmt:
				if be, ok := ast.Unparen(y.Cond).(*ast.BinaryExpr); ok && be.Op == token.EQL {
					for _, side := range []ast.Expr{be.X, be.Y} {
						if o, isC := objOfExpr(info, side).(*types.Const); isC && strings.Contains(o.Name(), "StdioData_") {
							return streamLabel(o.Name()), y.Body.List
						}
					}
				}
			}
			return "", nil
		}
		ast.Inspect(f.Body, func(x ast.Node) bool {
			tag, body := tagOf(x)
			if tag == "" {
				return true
			}
			for _, st := range body {
				ast.Inspect(st, func(y ast.Node) bool {
					if y == nil {
						return false
					}
					if t2, _ := tagOf(y); t2 != "" {
						return false // a nested region is a region of its own
					}
					if id, ok := y.(*ast.Ident); ok {
						if l, isW := wlabel[info.Uses[id]]; isW {
							edge(f, id, "wire tag -> host writer", tag, l)
						}
					}
					return true
				})
			}
			return true
		})
		if n-n0 < 2 {
			c.R.Undecided("R-TABLE/stdio", f.Name, "wire tag -> host writer", fmt.Sprintf("only %d links from a StdioData channel tag to a writer found in Run, 2 expected", n-n0))
		}
	}
	// 6. net/rpc: copyStream(name, dst, src) on both ends and the client literal
	for _, fn := range []string{"RPCServer.ServeConn", "RPCClient.SyncStreams"} {
		f := p.Fn(fn)
		if f == nil {
			c.R.Undecided("R-TABLE/stdio", fn, "anchor", "function not found")
			continue
		}
		for _, call := range f.Calls() {
			if ce := p.FnOf(asFunc(p.Callee(f, call))); ce != nil && ce.Name == "copyStream" && len(call.Args) == 3 {
				edge(f, call, "copyStream destination/source", p.exprLabel(f, call.Args[1]), p.exprLabel(f, call.Args[2]))
				edge(f, call, "copyStream name/source", p.exprLabel(f, call.Args[0]), p.exprLabel(f, call.Args[2]))
			}
		}
	}
	if f := p.Fn("NewRPCClient"); f != nil {
		ast.Inspect(f.Body, func(x ast.Node) bool {
			if kv, ok := x.(*ast.KeyValueExpr); ok {
				if k, ok := kv.Key.(*ast.Ident); ok && (k.Name == "stdout" || k.Name == "stderr") {
					edge(f, kv, "yamux stream index -> client field", p.exprLabel(f, kv.Value), streamLabel(k.Name))
				}
			}
			return true
		})
	}
	if n < 18 {
		c.R.Undecided("R-TABLE/stdio", "", "instance-floor", fmt.Sprintf("only %d links of the stdio path found, 20 were confirmed by hand", n))
	}
}

// chunkLoop finds the function whose loop sends a sub-slice on a channel (copyChan role).
func (p *Prog) chunkLoop() (*Func, *ast.ForStmt, *ast.SendStmt) {
	for _, f := range p.Funcs {
		info := f.Pkg.TypesInfo
		var loop *ast.ForStmt
		var send *ast.SendStmt
		ast.Inspect(f.Body, func(x ast.Node) bool {
			fs, ok := x.(*ast.ForStmt)
			if !ok {
				return true
			}
			ast.Inspect(fs.Body, func(y ast.Node) bool {
				if ss, ok := y.(*ast.SendStmt); ok {
					if _, isSlice := ast.Unparen(ss.Value).(*ast.SliceExpr); isSlice {
						if t := info.TypeOf(ss.Value); t != nil && t.String() == "[]byte" {
							loop, send = fs, ss
						}
					}
				}
				return true
			})
			return true
		})
		if loop != nil {
			return f, loop, send
		}
	}
	return nil, nil, nil
}

func ruleFresh(c *Ctx) {
	p := c.P
	f, loop, send := p.chunkLoop()
	if f == nil {
		c.R.Undecided("R-FRESH", "copyChan", "chunk loop", "no loop sending a byte sub-slice on a channel found")
		return
	}
	info := f.Pkg.TypesInfo
	se := ast.Unparen(send.Value).(*ast.SliceExpr)
	bv, _ := identObj(info, se.X).(*types.Var)
	fresh := false
	if bv != nil && bv.Pos() > loop.Body.Pos() && bv.Pos() < loop.Body.End() {
		// declared inside the loop body: as an array value, or a slice made there
		switch bv.Type().Underlying().(type) {
		case *types.Array:
			fresh = true
		case *types.Slice:
			ast.Inspect(loop.Body, func(x ast.Node) bool {
				if as, ok := x.(*ast.AssignStmt); ok && len(as.Lhs) >= 1 && identObj(info, as.Lhs[0]) == bv {
					if call, ok := ast.Unparen(as.Rhs[0]).(*ast.CallExpr); ok && p.CalleeName(f, call) == "builtin.make" {
						fresh = true
					}
				}
				return true
			})
		}
	}
	if fresh {
		c.R.Hold("R-FRESH", p.Pos(send), f.Name, "chunk buffer allocated per iteration", "the backing array of the slice sent on the channel is declared inside the loop body, so the next read cannot overwrite bytes still in flight", true)
	} else {
		c.R.Violate("R-FRESH", p.Pos(send), f.Name, "chunk buffer allocated per iteration", "the buffer whose sub-slice is sent on the channel outlives the iteration: the next read overwrites bytes the receiver has not consumed yet (duplicated/corrupted output)", nil)
	}
}

func ruleCopyChan(c *Ctx) {
	p := c.P
	f, loop, send := p.chunkLoop()
	if f == nil {
		c.R.Undecided("R-ORDER/O10", "copyChan", "chunk loop", "no loop sending a byte sub-slice on a channel found")
		return
	}
	info := f.Pkg.TypesInfo
	g := p.Graph(f)
	_ = loop
	sendN := g.NodeOf(send)
	// the read
	var readN *Node
	var nV, eV *types.Var
	for _, m := range g.Nodes {
		as, ok := m.Ast.(*ast.AssignStmt)
		if !ok || len(as.Lhs) != 2 || len(as.Rhs) != 1 {
			continue
		}
		if call, ok := ast.Unparen(as.Rhs[0]).(*ast.CallExpr); ok && strings.HasSuffix(p.CalleeName(f, call), ".Read") {
			readN = m
			nV, _ = identObj(info, as.Lhs[0]).(*types.Var)
			eV, _ = identObj(info, as.Lhs[1]).(*types.Var)
		}
	}
	if readN == nil || sendN == nil || nV == nil || eV == nil {
		c.R.Undecided("R-ORDER/O10", f.Name, "read/send", "read call or send not found")
		return
	}
	// the slice bound is the n of that read
	se := ast.Unparen(send.Value).(*ast.SliceExpr)
	okN := se.Low == nil && identObj(info, se.High) == nV && se.Max == nil
	// blocking send: not inside a select
	plain := true
	for cur := p.Parent(send); cur != nil; cur = p.Parent(cur) {
		if _, ok := cur.(*ast.CommClause); ok {
			plain = false
		}
		if _, ok := cur.(*ast.FuncDecl); ok {
			break
		}
	}
	// from the read, with n > 0, the send is passed before any exit or the next read
	bad := false
	for _, m := range g.Nodes {
		for _, e := range m.Succs {
			at, isAt := edgeAtom(info, e)
			if !isAt || at.Kind != "cmp" || identObj(info, at.X) != nV {
				continue
			}
			pos := (at.Op == token.GTR && func() bool { k, ok := constInt(info, at.Y); return ok && k == 0 }()) ||
				(at.Op == token.GEQ && func() bool { k, ok := constInt(info, at.Y); return ok && k == 1 }()) ||
				(at.Op == token.NEQ && func() bool { k, ok := constInt(info, at.Y); return ok && k == 0 }())
			if !pos {
				continue
			}
			seen := g.Reach([]*Node{e.To}, func(x *Node) bool { return x == sendN }, nil)
			if _, r := seen[g.Exit]; r {
				bad = true
			}
			if _, r := seen[readN]; r {
				bad = true
			}
		}
	}
	// the n test comes before any error test of the same iteration
	errFirst := false
	seen := g.ReachAfter(readN, func(x *Node) bool {
		for _, e := range x.Succs {
			if at, ok := edgeAtom(info, e); ok && at.Kind == "cmp" && identObj(info, at.X) == nV {
				return true
			}
		}
		return false
	}, nil)
	for m := range seen {
		for _, e := range m.Succs {
			if at, ok := edgeAtom(info, e); ok && identObj(info, at.X) == eV {
				errFirst = true
			}
		}
	}
	if _, r := seen[g.Exit]; r {
		errFirst = true
	}
	if okN && plain && !bad && !errFirst {
		c.R.Hold("R-ORDER/O10", p.Pos(send), f.Name, "data[:n] is sent before the read's error is acted on", "blocking send of exactly the n bytes just read, on every path with n > 0, before the EOF/error tests", true)
	} else {
		c.R.Violate("R-ORDER/O10", p.Pos(send), f.Name, "data[:n] is sent before the read's error is acted on",
			fmt.Sprintf("bytes returned together with EOF/an error can be dropped, the chunk is not exactly data[:n], or the hand-off is no longer a blocking send (slice=%v blocking=%v sentOnAllPaths=%v nTestFirst=%v)", okN, plain, !bad, !errFirst), nil)
	}
}

// ---------- R-TABLE/levels ----------

func ruleLogLevels(c *Ctx) {
	p := c.P
	f := p.Fn("Client.logStderr")
	if f == nil {
		c.R.Undecided("R-TABLE/levels", "Client.logStderr", "anchor", "function not found")
		return
	}
	info := f.Pkg.TypesInfo
	isLogger := func(e ast.Expr) bool {
		t := info.TypeOf(e)
		return t != nil && strings.HasSuffix(t.String(), "go-hclog.Logger")
	}
	// methods called on a logger in a clause body (direct statements and one level of if/else)
	methodsIn := func(body []ast.Stmt) []string {
		var out []string
		for _, st := range body {
			ast.Inspect(st, func(x ast.Node) bool {
				if call, ok := x.(*ast.CallExpr); ok {
					if se, ok := call.Fun.(*ast.SelectorExpr); ok && isLogger(se.X) {
						out = append(out, se.Sel.Name)
					}
				}
				return true
			})
		}
		return out
	}
	n := 0
	want := map[string]string{"[TRACE]": "Trace", "[DEBUG]": "Debug", "[INFO]": "Info", "[WARN]": "Warn", "[ERROR]": "Error", "panic:": "Error"}
	seenPrefix := map[string]bool{}
	ast.Inspect(f.Body, func(x ast.Node) bool {
		sw, ok := x.(*ast.SwitchStmt)
		if !ok || isWrapperSwitch(sw) {
			return true
		}
		for _, cl := range sw.Body.List {
			cc := cl.(*ast.CaseClause)
			ms := methodsIn(cc.Body)
			if len(cc.List) == 1 {
				// text prefix clause
				if call, ok := ast.Unparen(cc.List[0]).(*ast.CallExpr); ok && p.CalleeName(f, call) == "strings.HasPrefix" {
					if pre, ok := constString(info, call.Args[1]); ok {
						n++
						seenPrefix[pre] = true
						w, known := want[pre]
						construct := "prefix " + pre
						if known && len(ms) == 1 && ms[0] == w {
							c.R.Hold("R-TABLE/levels", p.Pos(cc), f.Name, construct, "logged with "+w, true)
						} else {
							c.R.Violate("R-TABLE/levels", p.Pos(cc), f.Name, construct, fmt.Sprintf("a stderr line with this prefix is logged with %v instead of %s", ms, w), nil)
						}
						continue
					}
				}
				// hclog level clause
				if o := objOfExpr(info, cc.List[0]); o != nil && o.Pkg() != nil && strings.HasSuffix(o.Pkg().Path(), "go-hclog") {
					n++
					construct := "hclog level " + o.Name()
					if len(ms) == 1 && ms[0] == o.Name() {
						c.R.Hold("R-TABLE/levels", p.Pos(cc), f.Name, construct, "logged with "+o.Name(), true)
					} else {
						c.R.Violate("R-TABLE/levels", p.Pos(cc), f.Name, construct, fmt.Sprintf("a JSON record of this level is logged with %v", ms), nil)
					}
					continue
				}
			}
			if cc.List == nil {
				n++
				// default: Debug, or Error inside a panic trace
				okDefault := false
				switch {
				case len(ms) == 1 && ms[0] == "Debug":
					okDefault = true
				case len(ms) == 2 && ((ms[0] == "Error" && ms[1] == "Debug") || (ms[0] == "Debug" && ms[1] == "Error")):
					// Error must be on the true edge of the panic flag
					for _, st := range cc.Body {
						if ifs, ok := st.(*ast.IfStmt); ok {
							if id, ok := ifs.Cond.(*ast.Ident); ok && strings.Contains(strings.ToLower(id.Name), "panic") {
								tm := methodsIn(ifs.Body.List)
								if len(tm) == 1 && tm[0] == "Error" {
									okDefault = true
								}
							}
						}
					}
				}
				if okDefault {
					c.R.Hold("R-TABLE/levels", p.Pos(cc), f.Name, fmt.Sprintf("default clause #%d", n), "Debug (Error inside a panic trace)", true)
				} else {
					c.R.Violate("R-TABLE/levels", p.Pos(cc), f.Name, fmt.Sprintf("default clause #%d", n), fmt.Sprintf("lines without a recognised level are logged with %v instead of Debug (Error inside a panic trace)", ms), nil)
				}
			}
		}
		return true
	})
	for pre := range want {
		if !seenPrefix[pre] {
			c.R.Violate("R-TABLE/levels", p.Pos(f.Node()), f.Name, "prefix "+pre, "the text prefix is no longer recognised", nil)
		}
	}
	if n < 11 {
		c.R.Undecided("R-TABLE/levels", f.Name, "instance-floor", fmt.Sprintf("only %d level clauses found, 13 were confirmed by hand", n))
	}
	// the message and key/value args of a JSON record are what is logged
	kvOK := false
	for _, call := range f.Calls() {
		if ce := p.FnOf(asFunc(p.Callee(f, call))); ce != nil && ce.Name == "flattenKVPairs" && len(call.Args) == 1 {
			if se, ok := call.Args[0].(*ast.SelectorExpr); ok && se.Sel.Name == "KVPairs" {
				kvOK = true
			}
		}
	}
	msgOK := true
	nJSON := 0
	ast.Inspect(f.Body, func(x ast.Node) bool {
		call, ok := x.(*ast.CallExpr)
		if !ok || !call.Ellipsis.IsValid() {
			return true
		}
		if se, ok := call.Fun.(*ast.SelectorExpr); ok && isLogger(se.X) {
			nJSON++
			if m, ok := call.Args[0].(*ast.SelectorExpr); !ok || m.Sel.Name != "Message" {
				msgOK = false
			}
		}
		return true
	})
	// every line that was read becomes a log record: from a successful read every
	// path back to the read passes a call on the logger (a record of a level the
	// host logger does not emit right now is the logger's to drop, not ours - the
	// host may change the level while the plugin runs)
	{
		g := p.Graph(f)
		var readN *Node
		for _, m := range g.Nodes {
			if m.Ast == nil {
				continue
			}
			for _, call := range callsIn(m.Ast) {
				if nm := p.CalleeName(f, call); nm == "bufio.Reader.ReadLine" || nm == "bufio.Reader.ReadString" || nm == "bufio.Reader.ReadBytes" || nm == "bufio.Scanner.Scan" {
					readN = m
				}
			}
		}
		if readN == nil {
			c.R.Undecided("R-TABLE/levels", f.Name, "every line is logged", "the read call of the stderr loop was not found")
		} else {
			emits := func(m *Node) bool {
				if m.Ast == nil {
					return false
				}
				for _, call := range callsIn(m.Ast) {
					if se, ok := call.Fun.(*ast.SelectorExpr); ok && isLogger(se.X) {
						switch se.Sel.Name {
						case "Trace", "Debug", "Info", "Warn", "Error", "Log":
							return true
						}
					}
				}
				return false
			}
			errV := assignedErrVar(info, readN.Ast)
			seen := g.ReachAfter(readN, emits, func(e *Edge) bool {
				// the read failed: the loop ends (or retries without a line)
				at, ok := edgeAtom(info, e)
				if ok && at.Kind == "nil" && at.Op == token.NEQ && errV != nil && identObj(info, at.X) == types.Object(errV) {
					return true
				}
				// an empty chunk (the end-of-line remainder of a line that exactly
				// filled the buffer) carries no data to log
				if ok && at.Kind == "len" && ((at.Op == token.EQL && at.K == 0) || (at.Op == token.LSS && at.K == 1) || (at.Op == token.LEQ && at.K == 0)) {
					return true
				}
				return false
			})
			if _, again := seen[readN]; again {
				c.R.Violate("R-TABLE/levels", p.Pos(readN.Ast), f.Name, "every line is logged",
					"a line read from the plugin's stderr can reach the next read without a call on the logger (a skip in front of the level dispatch): records are dropped by a decision made here instead of by the host's logger, e.g. by a level that was looked up once and has changed since", p.PathTo(seen, readN))
			} else {
				c.R.Hold("R-TABLE/levels", p.Pos(readN.Ast), f.Name, "every line is logged", "every path from a successful read back to the read passes a logger call", true)
			}
		}
	}
	if kvOK && msgOK && nJSON >= 5 {
		c.R.Hold("R-TABLE/levels", p.Pos(f.Node()), f.Name, "JSON record carries message and key/value fields", fmt.Sprintf("%d level calls log entry.Message with the flattened KVPairs", nJSON), true)
	} else {
		c.R.Violate("R-TABLE/levels", p.Pos(f.Node()), f.Name, "JSON record carries message and key/value fields", "an hclog JSON line is not re-emitted with its message and key/value fields", nil)
	}
}

// ruleVersionListParse — the offered-version list is parsed element by
// element: an element that does not parse is skipped, it never ends the loop
// (C02 quantifies over partly invalid lists), and every element that parses is
// appended to the list the negotiation uses.
func ruleVersionListParse(c *Ctx) {
	p := c.P
	f := p.Fn("protocolVersion")
	if f == nil {
		c.R.Undecided("R-NEG", "protocolVersion", "anchor", "the negotiation function was not found")
		return
	}
	info := f.Pkg.TypesInfo
	var loop *ast.RangeStmt
	var atoi *ast.CallExpr
	ast.Inspect(f.Body, func(x ast.Node) bool {
		rs, ok := x.(*ast.RangeStmt)
		if !ok {
			return true
		}
		ast.Inspect(rs.Body, func(y ast.Node) bool {
			if call, ok := y.(*ast.CallExpr); ok {
				switch p.CalleeName(f, call) {
				case "strconv.Atoi", "strconv.ParseInt", "strconv.ParseUint":
					if loop == nil {
						loop, atoi = rs, call
					}
				}
			}
			return true
		})
		return loop == nil
	})
	if loop == nil {
		c.R.Undecided("R-NEG", f.Name, "version list parse loop", "no loop converting the elements of the offered list with strconv found")
		return
	}
	errv, _ := func() (*types.Var, bool) {
		as, ok := p.Parent(atoi).(*ast.AssignStmt)
		if !ok {
			return nil, false
		}
		for _, l := range as.Lhs {
			if v, ok := identObj(info, l).(*types.Var); ok && isErrorType(v.Type()) {
				return v, true
			}
		}
		return nil, false
	}()
	if errv == nil {
		c.R.Violate("R-NEG", p.Pos(atoi), f.Name, "invalid list element skipped", "the conversion error of a list element is not bound: an invalid element is taken as version 0", nil)
		return
	}
	// the failing branch: block executed when errv != nil
	leaves := ""
	ast.Inspect(loop.Body, func(x ast.Node) bool {
		ifs, ok := x.(*ast.IfStmt)
		if !ok {
			return true
		}
		be, ok := ast.Unparen(ifs.Cond).(*ast.BinaryExpr)
		if !ok || identObj(info, be.X) != errv || !isNilIdent(info, be.Y) {
			return true
		}
		var failing ast.Stmt
		if be.Op == token.NEQ {
			failing = ifs.Body
		} else if be.Op == token.EQL && ifs.Else != nil {
			failing = ifs.Else
		}
		if failing == nil {
			return true
		}
		depth := 0 // nesting inside switch/select/for within the failing block: a bare break there is local
		var walk func(n ast.Node)
		walk = func(n ast.Node) {
			ast.Inspect(n, func(y ast.Node) bool {
				switch st := y.(type) {
				case *ast.FuncLit:
					return false
				case *ast.ForStmt, *ast.RangeStmt, *ast.SwitchStmt, *ast.TypeSwitchStmt, *ast.SelectStmt:
					if y != n {
						depth++
						walk(y)
						depth--
						return false
					}
				case *ast.ReturnStmt:
					leaves = "returns"
				case *ast.BranchStmt:
					if st.Tok == token.GOTO || (st.Tok == token.BREAK && (depth == 0 || st.Label != nil)) {
						leaves = "breaks out of the loop"
					}
				case *ast.CallExpr:
					switch p.CalleeName(f, st) {
					case "os.Exit", "builtin.panic", "log.Fatal", "log.Fatalf":
						leaves = "terminates"
					}
				}
				return true
			})
		}
		walk(failing)
		return true
	})
	// and the failing element itself is not taken: on the error edge no append
	// is reached before the next conversion
	{
		g := p.Graph(f)
		atoiN := g.NodeOf(atoi)
		taken := false
		if atoiN != nil {
			for _, m := range g.Nodes {
				for _, e := range m.Succs {
					at, isAt := edgeAtom(info, e)
					if !isAt || at.Kind != "nil" || at.Op != token.NEQ || identObj(info, at.X) != errv {
						continue
					}
					for x := range g.Reach([]*Node{e.To}, func(y *Node) bool { return y == atoiN }, nil) {
						if x.Ast == nil || x.Ast.Pos() < loop.Body.Pos() || x.Ast.End() > loop.Body.End() {
							continue
						}
						for _, call := range callsIn(x.Ast) {
							if p.CalleeName(f, call) == "builtin.append" {
								taken = true
							}
						}
					}
				}
			}
		}
		if taken {
			c.R.Violate("R-NEG", p.Pos(atoi), f.Name, "invalid list element not taken", "after the conversion of a list element failed the element is still appended (as the zero value): an unparsable entry makes the plugin believe the host offers version 0", nil)
		} else {
			c.R.Hold("R-NEG", p.Pos(atoi), f.Name, "invalid list element not taken", "no append is reachable from the error edge of the conversion within the iteration", true)
		}
	}
	if leaves != "" {
		c.R.Violate("R-NEG", p.Pos(atoi), f.Name, "invalid list element skipped", "on an element that does not parse the plugin "+leaves+" instead of going on with the next element: the versions after it are never considered, so the highest common version can be missed", nil)
	} else {
		c.R.Hold("R-NEG", p.Pos(atoi), f.Name, "invalid list element skipped", "the failing branch of the element conversion neither returns nor leaves the loop", true)
	}
}

// descendingComparator: func(i, j int) bool { return list[i] > list[j] } (sort.Slice)
// or func(a, b int) int { return b - a } / cmp.Compare(b, a) (slices.SortFunc).
func descendingComparator(info *types.Info, fl *ast.FuncLit, list *types.Var, sorter string) bool {
	return descendingCmp(info, fl.Type, fl.Body, list, sorter)
}

// comparatorOf resolves a comparator argument: a function literal, or the
// name of a module function (its declaration is analysed instead).
func (p *Prog) comparatorOf(f *Func, e ast.Expr) (*types.Info, *ast.FuncType, *ast.BlockStmt) {
	e = ast.Unparen(e)
	if fl, ok := e.(*ast.FuncLit); ok {
		return f.Pkg.TypesInfo, fl.Type, fl.Body
	}
	if fn, ok := objOfExpr(f.Pkg.TypesInfo, e).(*types.Func); ok {
		if d := p.FnOf(fn); d != nil && d.Decl != nil && d.Decl.Recv == nil {
			return d.Pkg.TypesInfo, d.Decl.Type, d.Body
		}
	}
	return nil, nil, nil
}

func descendingCmp(info *types.Info, ftype *ast.FuncType, body *ast.BlockStmt, list *types.Var, sorter string) bool {
	fl := struct {
		Type *ast.FuncType
		Body *ast.BlockStmt
	}{ftype, body}
	if fl.Body == nil || len(fl.Body.List) != 1 || fl.Type.Params == nil {
		return false
	}
	only := fl.Body.List[0]
	for {
		// blocks left behind by inlining a named comparator
		if b, isB := only.(*ast.BlockStmt); isB && len(b.List) == 1 {
			only = b.List[0]
			continue
		}
		break
	}
	rs, ok := only.(*ast.ReturnStmt)
	if !ok || len(rs.Results) != 1 {
		return false
	}
	var params []types.Object
	for _, fd := range fl.Type.Params.List {
		for _, nm := range fd.Names {
			params = append(params, info.Defs[nm])
		}
	}
	if len(params) != 2 {
		return false
	}
	r := ast.Unparen(rs.Results[0])
	if strings.HasPrefix(sorter, "sort.") {
		be, ok := r.(*ast.BinaryExpr)
		if !ok {
			return false
		}
		idx := func(e ast.Expr) types.Object {
			ix, ok := ast.Unparen(e).(*ast.IndexExpr)
			if !ok || identObj(info, ix.X) != list {
				return nil
			}
			return identObj(info, ix.Index)
		}
		a, b := idx(be.X), idx(be.Y)
		return (be.Op == token.GTR && a == params[0] && b == params[1]) || (be.Op == token.LSS && a == params[1] && b == params[0])
	}
	// slices.SortFunc: b - a or cmp.Compare(b, a)
	if be, ok := r.(*ast.BinaryExpr); ok && be.Op == token.SUB {
		return identObj(info, be.X) == params[1] && identObj(info, be.Y) == params[0]
	}
	if call, ok := r.(*ast.CallExpr); ok && len(call.Args) == 2 {
		if se, ok := call.Fun.(*ast.SelectorExpr); ok && se.Sel.Name == "Compare" {
			return identObj(info, call.Args[0]) == params[1] && identObj(info, call.Args[1]) == params[0]
		}
	}
	return false
}

// isWrapperSwitch: `switch { default: ... }` with a single clause, as produced by
// the helper inliner for early returns; transparent for clause-based rules.
func isWrapperSwitch(sw *ast.SwitchStmt) bool {
	if sw.Tag != nil || sw.Init != nil || len(sw.Body.List) != 1 {
		return false
	}
	cc, ok := sw.Body.List[0].(*ast.CaseClause)
	return ok && cc.List == nil
}

// assignedErrVar: the error-typed variable on the left of the assignment in n.
func assignedErrVar(info *types.Info, n ast.Node) *types.Var {
	as, ok := n.(*ast.AssignStmt)
	if !ok {
		return nil
	}
	for _, l := range as.Lhs {
		if v, ok := identObj(info, l).(*types.Var); ok && isErrorType(v.Type()) {
			return v
		}
	}
	return nil
}

// completeSearch: list[i] == version is a complete membership test only when
// i is the result of a binary search whose order assumption is the order the
// list was sorted in: sort.SearchInts / slices.BinarySearch on an ascending
// list, or sort.Search(len(list), func(j) bool { return list[j] <= version })
// on a descending one (>= on an ascending one). The sort dominates the search
// and the list is not redefined in between.
func (p *Prog) completeSearch(f *Func, g *Graph, ix *ast.IndexExpr, list *types.Var, isVer func(types.Object) bool) bool {
	info := f.Pkg.TypesInfo
	iv, ok := identObj(info, ix.Index).(*types.Var)
	if !ok || iv.IsField() {
		return false
	}
	d := p.singleDef(f, iv)
	if d == nil {
		// i, found := slices.BinarySearch(list, v)
		ast.Inspect(f.Body, func(x ast.Node) bool {
			if as, ok := x.(*ast.AssignStmt); ok && len(as.Lhs) == 2 && len(as.Rhs) == 1 && identObj(info, as.Lhs[0]) == types.Object(iv) {
				d = as.Rhs[0]
			}
			return true
		})
	}
	call, ok := ast.Unparen(d).(*ast.CallExpr)
	if d == nil || !ok {
		return false
	}
	want := "" // order the search assumes
	switch p.CalleeName(f, call) {
	case "sort.SearchInts", "slices.BinarySearch":
		if len(call.Args) == 2 && identObj(info, call.Args[0]) == types.Object(list) && isVer(identObj(info, call.Args[1])) {
			want = "asc"
		}
	case "sort.Search":
		if len(call.Args) != 2 {
			return false
		}
		if lc, ok := ast.Unparen(call.Args[0]).(*ast.CallExpr); !ok || len(lc.Args) != 1 || identObj(info, lc.Args[0]) != types.Object(list) || types.ExprString(lc.Fun) != "len" {
			return false
		}
		fl, ok := ast.Unparen(call.Args[1]).(*ast.FuncLit)
		if !ok || len(fl.Body.List) != 1 || len(fl.Type.Params.List) != 1 || len(fl.Type.Params.List[0].Names) != 1 {
			return false
		}
		jv := info.Defs[fl.Type.Params.List[0].Names[0]]
		rs, ok := fl.Body.List[0].(*ast.ReturnStmt)
		if !ok || len(rs.Results) != 1 {
			return false
		}
		be, ok := ast.Unparen(rs.Results[0]).(*ast.BinaryExpr)
		if !ok {
			return false
		}
		op, l, r := be.Op, ast.Unparen(be.X), ast.Unparen(be.Y)
		if _, isIx := l.(*ast.IndexExpr); !isIx {
			// version OP list[j]  ==  list[j] OP' version
			l, r = r, l
			switch op {
			case token.LEQ:
				op = token.GEQ
			case token.GEQ:
				op = token.LEQ
			default:
				return false
			}
		}
		lix, ok := l.(*ast.IndexExpr)
		if !ok || identObj(info, lix.X) != types.Object(list) || identObj(info, lix.Index) != jv || !isVer(identObj(info, r)) {
			return false
		}
		switch op {
		case token.LEQ:
			want = "desc"
		case token.GEQ:
			want = "asc"
		}
	}
	if want == "" {
		return false
	}
	searchN := g.NodeOf(call)
	var sortN *Node
	for _, sc := range f.Calls() {
		have := ""
		switch p.CalleeName(f, sc) {
		case "sort.Ints", "slices.Sort":
			if len(sc.Args) == 1 && identObj(info, sc.Args[0]) == types.Object(list) {
				have = "asc"
			}
		case "sort.Sort":
			if len(sc.Args) != 1 {
				continue
			}
			arg, ok := ast.Unparen(sc.Args[0]).(*ast.CallExpr)
			if !ok || len(arg.Args) != 1 {
				continue
			}
			dir := "asc"
			if p.CalleeName(f, arg) == "sort.Reverse" {
				dir = "desc"
				arg, ok = ast.Unparen(arg.Args[0]).(*ast.CallExpr)
				if !ok || len(arg.Args) != 1 {
					continue
				}
			}
			if t := info.TypeOf(arg.Fun); t != nil && t.String() == "sort.IntSlice" && identObj(info, arg.Args[0]) == types.Object(list) {
				have = dir
			}
		case "slices.Reverse", "sort.Slice", "sort.SliceStable", "slices.SortFunc", "slices.SortStableFunc":
			if len(sc.Args) >= 1 && identObj(info, sc.Args[0]) == types.Object(list) {
				return false // an order this rule does not evaluate
			}
		}
		if have == "" {
			continue
		}
		if have != want || sortN != nil {
			return false
		}
		sortN = g.NodeOf(sc)
	}
	if sortN == nil || searchN == nil || !g.Dominates(sortN, searchN) {
		return false
	}
	for m := range g.ReachAfter(sortN, func(x *Node) bool { return x == searchN }, nil) {
		if m.Ast == nil || m == searchN {
			continue
		}
		if defs, _ := nodeDefsUses(info, m.Ast); defs[list] != nil {
			return false
		}
	}
	return true
}
