package main

import (
	"fmt"
	"go/ast"
	"go/constant"
	"go/token"
	"go/types"
	"strings"
)

// R-ERR — error discipline.
//
// L1 (every function in scope): an error value bound to a local variable must
// be read (compared, returned, passed, wrapped, logged) on every path before
// the variable is overwritten or the function returns. Unbound error results
// and errors bound to `_` must be in the accepted-idiom table.
//
// L2 (every function in scope that returns an error): no path on which a local
// error variable is (possibly) non-nil reaches a `return` whose error operand
// is definitely nil, nor a commit store.

// errVarInfo describes the tracked error variables of one function.
type errVars struct {
	vars     map[*types.Var]bool
	named    map[*types.Var]bool // named results
	deferred map[*types.Var]bool // read by a deferred closure: every exit is a use
	skipped  map[*types.Var]bool // captured by another closure: not tracked
}

func varKey(v *types.Var) string { return fmt.Sprintf("%s#%d", v.Name(), v.Pos()) }

func collectErrVars(p *Prog, f *Func, all bool) *errVars {
	info := f.Pkg.TypesInfo
	ev := &errVars{vars: map[*types.Var]bool{}, named: map[*types.Var]bool{}, deferred: map[*types.Var]bool{}, skipped: map[*types.Var]bool{}}
	want := func(v *types.Var) bool {
		if v == nil || v.IsField() || v.Name() == "_" {
			return false
		}
		if isErrorType(v.Type()) {
			return true
		}
		return false
	}
	if f.Type.Results != nil {
		for _, fl := range f.Type.Results.List {
			for _, nm := range fl.Names {
				if v, ok := info.Defs[nm].(*types.Var); ok {
					if want(v) {
						ev.vars[v] = true
					}
					ev.named[v] = true
				}
			}
		}
	}
	walkNoLit(f.Body, func(n ast.Node) bool {
		if id, ok := n.(*ast.Ident); ok {
			if v, ok := info.Defs[id].(*types.Var); ok && want(v) {
				ev.vars[v] = true
			}
		}
		return true
	})
	// captured variables
	ast.Inspect(f.Body, func(n ast.Node) bool {
		fl, ok := n.(*ast.FuncLit)
		if !ok {
			return true
		}
		isDeferred := false
		if call, ok := p.Parent(fl).(*ast.CallExpr); ok && call.Fun == fl {
			if _, ok := p.Parent(call).(*ast.DeferStmt); ok {
				isDeferred = true
			}
		}
		ast.Inspect(fl.Body, func(m ast.Node) bool {
			if id, ok := m.(*ast.Ident); ok {
				if v, ok := info.Uses[id].(*types.Var); ok && ev.vars[v] {
					if isDeferred && !assignsVar(info, fl.Body, v) {
						ev.deferred[v] = true
					} else {
						ev.skipped[v] = true
					}
				}
			}
			return true
		})
		return false
	})
	return ev
}

func assignsVar(info *types.Info, body ast.Node, v *types.Var) bool {
	found := false
	ast.Inspect(body, func(n ast.Node) bool {
		if as, ok := n.(*ast.AssignStmt); ok {
			for _, l := range as.Lhs {
				if identObj(info, l) == v {
					found = true
				}
			}
		}
		return !found
	})
	return found
}

// nodeDefsUses splits the variable references of a CFG node into definitions
// (plain assignment targets and declarations) and reads.
func nodeDefsUses(info *types.Info, a ast.Node) (defs map[*types.Var]ast.Expr, uses map[*types.Var]bool) {
	defs = map[*types.Var]ast.Expr{}
	uses = map[*types.Var]bool{}
	lhs := map[*ast.Ident]bool{}
	markDef := func(l ast.Expr, rhs ast.Expr) {
		id, ok := ast.Unparen(l).(*ast.Ident)
		if !ok {
			return
		}
		lhs[id] = true
		if v, ok := identObj(info, id).(*types.Var); ok {
			defs[v] = rhs
		}
	}
	switch s := a.(type) {
	case *ast.AssignStmt:
		if s.Tok == token.ASSIGN || s.Tok == token.DEFINE {
			for i, l := range s.Lhs {
				var rhs ast.Expr
				if len(s.Rhs) == len(s.Lhs) {
					rhs = s.Rhs[i]
				} else if len(s.Rhs) == 1 {
					rhs = s.Rhs[0]
				}
				markDef(l, rhs)
			}
		}
	case *ast.DeclStmt:
		if gd, ok := s.Decl.(*ast.GenDecl); ok {
			for _, sp := range gd.Specs {
				if vs, ok := sp.(*ast.ValueSpec); ok {
					for i, nm := range vs.Names {
						var rhs ast.Expr
						if len(vs.Values) == len(vs.Names) {
							rhs = vs.Values[i]
						} else if len(vs.Values) == 1 {
							rhs = vs.Values[0]
						}
						lhs[nm] = true
						if v, ok := info.Defs[nm].(*types.Var); ok {
							defs[v] = rhs
						}
					}
				}
			}
		}
	case *ast.ValueSpec:
		// go/cfg adds each var ValueSpec of a declaration statement as a node
		for i, nm := range s.Names {
			var rhs ast.Expr
			if len(s.Values) == len(s.Names) {
				rhs = s.Values[i]
			} else if len(s.Values) == 1 {
				rhs = s.Values[0]
			}
			lhs[nm] = true
			if v, ok := info.Defs[nm].(*types.Var); ok {
				defs[v] = rhs
			}
		}
	case *ast.RangeStmt:
		// not a CFG node as a whole
	}
	ast.Inspect(a, func(n ast.Node) bool {
		if id, ok := n.(*ast.Ident); ok && !lhs[id] {
			if v, ok := info.Uses[id].(*types.Var); ok {
				uses[v] = true
			}
		}
		return true
	})
	return
}

// isNonNilErrorExpr reports whether e constructs a fresh, certainly non-nil value.
func (p *Prog) isNonNilExpr(f *Func, e ast.Expr) bool {
	switch x := ast.Unparen(e).(type) {
	case *ast.CallExpr:
		switch p.CalleeName(f, x) {
		case "errors.New", "fmt.Errorf", "google.golang.org/grpc/status.Error", "google.golang.org/grpc/status.Errorf":
			return true
		}
	case *ast.UnaryExpr:
		if x.Op == token.AND {
			return true
		}
	case *ast.CompositeLit, *ast.FuncLit, *ast.BasicLit:
		return true
	case *ast.Ident:
		// package-level sentinel error variables (ErrXxx) are non-nil by construction
		if v, ok := f.Pkg.TypesInfo.Uses[x].(*types.Var); ok && !v.IsField() && v.Parent() == v.Pkg().Scope() && strings.HasPrefix(v.Name(), "Err") {
			return true
		}
		if v, ok := f.Pkg.TypesInfo.Uses[x].(*types.Var); ok && p.sentinels()[v] {
			return true
		}
	case *ast.SelectorExpr:
		if v, ok := f.Pkg.TypesInfo.Uses[x.Sel].(*types.Var); ok && !v.IsField() && v.Pkg() != nil && v.Parent() == v.Pkg().Scope() && strings.HasPrefix(v.Name(), "Err") {
			return true
		}
	}
	return false
}

// ---- L1 ----

type errL1 struct {
	p    *Prog
	f    *Func
	ev   *errVars
	over map[string]*Node // "var@defpos" overwritten while unchecked -> node
}

func (d *errL1) Transfer(n *Node, s Store) []Store {
	info := d.f.Pkg.TypesInfo
	defs, uses := nodeDefsUses(info, n.Ast)
	for v := range uses {
		if d.ev.vars[v] {
			s = s.Without("U:" + varKey(v))
		}
	}
	if rs, ok := n.Ast.(*ast.ReturnStmt); ok {
		if len(rs.Results) == 0 {
			for v := range d.ev.named {
				s = s.Without("U:" + varKey(v))
			}
		} else {
			for v := range d.ev.named {
				if d.ev.vars[v] && s.Has("U:"+varKey(v)) && !d.ev.deferred[v] {
					d.over[varKey(v)+"@"+s.Get("U:"+varKey(v))] = n
				}
			}
			// an error of a later step is returned instead: the pending errors of
			// earlier best-effort steps are superseded (some error is reported)
			last := rs.Results[len(rs.Results)-1]
			if isErrorType(info.TypeOf(last)) && !isNilIdent(info, last) {
				if lv, ok := identObj(info, last).(*types.Var); ok && d.ev.vars[lv] {
					for _, k := range s.Keys("U:") {
						if k != "U:"+varKey(lv) {
							s = s.Without(k)
						}
					}
				}
			}
		}
	}
	for v, rhs := range defs {
		if !d.ev.vars[v] || d.ev.skipped[v] {
			continue
		}
		k := "U:" + varKey(v)
		if s.Has(k) {
			d.over[varKey(v)+"@"+s.Get(k)] = n
		}
		if rhs == nil || isNilIdent(info, rhs) {
			s = s.Without(k)
			continue
		}
		s = s.With(k, d.p.Pos(n.Ast))
	}
	return []Store{s}
}

func (d *errL1) Refine(e *Edge, s Store) (Store, bool) { return s, true }

// acceptedUnbound lists callees whose error result may be dropped, each with the reason.
var acceptedUnbound = map[string]string{
	"*.Close":                     "best-effort close on a teardown or error path; nothing can be done with the error",
	"*.Kill":                      "best-effort kill; the wait goroutine observes the outcome",
	"os.File.Sync":                "flush of stdout/stderr; failure is not actionable",
	"net.TCPConn.SetKeepAlive":    "socket option; failure only loses keep-alive probing",
	"io.Writer.Write":             "write to the user-supplied stderr writer; best effort by contract",
	"net/rpc.Server.RegisterName": "registration of a module-defined receiver whose method set is fixed at compile time (R-RPCNAME checks the shape)",
	"os.RemoveAll":                "best-effort cleanup of the temp directory",
	"syscall.CloseHandle":         "best-effort close of a process handle (windows); nothing can be done with the error",
	modPath + "/internal/plugin.GRPCControllerClient.Shutdown": "graceful-stop request; Kill force-kills afterwards regardless of the answer",
	modPath + "/runner.AttachedRunner.Wait":                    "reattached process wait; only the fact of exit matters",
	"fmt.Fprintf":                                              "diagnostic to stderr",
	"fmt.Fprint":                                               "diagnostic to stderr",
	"fmt.Fprintln":                                             "diagnostic to stderr",
	"fmt.Println":                                              "handshake line print (R-TABLE/handshake checks what is printed); cannot be retried",
	"fmt.Print":                                                "handshake line print; cannot be retried",
	"fmt.Printf":                                               "handshake line print; followed by Sync; cannot be retried",
	"github.com/oklog/run.Group.Run":                           "the actors' errors are handled by their interrupt functions",
	"io.Copy":                                                  "drain to EOF; the error is the termination signal itself",
	modPath + ".gRPCBrokerClientImpl.StartStream": "goroutine body; a stream error closes the broker, which Recv observes",
	"strconv.ParseBool":                           "unset or malformed flag means false",
	"*.SetReadDeadline":                           "arming or clearing a deadline on a connection; it only fails on a closed connection, which the next read reports (R-DEADLINE checks that no deadline stays armed)",
	"*.SetWriteDeadline":                          "as above",
	"*.SetDeadline":                               "as above",
	"bytes.Buffer.Write":                          "documented to always return a nil error",
	"bytes.Buffer.WriteString":                    "documented to always return a nil error",
	"bytes.Buffer.WriteByte":                      "documented to always return a nil error",
	"strings.Builder.WriteString":                 "documented to always return a nil error",
	"strings.Builder.Write":                       "documented to always return a nil error",
	"google.golang.org/grpc.Server.Serve":         "Serve returns when its listener is closed or the server is stopped, which is how it is meant to end; the error says no more than that (the run-group form discards it through Group.Run)",
}

// acceptedL1 lists bound error values that are deliberately not read on some
// path, keyed by function|construct.
var acceptedL1 = map[string]string{
	"grpcmux.GRPCServerMuxer.Accept|acceptErr = session.Accept()":                "when the knocked id has no listener the accept result is discarded and a more specific error is returned",
	"RPCClient.Close|returnErr = c.control.Call(\"Control.Quit\", true, &empty)": "a close error of a later step takes precedence over the quit error",
}

func ruleErrL1(c *Ctx) { ruleErrL1Scoped(c, nil) }

func ruleErrL1Scoped(c *Ctx, only func(*Func) bool) {
	p := c.P
	for _, f := range p.Funcs {
		if only != nil && !only(f) {
			continue
		}
		if strings.HasSuffix(p.Fset.Position(f.Body.Pos()).Filename, "testing.go") {
			continue
		}
		info := f.Pkg.TypesInfo
		ev := collectErrVars(p, f, false)
		g := p.Graph(f)
		// unbound / blank error results
		for _, n := range g.Nodes {
			if n.Ast == nil {
				continue
			}
			var call *ast.CallExpr
			how := ""
			switch s := n.Ast.(type) {
			case *ast.ExprStmt:
				call, _ = s.X.(*ast.CallExpr)
				how = "unbound"
			case *ast.GoStmt:
				call, how = s.Call, "go"
			case *ast.DeferStmt:
				call, how = s.Call, "defer"
			case *ast.AssignStmt:
				if len(s.Rhs) == 1 {
					if ce, ok := s.Rhs[0].(*ast.CallExpr); ok {
						if tup, ok := info.TypeOf(ce).(*types.Tuple); ok && tup.Len() == len(s.Lhs) {
							for i := 0; i < tup.Len(); i++ {
								if isErrorType(tup.At(i).Type()) {
									if id, ok := s.Lhs[i].(*ast.Ident); ok && id.Name == "_" {
										call, how = ce, "blank"
									}
								}
							}
						} else if isErrorType(info.TypeOf(ce)) && len(s.Lhs) == 1 {
							if id, ok := s.Lhs[0].(*ast.Ident); ok && id.Name == "_" {
								call, how = ce, "blank"
							}
						}
					}
				}
			}
			if call == nil {
				continue
			}
			if _, isLit := call.Fun.(*ast.FuncLit); isLit {
				continue
			}
			t := info.TypeOf(call)
			retErr := false
			switch tt := t.(type) {
			case *types.Tuple:
				for i := 0; i < tt.Len(); i++ {
					if isErrorType(tt.At(i).Type()) {
						retErr = true
					}
				}
			default:
				retErr = isErrorType(t)
			}
			if !retErr {
				continue
			}
			c.R.CallSites++
			full := p.CalleeName(f, call)
			short := full
			if i := strings.LastIndex(full, "."); i >= 0 {
				short = full[i+1:]
			}
			if full == "" {
				short = exprStr(call.Fun)
				if i := strings.LastIndex(short, "."); i >= 0 {
					short = short[i+1:]
				}
			}
			construct := how + " " + shortName(full)
			if full == "" {
				construct = how + " " + exprStr(call.Fun)
			}
			reason, ok := acceptedUnbound[full]
			if !ok {
				reason, ok = acceptedUnbound["*."+short]
			}
			if ok {
				c.R.Except("R-ERR/L1-unbound", p.Pos(call), f.Name, construct, "accepted idiom: "+reason)
			} else {
				c.R.Violate("R-ERR/L1-unbound", p.Pos(call), f.Name, construct,
					"error result of "+exprStr(call.Fun)+" is dropped ("+how+") and the callee is not in the accepted-idiom table", nil)
			}
		}
		if len(ev.vars) == 0 {
			continue
		}
		d := &errL1{p: p, f: f, ev: ev, over: map[string]*Node{}}
		res := Interp(g, d, NewStore())
		if res.Capped {
			c.R.Undecided("R-ERR/L1", f.Name, "state-cap", "state cap hit")
			continue
		}
		// definitions are the obligations
		defSites := map[string]string{} // "var@pos" -> construct
		for _, n := range g.Nodes {
			if n.Ast == nil {
				continue
			}
			defs, _ := nodeDefsUses(info, n.Ast)
			for v, rhs := range defs {
				if !ev.vars[v] || rhs == nil || isNilIdent(info, rhs) {
					continue
				}
				// an error made on the spot (errors.New, fmt.Errorf over no other
				// error) reports no failure of a callee: overwriting it loses nothing
				if call, isCall := ast.Unparen(rhs).(*ast.CallExpr); isCall {
					if nm := p.CalleeName(f, call); nm == "errors.New" || nm == "fmt.Errorf" {
						wraps := false
						for _, a := range call.Args {
							if isErrorType(info.TypeOf(a)) {
								wraps = true
							}
						}
						if !wraps {
							continue
						}
					}
				}
				cs := v.Name() + " = " + trimExpr(rhs)
				if ev.skipped[v] {
					c.R.Except("R-ERR/L1", p.Pos(n.Ast), f.Name, cs, "variable is captured by a closure that is not a deferred reader; not tracked")
					continue
				}
				defSites[varKey(v)+"@"+p.Pos(n.Ast)] = cs
			}
		}
		bad := map[string]string{}
		badPath := map[string][]string{}
		for k, n := range d.over {
			bad[k] = "overwritten at " + p.Pos(n.Ast) + " before being checked"
		}
		for _, s := range res.In[g.Exit] {
			for _, k := range s.Keys("U:") {
				vk := strings.TrimPrefix(k, "U:")
				var tv *types.Var
				for v := range ev.vars {
					if varKey(v) == vk {
						tv = v
					}
				}
				if tv != nil && (ev.deferred[tv] || ev.named[tv]) {
					continue
				}
				id := vk + "@" + s.Get(k)
				if _, dup := bad[id]; !dup {
					bad[id] = "reaches the end of the function without being read on some path"
					badPath[id] = res.PathOf(p, g.Exit, s)
				}
			}
		}
		for id, cs := range defSites {
			site := id[strings.LastIndex(id, "@")+1:]
			if why, isBad := bad[id]; isBad {
				if reason, ok := acceptedL1[f.Name+"|"+cs]; ok {
					c.R.Except("R-ERR/L1", site, f.Name, cs, reason)
					continue
				}
				c.R.Violate("R-ERR/L1", site, f.Name, cs, "error value "+why, badPath[id])
			} else {
				c.R.Hold("R-ERR/L1", site, f.Name, cs, "read on every path before overwrite/exit", true)
			}
		}
	}
}

func trimExpr(e ast.Expr) string {
	s := exprStr(e)
	if len(s) > 70 {
		s = s[:67] + "..."
	}
	return s
}

// ---- L2 ----

type errL2 struct {
	p      *Prog
	f      *Func
	ev     *errVars
	track  map[*types.Var]bool // error vars + named results
	errIdx int                 // index of the error result, -1 if none
	commit func(n *Node) (ast.Expr, string)
	viol   map[string]*l2viol
	res    *InterpResult
}

type l2viol struct {
	node   *Node
	state  Store
	detail string
	cs     string
}

func (d *errL2) val(s Store, e ast.Expr) string {
	info := d.f.Pkg.TypesInfo
	if e == nil {
		return "N"
	}
	if isNilIdent(info, e) {
		return "N"
	}
	if d.p.isNonNilExpr(d.f, e) {
		return "NN"
	}
	if v, ok := identObj(info, e).(*types.Var); ok && d.track[v] {
		st := s.Get("V:" + varKey(v))
		if st == "" {
			return "M"
		}
		return st[:strings.IndexAny(st+"@", "@")]
	}
	return "M"
}

func (d *errL2) pending(s Store, except *types.Var) (string, bool) {
	for _, k := range s.Keys("V:") {
		vk := strings.TrimPrefix(k, "V:")
		isErr := false
		for v := range d.ev.vars {
			if varKey(v) == vk {
				isErr = true
				if v == except {
					isErr = false
				}
			}
		}
		if !isErr {
			continue
		}
		st := s.Get(k)
		if strings.HasPrefix(st, "NN") || strings.HasPrefix(st, "M") {
			return pathDisplay(vk) + " (" + st + ")", true
		}
	}
	return "", false
}

func (d *errL2) Transfer(n *Node, s Store) []Store {
	info := d.f.Pkg.TypesInfo
	pos := d.p.Pos(n.Ast)
	// commit stores
	if d.commit != nil {
		if val, what := d.commit(n); what != "" {
			if d.val(s, val) != "N" {
				if pv, ok := d.pending(s, nil); ok {
					id := "commit|" + what + "|" + strings.SplitN(pv, " ", 2)[0]
					if d.viol[id] == nil {
						d.viol[id] = &l2viol{n, s, "commit store " + what + " of a possibly non-nil value is reachable while error " + pv + " may be non-nil", "commit " + what}
					}
				}
			}
		}
	}
	if rs, ok := n.Ast.(*ast.ReturnStmt); ok && d.errIdx >= 0 {
		retNil := false
		var via *types.Var
		if len(rs.Results) == 0 {
			// naked return: the named error result is what is returned
			for v := range d.ev.named {
				if d.ev.vars[v] {
					via = v
					st := s.Get("V:" + varKey(v))
					retNil = st == "N" || st == ""
				}
			}
		} else if len(rs.Results) > d.errIdx && len(rs.Results) > 1 || len(rs.Results) == 1 && d.errIdx == 0 {
			e := rs.Results[d.errIdx]
			retNil = d.val(s, e) == "N"
			if v, ok := identObj(info, e).(*types.Var); ok {
				via = v
			}
		}
		if retNil {
			if pv, ok := d.pending(s, via); ok {
				id := "ret|" + strings.SplitN(pv, " ", 2)[0]
				if d.viol[id] == nil {
					d.viol[id] = &l2viol{n, s, "returns a nil error at " + pos + " while error " + pv + " may be non-nil (error swallowed)", "return-nil with " + strings.SplitN(pv, " ", 2)[0] + " pending"}
				}
			}
		}
		return []Store{s}
	}
	defs, _ := nodeDefsUses(info, n.Ast)
	// evaluate all RHS first (copy semantics)
	newv := map[*types.Var]string{}
	for v, rhs := range defs {
		if !d.track[v] {
			continue
		}
		val := d.val(s, rhs)
		if isVarDeclNode(n.Ast) && rhs == nil {
			val = "N"
		}
		if as, ok := n.Ast.(*ast.AssignStmt); ok && len(as.Rhs) == 1 && len(as.Lhs) > 1 {
			val = "M" // tuple assignment from a call
		}
		if val != "N" {
			val += "@" + pos
		}
		newv[v] = val
	}
	for v, val := range newv {
		s = s.With("V:"+varKey(v), val)
	}
	// boolean locals assigned a constant (the result variable of an inlined
	// predicate helper): remembered so that the test of the flag separates the
	// paths again
	for v, rhs := range defs {
		if v.IsField() || !types.Identical(v.Type().Underlying(), types.Typ[types.Bool]) {
			continue
		}
		bv := ""
		if rhs != nil {
			if tv, ok := info.Types[rhs]; ok && tv.Value != nil && tv.Value.Kind() == constant.Bool {
				if constant.BoolVal(tv.Value) {
					bv = "T"
				} else {
					bv = "F"
				}
			}
		} else if isVarDeclNode(n.Ast) {
			bv = "F"
		}
		s = s.With("B:"+varKey(v), bv)
	}
	return []Store{s}
}

func (d *errL2) Refine(e *Edge, s Store) (Store, bool) {
	info := d.f.Pkg.TypesInfo
	if at, ok := edgeAtom(info, e); ok && at.Kind == "bool" {
		if v, isV := identObj(info, at.X).(*types.Var); isV && !v.IsField() {
			switch s.Get("B:" + varKey(v)) {
			case "T":
				if !at.True {
					return s, false
				}
			case "F":
				if at.True {
					return s, false
				}
			}
		}
	}
	// switch classify(err) { case K: ... }: on a matched non-default case the
	// error was classified by value (status.Code(err) and the like), which is
	// deliberate handling. The zero class (codes.OK) is the nil error.
	if e.Tag != nil && e.Branch > 0 && e.Cond != nil {
		if call, ok := ast.Unparen(e.Tag).(*ast.CallExpr); ok && len(call.Args) == 1 {
			if v, ok := identObj(info, call.Args[0]).(*types.Var); ok && d.ev.vars[v] {
				if k, isK := constInt(info, e.Cond); !isK || k != 0 {
					return s.With("V:"+varKey(v), "H"), true
				}
			}
		}
	}
	at, ok := edgeAtom(info, e)
	if !ok {
		return s, true
	}
	switch at.Kind {
	case "nil":
		v, ok := identObj(info, at.X).(*types.Var)
		if !ok || !d.track[v] {
			return s, true
		}
		k := "V:" + varKey(v)
		cur := s.Get(k)
		if at.Op == token.EQL { // v == nil holds
			if strings.HasPrefix(cur, "NN") {
				return s, false
			}
			return s.With(k, "N"), true
		}
		if cur == "N" {
			return s, false
		}
		if strings.HasPrefix(cur, "M") {
			return s.With(k, "NN"+strings.TrimPrefix(cur, "M")), true
		}
		if cur == "" {
			return s.With(k, "NN"), true
		}
		return s, true
	case "cmp":
		// classify(err) == K (status.Code(err) == codes.Unavailable): on the equal
		// edge of a non-zero class the error was classified by value
		if at.Op == token.EQL {
			for _, pair := range [][2]ast.Expr{{at.X, at.Y}, {at.Y, at.X}} {
				ce := ast.Unparen(pair[0])
				if lv, isV := identObj(info, ce).(*types.Var); isV && !lv.IsField() {
					// code := status.Code(err); ... code == K
					if def := d.p.singleDef(d.f, lv); def != nil {
						ce = ast.Unparen(def)
					}
				}
				if call, ok := ce.(*ast.CallExpr); ok && len(call.Args) == 1 {
					if v, ok := identObj(info, call.Args[0]).(*types.Var); ok && d.ev.vars[v] {
						if k, isK := constInt(info, pair[1]); isK && k != 0 {
							return s.With("V:"+varKey(v), "H"), true
						}
					}
				}
			}
		}
		// err == io.EOF and friends: on the equal edge err is non-nil
		v, ok := identObj(info, at.X).(*types.Var)
		if ok && d.ev.vars[v] && at.Op == token.EQL && !isNilIdent(info, at.Y) {
			// err == io.EOF and friends: a specific error was recognised, which is
			// deliberate handling ("H" is not pending).
			k := "V:" + varKey(v)
			if s.Get(k) == "N" {
				return s, false
			}
			return s.With(k, "H"), true
		}
	case "call":
		// errors.Is(err, X) / errors.As(err, &t) on the true edge: recognised.
		if call, ok := at.X.(*ast.CallExpr); ok && at.True && len(call.Args) >= 1 {
			switch d.p.CalleeName(d.f, call) {
			case "errors.Is", "errors.As":
				if v, ok := identObj(info, call.Args[0]).(*types.Var); ok && d.ev.vars[v] {
					return s.With("V:"+varKey(v), "H"), true
				}
			}
		}
	}
	return s, true
}

// l2Handled lists (function, variable) pairs where a non-nil error is
// deliberately handled without being returned, with the reason.
var l2Handled = map[string]string{
	"setGroupWritable|groupID = strconv.Atoi(groupString)": "a non-numeric group falls back to a name lookup whose own error is returned",
}

func ruleErrL2(c *Ctx) { ruleErrL2Scoped(c, nil) }

func ruleErrL2Scoped(c *Ctx, only func(*Func) bool) {
	p := c.P
	for _, f := range p.Funcs {
		if only != nil && !only(f) {
			continue
		}
		if strings.HasSuffix(p.Fset.Position(f.Body.Pos()).Filename, "testing.go") {
			continue
		}
		info := f.Pkg.TypesInfo
		var sig *types.Signature
		if f.Obj != nil {
			sig, _ = f.Obj.Type().(*types.Signature)
		} else if f.Lit != nil {
			sig, _ = info.TypeOf(f.Lit).(*types.Signature)
		}
		if sig == nil {
			continue
		}
		errIdx := -1
		for i := 0; i < sig.Results().Len(); i++ {
			if isErrorType(sig.Results().At(i).Type()) {
				errIdx = i
			}
		}
		if errIdx < 0 {
			continue
		}
		ev := collectErrVars(p, f, true)
		// error locals that came in with an inlined helper which has no error
		// result: the helper handled them itself (E10 marks them)
		for v := range ev.vars {
			if handledSuffix.MatchString(v.Name()) {
				delete(ev.vars, v)
			}
		}
		d := &errL2{p: p, f: f, ev: ev, track: map[*types.Var]bool{}, errIdx: errIdx, viol: map[string]*l2viol{}}
		for v := range ev.vars {
			d.track[v] = true
		}
		for v := range ev.named {
			d.track[v] = true
		}
		if f.Name == "Client.Start" {
			addrF := p.FieldObj(modPath, "Client", "address")
			d.commit = func(n *Node) (ast.Expr, string) {
				as, ok := n.Ast.(*ast.AssignStmt)
				if !ok {
					return nil, ""
				}
				for i, l := range as.Lhs {
					if fv := SelField(info, l); fv != nil && fv == addrF && len(as.Rhs) == len(as.Lhs) {
						return as.Rhs[i], "Client.address"
					}
				}
				return nil, ""
			}
		}
		init := NewStore()
		for v := range ev.named {
			init = init.With("V:"+varKey(v), "N")
		}
		g := p.Graph(f)
		res := Interp(g, d, init)
		d.res = res
		if res.Capped {
			c.R.Undecided("R-ERR/L2", f.Name, "state-cap", "state cap hit")
			continue
		}
		nret := 0
		for _, n := range g.Nodes {
			if _, ok := n.Ast.(*ast.ReturnStmt); ok {
				nret++
			}
		}
		if len(d.viol) == 0 {
			c.R.Hold("R-ERR/L2", p.Pos(f.Node()), f.Name, "fail-stop", fmt.Sprintf("%d returns, %d error variables, %d abstract steps: no nil-error return or commit reachable with a pending error", nret, len(ev.vars), res.Steps), true)
			continue
		}
		for _, v := range d.viol {
			c.R.Violate("R-ERR/L2", p.Pos(v.node.Ast), f.Name, v.cs, v.detail, res.PathOf(p, v.node, v.state))
		}
	}
}

// isVarDeclNode: a is a `var` declaration as it appears in the CFG (go/cfg
// records the ValueSpec, not the enclosing DeclStmt).
func isVarDeclNode(a ast.Node) bool {
	switch a.(type) {
	case *ast.DeclStmt, *ast.ValueSpec:
		return true
	}
	return false
}

// sentinels: package-level error variables of the module that are initialised
// with errors.New / fmt.Errorf in their declaration and never assigned (nor
// have their address taken) anywhere: non-nil by construction, whatever their name.
func (p *Prog) sentinels() map[*types.Var]bool {
	if p.sentinelVars != nil {
		return p.sentinelVars
	}
	out := map[*types.Var]bool{}
	for _, pkg := range p.Pkgs {
		if pkg.Types == nil || !strings.HasPrefix(pkg.PkgPath, modPath) {
			continue
		}
		for _, file := range pkg.Syntax {
			for _, d := range file.Decls {
				gd, ok := d.(*ast.GenDecl)
				if !ok || gd.Tok != token.VAR {
					continue
				}
				for _, sp := range gd.Specs {
					vs, ok := sp.(*ast.ValueSpec)
					if !ok || len(vs.Values) != len(vs.Names) {
						continue
					}
					for i, nm := range vs.Names {
						v, _ := pkg.TypesInfo.Defs[nm].(*types.Var)
						call, isCall := ast.Unparen(vs.Values[i]).(*ast.CallExpr)
						if v == nil || !isCall || !isErrorType(v.Type()) {
							continue
						}
						if fn, ok := typeutilCallee(pkg.TypesInfo, call); ok && (fn == "errors.New" || fn == "fmt.Errorf") {
							out[v] = true
						}
					}
				}
			}
		}
	}
	for _, pkg := range p.Pkgs {
		if pkg.Types == nil || !strings.HasPrefix(pkg.PkgPath, modPath) {
			continue
		}
		for _, file := range pkg.Syntax {
			ast.Inspect(file, func(n ast.Node) bool {
				switch x := n.(type) {
				case *ast.AssignStmt:
					for _, l := range x.Lhs {
						if v, ok := identObj(pkg.TypesInfo, l).(*types.Var); ok {
							delete(out, v)
						}
						if se, ok := ast.Unparen(l).(*ast.SelectorExpr); ok {
							if v, ok := pkg.TypesInfo.Uses[se.Sel].(*types.Var); ok {
								delete(out, v)
							}
						}
					}
				case *ast.UnaryExpr:
					if x.Op == token.AND {
						if v, ok := identObj(pkg.TypesInfo, x.X).(*types.Var); ok {
							delete(out, v)
						}
					}
				}
				return true
			})
		}
	}
	p.sentinelVars = out
	return out
}

func typeutilCallee(info *types.Info, call *ast.CallExpr) (string, bool) {
	var id *ast.Ident
	switch fn := ast.Unparen(call.Fun).(type) {
	case *ast.Ident:
		id = fn
	case *ast.SelectorExpr:
		id = fn.Sel
	}
	if id == nil {
		return "", false
	}
	if f, ok := info.Uses[id].(*types.Func); ok && f.Pkg() != nil {
		return f.Pkg().Path() + "." + f.Name(), true
	}
	return "", false
}
