package main

import (
	"fmt"
	"go/ast"
	"go/types"
	"sort"

	"golang.org/x/tools/go/callgraph/cha"
	"golang.org/x/tools/go/callgraph/vta"
	"golang.org/x/tools/go/ssa"
	"golang.org/x/tools/go/ssa/ssautil"
)

// vtaCrossCheck (thorough tier) builds the SSA program and a VTA-over-CHA call
// graph and compares it with the AST-level call index used by the rules:
// every VTA edge between two functions in scope must also be an edge (or an
// argument-literal edge) of the AST index, otherwise reachability-based rules
// (R-ASSERT, MayBlock/R-LOCKBLOCK, EntryHeld/R-GUARD, env keys) could miss a callee.
func (p *Prog) vtaCrossCheck() (edges int, missing []string, err error) {
	defer func() {
		if e := recover(); e != nil {
			err = fmt.Errorf("ssa/vta panic: %v", e)
		}
	}()
	prog, _ := ssautil.AllPackages(p.All, ssa.InstantiateGenerics)
	prog.Build()
	cg := vta.CallGraph(ssautil.AllFunctions(prog), cha.CallGraph(prog))
	ci := p.Calls()
	inScope := func(fn *ssa.Function) *Func {
		if fn == nil {
			return nil
		}
		if fl, ok := fn.Syntax().(*ast.FuncLit); ok {
			return p.Lit(fl)
		}
		if obj, ok := fn.Object().(*types.Func); ok {
			return p.FnOf(obj)
		}
		return nil
	}
	seen := map[string]bool{}
	for fn, node := range cg.Nodes {
		caller := inScope(fn)
		if caller == nil {
			continue
		}
		for _, e := range node.Out {
			callee := inScope(e.Callee.Func)
			if callee == nil || e.Site == nil {
				continue
			}
			edges++
			ok := false
			for _, cs := range ci.sites[caller] {
				if hasFunc(cs.Callees, callee) || hasFunc(cs.ArgLits, callee) {
					ok = true
				}
			}
			// a literal defined in caller and invoked through a variable
			if !ok && callee.Lit != nil && callee.Parent == caller {
				ok = true
			}
			if !ok && caller == callee && !e.Site.Pos().IsValid() {
				ok = true // synthetic wrapper
			}
			if !ok {
				k := caller.Name + " -> " + callee.Name
				if !seen[k] {
					seen[k] = true
					missing = append(missing, k+" at "+p.PosOf(e.Site.Pos()))
				}
			}
		}
	}
	sort.Strings(missing)
	return edges, missing, nil
}
