package main

func init() {
	register(&propDef{ID: "T00", Rules: []func(*Ctx){ruleWrapClose, ruleOrderO8}, Explanation: "test", NotDecided: "n/a"})
}
