package main

import (
	"fmt"
	"go/ast"
	"go/token"
	"go/types"
	"strings"
)

// ---------- R-CLOSE1: channels are closed once ----------

var reviewedSharedClose = map[string]string{
	"MuxBroker.Accept|close(muxBrokerPending.doneCh)":                                   "one acceptor per id at a time by API contract (documented on Accept); the slot is deleted by the expiry handler right after",
	"GRPCBroker.DialWithOptions|close(gRPCBrokerPending.doneCh)":                        "one dialer per id by API contract; the slot is deleted by the expiry handler right after",
	"GRPCServer.Serve|close(GRPCServer.DoneCh)":                                         "Serve is started exactly once per server by plugin.Serve",
	"Serve|close(ServeTestConfig.CloseCh)":                                              "deferred in Serve, which runs once per ServeConfig",
	"grpcmux.GRPCServerMuxer.acceptSession|close(grpcmux.GRPCServerMuxer.sessionErrCh)": "acceptSession is started exactly once, by the constructor",
}

func ruleClose1(c *Ctx) {
	p := c.P
	n := 0
	onceN := 0
	reviewedSeen := map[string]int{}
	for _, f := range p.Funcs {
		if strings.HasSuffix(p.Fset.Position(f.Body.Pos()).Filename, "testing.go") {
			continue
		}
		info := f.Pkg.TypesInfo
		g := p.Graph(f)
		for _, call := range f.Calls() {
			if p.CalleeName(f, call) != "builtin.close" || len(call.Args) != 1 {
				continue
			}
			n++
			ch := call.Args[0]
			construct := "close(" + p.chanDesc(f, ch) + ")"
			node := g.NodeOf(call)
			// (1) inside sync.Once.Do
			if f.Lit != nil {
				if par, ok := p.Parent(f.Lit).(*ast.CallExpr); ok {
					if pf := p.EnclosingFunc(par); pf != nil {
						switch nm := p.CalleeName(pf, par); nm {
						case "sync.Once.Do", "sync.OnceFunc", "sync.OnceValue", "sync.OnceValues":
							onceN++
							// the Once and the channel belong to the same object: a Once of
							// another object may have fired already (the channel is then never
							// closed) or guard several channels (only the first is closed)
							if nm == "sync.Once.Do" {
								if ose, isSel := ast.Unparen(par.Fun).(*ast.SelectorExpr); isSel {
									if onceSel, isF := ast.Unparen(ose.X).(*ast.SelectorExpr); isF && SelField(pf.Pkg.TypesInfo, onceSel) != nil {
										if chSel, isC := ast.Unparen(ch).(*ast.SelectorExpr); isC && SelField(info, chSel) != nil {
											oo, co := accessPath(pf.Pkg.TypesInfo, onceSel.X), accessPath(info, chSel.X)
											if oo != "" && co != "" && oo != co {
												c.R.Violate("R-CLOSE1", p.Pos(call), f.Name, construct,
													"the close is guarded by the sync.Once of a different object ("+exprStr(onceSel)+" guards a channel of "+exprStr(chSel.X)+"): once that Once has fired for any reason this channel is never closed, and the goroutines waiting on it (listener accept loops, knock listeners, the serving goroutine) never end", nil)
												continue
											}
										}
									}
								}
							}
							c.R.Hold("R-CLOSE1", p.Pos(call), f.Name, construct, "inside "+nm, true)
							continue
						}
					}
				}
			}
			// (2) under a mutex with nil-test-and-clear
			if node != nil && len(p.MustHeldAt(f, node)) > 0 {
				ap := accessPath(info, ch)
				tested := ap != "" && g.OnlyViaEdge(node, func(e *Edge) bool {
					at, ok := edgeAtom(info, e)
					return ok && at.Kind == "nil" && at.Op == token.NEQ && accessPath(info, at.X) == ap
				})
				cleared := false
				for _, m := range g.ReachAfter(node, nil, nil) {
					_ = m
				}
				for m := range g.ReachAfter(node, nil, nil) {
					if as, ok := m.Ast.(*ast.AssignStmt); ok {
						for i, l := range as.Lhs {
							if accessPath(info, l) == ap && i < len(as.Rhs) && isNilIdent(info, as.Rhs[i]) {
								cleared = true
							}
						}
					}
				}
				if tested && cleared {
					c.R.Hold("R-CLOSE1", p.Pos(call), f.Name, construct, "under "+p.MustHeldAt(f, node).names(p)+" with nil test before and nil store after the close", true)
					continue
				}
			}
			// (3) local owner: a channel variable made in this function or an enclosing one,
			// closed outside any loop, in a body that runs at most once
			if v, ok := identObj(info, ch).(*types.Var); ok && !v.IsField() && v.Parent() != v.Pkg().Scope() {
				inLoop := false
				if node != nil {
					if _, again := g.ReachAfter(node, nil, nil)[node]; again {
						inLoop = true
					}
				}
				made := p.madeLocally(f, v)
				runsOnce, why := p.bodyRunsOnce(f)
				if made && !inLoop && runsOnce {
					// a local channel on which another goroutine sends (a reply channel
					// handed over in a message, or a goroutine started here) may be
					// closed by its owner only after the reply was received
					if bad, where := p.replyCloseViolation(f, v, node); bad {
						c.R.Violate("R-CLOSE1/reply", p.Pos(call), f.Name, construct,
							"the channel was handed to another goroutine that sends its reply on it ("+where+"), but there is a path from the hand-off to this close on which the reply is not received first: the later reply is a send on a closed channel (panic)", nil)
						continue
					} else if where != "" {
						c.R.Hold("R-CLOSE1/reply", p.Pos(call), f.Name, construct, "reply received on every path from the hand-off ("+where+") to the close", true)
					}
					c.R.Hold("R-CLOSE1", p.Pos(call), f.Name, construct, "channel made locally, closed outside any loop; "+why, true)
					continue
				}
			}
			if reason, ok := reviewedSharedClose[rootName(f)+"|"+construct]; ok {
				// a reviewed close is one site: the argument that it runs once does
				// not cover a second close of the same channel in the function
				reviewedSeen[rootName(f)+"|"+construct]++
				if reviewedSeen[rootName(f)+"|"+construct] > 1 {
					c.R.Violate("R-CLOSE1", p.Pos(call), f.Name, construct+" (second site)",
						"the function closes this shared channel at more than one site; the reviewed exception covers a single close: whichever runs second panics (close of closed channel)", nil)
					continue
				}
				// a pending slot's done channel is closed by whoever took the parked
				// value out of the slot: the close must be dominated by a receive from
				// the slot's value channel
				if se, isSel := ast.Unparen(ch).(*ast.SelectorExpr); isSel && strings.HasSuffix(construct, "Pending.doneCh)") && node != nil {
					base := exprStr(se.X)
					taken := g.DominatedBy(node, func(m *Node) bool {
						found := false
						if m.Ast == nil {
							return false
						}
						walkNoLit(m.Ast, func(x ast.Node) bool {
							if u, ok := x.(*ast.UnaryExpr); ok && u.Op == token.ARROW {
								if s2, ok := ast.Unparen(u.X).(*ast.SelectorExpr); ok && exprStr(s2.X) == base && s2.Sel.Name != se.Sel.Name {
									found = true
								}
							}
							return true
						})
						return found
					})
					if !taken {
						c.R.Violate("R-CLOSE1", p.Pos(call), f.Name, construct+" after taking the parked value",
							"the pending slot's done channel is closed on a path that did not take the parked value out of the slot: the party that later does take it closes it again (panic)", nil)
						continue
					}
				}
				c.R.Except("R-CLOSE1", p.Pos(call), f.Name, construct, reason)
				continue
			}
			c.R.Violate("R-CLOSE1", p.Pos(call), f.Name, construct,
				"close of a shared channel that is not inside sync.Once.Do, not a nil-test-and-clear under a mutex, not a single local owner and not in the reviewed table: a second close panics", nil)
		}
		// no send after close of the same channel in one function
		for _, call := range f.Calls() {
			if p.CalleeName(f, call) != "builtin.close" || len(call.Args) != 1 {
				continue
			}
			node := g.NodeOf(call)
			if node == nil {
				continue
			}
			if _, isDefer := node.Ast.(*ast.DeferStmt); isDefer {
				continue
			}
			ap := accessPath(info, call.Args[0])
			if ap == "" {
				continue
			}
			for m := range g.ReachAfter(node, nil, nil) {
				if m.Ast == nil {
					continue
				}
				walkNoLit(m.Ast, func(x ast.Node) bool {
					if ss, ok := x.(*ast.SendStmt); ok && accessPath(info, ss.Chan) == ap {
						c.R.Violate("R-CLOSE1", p.Pos(ss), f.Name, "send after close("+p.chanDesc(f, call.Args[0])+")", "a send on the channel is reachable after it was closed: panic", nil)
					}
					return true
				})
			}
		}
	}
	if n < 10 || onceN < 3 {
		c.R.Undecided("R-CLOSE1", "", "instance-floor", fmt.Sprintf("only %d close sites (%d inside Once.Do) found; 12 (4) were confirmed by hand", n, onceN))
	}
}

// madeLocally: v is assigned from make(chan ...) in f or an enclosing function.
func (p *Prog) madeLocally(f *Func, v *types.Var) bool {
	for cur := f; cur != nil; cur = cur.Parent {
		info := cur.Pkg.TypesInfo
		found := false
		ast.Inspect(cur.Body, func(x ast.Node) bool {
			switch s := x.(type) {
			case *ast.AssignStmt:
				for i, l := range s.Lhs {
					if identObj(info, l) == v && i < len(s.Rhs) {
						if call, ok := ast.Unparen(s.Rhs[i]).(*ast.CallExpr); ok && p.CalleeName(cur, call) == "builtin.make" {
							found = true
						}
					}
				}
			case *ast.ValueSpec:
				for i, nm := range s.Names {
					if info.Defs[nm] == v && i < len(s.Values) {
						if call, ok := ast.Unparen(s.Values[i]).(*ast.CallExpr); ok && p.CalleeName(cur, call) == "builtin.make" {
							found = true
						}
					}
				}
			}
			return !found
		})
		if found {
			return true
		}
	}
	return false
}

// bodyRunsOnce: a declared function body runs once per call; a literal runs
// once if it is invoked/deferred/started exactly where it is written, outside
// a loop, or is a run.Group actor/interrupt function.
func (p *Prog) bodyRunsOnce(f *Func) (bool, string) {
	if f.Lit == nil {
		return true, "function body"
	}
	par := p.Parent(f.Lit)
	call, ok := par.(*ast.CallExpr)
	if !ok {
		return false, ""
	}
	pf := p.EnclosingFunc(call)
	if pf == nil {
		return false, ""
	}
	g := p.Graph(pf)
	node := g.NodeOf(call)
	inLoop := false
	if node != nil {
		if _, again := g.ReachAfter(node, nil, nil)[node]; again {
			inLoop = true
		}
	}
	if inLoop {
		return false, ""
	}
	if call.Fun == f.Lit {
		return true, "closure invoked once where it is written"
	}
	if p.CalleeName(pf, call) == "github.com/oklog/run.Group.Add" {
		return true, "run.Group calls each actor and interrupt function exactly once"
	}
	return false, ""
}

// ---------- R-WG: WaitGroup pairing ----------

func (p *Prog) wgDesc(f *Func, call *ast.CallExpr) string {
	se, ok := ast.Unparen(call.Fun).(*ast.SelectorExpr)
	if !ok {
		return ""
	}
	info := f.Pkg.TypesInfo
	recv := ast.Unparen(se.X)
	if u, ok := recv.(*ast.UnaryExpr); ok && u.Op == token.AND {
		recv = ast.Unparen(u.X) // (&wg).Done()
	}
	if fv := SelField(info, recv); fv != nil {
		return p.FieldName(fv)
	}
	if v, ok := identObj(info, recv).(*types.Var); ok {
		return fmt.Sprintf("local %s#%d", v.Name(), v.Pos())
	}
	return exprStr(recv)
}

// doneIn reports whether function body b calls X.Done() for the WaitGroup
// described by desc: deferred, or on every path to the exit.
func (p *Prog) doneIn(b *Func, desc string) bool {
	g := p.Graph(b)
	isDone := func(n *Node) bool {
		for _, call := range callsIn(n.Ast) {
			if p.CalleeName(b, call) == "sync.WaitGroup.Done" && p.wgDesc(b, call) == desc {
				return true
			}
		}
		return false
	}
	seen := g.Reach([]*Node{g.Entry}, isDone, nil)
	_, miss := seen[g.Exit]
	return !miss
}

func ruleWG(c *Ctx) {
	p := c.P
	ci := p.Calls()
	nAdd := 0
	for _, f := range p.Funcs {
		if strings.HasSuffix(p.Fset.Position(f.Body.Pos()).Filename, "testing.go") {
			continue
		}
		g := p.Graph(f)
		for _, call := range f.Calls() {
			if p.CalleeName(f, call) != "sync.WaitGroup.Add" {
				continue
			}
			nAdd++
			desc := p.wgDesc(f, call)
			addNode := g.NodeOf(call)
			construct := "Add on " + pathDisplay(desc)
			isSpawn := func(n *Node) bool {
				switch s := n.Ast.(type) {
				case *ast.GoStmt:
					for _, cs := range ci.sites[f] {
						if cs.Call == s.Call {
							for _, ce := range cs.Callees {
								if p.doneIn(ce, desc) {
									return true
								}
							}
						}
					}
				case *ast.DeferStmt:
					// deferred launcher: defer func(){ go func(){ defer X.Done() ... }() }()
					if fl, ok := ast.Unparen(s.Call.Fun).(*ast.FuncLit); ok {
						lf := p.Lit(fl)
						for _, cs := range ci.sites[lf] {
							if cs.Kind == "go" {
								for _, ce := range cs.Callees {
									if p.doneIn(ce, desc) {
										return true
									}
								}
							}
						}
					}
				}
				return false
			}
			seen := g.ReachAfter(addNode, isSpawn, nil)
			if _, bad := seen[g.Exit]; bad {
				c.R.Violate("R-WG", p.Pos(call), f.Name, construct,
					"after Add(1) there is a path to the function's exit that starts no goroutine calling Done on this WaitGroup: a later Wait blocks forever", p.PathTo(seen, g.Exit))
			} else {
				c.R.Hold("R-WG", p.Pos(call), f.Name, construct, "every path after Add reaches a go statement (or deferred launcher) whose body calls Done on all paths", true)
			}
			// a local WaitGroup must be waited for before the function returns
			if strings.HasPrefix(desc, "local ") {
				isWait := func(n *Node) bool {
					for _, cc := range callsIn(n.Ast) {
						if p.CalleeName(f, cc) == "sync.WaitGroup.Wait" && p.wgDesc(f, cc) == desc {
							return true
						}
					}
					return false
				}
				seen := g.ReachAfter(addNode, isWait, nil)
				if _, bad := seen[g.Exit]; bad {
					c.R.Violate("R-WG", p.Pos(call), f.Name, "Wait on "+pathDisplay(desc), "a local WaitGroup is not waited for on every path", p.PathTo(seen, g.Exit))
				} else {
					c.R.Hold("R-WG", p.Pos(call), f.Name, "Wait on "+pathDisplay(desc), "Wait post-dominates the Add", true)
				}
			}
		}
	}
	if nAdd < 6 {
		c.R.Undecided("R-WG", "", "instance-floor", fmt.Sprintf("only %d WaitGroup.Add sites found, 6 were confirmed by hand", nAdd))
	}
	// Kill waits for the management goroutines
	p.killDefer(c, "R-WG", "Kill waits for clientWaitGroup", func(lit *Func, call *ast.CallExpr) bool {
		return p.CalleeName(lit, call) == "sync.WaitGroup.Wait" && p.wgDesc(lit, call) == "Client.clientWaitGroup"
	}, "Kill returns without waiting for the goroutine that reaps the process")
	// the reaper goroutine waits for the pipe readers before runner.Wait
	start := p.Fn("Client.Start")
	if start != nil {
		found := false
		for _, f := range p.Funcs {
			if f.Lit == nil || f.Parent != start {
				continue
			}
			g := p.Graph(f)
			var waitNode, pipesNode *Node
			for _, call := range f.Calls() {
				switch p.CalleeName(f, call) {
				case modPath + "/runner.AttachedRunner.Wait":
					waitNode = g.NodeOf(call)
				case "sync.WaitGroup.Wait":
					if p.wgDesc(f, call) == "Client.pipesWaitGroup" {
						pipesNode = g.NodeOf(call)
					}
				}
			}
			if waitNode == nil {
				continue
			}
			found = true
			if pipesNode != nil && g.Dominates(pipesNode, waitNode) && p.doneIn(f, "Client.clientWaitGroup") {
				c.R.Hold("R-WG", p.Pos(waitNode.Ast), f.Name, "reaper waits for pipe readers", "pipesWaitGroup.Wait dominates runner.Wait; the goroutine is counted in clientWaitGroup", true)
			} else {
				c.R.Violate("R-WG", p.Pos(waitNode.Ast), f.Name, "reaper waits for pipe readers", "runner.Wait can run before the stdout/stderr readers finished (closing the pipes under them), or the reaper is not counted in clientWaitGroup", nil)
			}
		}
		if !found {
			c.R.Undecided("R-WG", start.Name, "reaper goroutine", "no goroutine calling runner.Wait found in Start")
		}
		// every goroutine that reads one of the runner's pipes is counted in the
		// WaitGroup the reaper waits for: otherwise runner.Wait closes the pipe
		// under the reader and the tail of the plugin's output is lost
		const pipesDesc = "Client.pipesWaitGroup"
		ci := p.Calls()
		nPipes := 0
		sg := p.Graph(start)
		for _, cs := range ci.sites[start] {
			if cs.Kind != "go" {
				continue
			}
			// does this go statement consume a pipe? (argument of the call, or read inside the literal)
			pipe := ""
			isPipe := func(fn *Func, call *ast.CallExpr) string {
				switch p.CalleeName(fn, call) {
				case modPath + "/runner.Runner.Stdout":
					return "stdout"
				case modPath + "/runner.Runner.Stderr":
					return "stderr"
				}
				return ""
			}
			// a local of Start bound once to a pipe and used by the goroutine
			pipeLocal := func(fn *Func) string {
				out := ""
				ast.Inspect(fn.Body, func(x ast.Node) bool {
					id, ok := x.(*ast.Ident)
					if !ok {
						return true
					}
					v, ok := fn.Pkg.TypesInfo.Uses[id].(*types.Var)
					if !ok || v.IsField() {
						return true
					}
					if d := p.singleDef(start, v); d != nil {
						if dc, ok := ast.Unparen(d).(*ast.CallExpr); ok {
							if k := isPipe(start, dc); k != "" {
								out = k
							}
						}
					}
					return true
				})
				return out
			}
			for _, call := range callsIn(cs.Node.Ast) {
				if k := isPipe(start, call); k != "" {
					pipe = k
				}
			}
			var bodies []*Func
			for _, ce := range cs.Callees {
				if ce != nil {
					bodies = append(bodies, ce)
				}
			}
			for _, b := range append([]*Func{}, bodies...) {
				if b.Lit == nil {
					continue
				}
				if k := pipeLocal(b); k != "" {
					pipe = k
				}
				for _, call := range b.Calls() {
					if k := isPipe(b, call); k != "" {
						pipe = k
					}
					if ce := p.FnOf(asFunc(p.Callee(b, call))); ce != nil {
						for _, a := range call.Args {
							if ac, ok := ast.Unparen(a).(*ast.CallExpr); ok && isPipe(b, ac) != "" {
								bodies = append(bodies, ce)
							}
						}
					}
				}
			}
			if pipe == "" {
				continue
			}
			nPipes++
			counted := false
			for _, b := range bodies {
				if p.doneIn(b, pipesDesc) {
					counted = true
				}
			}
			added := sg.DominatedBy(cs.Node, func(m *Node) bool {
				for _, call := range callsIn(m.Ast) {
					if p.CalleeName(start, call) == "sync.WaitGroup.Add" && p.wgDesc(start, call) == pipesDesc {
						return true
					}
				}
				return false
			})
			if counted && added {
				c.R.Hold("R-WG", p.Pos(cs.Node.Ast), start.Name, pipe+" reader counted in the pipes WaitGroup", "Add dominates the go statement; the goroutine calls Done on every path", true)
			} else {
				c.R.Violate("R-WG", p.Pos(cs.Node.Ast), start.Name, pipe+" reader counted in the pipes WaitGroup",
					"the goroutine reading the plugin's "+pipe+" pipe is not registered with the WaitGroup the reaper waits for before runner.Wait: Wait closes the pipe while unread output is still in it (lines lost, \"file already closed\")", nil)
			}
		}
		if nPipes < 2 {
			c.R.Undecided("R-WG", start.Name, "pipe readers", fmt.Sprintf("only %d goroutines reading runner.Stdout()/Stderr() found in Start, 2 expected", nPipes))
		}
	}
}

// killDefer checks that Client.Kill registers, before any non-early exit, a
// deferred closure for which has() holds.
func (p *Prog) killDefer(c *Ctx, rule, construct string, action func(*Func, *ast.CallExpr) bool, why string) {
	has := func(lit *Func) bool {
		for _, call := range lit.Calls() {
			if action(lit, call) {
				return true
			}
		}
		return false
	}
	f := p.Fn("Client.Kill")
	if f == nil {
		c.R.Undecided(rule, "Client.Kill", construct, "function not found")
		return
	}
	info := f.Pkg.TypesInfo
	g := p.Graph(f)
	var dn *Node
	for _, n := range g.Nodes {
		if ds, ok := n.Ast.(*ast.DeferStmt); ok {
			if fl, ok := ast.Unparen(ds.Call.Fun).(*ast.FuncLit); ok && has(p.Lit(fl)) {
				dn = n
			}
		}
	}
	if dn == nil {
		c.R.Violate(rule, p.Pos(f.Node()), f.Name, construct, "no deferred closure in Kill does this: "+why, nil)
		return
	}
	// inside the closure the action is unconditional: every path through the
	// closure passes it (apart from the test of its own argument against "",
	// "no directory was created")
	if ds, ok := dn.Ast.(*ast.DeferStmt); ok {
		if fl, ok := ast.Unparen(ds.Call.Fun).(*ast.FuncLit); ok && action != nil {
			lf := p.Lit(fl)
			lg := p.Graph(lf)
			linfo := lf.Pkg.TypesInfo
			argObjs := map[types.Object]bool{}
			isActionNode := func(m *Node) bool {
				if m.Ast == nil {
					return false
				}
				for _, call := range callsIn(m.Ast) {
					if action(lf, call) {
						return true
					}
				}
				return false
			}
			for _, call := range lf.Calls() {
				if action(lf, call) {
					for _, a := range call.Args {
						if o := identObj(linfo, a); o != nil {
							argObjs[o] = true
						}
					}
				}
			}
			bypassOK := func(e *Edge) bool {
				at, ok := edgeAtom(linfo, e)
				if !ok || at.Kind != "cmp" || at.Op != token.EQL {
					return false
				}
				sv, isS := constString(linfo, at.Y)
				return isS && sv == "" && argObjs[identObj(linfo, at.X)]
			}
			seenL := lg.Reach([]*Node{lg.Entry}, isActionNode, bypassOK)
			if _, skip := seenL[lg.Exit]; skip {
				c.R.Violate(rule, p.Pos(dn.Ast), f.Name, construct+" (on every path of the cleanup)", "the deferred cleanup can return before it gets there (an early return or a condition in front of it): "+why, p.PathTo(seenL, lg.Exit))
			} else {
				c.R.Hold(rule, p.Pos(dn.Ast), f.Name, construct+" (on every path of the cleanup)", "every path through the deferred closure passes it", true)
			}
		}
	}
	// the only exits that may bypass the defer are the "nothing to kill" early return edges
	cut := func(e *Edge) bool { return p.isNoRunnerEdge(info, e) }
	seen := g.Reach([]*Node{g.Entry}, func(n *Node) bool { return n == dn }, cut)
	if _, bad := seen[g.Exit]; bad {
		c.R.Violate(rule, p.Pos(dn.Ast), f.Name, construct, "an exit of Kill other than the no-runner early return bypasses the deferred closure: "+why, p.PathTo(seen, g.Exit))
	} else {
		c.R.Hold(rule, p.Pos(dn.Ast), f.Name, construct, "registered before every exit except the no-runner early return", true)
	}
}

// isNoRunnerEdge: the true edge of `runner == nil` or `runner.ID() == ""`.
func (p *Prog) isNoRunnerEdge(info *types.Info, e *Edge) bool {
	at, ok := edgeAtom(info, e)
	if !ok {
		return false
	}
	isRunner := func(x ast.Expr) bool {
		t := info.TypeOf(x)
		return t != nil && strings.HasSuffix(t.String(), "/runner.AttachedRunner")
	}
	if at.Kind == "nil" && at.Op == token.EQL && isRunner(at.X) {
		return true
	}
	if at.Kind == "cmp" && at.Op == token.EQL {
		if call, ok := ast.Unparen(at.X).(*ast.CallExpr); ok {
			if se, ok := ast.Unparen(call.Fun).(*ast.SelectorExpr); ok && se.Sel.Name == "ID" && isRunner(se.X) {
				if s, ok := constString(info, at.Y); ok && s == "" {
					return true
				}
			}
		}
	}
	return false
}

// ---------- R-RES/socketdir ----------

func ruleSocketDir(c *Ctx) {
	p := c.P
	sockF := p.FieldObj(modPath, "UnixSocketConfig", "socketDir")
	kill := p.Fn("Client.Kill")
	if kill == nil || sockF == nil {
		c.R.Undecided("R-RES/socketdir", "Client.Kill", "anchor", "function or field not found")
		return
	}
	kinfo := kill.Pkg.TypesInfo
	// the local that holds c.unixSocketCfg.socketDir
	var dirVar *types.Var
	ast.Inspect(kill.Body, func(x ast.Node) bool {
		if as, ok := x.(*ast.AssignStmt); ok {
			for i, r := range as.Rhs {
				if SelField(kinfo, r) == sockF && i < len(as.Lhs) {
					dirVar, _ = identObj(kinfo, as.Lhs[i]).(*types.Var)
				}
			}
		}
		return true
	})
	if dirVar == nil {
		c.R.Violate("R-RES/socketdir", p.Pos(kill.Node()), kill.Name, "socket dir read", "Kill no longer reads the socket directory it has to remove", nil)
		return
	}
	// the local is bound once: any other assignment (in Kill or its literals)
	// changes which directory the deferred removal sees
	nDefs := 0
	var reDef ast.Node
	ast.Inspect(kill.Body, func(x ast.Node) bool {
		switch s := x.(type) {
		case *ast.AssignStmt:
			for _, l := range s.Lhs {
				if id, ok := ast.Unparen(l).(*ast.Ident); ok && (kinfo.Defs[id] == dirVar || kinfo.Uses[id] == dirVar) {
					nDefs++
					if nDefs > 1 {
						reDef = s
					}
				}
			}
		case *ast.UnaryExpr:
			if s.Op == token.AND && identObj(kinfo, s.X) == dirVar {
				nDefs++
				reDef = s
			}
		}
		return true
	})
	if nDefs > 1 {
		c.R.Violate("R-RES/socketdir", p.Pos(reDef), kill.Name, "socket dir local bound once", "the local holding the socket directory is assigned again (or its address is taken) after it was read from the client: on that path the deferred removal sees another value (for instance \"\") and the temporary directory created for the runner is left behind", nil)
	} else {
		c.R.Hold("R-RES/socketdir", p.Pos(kill.Node()), kill.Name, "socket dir local bound once", "single assignment from UnixSocketConfig.socketDir", true)
	}
	p.killDefer(c, "R-RES/socketdir", "Kill removes the socket directory", func(lit *Func, call *ast.CallExpr) bool {
		// must be guarded only by dir != "" (checked by killDefer)
		return p.CalleeName(lit, call) == "os.RemoveAll" && len(call.Args) == 1 && identObj(lit.Pkg.TypesInfo, call.Args[0]) == dirVar
	}, "the temporary socket directory created for a custom runner is left behind")
	// Start stores the created directory in the field Kill reads
	start := p.Fn("Client.Start")
	if start != nil {
		sinfo := start.Pkg.TypesInfo
		ok := false
		for _, call := range start.Calls() {
			if p.CalleeName(start, call) == "os.MkdirTemp" {
				if as, isAs := p.Parent(call).(*ast.AssignStmt); isAs && len(as.Lhs) >= 1 && SelField(sinfo, as.Lhs[0]) == sockF {
					ok = true
				}
			}
		}
		if !ok {
			// through a local: dir, err := os.MkdirTemp(...); c.unixSocketCfg.socketDir = dir
			// - every path from the creation to the runner constructor passes the store
			sg := p.Graph(start)
			runnerFn := p.FieldObj(modPath, "ClientConfig", "RunnerFunc")
			for _, call := range start.Calls() {
				if p.CalleeName(start, call) != "os.MkdirTemp" {
					continue
				}
				dv := assignedVar(p, sinfo, call)
				mk := sg.NodeOf(call)
				if dv == nil || dv.IsField() || mk == nil {
					continue
				}
				isStore := func(m *Node) bool {
					as, isAs := m.Ast.(*ast.AssignStmt)
					if !isAs || len(as.Lhs) != len(as.Rhs) {
						return false
					}
					for i, l := range as.Lhs {
						if SelField(sinfo, l) == sockF && identObj(sinfo, ast.Unparen(as.Rhs[i])) == types.Object(dv) {
							return true
						}
					}
					return false
				}
				nStores, reDef := 0, false
				for _, m := range sg.Nodes {
					if m.Ast == nil {
						continue
					}
					if isStore(m) {
						nStores++
					}
					if m != mk {
						if defs, _ := nodeDefsUses(sinfo, m.Ast); len(defs) > 0 {
							if _, re := defs[dv]; re {
								reDef = true
							}
						}
					}
				}
				if nStores == 0 || reDef {
					continue
				}
				seen := sg.ReachAfter(mk, isStore, nil)
				feas := p.FeasibleReach(start, []*Node{mk}, isStore, nil)
				leak := false
				for m := range seen {
					if m.Ast == nil || !feas[m] {
						continue
					}
					for _, c2 := range callsIn(m.Ast) {
						if se, isSel := ast.Unparen(c2.Fun).(*ast.SelectorExpr); isSel && SelField(sinfo, se) == runnerFn {
							leak = true
						}
					}
				}
				if !leak {
					ok = true
				}
			}
		}
		if ok {
			c.R.Hold("R-RES/socketdir", p.Pos(start.Node()), start.Name, "created dir stored for Kill", "os.MkdirTemp result is stored in UnixSocketConfig.socketDir, the field Kill reads", true)
		} else {
			c.R.Violate("R-RES/socketdir", p.Pos(start.Node()), start.Name, "created dir stored for Kill", "the directory created for the runner is not stored where Kill looks for it", nil)
		}
	}
}

// ---------- R-EXIT: process-exit bookkeeping ----------

func ruleExit(c *Ctx) {
	p := c.P
	exitedF := p.FieldObj(modPath, "Client", "exited")
	cancelF := p.FieldObj(modPath, "Client", "ctxCancel")
	doneF := p.FieldObj(modPath, "Client", "doneCtx")
	n := 0
	for _, f := range p.Funcs {
		if f.Lit == nil {
			continue
		}
		info := f.Pkg.TypesInfo
		g := p.Graph(f)
		var waitNode *Node
		for _, call := range f.Calls() {
			if p.CalleeName(f, call) == modPath+"/runner.AttachedRunner.Wait" {
				waitNode = g.NodeOf(call)
			}
		}
		if waitNode == nil {
			continue
		}
		n++
		// context cancelled: deferred, or on all paths after Wait
		isCancel := func(m *Node) bool {
			for _, cc := range callsIn(m.Ast) {
				if SelField(info, cc.Fun) == cancelF {
					return true
				}
			}
			return false
		}
		cancelled := false
		for _, m := range g.Nodes {
			if _, isD := m.Ast.(*ast.DeferStmt); isD && isCancel(m) && g.Dominates(m, waitNode) {
				cancelled = true
			}
		}
		if !cancelled {
			seen := g.ReachAfter(waitNode, isCancel, nil)
			_, miss := seen[g.Exit]
			cancelled = !miss
		}
		if cancelled {
			c.R.Hold("R-EXIT", p.Pos(waitNode.Ast), f.Name, "exit cancels Client.doneCtx", "Client.ctxCancel() is deferred before, or called on every path after, runner.Wait", true)
		} else {
			c.R.Violate("R-EXIT", p.Pos(waitNode.Ast), f.Name, "exit cancels Client.doneCtx", "after the plugin process ended there is a path on which the client's context is not cancelled: gRPC plugin clients and Kill's grace wait never learn of the exit", nil)
		}
		// exited = true under the lock on all paths after Wait
		isMark := func(m *Node) bool {
			as, ok := m.Ast.(*ast.AssignStmt)
			if !ok {
				return false
			}
			for i, l := range as.Lhs {
				if SelField(info, l) == exitedF && i < len(as.Rhs) {
					if id, ok := as.Rhs[i].(*ast.Ident); ok && id.Name == "true" {
						return len(p.MustHeldAt(f, m)) > 0
					}
				}
			}
			return false
		}
		seen := g.ReachAfter(waitNode, isMark, nil)
		if _, miss := seen[g.Exit]; miss {
			c.R.Violate("R-EXIT", p.Pos(waitNode.Ast), f.Name, "exit sets Client.exited", "after runner.Wait returns there is a path that does not store exited = true under the client lock", p.PathTo(seen, g.Exit))
		} else {
			c.R.Hold("R-EXIT", p.Pos(waitNode.Ast), f.Name, "exit sets Client.exited", "every path after runner.Wait stores exited = true with the client lock held", true)
		}
		// started as a goroutine by a function that derives doneCtx and ctxCancel from one WithCancel
		par := f.Parent
		ok := false
		if par != nil {
			pinfo := par.Pkg.TypesInfo
			pg := p.Graph(par)
			var goNode *Node
			for _, cs := range p.Calls().sites[par] {
				if cs.Kind == "go" && hasFunc(cs.Callees, f) {
					goNode = cs.Node
				}
			}
			for _, m := range pg.Nodes {
				as, isAs := m.Ast.(*ast.AssignStmt)
				if !isAs || len(as.Lhs) != 2 || len(as.Rhs) != 1 {
					continue
				}
				if SelField(pinfo, as.Lhs[0]) == doneF && SelField(pinfo, as.Lhs[1]) == cancelF {
					if call, isC := as.Rhs[0].(*ast.CallExpr); isC && p.CalleeName(par, call) == "context.WithCancel" && goNode != nil && pg.Dominates(m, goNode) {
						ok = true
					}
				}
			}
		}
		if ok {
			c.R.Hold("R-EXIT", p.Pos(f.Node()), f.Name, "doneCtx/ctxCancel pair", "Client.doneCtx and Client.ctxCancel come from one context.WithCancel that dominates the go statement", true)
		} else {
			c.R.Violate("R-EXIT", p.Pos(f.Node()), f.Name, "doneCtx/ctxCancel pair", "the context that is cancelled on exit is not the one stored in Client.doneCtx, or it is created after the waiter starts", nil)
		}
	}
	if n < 2 {
		c.R.Undecided("R-EXIT", "", "instance-floor", fmt.Sprintf("only %d goroutines calling runner.Wait found (Start and reattach expected)", n))
	}
}

// ---------- R-EXIT/kill: Kill ends in kill-or-exited ----------

func ruleKill(c *Ctx) {
	p := c.P
	f := p.Fn("Client.Kill")
	if f == nil {
		c.R.Undecided("R-EXIT/kill", "Client.Kill", "anchor", "function not found")
		return
	}
	info := f.Pkg.TypesInfo
	g := p.Graph(f)
	runnerF := p.FieldObj(modPath, "Client", "runner")
	doneF := p.FieldObj(modPath, "Client", "doneCtx")
	// the local read from Client.runner
	var rv *types.Var
	var rvNode *Node
	for _, n := range g.Nodes {
		if as, ok := n.Ast.(*ast.AssignStmt); ok {
			for i, r := range as.Rhs {
				if SelField(info, r) == runnerF && i < len(as.Lhs) {
					rv, _ = identObj(info, as.Lhs[i]).(*types.Var)
					rvNode = n
				}
			}
		}
	}
	if rv == nil {
		c.R.Violate("R-EXIT/kill", p.Pos(f.Node()), f.Name, "runner read", "Kill does not read Client.runner into a local", nil)
		return
	}
	if len(p.MustHeldAt(f, rvNode)) == 0 {
		c.R.Violate("R-EXIT/kill", p.Pos(rvNode.Ast), f.Name, "runner read under lock", "Client.runner is read without the client lock", nil)
	} else {
		c.R.Hold("R-EXIT/kill", p.Pos(rvNode.Ast), f.Name, "runner read under lock", "", true)
	}
	isKill := func(n *Node) bool {
		for _, call := range callsIn(n.Ast) {
			if p.CalleeName(f, call) == modPath+"/runner.AttachedRunner.Kill" {
				if se, ok := ast.Unparen(call.Fun).(*ast.SelectorExpr); ok && identObj(info, se.X) == rv {
					return true
				}
			}
		}
		return false
	}
	// Client.doneCtx.Err() != nil: the exit context was observed done
	isDoneErr := func(e ast.Expr) bool {
		be, ok := ast.Unparen(e).(*ast.BinaryExpr)
		if !ok || be.Op != token.NEQ || !isNilIdent(info, be.Y) {
			return false
		}
		call, ok := ast.Unparen(be.X).(*ast.CallExpr)
		if !ok || !strings.HasSuffix(p.CalleeName(f, call), "Context.Err") {
			return false
		}
		se, ok := ast.Unparen(call.Fun).(*ast.SelectorExpr)
		return ok && SelField(info, se.X) == doneF
	}
	// a flag that is only ever assigned false or that observation
	exitedFlag := func(v *types.Var) bool {
		n, ok := 0, true
		ast.Inspect(f.Body, func(x ast.Node) bool {
			switch y := x.(type) {
			case *ast.AssignStmt:
				for i, l := range y.Lhs {
					if identObj(info, l) != types.Object(v) {
						continue
					}
					if len(y.Lhs) != len(y.Rhs) {
						ok = false
						continue
					}
					r := ast.Unparen(y.Rhs[i])
					if id, isID := r.(*ast.Ident); isID && id.Name == "false" {
						continue
					}
					if isDoneErr(r) {
						n++
						continue
					}
					// a snapshot of Client.exited (set once runner.Wait has returned)
					if exF := p.FieldObj(modPath, "Client", "exited"); exF != nil && SelField(info, r) == exF {
						n++
						continue
					}
					ok = false
				}
			case *ast.ValueSpec:
				for i, nm := range y.Names {
					if info.Defs[nm] == types.Object(v) && i < len(y.Values) {
						if isDoneErr(y.Values[i]) {
							n++
						} else if id, isID := ast.Unparen(y.Values[i]).(*ast.Ident); !isID || id.Name != "false" {
							ok = false
						}
					}
				}
			}
			return true
		})
		return ok && n > 0
	}
	cut := func(e *Edge) bool {
		if p.isNoRunnerEdge(info, e) {
			return true
		}
		if at, isAt := edgeAtom(info, e); isAt {
			if at.Kind == "nil" && at.Op == token.NEQ {
				if call, ok := ast.Unparen(at.X).(*ast.CallExpr); ok && strings.HasSuffix(p.CalleeName(f, call), "Context.Err") {
					if se, ok := ast.Unparen(call.Fun).(*ast.SelectorExpr); ok && SelField(info, se.X) == doneF {
						return true
					}
				}
			}
			if at.Kind == "bool" && at.True {
				if v, ok := identObj(info, at.X).(*types.Var); ok && !v.IsField() && exitedFlag(v) {
					return true
				}
			}
		}
		// the select arm that observed the exit context
		if e.Comm != nil && e.Comm.Comm != nil {
			isDone := false
			ast.Inspect(e.Comm.Comm, func(x ast.Node) bool {
				if call, ok := x.(*ast.CallExpr); ok && strings.HasSuffix(p.CalleeName(f, call), "Context.Done") {
					if se, ok := ast.Unparen(call.Fun).(*ast.SelectorExpr); ok && SelField(info, se.X) == doneF {
						isDone = true
					}
				}
				return true
			})
			return isDone
		}
		return false
	}
	seen := g.Reach([]*Node{g.Entry}, isKill, cut)
	_, bad := seen[g.Exit]
	if bad {
		// confirm with feasible reachability: the outcome of the wait may only
		// have been recorded in a flag that is tested afterwards
		bad = p.FeasibleReach(f, []*Node{g.Entry}, isKill, cut)[g.Exit]
	}
	if bad {
		c.R.Violate("R-EXIT/kill", p.Pos(f.Node()), f.Name, "kill-or-exited on every exit",
			"Kill can return without calling runner.Kill although the process was not observed to have exited (not the no-runner early return, not the doneCtx arm)", p.PathTo(seen, g.Exit))
	} else {
		c.R.Hold("R-EXIT/kill", p.Pos(f.Node()), f.Name, "kill-or-exited on every exit", "every exit is the no-runner early return, the arm that received from Client.doneCtx.Done(), or passes runner.Kill", true)
	}
	// a plugin that had a protocol client has it closed by Kill: the client owns
	// host-side resources (the broker's listeners and their socket files, the
	// stdio and broker goroutines) that nothing else releases. An exit of Kill
	// that passes no ClientProtocol.Close lies behind the no-runner return, the
	// edge on which the plugin never announced an address, the edge on which no
	// client could be obtained (Client() failed, or a snapshot of Client.client
	// is nil).
	{
		addrF := p.FieldObj(modPath, "Client", "address")
		clientF := p.FieldObj(modPath, "Client", "client")
		isProtoClose := func(m *Node) bool {
			if m.Ast == nil {
				return false
			}
			for _, call := range callsIn(m.Ast) {
				se, ok := ast.Unparen(call.Fun).(*ast.SelectorExpr)
				if !ok || se.Sel.Name != "Close" {
					continue
				}
				if t := info.TypeOf(se.X); t != nil && strings.HasSuffix(t.String(), "go-plugin.ClientProtocol") {
					return true
				}
			}
			return false
		}
		fromClientCall := func(x ast.Expr) bool {
			v, ok := identObj(info, ast.Unparen(x)).(*types.Var)
			if !ok || v.IsField() {
				return false
			}
			found := false
			ast.Inspect(f.Body, func(y ast.Node) bool {
				as, isAs := y.(*ast.AssignStmt)
				if !isAs || len(as.Rhs) != 1 {
					return true
				}
				for _, l := range as.Lhs {
					if identObj(info, l) == types.Object(v) {
						if cc, isC := ast.Unparen(as.Rhs[0]).(*ast.CallExpr); isC && p.CalleeName(f, cc) == modPath+".Client.Client" {
							found = true
						}
					}
				}
				return true
			})
			return found
		}
		cutClose := func(e *Edge) bool {
			if p.isNoRunnerEdge(info, e) {
				return true
			}
			at, isAt := edgeAtom(info, e)
			if !isAt || at.Kind != "nil" {
				return false
			}
			if at.Op == token.NEQ && isErrorType(info.TypeOf(at.X)) && fromClientCall(at.X) {
				return true // Client() failed: nothing to close
			}
			if at.Op == token.EQL {
				fv := SelField(info, ast.Unparen(p.Deref(f, at.X)))
				if fv != nil && (fv == addrF || fv == clientF) {
					return true
				}
			}
			return false
		}
		seenC := g.Reach([]*Node{g.Entry}, isProtoClose, cutClose)
		_, leak := seenC[g.Exit]
		if leak {
			leak = p.FeasibleReach(f, []*Node{g.Entry}, isProtoClose, cutClose)[g.Exit]
		}
		if leak {
			c.R.Violate("R-EXIT/kill", p.Pos(f.Node()), f.Name, "protocol client closed on every exit",
				"Kill can return without closing the protocol client although the plugin had announced an address and a client may exist (not the no-runner return, not the no-address edge, not a failed Client()): the host-side broker listeners, their socket files and the stdio/broker goroutines of that client are never released", p.PathTo(seenC, g.Exit))
		} else {
			c.R.Hold("R-EXIT/kill", p.Pos(f.Node()), f.Name, "protocol client closed on every exit", "every exit passes ClientProtocol.Close, or lies behind the no-runner return, the no-address edge or a failed Client()", true)
		}
	}
	// the runner reference is dropped only after the management goroutines were waited for
	nClear := 0
	okClear := true
	for _, ff := range p.Funcs {
		finfo := ff.Pkg.TypesInfo
		fg := p.Graph(ff)
		for _, m := range fg.Nodes {
			as, ok := m.Ast.(*ast.AssignStmt)
			if !ok {
				continue
			}
			for i, l := range as.Lhs {
				if SelField(finfo, l) != runnerF || i >= len(as.Rhs) || !isNilIdent(finfo, as.Rhs[i]) {
					continue
				}
				nClear++
				isWait := func(x *Node) bool {
					for _, call := range callsIn(x.Ast) {
						if p.CalleeName(ff, call) == "sync.WaitGroup.Wait" && p.wgDesc(ff, call) == "Client.clientWaitGroup" {
							return true
						}
					}
					return false
				}
				if rootName(ff) != "Client.Kill" || !fg.DominatedBy(m, isWait) {
					okClear = false
					c.R.Violate("R-EXIT/kill", p.Pos(as), ff.Name, "runner cleared only after the reaper was waited for",
						"Client.runner is set to nil before Kill has waited for the process to be reaped: a concurrent or repeated Kill sees no runner and returns at once although the plugin is still alive", nil)
				}
			}
		}
	}
	if okClear {
		c.R.Hold("R-EXIT/kill", p.Pos(f.Node()), f.Name, "runner cleared only after the reaper was waited for", fmt.Sprintf("%d nil store(s) to Client.runner, each in Kill's deferred epilogue after clientWaitGroup.Wait()", nClear), true)
	}
	// graceful first: the grace wait is entered only when Close succeeded
	var grace *BlockOp
	for _, op := range p.BlockOps(f) {
		if op.Kind == "select" && op.Class == "B" {
			grace = op
		}
	}
	if grace == nil || grace.Node == nil {
		c.R.Violate("R-EXIT/kill", p.Pos(f.Node()), f.Name, "grace wait", "Kill has no timer-bounded wait for a graceful exit", nil)
		return
	}
	// Under the assumption that obtaining the protocol client, or its Close, failed,
	// the grace wait must be unreachable (Kill then force-kills at once).
	isCloseDef := func(n *Node, wantClose bool) bool {
		as, ok := n.Ast.(*ast.AssignStmt)
		if !ok || len(as.Rhs) != 1 {
			return false
		}
		call, ok := ast.Unparen(as.Rhs[0]).(*ast.CallExpr)
		if !ok {
			return false
		}
		nm := p.CalleeName(f, call)
		if wantClose {
			return strings.HasSuffix(nm, ".Close")
		}
		return nm == modPath+".Client.Client"
	}
	nClose, nClient := 0, 0
	for _, n := range g.Nodes {
		if isCloseDef(n, true) {
			nClose++
		}
		if isCloseDef(n, false) {
			nClient++
		}
	}
	okGrace := nClose >= 1 && nClient >= 1
	for _, wantClose := range []bool{true, false} {
		wc := wantClose
		seen := p.FeasibleReachAssuming(f, []*Node{g.Entry}, nil, nil, func(n *Node, v *types.Var) string {
			if isCloseDef(n, wc) {
				return "NN"
			}
			return ""
		})
		if seen[grace.Node] {
			okGrace = false
		}
	}
	if okGrace {
		c.R.Hold("R-EXIT/kill", p.Pos(grace.Ast), f.Name, "grace wait only after a successful Close", "if Client() or the protocol client's Close fails, the grace wait is unreachable and Kill force-kills at once", true)
	} else {
		c.R.Violate("R-EXIT/kill", p.Pos(grace.Ast), f.Name, "grace wait only after a successful Close", "Kill can sit out the grace period although the graceful shutdown request failed (or was never sent)", nil)
	}
}

// ---------- R-CTX ----------

func ruleCtx(c *Ctx) {
	p := c.P
	doneF := p.FieldObj(modPath, "Client", "doneCtx")
	n := 0
	check := func(f *Func, call *ast.CallExpr, what string, ok bool, detail string) {
		n++
		if ok {
			c.R.Hold("R-CTX", p.Pos(call), f.Name, what, detail, true)
		} else {
			suffix := ": the context handed on is not the client's exit context, so plugin death is not propagated"
			if strings.HasPrefix(what, "broker stream") {
				suffix = ""
			}
			c.R.Violate("R-CTX", p.Pos(call), f.Name, what, detail+suffix, nil)
		}
	}
	for _, f := range p.Funcs {
		if strings.HasSuffix(p.Fset.Position(f.Body.Pos()).Filename, "testing.go") {
			continue
		}
		info := f.Pkg.TypesInfo
		for _, call := range f.Calls() {
			full := p.CalleeName(f, call)
			switch {
			case full == modPath+".newGRPCClient":
				check(f, call, "newGRPCClient(ctx)", SelField(info, call.Args[0]) == doneF, "first argument must be Client.doneCtx")
			case full == modPath+".newGRPCStdioClient":
				v, _ := identObj(info, call.Args[0]).(*types.Var)
				check(f, call, "newGRPCStdioClient(ctx)", v != nil && isParamOf(info, f, v) && paramIndex(f, v) == 0 && !assignedIn(info, f, v), "first argument must be the doneCtx parameter, as received")
			case full == modPath+".GRPCPlugin.GRPCClient":
				fv := SelField(info, call.Args[0])
				check(f, call, "GRPCPlugin.GRPCClient(ctx)", fv != nil && p.FieldName(fv) == "GRPCClient.doneCtx", "first argument must be GRPCClient.doneCtx")
			case strings.HasSuffix(full, "/internal/plugin.GRPCBrokerClient.StartStream") && len(call.Args) >= 1:
				// the broker stream lives as long as the connection: its context
				// may be cancellable, but carries no deadline
				bounded := ""
				if v, ok := identObj(info, call.Args[0]).(*types.Var); ok && !v.IsField() {
					ast.Inspect(f.Body, func(y ast.Node) bool {
						as, isAs := y.(*ast.AssignStmt)
						if !isAs || len(as.Rhs) != 1 {
							return true
						}
						for _, l := range as.Lhs {
							if identObj(info, l) == types.Object(v) {
								if cc, isC := ast.Unparen(as.Rhs[0]).(*ast.CallExpr); isC {
									switch nm := p.CalleeName(f, cc); nm {
									case "context.WithTimeout", "context.WithDeadline", "context.WithTimeoutCause", "context.WithDeadlineCause":
										bounded = nm
									}
								}
							}
						}
						return true
					})
				} else if cc, isC := ast.Unparen(call.Args[0]).(*ast.CallExpr); isC && strings.HasPrefix(p.CalleeName(f, cc), "context.With") {
					bounded = p.CalleeName(f, cc)
				}
				check(f, call, "broker stream context has no deadline", bounded == "", "the context of the long-lived broker stream must not come from "+map[bool]string{true: "context.WithTimeout/WithDeadline", false: bounded}[bounded == ""]+" (when the deadline passes the stream ends and with it every later Accept and Dial)")
			case strings.HasSuffix(full, "/internal/plugin.GRPCStdioClient.StreamStdio"):
				v, _ := identObj(info, call.Args[0]).(*types.Var)
				check(f, call, "StreamStdio(ctx)", v != nil && isParamOf(info, f, v) && !assignedIn(info, f, v), "first argument must be the context parameter, as received (not re-bound to a derived context: a deadline or cancellation added here ends the long-lived stdio stream)")
			}
		}
		// GRPCClient literal stores the parameter
		ast.Inspect(f.Body, func(x ast.Node) bool {
			cl, ok := x.(*ast.CompositeLit)
			if !ok {
				return true
			}
			if t := info.TypeOf(cl); t == nil || !strings.HasSuffix(t.String(), "go-plugin.GRPCClient") {
				return true
			}
			for _, el := range cl.Elts {
				if kv, ok := el.(*ast.KeyValueExpr); ok {
					if k, ok := kv.Key.(*ast.Ident); ok && k.Name == "doneCtx" {
						v, _ := identObj(info, kv.Value).(*types.Var)
						n++
						if v != nil && isParamOf(info, f, v) && strings.HasSuffix(v.Type().String(), "context.Context") {
							c.R.Hold("R-CTX", p.Pos(kv), f.Name, "GRPCClient.doneCtx initialised", "from the context parameter", true)
						} else {
							c.R.Violate("R-CTX", p.Pos(kv), f.Name, "GRPCClient.doneCtx initialised", "GRPCClient.doneCtx is not initialised from the context parameter", nil)
						}
					}
				}
			}
			return true
		})
	}
	if n < 5 {
		c.R.Undecided("R-CTX", "", "instance-floor", fmt.Sprintf("only %d context hand-offs found, 5 were confirmed by hand", n))
	}
}

// assignedIn: v is the target of an assignment somewhere in f (including literals).
func assignedIn(info *types.Info, f *Func, v *types.Var) bool {
	found := false
	ast.Inspect(f.Body, func(x ast.Node) bool {
		if as, ok := x.(*ast.AssignStmt); ok {
			for _, l := range as.Lhs {
				if id, ok := ast.Unparen(l).(*ast.Ident); ok && (info.Uses[id] == v || info.Defs[id] == v) {
					found = true
				}
			}
		}
		return true
	})
	return found
}

func paramIndex(f *Func, v *types.Var) int {
	info := f.Pkg.TypesInfo
	i := 0
	for _, fd := range f.Type.Params.List {
		for _, nm := range fd.Names {
			if info.Defs[nm] == v {
				return i
			}
			i++
		}
	}
	return -1
}

// ---------- Stop closes the broker ----------

func ruleStopClosesBroker(c *Ctx) {
	p := c.P
	brokerF := p.FieldObj(modPath, "GRPCServer", "broker")
	closesBroker := func(f *Func) (bool, []string) {
		info := f.Pkg.TypesInfo
		g := p.Graph(f)
		isClose := func(n *Node) bool {
			for _, call := range callsIn(n.Ast) {
				if p.CalleeName(f, call) == modPath+".GRPCBroker.Close" {
					if se, ok := ast.Unparen(call.Fun).(*ast.SelectorExpr); ok && (SelField(info, se.X) == brokerF || SelField(info, p.Deref(f, se.X)) == brokerF) {
						return true
					}
				}
			}
			return false
		}
		cut := func(e *Edge) bool {
			at, ok := edgeAtom(info, e)
			return ok && at.Kind == "nil" && at.Op == token.EQL && (SelField(info, at.X) == brokerF || SelField(info, p.Deref(f, at.X)) == brokerF)
		}
		seen := g.Reach([]*Node{g.Entry}, isClose, cut)
		if _, miss := seen[g.Exit]; miss {
			return false, p.PathTo(seen, g.Exit)
		}
		return true, nil
	}
	for _, name := range []string{"GRPCServer.Stop", "GRPCServer.GracefulStop"} {
		f := p.Fn(name)
		if f == nil {
			c.R.Undecided("R-RES/broker", name, "anchor", "function not found")
			continue
		}
		ok, path := closesBroker(f)
		if !ok {
			// through a module helper called on every path
			g := p.Graph(f)
			isHelper := func(n *Node) bool {
				for _, cs := range p.Calls().sites[f] {
					if cs.Node == n && cs.Kind == "call" {
						for _, ce := range cs.Callees {
							if ok2, _ := closesBroker(ce); ok2 {
								return true
							}
						}
					}
				}
				return false
			}
			seen := g.Reach([]*Node{g.Entry}, isHelper, nil)
			if _, miss := seen[g.Exit]; !miss {
				ok = true
			}
		}
		if ok {
			c.R.Hold("R-RES/broker", p.Pos(f.Node()), f.Name, "closes the broker", "every path calls GRPCBroker.Close on a non-nil broker (directly or through a helper)", true)
		} else {
			c.R.Violate("R-RES/broker", p.Pos(f.Node()), f.Name, "closes the broker", "stopping the gRPC server leaves the broker (its stream and brokered servers) open", path)
		}
	}
}

// replyCloseViolation: v is a local channel of f closed at closeNode (a defer
// statement means: at function exit). If v is handed to another goroutine that
// sends on it, every path from the hand-off to the close must receive from v.
// Returns (violated, description of the hand-off); description is empty when v
// has no remote sender.
func (p *Prog) replyCloseViolation(f *Func, v *types.Var, closeNode *Node) (bool, string) {
	info := f.Pkg.TypesInfo
	g := p.Graph(f)
	var handoffs []*Node
	where := ""
	// (a) stored in a struct field on which the module sends
	ast.Inspect(f.Body, func(x ast.Node) bool {
		kv, ok := x.(*ast.KeyValueExpr)
		if !ok || identObj(info, kv.Value) != v {
			return true
		}
		kid, ok := kv.Key.(*ast.Ident)
		if !ok {
			return true
		}
		fld, _ := info.Uses[kid].(*types.Var)
		if fld == nil || !fld.IsField() {
			return true
		}
		if p.moduleSendsOnField(fld) {
			where = "stored in " + p.FieldName(fld) + " of a message"
			// a message first bound to a local is handed over where that local
			// escapes (sent, passed on, stored), not where it is built
			var msgV *types.Var
			var cl ast.Node = p.Parent(kv)
			if u, ok := p.Parent(cl).(*ast.UnaryExpr); ok && u.Op == token.AND {
				cl = u
			}
			if as, ok := p.Parent(cl).(*ast.AssignStmt); ok && len(as.Lhs) == len(as.Rhs) {
				for i, r := range as.Rhs {
					if ast.Node(r) == cl {
						if mv, ok := identObj(info, as.Lhs[i]).(*types.Var); ok && !mv.IsField() && p.singleDef(f, mv) != nil {
							msgV = mv
						}
					}
				}
			}
			if msgV == nil {
				if n := g.NodeOf(kv); n != nil {
					handoffs = append(handoffs, n)
				}
				return true
			}
			ast.Inspect(f.Body, func(y ast.Node) bool {
				esc := false
				switch z := y.(type) {
				case *ast.SendStmt:
					esc = identObj(info, z.Value) == types.Object(msgV)
				case *ast.CallExpr:
					for _, a := range z.Args {
						if identObj(info, a) == types.Object(msgV) {
							esc = true
						}
					}
				case *ast.AssignStmt:
					for i, r := range z.Rhs {
						if identObj(info, r) == types.Object(msgV) && i < len(z.Lhs) {
							if _, isID := ast.Unparen(z.Lhs[i]).(*ast.Ident); !isID {
								esc = true
							}
						}
					}
				case *ast.ReturnStmt:
					for _, r := range z.Results {
						if identObj(info, r) == types.Object(msgV) {
							esc = true
						}
					}
				}
				if esc {
					if n := g.NodeOf(y); n != nil {
						// a send that is a select arm is taken when control reaches the arm's body
						handoffs = append(handoffs, n)
					}
				}
				return true
			})
		}
		return true
	})
	// (b) a goroutine started here sends on it
	walkNoLit(f.Body, func(x ast.Node) bool {
		gs, ok := x.(*ast.GoStmt)
		if !ok {
			return true
		}
		sends := false
		ast.Inspect(gs.Call, func(y ast.Node) bool {
			if ss, ok := y.(*ast.SendStmt); ok && identObj(info, ss.Chan) == v {
				sends = true
			}
			return true
		})
		if sends {
			if n := g.NodeOf(gs); n != nil {
				handoffs = append(handoffs, n)
				where = "a goroutine started here sends on it"
			}
		}
		return true
	})
	if len(handoffs) == 0 {
		return false, ""
	}
	receives := func(n *Node) bool {
		if n.Ast == nil {
			return false
		}
		found := false
		walkNoLit(n.Ast, func(x ast.Node) bool {
			if u, ok := x.(*ast.UnaryExpr); ok && u.Op == token.ARROW && identObj(info, u.X) == v {
				found = true
			}
			if rs, ok := x.(*ast.RangeStmt); ok && identObj(info, rs.X) == v {
				found = true
			}
			return true
		})
		return found
	}
	target := g.Exit
	if closeNode != nil {
		if _, isDefer := closeNode.Ast.(*ast.DeferStmt); !isDefer {
			target = closeNode
		}
	}
	for _, h := range handoffs {
		seen := g.ReachAfter(h, receives, nil)
		if _, r := seen[target]; r {
			return true, where
		}
	}
	return false, where
}

func (p *Prog) moduleSendsOnField(fld *types.Var) bool {
	for _, fn := range p.Funcs {
		if fn.Decl == nil {
			continue
		}
		info := fn.Pkg.TypesInfo
		found := false
		ast.Inspect(fn.Body, func(x ast.Node) bool {
			if ss, ok := x.(*ast.SendStmt); ok && SelField(info, ss.Chan) == fld {
				found = true
			}
			return !found
		})
		if found {
			return true
		}
	}
	return false
}

// ---------- R-WG/self: a goroutine counted in a WaitGroup never waits for that WaitGroup ----------

// ruleWGSelfWait: a goroutine that calls X.Done() for a WaitGroup field X
// (it is one of the goroutines X counts) must not reach, through any chain of
// calls, a Wait on the same field: it would wait for itself. (Kill's cleanup
// waits for clientWaitGroup; a management goroutine registered there that
// calls Kill never finishes, and neither does the cleanup behind the wait -
// the socket directory stays.)
func ruleWGSelfWait(c *Ctx) {
	p := c.P
	ci := p.Calls()
	n, bad := 0, false
	for _, f := range p.Funcs {
		if !notTesting(p, f) {
			continue
		}
		for _, cs := range ci.sites[f] {
			if cs.Kind != "go" {
				continue
			}
			for _, ce := range cs.Callees {
				// the WaitGroups this goroutine is counted in
				descs := map[string]bool{}
				for _, call := range ce.Calls() {
					if p.CalleeName(ce, call) == "sync.WaitGroup.Done" {
						if d := p.wgDesc(ce, call); d != "" && !strings.HasPrefix(d, "local ") {
							descs[d] = true
						}
					}
				}
				if len(descs) == 0 {
					continue
				}
				n++
				reach := p.ReachableFuncs([]*Func{ce}, false)
				for rf := range reach {
					for _, call := range rf.Calls() {
						if p.CalleeName(rf, call) != "sync.WaitGroup.Wait" {
							continue
						}
						if d := p.wgDesc(rf, call); descs[d] {
							bad = true
							c.R.Violate("R-WG/self", p.Pos(call), ce.Name, "a goroutine counted in "+pathDisplay(d)+" does not wait for it",
								"the goroutine started at "+p.Pos(cs.Call)+" calls "+pathDisplay(d)+".Done() when it ends, and can reach this Wait on the same WaitGroup (in "+rf.Name+"): it waits for itself, so it never ends, and whatever follows the Wait (removing the socket directory, clearing the runner) never runs", nil)
						}
					}
				}
			}
		}
	}
	if n == 0 {
		c.R.Undecided("R-WG/self", "", "instance-floor", "no goroutine that calls Done on a WaitGroup field found")
	} else if !bad {
		c.R.Hold("R-WG/self", "-", "", "goroutines counted in a WaitGroup do not wait for it", fmt.Sprintf("%d counted goroutines, none reaches a Wait on its own WaitGroup", n), true)
	}
}
