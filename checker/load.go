package main

import (
	"fmt"
	"go/ast"
	"go/token"
	"go/types"
	"os"
	"path/filepath"
	"sort"
	"strings"

	"golang.org/x/tools/go/packages"
	"golang.org/x/tools/go/types/typeutil"
)

const modPath = "github.com/hashicorp/go-plugin"

// Prog is the loaded, type-checked program of the working tree (engine E1).
type Prog struct {
	fieldsFlattened bool
	sentinelVars    map[*types.Var]bool
	fieldNames      map[*types.Var]string
	Dir             string
	Fset            *token.FileSet
	Pkgs            map[string]*packages.Package // by import path, module packages only
	All             []*packages.Package
	Funcs           []*Func // every FuncDecl and FuncLit with a body in scope packages
	// lookup tables
	declOf      map[*types.Func]*Func
	litOf       map[*ast.FuncLit]*Func
	graphs      map[*Func]*Graph
	rshadow     map[*types.Var]*types.Var // mutex -> its "held in read mode" shadow
	canonField  map[string]types.Object   // canonical "Type.field" -> representative field object
	rshadowOf   map[*types.Var]*types.Var // shadow -> mutex
	parentOf    map[ast.Node]ast.Node
	Overlay     map[string][]byte
	InlineNotes []string
	roleOf      map[*Func]string           // functions renamed to their canonical role name -> real name
	typeCanon   map[*types.TypeName]string // private struct types playing a conventional role -> canonical name
	typeByCanon map[string]*types.TypeName
	GOOS        string
	GOARCH      string
}

// Func is a function body in scope: a declaration or a function literal.
type Func struct {
	Pkg    *packages.Package
	Decl   *ast.FuncDecl // nil for literals
	Lit    *ast.FuncLit  // nil for declarations
	Obj    *types.Func   // nil for literals
	Parent *Func         // enclosing function for literals
	Name   string        // "Client.Start", "Serve", "Client.Start$1"
	Body   *ast.BlockStmt
	Type   *ast.FuncType
	File   *ast.File
	nlit   int
}

func (f *Func) Node() ast.Node {
	if f.Decl != nil {
		return f.Decl
	}
	return f.Lit
}

// scopePkgs are the packages whose bodies are subject to rules.
var scopePkgs = []string{
	modPath,
	modPath + "/internal/grpcmux",
	modPath + "/internal/cmdrunner",
	modPath + "/runner",
}

func inScopeFile(name string) bool {
	b := filepath.Base(name)
	if strings.HasSuffix(b, "_test.go") || strings.HasSuffix(b, ".pb.go") {
		return false
	}
	return true
}

// Load type-checks the working tree and, if private helpers were introduced
// that the reference tree does not have, re-loads it with those helpers
// inlined into their callers (see inline.go).
func Load(dir, goos, goarch string) (*Prog, error) {
	p, err := loadWith(dir, goos, goarch, nil)
	if err != nil {
		return nil, err
	}
	if ov, notes := p.etaOverlay(); len(ov) > 0 {
		if p2, err2 := loadWith(dir, goos, goarch, ov); err2 == nil {
			p2.InlineNotes = notes
			p = p2
		}
	}
	if ov, notes := p.normalizeOverlay(); len(ov) > 0 {
		for k, v := range p.Overlay {
			if _, dup := ov[k]; !dup {
				ov[k] = v
			}
		}
		if p2, err2 := loadWith(dir, goos, goarch, ov); err2 == nil {
			p2.InlineNotes = append(append([]string{}, p.InlineNotes...), notes...)
			p = p2
		} else {
			p.InlineNotes = append(p.InlineNotes, "loop unrolling was attempted but the rewritten program does not type-check ("+firstLine(err2.Error())+"); analysing the original program")
		}
	}
	for round := 0; round < 8; round++ {
		ov, notes := p.inlineOverlay()
		if len(ov) == 0 {
			break
		}
		// accumulate: files rewritten in earlier rounds stay rewritten
		merged := map[string][]byte{}
		for k, v := range p.Overlay {
			merged[k] = v
		}
		for k, v := range ov {
			merged[k] = v
		}
		p2, err2 := loadWith(dir, goos, goarch, merged)
		if err2 != nil {
			p.InlineNotes = append(p.InlineNotes, "helper inlining was attempted but the rewritten program does not type-check ("+firstLine(err2.Error())+"); analysing the original program")
			break
		}
		p2.InlineNotes = append(append([]string{}, p.InlineNotes...), notes...)
		p = p2
	}
	if ov, notes := p.codecOverlay(); len(ov) > 0 {
		for k, v := range p.Overlay {
			if _, dup := ov[k]; !dup {
				ov[k] = v
			}
		}
		if p2, err2 := loadWith(dir, goos, goarch, ov); err2 == nil {
			p2.InlineNotes = append(append([]string{}, p.InlineNotes...), notes...)
			p = p2
		} else {
			p.InlineNotes = append(p.InlineNotes, "codec normalisation was attempted but the rewritten program does not type-check ("+firstLine(err2.Error())+"); analysing the original program")
		}
	}
	if ov, notes := p.getterOverlay(); len(ov) > 0 {
		for k, v := range p.Overlay {
			if _, dup := ov[k]; !dup {
				ov[k] = v
			}
		}
		if p2, err2 := loadWith(dir, goos, goarch, ov); err2 == nil {
			p2.InlineNotes = append(append([]string{}, p.InlineNotes...), notes...)
			p = p2
		} else {
			p.InlineNotes = append(p.InlineNotes, "getter normalisation was attempted but the rewritten program does not type-check ("+firstLine(err2.Error())+"); analysing the original program")
		}
	}
	if ov, notes := p.drainLoopOverlay(); len(ov) > 0 {
		for k, v := range p.Overlay {
			if _, dup := ov[k]; !dup {
				ov[k] = v
			}
		}
		if p2, err2 := loadWith(dir, goos, goarch, ov); err2 == nil {
			p2.InlineNotes = append(append([]string{}, p.InlineNotes...), notes...)
			p = p2
		} else {
			p.InlineNotes = append(p.InlineNotes, "drain-loop normalisation was attempted but the rewritten program does not type-check ("+firstLine(err2.Error())+"); analysing the original program")
		}
	}
	return p, nil
}

func loadWith(dir, goos, goarch string, overlay map[string][]byte) (*Prog, error) {
	env := os.Environ()
	env = append(env, "GOFLAGS=-mod=mod", "GOPROXY=off", "GOWORK=off")
	if goos != "" {
		env = append(env, "GOOS="+goos, "CGO_ENABLED=0")
	}
	if goarch != "" {
		env = append(env, "GOARCH="+goarch, "CGO_ENABLED=0")
	}
	fset := token.NewFileSet()
	cfg := &packages.Config{
		Mode: packages.NeedName | packages.NeedFiles | packages.NeedCompiledGoFiles | packages.NeedImports |
			packages.NeedDeps | packages.NeedTypes | packages.NeedSyntax | packages.NeedTypesInfo | packages.NeedTypesSizes | packages.NeedModule,
		Dir:     dir,
		Env:     env,
		Fset:    fset,
		Tests:   false,
		Overlay: overlay,
	}
	pats := []string{".", "./internal/...", "./runner/..."}
	pkgs, err := packages.Load(cfg, pats...)
	if err != nil {
		return nil, err
	}
	p := &Prog{Dir: dir, Fset: fset, Pkgs: map[string]*packages.Package{}, All: pkgs,
		declOf: map[*types.Func]*Func{}, litOf: map[*ast.FuncLit]*Func{}, graphs: map[*Func]*Graph{},
		parentOf: map[ast.Node]ast.Node{}, Overlay: overlay, roleOf: map[*Func]string{}, typeCanon: map[*types.TypeName]string{}, typeByCanon: map[string]*types.TypeName{}, GOOS: goos, GOARCH: goarch}
	var errs []string
	for _, pk := range pkgs {
		for _, e := range pk.Errors {
			errs = append(errs, pk.PkgPath+": "+e.Error())
		}
		if pk.IllTyped {
			errs = append(errs, pk.PkgPath+": ill-typed")
		}
		p.Pkgs[pk.PkgPath] = pk
	}
	if len(errs) > 0 {
		return nil, fmt.Errorf("load/type errors: %s", strings.Join(errs, "; "))
	}
	n := 0
	for _, sp := range scopePkgs {
		if p.Pkgs[sp] != nil {
			n++
		}
	}
	if n < 4 {
		return nil, fmt.Errorf("only %d of the %d scope packages were loaded", n, len(scopePkgs))
	}
	p.assignTypeRoles()
	for _, sp := range scopePkgs {
		pk := p.Pkgs[sp]
		for _, f := range pk.Syntax {
			fn := fset.Position(f.Pos()).Filename
			if !inScopeFile(fn) {
				continue
			}
			p.indexFile(pk, f)
		}
	}
	sort.Slice(p.Funcs, func(i, j int) bool { return p.Funcs[i].Body.Pos() < p.Funcs[j].Body.Pos() })
	p.assignRoles()
	return p, nil
}

func (p *Prog) indexFile(pk *packages.Package, file *ast.File) {
	// parent links
	var stack []ast.Node
	ast.Inspect(file, func(n ast.Node) bool {
		if n == nil {
			stack = stack[:len(stack)-1]
			return true
		}
		if len(stack) > 0 {
			p.parentOf[n] = stack[len(stack)-1]
		}
		stack = append(stack, n)
		return true
	})
	for _, d := range file.Decls {
		fd, ok := d.(*ast.FuncDecl)
		if !ok || fd.Body == nil {
			continue
		}
		obj, _ := pk.TypesInfo.Defs[fd.Name].(*types.Func)
		f := &Func{Pkg: pk, Decl: fd, Obj: obj, Body: fd.Body, Type: fd.Type, File: file}
		f.Name = p.funcName(pk, obj)
		p.declOf[obj] = f
		p.Funcs = append(p.Funcs, f)
		p.indexLits(pk, file, f, fd.Body)
	}
	// function literals in package-level var initialisers
	for _, d := range file.Decls {
		gd, ok := d.(*ast.GenDecl)
		if !ok {
			continue
		}
		holder := &Func{Pkg: pk, Name: "init", File: file}
		ast.Inspect(gd, func(n ast.Node) bool {
			if fl, ok := n.(*ast.FuncLit); ok {
				holder.nlit++
				f := &Func{Pkg: pk, Lit: fl, Parent: nil, Body: fl.Body, Type: fl.Type, File: file,
					Name: fmt.Sprintf("init$%d", holder.nlit)}
				p.litOf[fl] = f
				p.Funcs = append(p.Funcs, f)
				p.indexLits(pk, file, f, fl.Body)
				return false
			}
			return true
		})
	}
}

func (p *Prog) indexLits(pk *packages.Package, file *ast.File, parent *Func, body ast.Node) {
	ast.Inspect(body, func(n ast.Node) bool {
		if fl, ok := n.(*ast.FuncLit); ok {
			root := parent
			for root.Parent != nil {
				root = root.Parent
			}
			root.nlit++
			f := &Func{Pkg: pk, Lit: fl, Parent: parent, Body: fl.Body, Type: fl.Type, File: file,
				Name: fmt.Sprintf("%s$%d", root.Name, root.nlit)}
			p.litOf[fl] = f
			p.Funcs = append(p.Funcs, f)
			p.indexLits(pk, file, f, fl.Body)
			return false
		}
		return true
	})
}

func (p *Prog) typeName(tn *types.TypeName) string {
	if c, ok := p.typeCanon[tn]; ok {
		return c
	}
	return tn.Name()
}

func (p *Prog) funcName(pk *packages.Package, obj *types.Func) string {
	if obj == nil {
		return "?"
	}
	prefix := ""
	if pk.PkgPath != modPath {
		prefix = strings.TrimPrefix(pk.PkgPath, modPath+"/") + "."
		prefix = strings.TrimPrefix(prefix, "internal/")
	}
	sig := obj.Type().(*types.Signature)
	if r := sig.Recv(); r != nil {
		t := r.Type()
		if pt, ok := t.(*types.Pointer); ok {
			t = pt.Elem()
		}
		if nt, ok := t.(*types.Named); ok {
			return prefix + p.typeName(nt.Obj()) + "." + obj.Name()
		}
	}
	return prefix + obj.Name()
}

// Fn finds a declared function by display name ("Client.Start", "grpcmux.GRPCServerMuxer.Close").
func (p *Prog) Fn(name string) *Func {
	for _, f := range p.Funcs {
		if f.Decl != nil && f.Name == name {
			return f
		}
	}
	return nil
}

func (p *Prog) FnOf(obj *types.Func) *Func {
	if obj == nil {
		return nil
	}
	if o := obj.Origin(); o != nil {
		obj = o
	}
	return p.declOf[obj]
}

func (p *Prog) Lit(fl *ast.FuncLit) *Func { return p.litOf[fl] }

func (p *Prog) Parent(n ast.Node) ast.Node { return p.parentOf[n] }

// EnclosingFunc returns the innermost Func whose body contains n.
func (p *Prog) EnclosingFunc(n ast.Node) *Func {
	for cur := p.parentOf[n]; cur != nil; cur = p.parentOf[cur] {
		switch x := cur.(type) {
		case *ast.FuncLit:
			return p.litOf[x]
		case *ast.FuncDecl:
			for _, f := range p.Funcs {
				if f.Decl == x {
					return f
				}
			}
		}
	}
	return nil
}

func (p *Prog) Pos(n ast.Node) string {
	if n == nil {
		return "-"
	}
	return p.PosOf(n.Pos())
}

func (p *Prog) PosOf(pos token.Pos) string {
	ps := p.Fset.Position(pos)
	rel, err := filepath.Rel(p.Dir, ps.Filename)
	if err != nil {
		rel = ps.Filename
	}
	return fmt.Sprintf("%s:%d", rel, ps.Line)
}

func (p *Prog) Info(f *Func) *types.Info { return f.Pkg.TypesInfo }

// Callee resolves the static callee of a call, or nil.
func (p *Prog) Callee(f *Func, call *ast.CallExpr) types.Object {
	return typeutil.Callee(f.Pkg.TypesInfo, call)
}

// CalleeName returns "pkgpath.Func" or "pkgpath.Type.Method" (pointer receivers are
// written without the star) for a resolved callee, "" if unresolved.
func (p *Prog) CalleeName(f *Func, call *ast.CallExpr) string {
	o := p.Callee(f, call)
	if fo, ok := o.(*types.Func); ok && len(p.roleOf) > 0 {
		if tf := p.FnOf(fo); tf != nil {
			if _, renamed := p.roleOf[tf]; renamed {
				return fullFromDisplay(tf.Name)
			}
		}
	}
	return objFullName(o)
}

// fullFromDisplay turns a display name ("Client.Start", "grpcmux.X.Y") into
// the full name form used for callees.
func fullFromDisplay(name string) string {
	for _, sub := range []string{"grpcmux.", "cmdrunner."} {
		if strings.HasPrefix(name, sub) {
			return modPath + "/internal/" + name
		}
	}
	if strings.HasPrefix(name, "runner.") {
		return modPath + "/" + name
	}
	return modPath + "." + name
}

func objFullName(o types.Object) string {
	if o == nil {
		return ""
	}
	switch o := o.(type) {
	case *types.Builtin:
		return "builtin." + o.Name()
	case *types.Func:
		sig := o.Type().(*types.Signature)
		if r := sig.Recv(); r != nil {
			t := r.Type()
			if pt, ok := t.(*types.Pointer); ok {
				t = pt.Elem()
			}
			switch nt := t.(type) {
			case *types.Named:
				pk := ""
				if nt.Obj().Pkg() != nil {
					pk = nt.Obj().Pkg().Path() + "."
				}
				return pk + nt.Obj().Name() + "." + o.Name()
			default:
				return "(" + t.String() + ")." + o.Name()
			}
		}
		if o.Pkg() != nil {
			return o.Pkg().Path() + "." + o.Name()
		}
		return o.Name()
	case *types.Var:
		if o.Pkg() != nil {
			return o.Pkg().Path() + "." + o.Name()
		}
		return o.Name()
	case *types.Const:
		if o.Pkg() != nil {
			return o.Pkg().Path() + "." + o.Name()
		}
		return o.Name()
	}
	return o.Name()
}

// shortName strips the module path from a full name for display and table keys.
func shortName(full string) string {
	s := strings.TrimPrefix(full, modPath+"/internal/")
	s = strings.TrimPrefix(s, modPath+"/")
	s = strings.TrimPrefix(s, modPath+".")
	return s
}

// FieldObj looks up a struct field object "Type.field" in the given scope package.
func (p *Prog) FieldObj(pkgPath, typeName, field string) *types.Var {
	pk := p.Pkgs[pkgPath]
	if pk == nil {
		return nil
	}
	o := pk.Types.Scope().Lookup(typeName)
	if o == nil {
		if tn := p.typeByCanon[typeName]; tn != nil && tn.Pkg().Path() == pkgPath {
			o = tn
		}
	}
	if o == nil {
		return nil
	}
	st, ok := o.Type().Underlying().(*types.Struct)
	if !ok {
		return nil
	}
	for i := 0; i < st.NumFields(); i++ {
		if st.Field(i).Name() == field {
			return st.Field(i)
		}
	}
	// renamed, or grouped into a new sub-struct: look the canonical name up
	canon := typeName + "." + field
	if pkgPath != modPath {
		canon = filepath.Base(pkgPath) + "." + canon
	}
	p.FieldName(st.Field(0)) // make sure the tables are built
	var found *types.Var
	for fv, n := range p.fieldNames {
		if n == canon && fv.Name() != "" {
			if found != nil && found != fv {
				return nil
			}
			found = fv
		}
	}
	return found
}

// SelField returns the field object selected by a selector expression, or nil.
func SelField(info *types.Info, e ast.Expr) *types.Var {
	se, ok := ast.Unparen(e).(*ast.SelectorExpr)
	if !ok {
		return nil
	}
	if s := info.Selections[se]; s != nil && s.Kind() == types.FieldVal {
		if v, ok := s.Obj().(*types.Var); ok {
			return v
		}
	}
	return nil
}

// FieldName returns "Type.field" (canonical) for a field of a struct type of
// the scope packages. A field whose name the reference tree does not have in
// that struct, while exactly one reference field of the identical type is
// missing from it, is that field renamed: the reference name is used so that
// tables keyed by field keep applying (knownfields.go).
func (p *Prog) FieldName(v *types.Var) string {
	if v == nil || !v.IsField() {
		return ""
	}
	if p.fieldNames == nil {
		p.fieldNames = map[*types.Var]string{}
		for _, sp := range scopePkgs {
			pk := p.Pkgs[sp]
			if pk == nil {
				continue
			}
			sc := pk.Types.Scope()
			pre := ""
			if sp != modPath {
				pre = filepath.Base(sp) + "."
			}
			for _, n := range sc.Names() {
				tn, ok := sc.Lookup(n).(*types.TypeName)
				if !ok {
					continue
				}
				st, ok := tn.Type().Underlying().(*types.Struct)
				if !ok {
					continue
				}
				owner := pre + p.typeName(tn)
				ref := knownFields[owner]
				cur := map[string]bool{}
				for i := 0; i < st.NumFields(); i++ {
					cur[st.Field(i).Name()] = true
				}
				taken := map[string]bool{}
				for i := 0; i < st.NumFields(); i++ {
					f := st.Field(i)
					name := f.Name()
					if ref != nil {
						if _, known := ref[name]; !known {
							ts := fieldTypeString(f.Type())
							var cands []string
							for rn, rt := range ref {
								if !cur[rn] && !taken[rn] && rt == ts {
									cands = append(cands, rn)
								}
							}
							if len(cands) == 1 {
								name = cands[0]
								taken[name] = true
							}
						}
					}
					p.fieldNames[f] = owner + "." + name
				}
			}
		}
	}
	if !p.fieldsFlattened {
		p.fieldsFlattened = true
		flatTaken := map[string]bool{}
		flatLeft := map[string][]*types.Var{}
		flatHave := map[string]map[string]bool{}
		// A struct type the reference tree does not have, used as the type of
		// exactly one (new) field of a known struct, is a grouping of that
		// struct's own fields: its fields are named as fields of the owner when
		// the owner is missing a reference field of that name and type.
		for _, sp := range scopePkgs {
			pk := p.Pkgs[sp]
			if pk == nil {
				continue
			}
			pre := ""
			if sp != modPath {
				pre = filepath.Base(sp) + "."
			}
			sc := pk.Types.Scope()
			for _, n := range sc.Names() {
				tn, ok := sc.Lookup(n).(*types.TypeName)
				if !ok {
					continue
				}
				st, ok := tn.Type().Underlying().(*types.Struct)
				if !ok || knownFields[pre+p.typeName(tn)] != nil {
					continue
				}
				// owners: known structs with a field of type T / *T
				var owners []string
				var ownerStructs []*types.Struct
				for _, n2 := range sc.Names() {
					tn2, ok := sc.Lookup(n2).(*types.TypeName)
					if !ok {
						continue
					}
					st2, ok := tn2.Type().Underlying().(*types.Struct)
					oname := pre + p.typeName(tn2)
					if !ok || knownFields[oname] == nil {
						continue
					}
					for i := 0; i < st2.NumFields(); i++ {
						ft := st2.Field(i).Type()
						if pt, isP := ft.(*types.Pointer); isP {
							ft = pt.Elem()
						}
						if types.Identical(ft, tn.Type()) {
							owners = append(owners, oname)
							ownerStructs = append(ownerStructs, st2)
						}
					}
				}
				if len(owners) != 1 {
					continue
				}
				ref := knownFields[owners[0]]
				have := map[string]bool{}
				for i := 0; i < ownerStructs[0].NumFields(); i++ {
					have[ownerStructs[0].Field(i).Name()] = true
				}
				for i := 0; i < st.NumFields(); i++ {
					f := st.Field(i)
					if rt, ok := ref[f.Name()]; ok && !have[f.Name()] && rt == fieldTypeString(f.Type()) {
						p.fieldNames[f] = owners[0] + "." + f.Name()
						flatTaken[owners[0]+"."+f.Name()] = true
					} else {
						flatLeft[owners[0]] = append(flatLeft[owners[0]], f)
					}
				}
				flatHave[owners[0]] = have
			}
		}
		// grouped *and* renamed: a leftover sub-struct field takes the only
		// still-missing reference field of its type
		for owner, fs := range flatLeft {
			ref := knownFields[owner]
			for _, f := range fs {
				ts := fieldTypeString(f.Type())
				var cands []string
				for rn, rt := range ref {
					if rt == ts && !flatHave[owner][rn] && !flatTaken[owner+"."+rn] {
						cands = append(cands, rn)
					}
				}
				if len(cands) == 1 {
					p.fieldNames[f] = owner + "." + cands[0]
					flatTaken[owner+"."+cands[0]] = true
				}
			}
		}
	}
	if n, ok := p.fieldNames[v]; ok {
		return n
	}
	return v.Name()
}

func fieldTypeString(t types.Type) string {
	return types.TypeString(t, func(pk *types.Package) string { return pk.Name() })
}

// genKnownFields prints knownfields.go for the loaded tree.
func (p *Prog) genKnownFields() string {
	var b strings.Builder
	b.WriteString("package main\n\n// knownFields are the struct fields (name -> type) of the reference tree, by\n// canonical owner type. Generated by gpcheck -genknownfields.\nvar knownFields = map[string]map[string]string{\n")
	var owners []string
	m := map[string]map[string]string{}
	for _, sp := range scopePkgs {
		pk := p.Pkgs[sp]
		if pk == nil {
			continue
		}
		pre := ""
		if sp != modPath {
			pre = filepath.Base(sp) + "."
		}
		sc := pk.Types.Scope()
		for _, n := range sc.Names() {
			tn, ok := sc.Lookup(n).(*types.TypeName)
			if !ok {
				continue
			}
			st, ok := tn.Type().Underlying().(*types.Struct)
			if !ok || st.NumFields() == 0 {
				continue
			}
			owner := pre + tn.Name()
			owners = append(owners, owner)
			m[owner] = map[string]string{}
			for i := 0; i < st.NumFields(); i++ {
				m[owner][st.Field(i).Name()] = fieldTypeString(st.Field(i).Type())
			}
		}
	}
	sort.Strings(owners)
	for _, o := range owners {
		fmt.Fprintf(&b, "\t%q: {\n", o)
		var fs []string
		for f := range m[o] {
			fs = append(fs, f)
		}
		sort.Strings(fs)
		for _, f := range fs {
			fmt.Fprintf(&b, "\t\t%q: %q,\n", f, m[o][f])
		}
		b.WriteString("\t},\n")
	}
	b.WriteString("}\n")
	return b.String()
}

func isErrorType(t types.Type) bool {
	if t == nil {
		return false
	}
	return types.Identical(t, types.Universe.Lookup("error").Type())
}

func exprStr(e ast.Node) string {
	if e == nil {
		return ""
	}
	if x, ok := e.(ast.Expr); ok {
		return types.ExprString(x)
	}
	return fmt.Sprintf("%T", e)
}

// rootName is the name of the declared function a body belongs to (closure
// indices are not stable under edits, so exception tables use the root).
func rootName(f *Func) string {
	for f.Parent != nil {
		f = f.Parent
	}
	if i := strings.Index(f.Name, "$"); i >= 0 {
		return f.Name[:i]
	}
	return f.Name
}
