package main

import (
	"fmt"
	"go/ast"
	"go/token"
	"go/types"
	"sort"
	"strings"
)

// featureGuards returns the configuration conditions that dominate node n:
// "ClientConfig.AutoMTLS=true", "ClientConfig.SkipHostEnv=false",
// "ClientConfig.RunnerFunc!=nil=true", `UnixSocketConfig.Group!=""=true` ...
func (p *Prog) featureGuards(f *Func, n *Node) []string {
	info := f.Pkg.TypesInfo
	g := p.Graph(f)
	var out []string
	seen := map[string]bool{}
	for _, m := range g.Nodes {
		for _, e := range m.Succs {
			name, val, ok := p.condName(info, e)
			if !ok {
				continue
			}
			key := fmt.Sprintf("%s=%v", name, val)
			if seen[key] {
				continue
			}
			ee := e
			if g.OnlyViaEdge(n, func(x *Edge) bool { return x == ee }) {
				seen[key] = true
				out = append(out, key)
			}
		}
	}
	sort.Strings(out)
	return out
}

// condName names a branch condition on a struct field.
func (p *Prog) condName(info *types.Info, e *Edge) (string, bool, bool) {
	at, ok := edgeAtom(info, e)
	if !ok {
		return "", false, false
	}
	switch at.Kind {
	case "bool":
		if fv := SelField(info, at.X); fv != nil {
			return p.FieldName(fv), at.True, true
		}
	case "nil":
		if fv := SelField(info, at.X); fv != nil {
			return p.FieldName(fv) + "!=nil", at.Op == token.NEQ, true
		}
	case "cmp":
		if fv := SelField(info, at.X); fv != nil && (at.Op == token.EQL || at.Op == token.NEQ) {
			if s, ok := constString(info, at.Y); ok && s == "" {
				return p.FieldName(fv) + `!=""`, at.Op == token.NEQ, true
			}
		}
	}
	return "", false, false
}

type envEntry struct {
	key    string // literal key, or "<cookie>" / "<hostenv>"
	node   *Node
	call   ast.Expr
	guards []string
	viaEnv bool // added to the intermediate `env` slice rather than cmd.Env directly
}

// envKeyOf extracts the environment key written by a fmt.Sprintf("KEY=...") /
// fmt.Sprintf("%s=...", key, ...) expression.
func (p *Prog) envKeyOf(f *Func, e ast.Expr) string {
	info := f.Pkg.TypesInfo
	// "KEY=" + value, key + "=" + value: the constant prefix up to the first '='
	if be, isBin := ast.Unparen(p.Deref(f, e)).(*ast.BinaryExpr); isBin && be.Op == token.ADD {
		ops := concatOperands(be)
		prefix := ""
		for i, op := range ops {
			if sv, isC := constString(info, op); isC {
				prefix += sv
				if j := strings.Index(prefix, "="); j >= 0 {
					if i == 0 || prefix[:j] != "" {
						return prefix[:j]
					}
					return ""
				}
				continue
			}
			if i == 0 {
				if fv := SelField(info, op); fv != nil && fv.Name() == "MagicCookieKey" && len(ops) > 1 {
					if sv, isC := constString(info, ops[1]); isC && strings.HasPrefix(sv, "=") {
						return "<cookie>"
					}
				}
			}
			return ""
		}
		return ""
	}
	call, ok := ast.Unparen(p.Deref(f, e)).(*ast.CallExpr)
	if !ok {
		// a string variable with several definitions of which exactly one is
		// not the empty string (the others belong to error paths that return)
		if v, isV := identObj(info, ast.Unparen(e)).(*types.Var); isV && !v.IsField() {
			var nonEmpty []ast.Expr
			root := f
			for root.Parent != nil {
				root = root.Parent
			}
			ast.Inspect(root.Body, func(x ast.Node) bool {
				as, isAs := x.(*ast.AssignStmt)
				if !isAs || len(as.Lhs) != len(as.Rhs) {
					return true
				}
				for i, l := range as.Lhs {
					if identObj(info, l) != v {
						continue
					}
					if sv, isS := constString(info, as.Rhs[i]); isS && sv == "" {
						continue
					}
					nonEmpty = append(nonEmpty, as.Rhs[i])
				}
				return true
			})
			if len(nonEmpty) == 1 {
				if c2, isC := ast.Unparen(nonEmpty[0]).(*ast.CallExpr); isC {
					call, ok = c2, true
				}
			}
		}
	}
	if !ok {
		return ""
	}
	// a module helper that just returns the formatted entry
	if ce := p.FnOf(asFunc(p.Callee(f, call))); ce != nil && ce != f {
		var ret ast.Expr
		n := 0
		ast.Inspect(ce.Body, func(x ast.Node) bool {
			if rs, ok := x.(*ast.ReturnStmt); ok && len(rs.Results) == 1 {
				ret = rs.Results[0]
				n++
			}
			return true
		})
		if n == 1 {
			return p.envKeyOf(ce, ret)
		}
		return ""
	}
	if p.CalleeName(f, call) != "fmt.Sprintf" || len(call.Args) == 0 {
		return ""
	}
	format, ok := constString(info, call.Args[0])
	if !ok {
		return ""
	}
	i := strings.Index(format, "=")
	if i < 0 {
		return ""
	}
	k := format[:i]
	if k == "%s" && len(call.Args) > 1 {
		if s, ok := constString(info, call.Args[1]); ok {
			return s
		}
		if fv := SelField(info, call.Args[1]); fv != nil && fv.Name() == "MagicCookieKey" {
			return "<cookie>"
		}
		return "?" + exprStr(call.Args[1])
	}
	return k
}

// concatOperands flattens a left-nested chain of string additions.
func concatOperands(e ast.Expr) []ast.Expr {
	e = ast.Unparen(e)
	if be, ok := e.(*ast.BinaryExpr); ok && be.Op == token.ADD {
		return append(concatOperands(be.X), concatOperands(be.Y)...)
	}
	return []ast.Expr{e}
}

// R-TABLE/env — the launch environment is determined by the client config and
// agrees with what the server reads.
func ruleEnv(c *Ctx) {
	p := c.P
	f := p.Fn("Client.Start")
	if f == nil {
		c.R.Undecided("R-TABLE/env", "Client.Start", "anchor", "function not found")
		return
	}
	info := f.Pkg.TypesInfo
	g := p.Graph(f)
	envF := p.fieldByQualifiedName("os/exec", "Cmd", "Env")
	stdinF := p.fieldByQualifiedName("os/exec", "Cmd", "Stdin")
	if envF == nil || stdinF == nil {
		c.R.Undecided("R-TABLE/env", f.Name, "exec.Cmd.Env", "field not resolved")
		return
	}
	// who may write exec.Cmd.Env: Start assembles it (host environment first,
	// the library's variables last, so that they win); nothing else in the module
	// may assign or re-arrange it afterwards (a de-duplication that keeps the
	// first occurrence hands the host's values to the plugin)
	{
		nOther := 0
		for _, of := range p.Funcs {
			root := of
			for root.Parent != nil {
				root = root.Parent
			}
			if root == f || strings.HasSuffix(p.Fset.Position(of.Body.Pos()).Filename, "testing.go") {
				continue
			}
			oinfo := of.Pkg.TypesInfo
			walkNoLit(of.Body, func(x ast.Node) bool {
				as, ok := x.(*ast.AssignStmt)
				if !ok {
					return true
				}
				for _, l := range as.Lhs {
					target := ast.Unparen(l)
					if ix, isIx := target.(*ast.IndexExpr); isIx {
						target = ast.Unparen(ix.X)
					}
					if SelField(oinfo, target) == envF {
						nOther++
						c.R.Violate("R-ORDER/O5", p.Pos(as), of.Name, "the command's environment is written only by Start",
							"exec.Cmd.Env is assigned outside Client.Start: whatever order Start established (the library's variables after the inherited ones, so that they win) can be undone here, and the plugin then acts on the host's values of the control variables", nil)
					}
				}
				return true
			})
		}
		if nOther == 0 {
			c.R.Hold("R-ORDER/O5", p.Pos(f.Node()), f.Name, "the command's environment is written only by Start", "no assignment to exec.Cmd.Env elsewhere in the module", true)
		}
	}
	var entries []envEntry
	var envSlice *types.Var // the intermediate slice variable
	var hostNode *Node
	var hostGuardNode *Node // where the condition of the inheritance is decided, if not at hostNode
	var hostExpr ast.Expr
	var envSpliceNode *Node
	hostIntoSlice := false // the host environment is appended to the control-variable slice itself
	hostPrepended := false // ... or put in front of it: env = append(hostEnv(), env...)
	addElems := func(n *Node, elems []ast.Expr, via bool) {
		for _, el := range elems {
			if k := p.envKeyOf(f, el); k != "" {
				entries = append(entries, envEntry{key: k, node: n, call: el, viaEnv: via})
			}
		}
	}
	// a local that stands for cmd.Env: bound from it (env := cmd.Env), only ever
	// extended by env = append(env, ...), and stored back (cmd.Env = env) - the
	// shape an extracted "build the environment" helper leaves after inlining
	cmdEnvAlias := map[types.Object]bool{}
	var aliasBack *Node // the node that stores such a local back into cmd.Env
	backNode := map[types.Object]*Node{}
	{
		fromEnv, back, other, extended := map[types.Object]int{}, map[types.Object]int{}, map[types.Object]int{}, map[types.Object]int{}
		for _, n := range g.Nodes {
			a, ok := n.Ast.(*ast.AssignStmt)
			if !ok || len(a.Lhs) != len(a.Rhs) {
				continue
			}
			for i, l := range a.Lhs {
				r := ast.Unparen(a.Rhs[i])
				if v, ok := identObj(info, l).(*types.Var); ok && !v.IsField() {
					if SelField(info, r) == envF {
						fromEnv[v]++
					} else if call, isC := r.(*ast.CallExpr); isC && p.CalleeName(f, call) == "builtin.append" && len(call.Args) >= 1 && identObj(info, call.Args[0]) == types.Object(v) {
						// an extension of itself; env = append(env, cmd.Env...) on a
						// slice that was only made so far is the binding to cmd.Env
						if len(call.Args) == 2 && call.Ellipsis.IsValid() && SelField(info, ast.Unparen(call.Args[1])) == envF && extended[v] == 0 {
							fromEnv[v]++
						}
						extended[v]++
					} else if call, isC := r.(*ast.CallExpr); isC && p.CalleeName(f, call) == "builtin.make" && extended[v] == 0 {
						// a pre-sized, still empty slice
					} else {
						other[v]++
					}
				}
				if SelField(info, l) == envF {
					if v, ok := identObj(info, r).(*types.Var); ok && !v.IsField() {
						back[v]++
						backNode[v] = n
					}
					// cmd.Env = append(env, more...): stored back with a last extension
					if call, isC := r.(*ast.CallExpr); isC && p.CalleeName(f, call) == "builtin.append" && len(call.Args) >= 1 {
						if v, ok := identObj(info, call.Args[0]).(*types.Var); ok && !v.IsField() {
							back[v]++
							backNode[v] = n
						}
					}
				}
			}
		}
		for v, k := range fromEnv {
			if k == 1 && back[v] == 1 && other[v] == 0 {
				cmdEnvAlias[v] = true
				aliasBack = backNode[v]
			}
		}
	}
	for _, n := range g.Nodes {
		switch a := n.Ast.(type) {
		case *ast.AssignStmt:
			for i, l := range a.Lhs {
				if i >= len(a.Rhs) {
					continue
				}
				r := ast.Unparen(a.Rhs[i])
				// env := []string{...}
				if cl, ok := r.(*ast.CompositeLit); ok {
					if t := info.TypeOf(cl); t != nil && t.String() == "[]string" {
						has := false
						for _, el := range cl.Elts {
							if p.envKeyOf(f, el) != "" {
								has = true
							}
						}
						if has {
							if v, ok := identObj(info, l).(*types.Var); ok {
								envSlice = v
							}
							addElems(n, cl.Elts, true)
						}
					}
				}
				call, ok := r.(*ast.CallExpr)
				if !ok || p.CalleeName(f, call) != "builtin.append" || len(call.Args) < 2 {
					continue
				}
				toCmdEnv := SelField(info, l) == envF || cmdEnvAlias[identObj(info, l)]
				toEnvSlice := envSlice != nil && identObj(info, l) == envSlice
				if !toCmdEnv && !toEnvSlice {
					continue
				}
				if call.Ellipsis.IsValid() {
					src := ast.Unparen(call.Args[1])
					if toCmdEnv && SelField(info, src) == envF {
						continue // the command's own environment, first
					}
					if toEnvSlice && !toCmdEnv && len(call.Args) == 2 && identObj(info, src) == types.Object(envSlice) && identObj(info, call.Args[0]) != types.Object(envSlice) {
						// env = append(hostEnv(), env...): the host environment is put in
						// front of the control variables collected so far
						hostNode, hostExpr = n, ast.Unparen(call.Args[0])
						hostPrepended = true
						continue
					}
					if envSlice != nil && (identObj(info, src) == envSlice || identObj(info, ast.Unparen(p.Deref(f, src))) == envSlice) {
						envSpliceNode = n
						continue
					}
					// inherited host environment
					hostNode, hostExpr = n, src
					hostIntoSlice = toEnvSlice && !toCmdEnv
					// a local that is nil unless one assignment gave it the host
					// environment: that assignment carries the condition
					if hv, isV := identObj(info, src).(*types.Var); isV && !hv.IsField() {
						var defs []*Node
						var defExpr ast.Expr
						for _, dn := range g.Nodes {
							da, isAs := dn.Ast.(*ast.AssignStmt)
							if !isAs || len(da.Lhs) != len(da.Rhs) {
								continue
							}
							for di, dl := range da.Lhs {
								if identObj(info, dl) == types.Object(hv) && !isNilIdent(info, da.Rhs[di]) {
									defs = append(defs, dn)
									defExpr = ast.Unparen(da.Rhs[di])
								}
							}
						}
						if len(defs) == 1 {
							hostGuardNode, hostExpr = defs[0], defExpr
						}
					}
					continue
				}
				// element-wise inheritance: the appended value is the variable of a
				// loop that ranges over the host environment (a filter in between
				// drops entries, it does not reorder them)
				if len(call.Args) == 2 {
					if rv, isV := identObj(info, call.Args[1]).(*types.Var); isV && !rv.IsField() {
						var hostX ast.Expr
						ast.Inspect(f.Body, func(x ast.Node) bool {
							rs, isR := x.(*ast.RangeStmt)
							if !isR || rs.Value == nil || identObj(info, rs.Value) != types.Object(rv) {
								return true
							}
							rx := ast.Unparen(p.Deref(f, rs.X))
							if rc, isC := rx.(*ast.CallExpr); isC {
								if ce := p.FnOf(asFunc(p.Callee(f, rc))); ce != nil && ce.Name == "hostEnv" || p.CalleeName(f, rc) == "os.Environ" {
									hostX = rx
								}
							}
							return true
						})
						if hostX != nil {
							hostNode, hostExpr = n, hostX
							hostIntoSlice = toEnvSlice && !toCmdEnv
							continue
						}
					}
				}
				addElems(n, call.Args[1:], toEnvSlice)
			}
		}
	}
	if envSpliceNode == nil && envSlice == nil && aliasBack != nil {
		// no intermediate slice: the variables were appended to the stand-in for
		// cmd.Env directly, and storing it back is what makes them reach cmd.Env
		envSpliceNode = aliasBack
	}
	for i := range entries {
		entries[i].guards = p.featureGuards(f, entries[i].node)
	}
	want := map[string][]string{
		"<cookie>":                 {},
		"PLUGIN_MIN_PORT":          {},
		"PLUGIN_MAX_PORT":          {},
		"PLUGIN_PROTOCOL_VERSIONS": {},
		"PLUGIN_MULTIPLEX_GRPC":    {"ClientConfig.GRPCBrokerMultiplex=true"},
		"PLUGIN_CLIENT_CERT":       {"ClientConfig.AutoMTLS=true"},
		"PLUGIN_UNIX_SOCKET_GROUP": {`UnixSocketConfig.Group!=""=true`},
		"PLUGIN_UNIX_SOCKET_DIR":   {"ClientConfig.RunnerFunc!=nil=true"},
	}
	relevant := func(gs []string) []string {
		var out []string
		for _, x := range gs {
			for _, feat := range []string{"ClientConfig.GRPCBrokerMultiplex", "ClientConfig.AutoMTLS", "ClientConfig.SkipHostEnv", "UnixSocketConfig.Group", "ClientConfig.RunnerFunc!=nil", "ClientConfig.SecureConfig", "ClientConfig.UnixSocketConfig"} {
				if strings.HasPrefix(x, feat) {
					out = append(out, x)
				}
			}
		}
		return out
	}
	// conditions common to every control variable (the validation gates at the
	// top of Start) are the baseline; what an entry has beyond them must be
	// exactly its feature condition - an additional condition on any other
	// configuration field makes the variable depend on more than its feature
	var baseline map[string]bool
	for _, en := range entries {
		if _, known := want[en.key]; known && len(want[en.key]) == 0 {
			m := map[string]bool{}
			for _, x := range en.guards {
				m[x] = true
			}
			if baseline == nil {
				baseline = m
			} else {
				for k := range baseline {
					if !m[k] {
						delete(baseline, k)
					}
				}
			}
		}
	}
	relevantAll := relevant
	relevant = func(gs []string) []string {
		out := relevantAll(gs)
		have := map[string]bool{}
		for _, x := range out {
			have[x] = true
		}
		for _, x := range gs {
			if !baseline[x] && !have[x] && (strings.HasPrefix(x, "ClientConfig.") || strings.HasPrefix(x, "UnixSocketConfig.")) {
				out = append(out, x)
			}
		}
		sort.Strings(out)
		return out
	}
	got := map[string]bool{}
	newVars := map[string]bool{}
	for _, en := range entries {
		got[en.key] = true
		exp, known := want[en.key]
		construct := "env " + en.key
		if !known {
			// a control variable the table does not list yet: what can go wrong
			// with it without looking at its meaning is that a host which carries
			// it (because it is itself a plugin) hands it on - so it is accepted
			// when hostEnv provably never inherits it, like the two feature
			// variables of the table
			if ok, _ := p.hostEnvOnlyTested(en.key); ok && !strings.HasPrefix(en.key, "?") && en.key != "<cookie>" {
				newVars[en.key] = true
				c.R.Hold("R-TABLE/env", p.Pos(en.call), f.Name, construct, "a control variable outside the reference table, set under {"+strings.Join(relevant(en.guards), ",")+"}; hostEnv never inherits an entry of that name", true)
				continue
			}
			c.R.Violate("R-TABLE/env", p.Pos(en.call), f.Name, construct, "the client passes an environment variable that is not in the reference table of control variables, and the inherited host environment is not provably free of it: a host that carries the variable (it may itself be a plugin) hands its own value to plugins of clients that never asked for the feature", nil)
			continue
		}
		gs := relevant(en.guards)
		if strings.Join(gs, ",") == strings.Join(exp, ",") {
			c.R.Hold("R-TABLE/env", p.Pos(en.call), f.Name, construct, "set under exactly {"+strings.Join(exp, ",")+"}", true)
		} else {
			c.R.Violate("R-TABLE/env", p.Pos(en.call), f.Name, construct,
				"the variable must be set under exactly {"+strings.Join(exp, ",")+"} but is set under {"+strings.Join(gs, ",")+"}", nil)
		}
	}
	for k := range want {
		if !got[k] {
			c.R.Violate("R-TABLE/env", p.Pos(f.Node()), f.Name, "env "+k, "the client no longer passes this control variable to the plugin", nil)
		}
	}
	// "exactly when", the other direction: with the feature on, no way to a
	// launch bypasses the variable. The guards above show that the variable is
	// set only under its feature condition; here every edge on which that
	// condition is false is cut, the append itself is avoided, and no runner
	// construction may then be reachable from the entry (error returns do not
	// reach one). A second condition combined into the same branch - "AutoMTLS,
	// unless a TLSConfig was supplied" - leaves such a way open.
	{
		var launchN []*Node
		for _, m := range g.Nodes {
			if m.Ast == nil {
				continue
			}
			for _, call := range callsIn(m.Ast) {
				t := info.TypeOf(call)
				if t == nil {
					continue
				}
				if tup, isT := t.(*types.Tuple); isT && tup.Len() == 2 && strings.HasSuffix(tup.At(0).Type().String(), "/runner.Runner") {
					launchN = append(launchN, m)
				} else if strings.HasSuffix(t.String(), "cmdrunner.CmdRunner") {
					launchN = append(launchN, m)
				}
			}
		}
		for _, en := range entries {
			exp, known := want[en.key]
			if !known || len(exp) != 1 || len(launchN) == 0 {
				continue
			}
			cond := exp[0] // e.g. ClientConfig.AutoMTLS=true
			enNode := en.node
			cutOff := func(e *Edge) bool {
				name, val, ok := p.condName(info, e)
				if !ok {
					return false
				}
				return fmt.Sprintf("%s=%v", name, !val) == cond
			}
			seen := p.FeasibleReach(f, []*Node{g.Entry}, func(x *Node) bool { return x == enNode }, cutOff)
			construct := "env " + en.key + " whenever its feature is on"
			var hit *Node
			for _, ln := range launchN {
				if seen[ln] && ln != enNode {
					hit = ln
				}
			}
			// only decisive when the launch is conditional on nothing else that
			// also guards the entry (RunnerFunc entries sit on the RunnerFunc arm
			// together with their launch): the entry must be able to reach a launch
			after := g.ReachAfter(enNode, nil, nil)
			reachesLaunch := false
			for _, ln := range launchN {
				if _, r := after[ln]; r {
					reachesLaunch = true
				}
			}
			if !reachesLaunch {
				continue
			}
			if hit != nil {
				// a launch the entry can never reach (the other launch method) is not a bypass
				if _, r := after[hit]; !r {
					continue
				}
				c.R.Violate("R-TABLE/env", p.Pos(en.call), f.Name, construct, "with {"+cond+"} there is a way from the entry of Start to the launch at "+p.Pos(hit.Ast)+" that does not pass this append: another condition decides as well, so the plugin can be launched with the feature requested and the variable missing (for PLUGIN_CLIENT_CERT: it serves plaintext while the host dials TLS, or the reverse)", nil)
			} else {
				c.R.Hold("R-TABLE/env", p.Pos(en.call), f.Name, construct, "with the feature condition assumed true no launch is reachable without the append", true)
			}
		}
	}
	// host environment: inherited exactly when !SkipHostEnv, and before every control variable
	if hostNode == nil {
		c.R.Violate("R-TABLE/env", p.Pos(f.Node()), f.Name, "host environment", "the host environment is never appended to cmd.Env", nil)
	} else {
		gn := hostNode
		if hostGuardNode != nil && len(relevant(p.featureGuards(f, hostNode))) == 0 {
			gn = hostGuardNode
		}
		gs := relevant(p.featureGuards(f, gn))
		if strings.Join(gs, ",") == "ClientConfig.SkipHostEnv=false" {
			c.R.Hold("R-TABLE/env", p.Pos(hostNode.Ast), f.Name, "host environment", "appended exactly when SkipHostEnv is false", true)
		} else {
			c.R.Violate("R-TABLE/env", p.Pos(hostNode.Ast), f.Name, "host environment", "the host environment must be inherited exactly when SkipHostEnv is false, but is appended under {"+strings.Join(gs, ",")+"}", nil)
		}
		// O5: no control-variable append to cmd.Env may precede the host environment
		bad := false
		if hostIntoSlice {
			bad = true
			c.R.Violate("R-ORDER/O5", p.Pos(hostNode.Ast), f.Name, "host environment before control variables",
				"the inherited host environment is appended to the slice that already holds the control variables, so it follows them in the plugin's environment and a host value of the same name wins (later duplicates win)", nil)
		}
		ctrl := []*Node{envSpliceNode}
		for _, en := range entries {
			if !en.viaEnv {
				ctrl = append(ctrl, en.node)
			}
		}
		for _, cn := range ctrl {
			if cn == nil {
				continue
			}
			seen := g.ReachAfter(cn, nil, nil)
			_, ok := seen[hostNode]
			if hostPrepended {
				// the host environment reaches cmd.Env with the slice: a variable
				// appended to cmd.Env directly before that splice precedes it
				ok = false
				if cn != envSpliceNode && envSpliceNode != nil {
					_, ok = seen[envSpliceNode]
				}
			}
			if ok {
				bad = true
				c.R.Violate("R-ORDER/O5", p.Pos(cn.Ast), f.Name, "host environment before control variables",
					"a control variable is appended to cmd.Env before the inherited host environment, so a host value of the same name would win (later duplicates win)", nil)
			}
		}
		// O5b: the environment is complete when the runner is created from cmd. A
		// custom runner may copy cmd.Env when it is constructed (a container
		// runner does), so anything appended later never reaches the plugin.
		{
			var ctors []*Node
			for _, m := range g.Nodes {
				if m.Ast == nil {
					continue
				}
				for _, call := range callsIn(m.Ast) {
					t := info.TypeOf(call)
					if t == nil {
						continue
					}
					if tup, isT := t.(*types.Tuple); isT && tup.Len() == 2 && strings.HasSuffix(tup.At(0).Type().String(), "/runner.Runner") {
						ctors = append(ctors, m)
					} else if strings.HasSuffix(t.String(), "cmdrunner.CmdRunner") {
						ctors = append(ctors, m)
					}
				}
			}
			late := false
			all := append([]*Node{hostNode}, ctrl...)
			for _, ct := range ctors {
				after := g.ReachAfter(ct, nil, nil)
				for _, en := range all {
					if en == nil {
						continue
					}
					if _, r := after[en]; r {
						late = true
						c.R.Violate("R-ORDER/O5", p.Pos(en.Ast), f.Name, "environment complete before the runner is created",
							"this append to cmd.Env can execute after the runner was created from cmd: a runner that reads the command's environment when it is constructed (a custom RunnerFunc may) never sees the variable, so the plugin is launched without it (for PLUGIN_CLIENT_CERT: the plugin serves plaintext while the host dials TLS)", nil)
					}
				}
			}
			if len(ctors) == 0 {
				c.R.Undecided("R-ORDER/O5", f.Name, "environment complete before the runner is created", "no runner construction (RunnerFunc / NewCmdRunner) found in Start")
			} else if !late {
				c.R.Hold("R-ORDER/O5", p.Pos(ctors[0].Ast), f.Name, "environment complete before the runner is created", fmt.Sprintf("no cmd.Env append is reachable from any of the %d runner construction sites", len(ctors)), true)
			}
		}
		direct := len(entries) > 0
		for _, en := range entries {
			if en.viaEnv {
				direct = false
			}
		}
		if envSpliceNode == nil && direct {
			// no intermediate slice: every control variable is appended to
			// cmd.Env itself (presence and guards of each are decided above)
			if !bad {
				c.R.Hold("R-ORDER/O5", p.Pos(hostNode.Ast), f.Name, "host environment before control variables", "no append of a control variable can be followed by the host-environment append", true)
			}
			c.R.Hold("R-TABLE/env", p.Pos(f.Node()), f.Name, "control variables reach cmd.Env", fmt.Sprintf("no intermediate slice: all %d control variables are appended to cmd.Env directly", len(entries)), true)
		} else if envSpliceNode == nil {
			c.R.Violate("R-TABLE/env", p.Pos(f.Node()), f.Name, "control variables reach cmd.Env", "the control-variable slice is never appended to cmd.Env", nil)
		} else if !bad {
			c.R.Hold("R-ORDER/O5", p.Pos(hostNode.Ast), f.Name, "host environment before control variables", "no append of a control variable can be followed by the host-environment append", true)
			// and the splice itself is unconditional
			if gs := relevant(p.featureGuards(f, envSpliceNode)); len(gs) == 0 {
				c.R.Hold("R-TABLE/env", p.Pos(envSpliceNode.Ast), f.Name, "control variables reach cmd.Env", "appended unconditionally", true)
			} else {
				c.R.Violate("R-TABLE/env", p.Pos(envSpliceNode.Ast), f.Name, "control variables reach cmd.Env", "the control variables are appended only under {"+strings.Join(gs, ",")+"}", nil)
			}
		}
	}
	// stdin
	okStdin := false
	for _, n := range g.Nodes {
		if as, ok := n.Ast.(*ast.AssignStmt); ok && len(as.Lhs) == 1 && SelField(info, as.Lhs[0]) == stdinF {
			if se, ok := ast.Unparen(as.Rhs[0]).(*ast.SelectorExpr); ok && objFullName(info.Uses[se.Sel]) == "os.Stdin" {
				if len(relevant(p.featureGuards(f, n))) == 0 {
					okStdin = true
					c.R.Hold("R-TABLE/env", p.Pos(as), f.Name, "cmd.Stdin = os.Stdin", "unconditional", true)
				}
			}
		}
	}
	if !okStdin {
		c.R.Violate("R-TABLE/env", p.Pos(f.Node()), f.Name, "cmd.Stdin = os.Stdin", "the host's stdin is not (unconditionally) passed to the plugin", nil)
	}
	// versions: built by ranging the map the acceptance check ranges; separators agree
	p.envVersions(c, f)
	// server side: every variable the server reads is one the client writes
	serve := p.Fn("Serve")
	if serve == nil {
		c.R.Undecided("R-TABLE/env", "Serve", "anchor", "function not found")
		return
	}
	reach := p.ReachableFuncs([]*Func{serve}, true)
	serverKeys := map[string]string{}
	for rf := range reach {
		rinfo := rf.Pkg.TypesInfo
		for _, call := range rf.Calls() {
			if nm := p.CalleeName(rf, call); nm != "os.Getenv" && nm != "os.LookupEnv" {
				continue
			}
			k := ""
			if s, ok := constString(rinfo, call.Args[0]); ok {
				k = s
			} else if fv := SelField(rinfo, call.Args[0]); fv != nil && fv.Name() == "MagicCookieKey" {
				k = "<cookie>"
			} else {
				k = "?" + exprStr(call.Args[0])
			}
			serverKeys[k] = p.Pos(call) + " in " + rf.Name
		}
	}
	var sk []string
	for k := range serverKeys {
		sk = append(sk, k)
	}
	sort.Strings(sk)
	for _, k := range sk {
		if _, ok := want[k]; (ok || newVars[k]) && got[k] {
			c.R.Hold("R-TABLE/env", strings.SplitN(serverKeys[k], " ", 2)[0], "Serve", "server reads "+k, "the client writes this variable", false)
		} else {
			c.R.Violate("R-TABLE/env", strings.SplitN(serverKeys[k], " ", 2)[0], "Serve", "server reads "+k, "the plugin acts on an environment variable the client never sets", nil)
		}
	}
	if len(sk) < 8 {
		c.R.Undecided("R-TABLE/env", "Serve", "instance-floor", fmt.Sprintf("only %d os.Getenv keys reachable from Serve, expected 8", len(sk)))
	}
	// ambient clause: "exactly when" variables the server acts on must not leak from the host environment
	exact := []string{"PLUGIN_CLIENT_CERT", "PLUGIN_MULTIPLEX_GRPC"}
	if hostNode != nil {
		for _, k := range exact {
			if _, read := serverKeys[k]; !read {
				continue
			}
			construct := "ambient " + k
			if ok, how := p.hostEnvNeutralises(f, hostExpr, k, entries); ok {
				c.R.Hold("R-TABLE/env", p.Pos(hostNode.Ast), f.Name, construct, how, true)
			} else {
				c.R.Violate("R-TABLE/env", p.Pos(hostNode.Ast), f.Name, construct,
					"the plugin acts on "+k+" whenever it is present, the client sets it only when the feature is on, and the inherited host environment ("+exprStr(hostExpr)+") is passed on unfiltered: a host that is itself a plugin hands its own "+k+" to its plugins, which then negotiate a feature this client did not request", nil)
			}
		}
	}
}

// hostEnvNeutralises: the inherited environment is produced by a module
// function that filters key k, or key k is explicitly reset later.
func (p *Prog) hostEnvNeutralises(f *Func, hostExpr ast.Expr, k string, entries []envEntry) (bool, string) {
	if call, ok := ast.Unparen(hostExpr).(*ast.CallExpr); ok {
		if ff := p.FnOf(asFunc(p.Callee(f, call))); ff != nil {
			finfo := ff.Pkg.TypesInfo
			mentions, readsEnv := false, false
			ast.Inspect(ff.Body, func(x ast.Node) bool {
				if e, ok := x.(ast.Expr); ok {
					if s, ok := constString(finfo, e); ok && strings.HasPrefix(s, k) {
						mentions = true
					}
				}
				if ce, ok := x.(*ast.CallExpr); ok && p.CalleeName(ff, ce) == "os.Environ" {
					readsEnv = true
				}
				return true
			})
			// the filter must drop matching entries: a `continue` under the match, or slices.DeleteFunc
			drops := p.callsAny(ff, "slices.DeleteFunc")
			ast.Inspect(ff.Body, func(x ast.Node) bool {
				if ifs, ok := x.(*ast.IfStmt); ok {
					for _, st := range ifs.Body.List {
						if br, ok := st.(*ast.BranchStmt); ok && br.Tok == token.CONTINUE {
							drops = true
						}
					}
				}
				return true
			})
			if mentions && readsEnv && drops {
				return true, "the inherited environment passes through " + ff.Name + ", which drops " + k
			}
		}
	}
	for _, en := range entries {
		if en.key == k && len(en.guards) == 0 {
			return true, "the variable is always set explicitly"
		}
	}
	return false, ""
}

// keysOnlySorted: the local slice mid receives the key of every iteration of a
// range over the map field, and is otherwise only created empty, measured,
// ranged over and handed to sort functions.
func (p *Prog) keysOnlySorted(f *Func, mid *types.Var, mapF *types.Var) bool {
	info := f.Pkg.TypesInfo
	filled, good := false, true
	isMid := func(e ast.Expr) bool { return identObj(info, ast.Unparen(e)) == mid }
	ast.Inspect(f.Body, func(x ast.Node) bool {
		switch s := x.(type) {
		case *ast.RangeStmt:
			if SelField(info, s.X) == mapF && s.Key != nil {
				key := identObj(info, s.Key)
				for _, st := range s.Body.List {
					if as, ok := st.(*ast.AssignStmt); ok && len(as.Lhs) == 1 && len(as.Rhs) == 1 && isMid(as.Lhs[0]) {
						if call, ok := as.Rhs[0].(*ast.CallExpr); ok && p.CalleeName(f, call) == "builtin.append" && len(call.Args) == 2 && isMid(call.Args[0]) && identObj(info, call.Args[1]) == key {
							filled = true
						}
					}
				}
			}
		case *ast.AssignStmt:
			for i, l := range s.Lhs {
				if ix, ok := ast.Unparen(l).(*ast.IndexExpr); ok && isMid(ix.X) {
					good = false
				}
				if !isMid(l) || i >= len(s.Rhs) {
					continue
				}
				call, ok := ast.Unparen(s.Rhs[i]).(*ast.CallExpr)
				if !ok {
					good = false
					continue
				}
				switch p.CalleeName(f, call) {
				case "builtin.make":
					if len(call.Args) >= 2 {
						if n, isC := constInt(info, call.Args[1]); !isC || n != 0 {
							good = false
						}
					}
				case "builtin.append":
					if par, ok := p.Parent(s).(*ast.BlockStmt); !ok || !isRangeOver(info, p.Parent(par), mapF) {
						good = false
					}
				default:
					good = false
				}
			}
		case *ast.CallExpr:
			nm := p.CalleeName(f, s)
			for _, a := range s.Args {
				if !isMid(a) {
					continue
				}
				switch {
				case nm == "builtin.len", nm == "builtin.cap", nm == "builtin.append", nm == "builtin.make":
				case strings.HasPrefix(nm, "sort."), nm == "slices.Sort", nm == "slices.SortFunc", nm == "slices.Reverse":
				default:
					if tv, ok := info.Types[s.Fun]; ok && tv.IsType() {
						// a conversion such as sort.IntSlice(mid)
						if par, ok := p.Parent(s).(*ast.CallExpr); ok && strings.HasPrefix(p.CalleeName(f, par), "sort.") {
							continue
						}
					}
					good = false
				}
			}
		case *ast.UnaryExpr:
			if s.Op == token.AND && isMid(s.X) {
				good = false
			}
		case *ast.SliceExpr:
			if isMid(s.X) {
				good = false
			}
		}
		return true
	})
	return filled && good
}

func isRangeOver(info *types.Info, n ast.Node, mapF *types.Var) bool {
	rs, ok := n.(*ast.RangeStmt)
	return ok && SelField(info, rs.X) == mapF
}

func (p *Prog) envVersions(c *Ctx, f *Func) {
	p.legacyFoldBeforeOffer(c, f)
	info := f.Pkg.TypesInfo
	vpF := p.FieldObj(modPath, "ClientConfig", "VersionedPlugins")
	// the slice joined into PLUGIN_PROTOCOL_VERSIONS
	var joined *types.Var
	sepOK := false
	for _, call := range f.Calls() {
		if p.CalleeName(f, call) == "strings.Join" && len(call.Args) == 2 {
			var holder ast.Expr
			if par, ok := p.Parent(call).(*ast.CallExpr); ok {
				holder = par
			} else if be, ok := p.Parent(call).(*ast.BinaryExpr); ok && be.Op == token.ADD {
				// "PLUGIN_PROTOCOL_VERSIONS=" + strings.Join(...): the outermost addition
				var top ast.Expr = be
				for {
					pb, isB := p.Parent(top).(*ast.BinaryExpr)
					if !isB || pb.Op != token.ADD {
						break
					}
					top = pb
				}
				if ops := concatOperands(top); len(ops) == 2 && ast.Unparen(ops[1]) == ast.Expr(call) {
					holder = top
				}
			}
			if holder != nil && p.envKeyOf(f, holder) == "PLUGIN_PROTOCOL_VERSIONS" {
				joined, _ = identObj(info, call.Args[0]).(*types.Var)
				// a plain copy of the list that was built (left by helper inlining)
				for i := 0; i < 3 && joined != nil; i++ {
					d := p.singleDef(f, joined)
					if d == nil {
						break
					}
					src, isV := identObj(info, ast.Unparen(d)).(*types.Var)
					if !isV || src.IsField() {
						break
					}
					joined = src
				}
				if s, ok := constString(info, call.Args[1]); ok && s == "," {
					sepOK = true
				}
			}
		}
	}
	built := false
	ast.Inspect(f.Body, func(x ast.Node) bool {
		rs, ok := x.(*ast.RangeStmt)
		if !ok || SelField(info, rs.X) != vpF || rs.Key == nil {
			return true
		}
		key := identObj(info, rs.Key)
		ast.Inspect(rs.Body, func(y ast.Node) bool {
			as, ok := y.(*ast.AssignStmt)
			if !ok || len(as.Lhs) != 1 || identObj(info, as.Lhs[0]) != joined || joined == nil {
				return true
			}
			if call, ok := as.Rhs[0].(*ast.CallExpr); ok && p.CalleeName(f, call) == "builtin.append" && len(call.Args) == 2 {
				if conv, ok := call.Args[1].(*ast.CallExpr); ok && p.CalleeName(f, conv) == "strconv.Itoa" && identObj(info, conv.Args[0]) == key {
					built = true
				}
			}
			return true
		})
		return true
	})
	if !built && joined != nil {
		// through a sorted list of the keys: mid = keys of the map (appended in
		// a range over it), only sorted in between, and the joined list holds
		// Itoa of every element of mid
		ast.Inspect(f.Body, func(x ast.Node) bool {
			rs, ok := x.(*ast.RangeStmt)
			if !ok || rs.Value == nil {
				return true
			}
			mid, isV := identObj(info, ast.Unparen(rs.X)).(*types.Var)
			if !isV || mid.IsField() {
				return true
			}
			val := identObj(info, rs.Value)
			fills := false
			ast.Inspect(rs.Body, func(y ast.Node) bool {
				as, ok := y.(*ast.AssignStmt)
				if !ok || len(as.Lhs) != 1 || len(as.Rhs) != 1 || identObj(info, as.Lhs[0]) != joined {
					return true
				}
				if call, ok := as.Rhs[0].(*ast.CallExpr); ok && p.CalleeName(f, call) == "builtin.append" && len(call.Args) == 2 && identObj(info, call.Args[0]) == joined {
					if conv, ok := call.Args[1].(*ast.CallExpr); ok && p.CalleeName(f, conv) == "strconv.Itoa" && len(conv.Args) == 1 && identObj(info, conv.Args[0]) == val {
						fills = true
					}
				}
				return true
			})
			if fills && p.keysOnlySorted(f, mid, vpF) {
				built = true
			}
			return true
		})
	}
	if joined != nil && sepOK && built {
		c.R.Hold("R-TABLE/env", p.Pos(f.Node()), f.Name, "offered versions", "PLUGIN_PROTOCOL_VERSIONS = Join(Itoa(k) for k in range ClientConfig.VersionedPlugins, \",\")", true)
	} else {
		c.R.Violate("R-TABLE/env", p.Pos(f.Node()), f.Name, "offered versions",
			fmt.Sprintf("the offered version list is not exactly the keys of ClientConfig.VersionedPlugins joined by \",\" (joined=%v sep=%v built=%v)", joined != nil, sepOK, built), nil)
	}
	// acceptance ranges the same map
	if cp := p.Fn("Client.checkProtoVersion"); cp != nil {
		cinfo := cp.Pkg.TypesInfo
		same := false
		ast.Inspect(cp.Body, func(x ast.Node) bool {
			if rs, ok := x.(*ast.RangeStmt); ok && SelField(cinfo, rs.X) == vpF {
				same = true
			}
			// a direct lookup VersionedPlugins[v] accepts exactly the keys as well
			if ix, ok := x.(*ast.IndexExpr); ok && SelField(cinfo, ix.X) == vpF {
				same = true
			}
			return true
		})
		if same {
			c.R.Hold("R-TABLE/env", p.Pos(cp.Node()), cp.Name, "accepted versions = offered versions", "the acceptance check ranges ClientConfig.VersionedPlugins, the map the offer was built from", true)
		} else {
			c.R.Violate("R-TABLE/env", p.Pos(cp.Node()), cp.Name, "accepted versions = offered versions", "the acceptance check does not range ClientConfig.VersionedPlugins", nil)
		}
	}
	// server splits with the same separator
	if pv := p.Fn("protocolVersion"); pv != nil {
		pinfo := pv.Pkg.TypesInfo
		ok := false
		for _, call := range pv.Calls() {
			switch p.CalleeName(pv, call) {
			case "strings.Split", "strings.SplitSeq", "strings.SplitN", "strings.Cut":
				if s, isC := constString(pinfo, call.Args[1]); isC && s == "," {
					ok = true
				}
			case "strings.FieldsFunc", "strings.FieldsFuncSeq":
				// accepted only with a literal that tests for ','
				if fl, isL := ast.Unparen(call.Args[1]).(*ast.FuncLit); isL {
					ast.Inspect(fl.Body, func(x ast.Node) bool {
						if bl, isB := x.(*ast.BasicLit); isB && bl.Value == "','" {
							ok = true
						}
						return true
					})
				}
			}
		}
		if ok {
			c.R.Hold("R-TABLE/env", p.Pos(pv.Node()), pv.Name, "version list separator", "client joins and server splits with \",\"", false)
		} else {
			c.R.Violate("R-TABLE/env", p.Pos(pv.Node()), pv.Name, "version list separator", "the server does not split the version list on \",\"", nil)
		}
	}
}

func (p *Prog) fieldByQualifiedName(pkgPath, typeName, field string) *types.Var {
	for _, pk := range p.All {
		var find func(tp *types.Package) *types.Var
		seen := map[*types.Package]bool{}
		find = func(tp *types.Package) *types.Var {
			if tp == nil || seen[tp] {
				return nil
			}
			seen[tp] = true
			if tp.Path() == pkgPath {
				if o := tp.Scope().Lookup(typeName); o != nil {
					if st, ok := o.Type().Underlying().(*types.Struct); ok {
						for i := 0; i < st.NumFields(); i++ {
							if st.Field(i).Name() == field {
								return st.Field(i)
							}
						}
					}
				}
				return nil
			}
			for _, imp := range tp.Imports() {
				if v := find(imp); v != nil {
					return v
				}
			}
			return nil
		}
		if v := find(pk.Types); v != nil {
			return v
		}
	}
	return nil
}

// legacyFoldBeforeOffer: the legacy ProtocolVersion/Plugins pair is stored into
// ClientConfig.VersionedPlugins before the offered version list is built from its keys.
func (p *Prog) legacyFoldBeforeOffer(c *Ctx, f *Func) {
	info := f.Pkg.TypesInfo
	g := p.Graph(f)
	vpF := p.FieldObj(modPath, "ClientConfig", "VersionedPlugins")
	var foldN, rangeN *Node
	for _, m := range g.Nodes {
		if as, ok := m.Ast.(*ast.AssignStmt); ok && len(as.Lhs) == 1 {
			if ix, ok := ast.Unparen(as.Lhs[0]).(*ast.IndexExpr); ok && SelField(info, ix.X) == vpF {
				foldN = m
			}
		}
	}
	ast.Inspect(f.Body, func(x ast.Node) bool {
		if rs, ok := x.(*ast.RangeStmt); ok && SelField(info, rs.X) == vpF {
			rangeN = g.NodeOf(rs.X)
		}
		return true
	})
	if foldN != nil && rangeN != nil {
		_, before := g.ReachAfter(foldN, nil, nil)[rangeN]
		_, afterwards := g.ReachAfter(rangeN, nil, nil)[foldN]
		if before && !afterwards {
			c.R.Hold("R-NEG", p.Pos(foldN.Ast), f.Name, "legacy version folded in before the offer is built", "", true)
		} else {
			c.R.Violate("R-NEG", p.Pos(foldN.Ast), f.Name, "legacy version folded in before the offer is built", "the legacy ProtocolVersion/Plugins pair is added after the offered list was built: it is accepted but never offered", nil)
		}
	} else {
		// folded in by the constructor, which runs before any Start
		if nc := p.Fn("NewClient"); nc != nil && foldN == nil && rangeN != nil {
			ninfo := nc.Pkg.TypesInfo
			inCtor := false
			ast.Inspect(nc.Body, func(x ast.Node) bool {
				if as, ok := x.(*ast.AssignStmt); ok && len(as.Lhs) == 1 {
					if ix, ok := ast.Unparen(as.Lhs[0]).(*ast.IndexExpr); ok && SelField(ninfo, ix.X) == vpF {
						inCtor = true
					}
				}
				return true
			})
			if inCtor {
				c.R.Hold("R-NEG", p.Pos(nc.Node()), nc.Name, "legacy version folded in before the offer is built", "the fold is in NewClient, which runs before Start builds the offer", true)
				return
			}
		}
		c.R.Violate("R-NEG", p.Pos(f.Node()), f.Name, "legacy version folded in before the offer is built", "no store of the legacy plugin set into ClientConfig.VersionedPlugins before the offer", nil)
	}
}
