package main

func init() {
	register(&propDef{ID: "T00", Rules: []func(*Ctx){ruleBound, ruleBoundRPC}, Explanation: "test", NotDecided: "n/a"})
}
