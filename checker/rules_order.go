package main

import (
	"fmt"
	"go/ast"
	"go/types"
	"strings"
)

// R-WRAPCLOSE — a listener built from a listener closes it.
func ruleWrapClose(c *Ctx) {
	p := c.P
	netPkg := findImported(p, "net")
	if netPkg == nil {
		c.R.Undecided("R-WRAPCLOSE", "", "net.Listener", "package net not found")
		return
	}
	lnType := netPkg.Scope().Lookup("Listener").Type()
	lnIface := lnType.Underlying().(*types.Interface)
	n := 0
	for _, nt := range p.moduleNamedTypes() {
		st, ok := nt.Underlying().(*types.Struct)
		if !ok {
			continue
		}
		pt := types.NewPointer(nt)
		if !types.Implements(pt, lnIface) && !types.Implements(nt, lnIface) {
			continue
		}
		tname := nt.Obj().Name()
		if nt.Obj().Pkg().Path() != modPath {
			tname = nt.Obj().Pkg().Name() + "." + tname
		}
		// listener-typed fields
		var lnFields []*types.Var
		for i := 0; i < st.NumFields(); i++ {
			if types.Identical(st.Field(i).Type(), lnType) {
				lnFields = append(lnFields, st.Field(i))
			}
		}
		// constructors: functions in scope with a net.Listener parameter that build a T
		var ctors []*Func
		for _, f := range p.Funcs {
			if f.Decl == nil {
				continue
			}
			hasLnParam := false
			for _, fd := range f.Type.Params.List {
				if t := f.Pkg.TypesInfo.TypeOf(fd.Type); t != nil && types.Identical(t, lnType) {
					hasLnParam = true
				}
			}
			if !hasLnParam {
				continue
			}
			builds := false
			ast.Inspect(f.Body, func(x ast.Node) bool {
				if cl, ok := x.(*ast.CompositeLit); ok {
					if t := f.Pkg.TypesInfo.TypeOf(cl); t != nil && types.Identical(t, nt) {
						builds = true
					}
				}
				return true
			})
			if builds {
				ctors = append(ctors, f)
			}
		}
		if len(lnFields) == 0 && len(ctors) == 0 {
			continue // a listener that wraps nothing (blocked listeners)
		}
		closeFn := p.Fn(tname + ".Close")
		n++
		if len(lnFields) == 0 {
			c.R.Violate("R-WRAPCLOSE", p.Pos(ctors[0].Node()), tname+".Close", tname+" wraps a net.Listener",
				tname+" is built from a net.Listener by "+ctors[0].Name+" but does not retain it, so its Close cannot close the wrapped listener: the wrapped listener's socket file is never removed", nil)
			continue
		}
		if closeFn == nil {
			// Close promoted from the embedded listener itself
			c.R.Hold("R-WRAPCLOSE", "-", tname, tname+" wraps a net.Listener", "Close is promoted from the embedded listener", false)
			continue
		}
		g := p.Graph(closeFn)
		info := closeFn.Pkg.TypesInfo
		for _, lf := range lnFields {
			isClose := func(m *Node) bool {
				for _, cc := range callsIn(m.Ast) {
					se, ok := ast.Unparen(cc.Fun).(*ast.SelectorExpr)
					if ok && se.Sel.Name == "Close" && SelField(info, se.X) == lf {
						return true
					}
				}
				return false
			}
			seen := g.Reach([]*Node{g.Entry}, isClose, nil)
			construct := tname + "." + lf.Name() + " closed by Close"
			if _, bad := seen[g.Exit]; bad {
				c.R.Violate("R-WRAPCLOSE", p.Pos(closeFn.Node()), closeFn.Name, construct,
					"there is a path through Close that does not close the wrapped listener "+lf.Name(), p.PathTo(seen, g.Exit))
			} else {
				c.R.Hold("R-WRAPCLOSE", p.Pos(closeFn.Node()), closeFn.Name, construct, "every path through Close calls Close on the wrapped listener", true)
			}
		}
		// constructors must store their listener parameter in the field
		for _, ct := range ctors {
			cinfo := ct.Pkg.TypesInfo
			stored := false
			ast.Inspect(ct.Body, func(x ast.Node) bool {
				cl, ok := x.(*ast.CompositeLit)
				if !ok {
					return true
				}
				if t := cinfo.TypeOf(cl); t == nil || !types.Identical(t, nt) {
					return true
				}
				for _, el := range cl.Elts {
					kv, ok := el.(*ast.KeyValueExpr)
					if !ok {
						continue
					}
					if k, ok := kv.Key.(*ast.Ident); ok {
						for _, lf := range lnFields {
							if k.Name == lf.Name() {
								if v, ok := identObj(cinfo, kv.Value).(*types.Var); ok && isParamOf(cinfo, ct, v) {
									stored = true
								}
							}
						}
					}
				}
				return true
			})
			construct := ct.Name + " stores its listener"
			if stored {
				c.R.Hold("R-WRAPCLOSE", p.Pos(ct.Node()), ct.Name, construct, "the listener parameter is stored in the field Close closes", true)
			} else {
				c.R.Violate("R-WRAPCLOSE", p.Pos(ct.Node()), ct.Name, construct, "the constructor does not store its net.Listener parameter in the wrapper's listener field", nil)
			}
		}
	}
	// rmListener: Close also runs the extra close func; the file listener removes the listened path
	if rm := p.Fn("rmListener.Close"); rm != nil {
		g := p.Graph(rm)
		info := rm.Pkg.TypesInfo
		cf := p.FieldObj(modPath, "rmListener", "close")
		isExtra := func(m *Node) bool {
			for _, cc := range callsIn(m.Ast) {
				if SelField(info, cc.Fun) == cf {
					return true
				}
			}
			return false
		}
		// paths on which the inner Close failed may return early
		cut := func(e *Edge) bool {
			at, ok := edgeAtom(info, e)
			return ok && at.Kind == "nil" && at.Op.String() == "!=" && isErrorType(info.TypeOf(at.X))
		}
		seen := g.Reach([]*Node{g.Entry}, isExtra, cut)
		if _, bad := seen[g.Exit]; bad || cf == nil {
			c.R.Violate("R-WRAPCLOSE", p.Pos(rm.Node()), rm.Name, "rmListener.close invoked", "Close can return without running the extra close function (socket file not removed)", p.PathTo(seen, g.Exit))
		} else {
			c.R.Hold("R-WRAPCLOSE", p.Pos(rm.Node()), rm.Name, "rmListener.close invoked", "every path on which the wrapped Close succeeded runs the extra close function", true)
		}
		n++
	} else {
		c.R.Undecided("R-WRAPCLOSE", "rmListener.Close", "anchor", "function not found")
	}
	if df := p.Fn("newDeleteFileListener"); df != nil {
		info := df.Pkg.TypesInfo
		ok := false
		var pathParam *types.Var
		for _, fd := range df.Type.Params.List {
			for _, nm := range fd.Names {
				if v, isV := info.Defs[nm].(*types.Var); isV && types.Identical(v.Type(), types.Typ[types.String]) {
					pathParam = v
				}
			}
		}
		ast.Inspect(df.Body, func(x ast.Node) bool {
			if call, isC := x.(*ast.CallExpr); isC && p.CalleeName(df, call) == "os.Remove" && len(call.Args) == 1 {
				if identObj(info, call.Args[0]) == pathParam && pathParam != nil {
					ok = true
				}
			}
			return true
		})
		if ok {
			c.R.Hold("R-WRAPCLOSE", p.Pos(df.Node()), df.Name, "close func removes the path", "os.Remove(path) on the constructor's path parameter", true)
		} else {
			c.R.Violate("R-WRAPCLOSE", p.Pos(df.Node()), df.Name, "close func removes the path", "the delete-file listener does not os.Remove its path parameter", nil)
		}
		// the unix listener passes the same path to net.Listen and to the wrapper
		if su := p.Fn("serverListener_unix"); su != nil {
			sinfo := su.Pkg.TypesInfo
			var listenPath, wrapPath types.Object
			wrapsListen := false
			var listenVar types.Object
			for _, call := range su.Calls() {
				switch p.CalleeName(su, call) {
				case "net.Listen":
					if len(call.Args) == 2 {
						listenPath = identObj(sinfo, call.Args[1])
						if v := assignedVar(p, sinfo, call); v != nil {
							listenVar = v
						}
					}
				case modPath + ".newDeleteFileListener":
					if len(call.Args) == 2 {
						wrapPath = identObj(sinfo, call.Args[1])
						if listenVar != nil && identObj(sinfo, call.Args[0]) == listenVar {
							wrapsListen = true
						}
					}
				}
			}
			if listenPath != nil && listenPath == wrapPath && wrapsListen {
				c.R.Hold("R-WRAPCLOSE", p.Pos(su.Node()), su.Name, "unix listener wrapped with its own path", "net.Listen and newDeleteFileListener receive the same path variable and the listener", true)
			} else {
				c.R.Violate("R-WRAPCLOSE", p.Pos(su.Node()), su.Name, "unix listener wrapped with its own path", "the Unix listener is not wrapped by the delete-file listener with the path it listens on", nil)
			}
			n++
		}
		n++
	}
	if n < 4 {
		c.R.Undecided("R-WRAPCLOSE", "", "instance-floor", fmt.Sprintf("only %d wrapper obligations found, expected at least 4", n))
	}
}

func findImported(p *Prog, path string) *types.Package {
	for _, sp := range scopePkgs {
		for _, imp := range p.Pkgs[sp].Types.Imports() {
			if imp.Path() == path {
				return imp
			}
		}
	}
	return nil
}

// R-ORDER/O8 — in the multiplexed branch of GRPCBroker.Accept the listener for
// the id is registered before the goroutine that answers knocks is started.
func ruleOrderO8(c *Ctx) {
	p := c.P
	f := p.Fn("GRPCBroker.Accept")
	if f == nil {
		c.R.Undecided("R-ORDER/O8", "GRPCBroker.Accept", "anchor", "function not found")
		return
	}
	g := p.Graph(f)
	ci := p.Calls()
	var reg []*Node
	var knockGo []*Node
	for _, cs := range ci.sites[f] {
		if strings.HasSuffix(cs.Full, "grpcmux.GRPCMuxer.Listener") && cs.Node != nil {
			reg = append(reg, cs.Node)
		}
		if cs.Kind == "go" && cs.Node != nil {
			reach := p.ReachableFuncs(cs.Callees, false)
			for rf := range reach {
				for _, rcs := range ci.sites[rf] {
					if strings.HasSuffix(rcs.Full, "grpcmux.GRPCMuxer.AcceptKnock") {
						knockGo = append(knockGo, cs.Node)
					}
				}
			}
		}
	}
	if len(reg) == 0 || len(knockGo) == 0 {
		c.R.Undecided("R-ORDER/O8", f.Name, "listener registration / knock goroutine", fmt.Sprintf("anchors not found (registrations=%d, knock goroutines=%d)", len(reg), len(knockGo)))
		return
	}
	for _, kg := range knockGo {
		ok := g.DominatedBy(kg, func(n *Node) bool {
			for _, r := range reg {
				if n == r {
					return true
				}
			}
			return false
		})
		construct := "muxer.Listener(id) before go listenForKnocks"
		if ok {
			c.R.Hold("R-ORDER/O8", p.Pos(kg.Ast), f.Name, construct, "the registration dominates the go statement whose body reaches AcceptKnock", true)
		} else {
			seen := g.Reach([]*Node{g.Entry}, func(n *Node) bool {
				for _, r := range reg {
					if n == r {
						return true
					}
				}
				return false
			}, nil)
			c.R.Violate("R-ORDER/O8", p.Pos(kg.Ast), f.Name, construct,
				"the goroutine that answers knocks (-> muxer.AcceptKnock) is started on a path that has not yet registered the listener for the id: a knock that is already pending (dial-first) is acknowledged before a listener exists",
				p.PathTo(seen, kg))
		}
	}
}
