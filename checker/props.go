package main

func init() {
	register(&propDef{ID: "T00", Rules: []func(*Ctx){ruleErrL1, ruleErrL2}, Explanation: "test", NotDecided: "n/a"})
}
