package main

import (
	"fmt"
	"go/ast"
	"go/constant"
	"go/token"
	"go/types"
	"sort"
	"strings"
)

// R-LOCKBLOCK — nothing blocks while a mutex may be held.

// lockBlockExceptions: "holder function|lock" -> reason. The exception covers
// blocking operations executed while that function holds that lock.
// Serialisation locks (see serialLockVars in roles.go): bounded waits (class
// B: timer arm, class C: cancellation arm) are allowed under them, bare waits
// (D, W) are not.

// lockBlockExceptions: "lock|operation descriptor" -> reason.
var lockBlockExceptions = map[string]string{
	"grpcmux.GRPCClientMuxer.acceptMutex|send grpcmux.blockedClientListener.waitCh": "unblock() puts one token into a capacity-1 channel whose consumer is the gRPC accept loop (R-SLOT checks the capacity)",
}

// peerIO: library calls that wait for the other process.
var peerIO = map[string]bool{
	"encoding/binary.Read": true, "io.ReadFull": true, "io.ReadAll": true,
	"net.Dial": true, "net.DialTimeout": true, "net.Dialer.Dial": true, "net.Dialer.DialContext": true,
	"net.Listener.Accept":                                                              true,
	"github.com/hashicorp/yamux.Session.Open":                                          true,
	"github.com/hashicorp/yamux.Session.OpenStream":                                    true,
	"github.com/hashicorp/yamux.Session.Accept":                                        true,
	"github.com/hashicorp/yamux.Session.AcceptStream":                                  true,
	"net/rpc.Client.Call":                                                              true,
	"google.golang.org/grpc.ClientConn.Invoke":                                         true,
	"github.com/hashicorp/go-plugin/internal/plugin.GRPCBroker_StartStreamClient.Recv": true,
}

func ruleLockBlock(c *Ctx) {
	p := c.P
	ci := p.Calls()
	serial, serialHolders := p.serialLocks()
	for _, f := range p.Funcs {
		li := p.Locks(f)
		g := p.Graph(f)
		entry := p.EntryHeld(f)
		// own blocking operations
		type cand struct {
			node  *Node
			desc  string
			site  string
			op    string
			class string
		}
		var cands []cand
		for _, op := range p.BlockOps(f) {
			if op.Class == "A" || op.Node == nil {
				continue
			}
			cands = append(cands, cand{op.Node, op.Desc + " [" + op.Class + "]", p.Pos(op.Ast), op.Desc, op.Class})
		}
		for _, cs := range ci.sites[f] {
			if cs.Kind == "go" || cs.Node == nil {
				continue
			}
			callees := append([]*Func{}, cs.Callees...)
			if cs.ViaOnce {
				callees = append(callees, cs.ArgLits...)
			}
			for _, ce := range callees {
				if w := p.MayBlock(ce); w != nil {
					cands = append(cands, cand{cs.Node, "call " + ce.Name + " -> " + w.Desc + " [" + w.Class + "] in " + w.F.Name, p.Pos(cs.Call), w.Desc, w.Class})
				}
			}
		}
		// network I/O that waits for the peer: a read of the acknowledgement, the
		// opening or accepting of a stream or connection
		for _, call := range f.Calls() {
			nm := p.CalleeName(f, call)
			if !peerIO[nm] {
				continue
			}
			if n := g.NodeOf(call); n != nil {
				cands = append(cands, cand{n, "call " + shortName(nm) + " [IO]", p.Pos(call), "io " + shortName(nm), "IO"})
			}
		}
		for _, cd := range cands {
			held := li.may[cd.node].clone()
			for v := range entry {
				held[v] = true
			}
			if len(held) == 0 {
				continue
			}
			for v := range held {
				ln := p.lockName(v)
				construct := ln + " held at " + cd.desc
				// which function holds the lock: this one, or a caller (entry-held)
				holder := f.Name
				if entry[v] && !li.may[cd.node][v] {
					holder = "(callers of) " + f.Name
				}
				if reason, ok := lockBlockExceptions[ln+"|"+cd.op]; ok {
					c.R.Except("R-LOCKBLOCK", cd.site, f.Name, construct, reason)
					continue
				}
				// taken in this function's own region: only the designated holders are excused
				designated := !li.may[cd.node][v] || serialHolders[v][f]
				if reason, ok := serial[v]; ok && designated && (cd.class == "B" || cd.class == "C") {
					c.R.Except("R-LOCKBLOCK", cd.site, f.Name, construct, "bounded wait under a serialisation lock: "+reason)
					continue
				}
				if reason, ok := serial[v]; ok && designated && cd.class == "IO" {
					c.R.Except("R-LOCKBLOCK", cd.site, f.Name, construct, "connecting is what the serialisation lock serialises: "+reason)
					continue
				}
				c.R.Violate("R-LOCKBLOCK", cd.site, f.Name, construct,
					fmt.Sprintf("a blocking operation executes while %s may be held by %s; every other user of that lock can be wedged behind it", ln, holder), nil)
			}
		}
	}
	// obligations that hold: every lock region examined
	for _, f := range p.Funcs {
		li := p.Locks(f)
		seen := map[string]bool{}
		for n, s := range li.may {
			if n.Ast == nil {
				continue
			}
			for v := range s {
				ln := p.lockName(v)
				if !seen[ln] {
					seen[ln] = true
				}
			}
		}
		for ln := range seen {
			bad := false
			for _, o := range c.R.Obs {
				if o.Rule == "R-LOCKBLOCK" && o.Func == f.Name && strings.HasPrefix(o.Construct, ln+" held at ") {
					bad = true
				}
			}
			if !bad {
				c.R.Hold("R-LOCKBLOCK", p.Pos(f.Node()), f.Name, "region of "+ln, "no send/receive/select/Wait/Sleep, own or in synchronous module callees, while the lock may be held", true)
			}
		}
	}
	c.R.Floor("R-LOCKBLOCK", 20)
}

// ---- debugging aid: dump blocking ops ----

func ruleDumpBlock(c *Ctx) {
	p := c.P
	for _, f := range p.Funcs {
		for _, op := range p.BlockOps(f) {
			fmt.Printf("BLOCK %-28s %-45s %s %s timer=%s k=%d\n", p.Pos(op.Ast), f.Name, op.Class, op.Desc, op.Timer, op.TimerK)
		}
	}
	for _, f := range p.Funcs {
		if e := p.EntryHeld(f); len(e) > 0 {
			fmt.Printf("ENTRYHELD %-40s %s\n", f.Name, e.names(p))
		}
	}
}

// R-BOUND — blocking operations are bounded or terminate.

type boundReq struct {
	Func     string
	Arm      string // an arm descriptor the select must contain (locates it by role)
	NeedCtx  bool   // must also have a cancellation arm
	TimerSrc string // required origin of the duration ("" = any constant)
	MaxConst int64  // upper bound for a constant duration in ns (0 = no check)
	Why      string
}

var sec = int64(1000000000)

var boundReqs = []boundReq{
	{"Client.Start", "recv local:chan string", true, "ClientConfig.StartTimeout", 0, "waiting for the handshake line ends at StartTimeout or when the plugin exits"},
	{"Client.Kill", "recv call:context.Context.Done", true, "", 10 * sec, "grace period after the shutdown request is a short constant"},
	{"MuxBroker.Accept", "recv muxBrokerPending.ch", false, "", 10 * sec, "an accept whose peer never dials fails after the pending window"},
	{"MuxBroker.timeoutWait", "recv muxBrokerPending.doneCh", false, "", 10 * sec, "a parked connection expires after the pending window"},
	{"GRPCBroker.DialWithOptions", "recv gRPCBrokerPending.ch", false, "", 10 * sec, "a dial whose peer never accepts fails after the pending window"},
	{"GRPCBroker.knock", "recv gRPCBrokerPending.ch", false, "", 10 * sec, "an unanswered knock fails after the pending window"},
	{"GRPCBroker.timeoutWait", "recv gRPCBrokerPending.doneCh", false, "", 10 * sec, "pending connection info expires after the pending window"},
	{"grpcmux.GRPCServerMuxer.session", "recv grpcmux.GRPCServerMuxer.sessionErrCh", false, "", 10 * sec, "waiting for the initial multiplexed connection is bounded"},
}

// reviewedBare: "function|descriptor" -> reason a bare (class D / W) wait is acceptable.
var reviewedBare = map[string]string{
	"grpcmux.GRPCServerMuxer.acceptSession|send grpcmux.GRPCServerMuxer.sessionErrCh": "rendezvous with session(), which every user of the muxer calls first; the channel is closed afterwards",
	"grpcmux.GRPCServerMuxer.Accept|send local:chan grpcmux.acceptResult":             "hand-off of the accepted stream to the brokered listener registered for the knocked id (blockedServerListener.Accept)",
	"grpcmux.GRPCServerMuxer.AcceptKnock|send grpcmux.GRPCServerMuxer.knockCh":        "capacity-1 token consumed by the muxer's Accept loop (R-SLOT checks the capacity)",
	"grpcmux.blockedClientListener.unblock|send grpcmux.blockedClientListener.waitCh": "capacity-1 token consumed by the listener's Accept (R-SLOT checks the capacity)",
	"cmdrunner.pidWait|range C":                        "one-second poll of a reattached pid; ends when the process is gone",
	"CleanupClients|wait local:sync.WaitGroup":         "waits for one Kill per managed client; Kill is bounded",
	"Client.Kill|wait Client.clientWaitGroup":          "Kill waits for the management goroutines, which end when the process is reaped",
	"Client.Start|wait Client.pipesWaitGroup":          "the reaper waits for both pipe readers, which end at EOF of the plugin's pipes",
	"Client.Start|send local:chan string":              "stdout line hand-off; a consumer always exists: Start's select, then the deferred drain goroutine (R-ORDER O4)",
	"Client.Start|range local:chan string":             "drain until the scanner goroutine closes the channel at EOF",
	"Serve|send local:chan<- *plugin.ReattachConfig":   "test mode only: the test harness receives the reattach config",
	"Serve|send ServeTestConfig.ReattachConfigCh":      "test mode only: the test harness receives the reattach config (same send, written on the field instead of a local alias)",
	"Serve|recv local:chan struct{}":                   "after cancellation Serve waits for the server's done channel, closed by Serve()/Quit",
	"Serve|recv local:chan os.Signal":                  "interrupt eater goroutine; lives as long as the plugin process",
	"gRPCBrokerServer.StartStream|send sendErr.ch":     "reply to Send(), which is blocked receiving on this per-call channel",
	"gRPCBrokerClientImpl.StartStream|send sendErr.ch": "reply to Send(), which is blocked receiving on this per-call channel",
	"gRPCBrokerServer.Send|recv local:chan error":      "reply from the stream pump for the request just handed over",
	"gRPCBrokerClientImpl.Send|recv local:chan error":  "reply from the stream pump for the request just handed over",
	"copyChan|send local:chan<- []byte":                "deliberate back-pressure of synced stdio (C11): the chunk hand-off must stay a blocking send",
}

// reviewedBareSites: entries of reviewedBare that cover more than one site.
var reviewedBareSites = map[string]int{
	"Client.Start|range local:chan string":                                            0, // the reviewed drain runs in a goroutine; Start itself never ranges over the line channel
	"grpcmux.GRPCServerMuxer.acceptSession|send grpcmux.GRPCServerMuxer.sessionErrCh": 2, // the error and the success report of the same rendezvous
}

func ruleBound(c *Ctx) { ruleBoundScoped(c, nil) }

func ruleBoundScoped(c *Ctx, only func(*Func) bool) {
	p := c.P
	// 1. required bounded waits
	for _, rq := range boundReqs {
		f := p.Fn(rq.Func)
		if f == nil {
			c.R.Undecided("R-BOUND/req", rq.Func, rq.Arm, "anchor function not found")
			continue
		}
		if only != nil && !only(f) {
			continue
		}
		var found []*BlockOp
		for _, op := range p.BlockOps(f) {
			if op.Kind == "select" && has(op.Arms, rq.Arm) {
				found = append(found, op)
			}
		}
		// the wait may have been turned into a bare receive: look for it
		if len(found) == 0 {
			for _, op := range p.BlockOps(f) {
				if (op.Kind == "recv" || op.Kind == "range") && op.Desc == rq.Arm {
					c.R.Violate("R-BOUND/req", p.Pos(op.Ast), f.Name, "wait on "+rq.Arm, "the wait is a bare receive without timer or cancellation arm: "+rq.Why, nil)
					found = append(found, op)
				}
			}
			if len(found) == 0 {
				c.R.Undecided("R-BOUND/req", f.Name, "wait on "+rq.Arm, "no select with this arm found in the function; "+rq.Why)
			}
			continue
		}
		for _, op := range found {
			construct := "wait on " + rq.Arm
			info := f.Pkg.TypesInfo
			switch {
			case op.Class != "B":
				c.R.Violate("R-BOUND/req", p.Pos(op.Ast), f.Name, construct, "class "+op.Class+" ("+op.Desc+"): no timer arm; "+rq.Why, nil)
			case rq.NeedCtx && !op.HasCtx:
				c.R.Violate("R-BOUND/req", p.Pos(op.Ast), f.Name, construct, "no cancellation arm ("+op.Desc+"); "+rq.Why, nil)
			case rq.TimerSrc != "" && !p.timerFromField(f, op, rq.TimerSrc):
				c.R.Violate("R-BOUND/req", p.Pos(op.Ast), f.Name, construct, "timer duration "+op.Timer+" does not originate from "+rq.TimerSrc, nil)
			case p.timerRearmed(f, op) != "":
				c.R.Violate("R-BOUND/req", p.Pos(op.Ast), f.Name, construct, "the bounding timer is created anew on every pass of the enclosing loop and "+p.timerRearmed(f, op)+" sends control back into the loop: the timer bounds the quiet interval between two such events, not the wait; "+rq.Why, nil)
			case rq.MaxConst > 0 && (op.TimerK <= 0 || op.TimerK > rq.MaxConst):
				c.R.Violate("R-BOUND/req", p.Pos(op.Ast), f.Name, construct, fmt.Sprintf("timer duration %s is not a positive constant of at most %d s", op.Timer, rq.MaxConst/sec), nil)
			default:
				_ = info
				c.R.Hold("R-BOUND/req", p.Pos(op.Ast), f.Name, construct, op.Desc+" timer="+op.Timer, true)
			}
		}
	}
	// 2. every bare wait is reviewed
	reviewedBareSeen := map[string]int{}
	goLits := map[*Func]bool{}
	{
		ci := p.Calls()
		for _, sites := range ci.sites {
			for _, cs := range sites {
				if cs.Kind == "go" {
					for _, ce := range cs.Callees {
						if ce != nil && ce.Lit != nil {
							goLits[ce] = true
						}
					}
				}
			}
		}
	}
	inGoroutine := func(f *Func) bool {
		for x := f; x != nil; x = x.Parent {
			if goLits[x] {
				return true
			}
		}
		return false
	}
	for _, f := range p.Funcs {
		if only != nil && !only(f) {
			continue
		}
		if strings.HasSuffix(p.Fset.Position(f.Body.Pos()).Filename, "testing.go") {
			continue
		}
		for _, op := range p.BlockOps(f) {
			switch op.Class {
			case "A":
				c.R.Hold("R-BOUND/site", p.Pos(op.Ast), f.Name, op.Desc, "non-blocking (default arm)", false)
			case "B":
				c.R.Hold("R-BOUND/site", p.Pos(op.Ast), f.Name, op.Desc, "timer arm "+op.Timer, false)
			case "C":
				c.R.Hold("R-BOUND/site", p.Pos(op.Ast), f.Name, op.Desc, "cancellation arm", false)
			default:
				desc := op.Desc
				if _, ok := reviewedBare[rootName(f)+"|"+desc]; !ok {
					// `for range ch` waits like `for { <-ch }` and additionally ends
					// when the channel is closed: a reviewed bare receive covers it
					if strings.HasPrefix(desc, "range ") {
						desc = "recv " + strings.TrimPrefix(desc, "range ")
					}
				}
				key := rootName(f) + "|" + desc
				if _, ok := reviewedBare[key]; !ok && !knownFuncs[rootName(f)] {
					// a method of a type the reference tree does not have (shared code
					// pulled out of sibling implementations): a reviewed entry for the
					// same method name and the same operation on a known type covers it
					if i := strings.LastIndex(rootName(f), "."); i >= 0 {
						meth := rootName(f)[i:]
						var cands []string
						for k := range reviewedBare {
							if j := strings.Index(k, "|"); j >= 0 && strings.HasSuffix(k[:j], meth) && k[j+1:] == desc {
								cands = append(cands, k)
							}
						}
						if len(cands) > 0 {
							sort.Strings(cands)
							key = cands[0]
						}
					}
				}
				if _, ok := reviewedBare[key]; !ok {
					// the reviewed operation moved: exactly one reviewed entry has this
					// descriptor and its function no longer exists (renamed, or a
					// private helper that the normaliser inlined into this function)
					var cands []string
					for k := range reviewedBare {
						if j := strings.Index(k, "|"); j >= 0 && k[j+1:] == desc && p.Fn(k[:j]) == nil {
							cands = append(cands, k)
						}
					}
					if len(cands) == 1 {
						key = cands[0]
					}
				}
				if reason, ok := reviewedBare[key]; ok {
					// a reviewed entry is an argument about the sites that existed when
					// it was written: one more bare wait of the same description in the
					// same function is a new site, not a reviewed one
					// a wait inside a goroutine body cannot hold up the function that
					// started it: further drains of the same kind in goroutines are not
					// counted; a wait in the function's own (synchronous) code is
					if inGoroutine(f) {
						c.R.Except("R-BOUND/site", p.Pos(op.Ast), f.Name, op.Desc, reason)
						continue
					}
					reviewedBareSeen[key]++
					allowed, tabled := reviewedBareSites[key]
					if !tabled {
						allowed = 1
					}
					if reviewedBareSeen[key] > allowed {
						c.R.Violate("R-BOUND/site", p.Pos(op.Ast), f.Name, op.Desc+" (additional site)",
							fmt.Sprintf("the function has more bare waits of this kind than the %d that were reviewed: the additional one has no default, timer or cancellation arm and nobody argued that it ends", allowed), nil)
						continue
					}
					c.R.Except("R-BOUND/site", p.Pos(op.Ast), f.Name, op.Desc, reason)
				} else if k, n := p.bufferedLocalSend(f, op.Ast); n > 0 && int64(n) <= k {
					c.R.Hold("R-BOUND/site", p.Pos(op.Ast), f.Name, op.Desc, fmt.Sprintf("send on a local channel made with capacity %d that has %d send site(s), none repeated by a loop the channel is not created in: the buffer holds every send", k, n), false)
				} else {
					c.R.Violate("R-BOUND/site", p.Pos(op.Ast), f.Name, op.Desc, "bare blocking operation (no default, timer or cancellation arm) that is not in the reviewed table: it can wait forever", nil)
				}
			}
		}
	}
	if only == nil {
		c.R.Floor("R-BOUND/site", 40)
	}
}

// timerFromField: the duration expression of op's timer arm is a selection of
// the named config field.
func (p *Prog) timerFromField(f *Func, op *BlockOp, field string) bool {
	info := f.Pkg.TypesInfo
	ok := false
	s, _ := op.Ast.(*ast.SelectStmt)
	if s == nil {
		return false
	}
	for _, cl := range s.Body.List {
		cc := cl.(*ast.CommClause)
		if cc.Comm == nil {
			continue
		}
		var ch ast.Expr
		switch cm := cc.Comm.(type) {
		case *ast.ExprStmt:
			if u, isU := ast.Unparen(cm.X).(*ast.UnaryExpr); isU {
				ch = u.X
			}
		case *ast.AssignStmt:
			if u, isU := ast.Unparen(cm.Rhs[0]).(*ast.UnaryExpr); isU {
				ch = u.X
			}
		}
		if ch == nil {
			continue
		}
		if isT, dur := p.isTimerChan(f, ch); isT && dur != nil {
			if fv := SelField(info, dur); fv != nil && p.FieldName(fv) == field {
				ok = true
			}
		}
	}
	return ok
}

// R-BOUND/rpc — the graceful-shutdown RPC issued by ClientProtocol.Close must
// carry a deadline, and the net/rpc control call relies on yamux keep-alive.
func ruleBoundRPC(c *Ctx) {
	p := c.P
	n := 0
	for _, f := range p.Funcs {
		if f.Decl == nil || f.Obj == nil || f.Obj.Name() != "Close" {
			continue
		}
		if !p.implementsClientProtocol(f) {
			continue
		}
		info := f.Pkg.TypesInfo
		for _, call := range f.Calls() {
			full := p.CalleeName(f, call)
			if len(call.Args) == 0 {
				continue
			}
			at := info.TypeOf(call.Args[0])
			if at == nil || at.String() != "context.Context" {
				continue
			}
			if !strings.Contains(full, "/internal/plugin.") && !strings.Contains(full, "grpc") {
				continue
			}
			n++
			construct := "context of " + shortName(full)
			org := p.ctxOrigin(f, call.Args[0])
			if org == "context.WithTimeout" || org == "context.WithDeadline" {
				c.R.Hold("R-BOUND/rpc", p.Pos(call), f.Name, construct, "context originates from "+org, true)
			} else {
				c.R.Violate("R-BOUND/rpc", p.Pos(call), f.Name, construct,
					"the shutdown RPC is issued with a context that has no deadline (origin: "+org+"); a plugin that does not answer blocks Close, and therefore Client.Kill, forever", nil)
			}
		}
		for _, call := range f.Calls() {
			if p.CalleeName(f, call) == "net/rpc.Client.Call" {
				n++
				c.R.Except("R-BOUND/rpc", p.Pos(call), f.Name, "net/rpc control call", "synchronous call on a yamux stream: it fails when yamux keep-alive declares the session dead (default config, checked below)")
			}
		}
	}
	// yamux sessions for net/rpc are created with the default (nil) config: keep-alive stays on
	for _, f := range p.Funcs {
		for _, call := range f.Calls() {
			full := p.CalleeName(f, call)
			if full == "github.com/hashicorp/yamux.Client" || full == "github.com/hashicorp/yamux.Server" {
				n++
				info := f.Pkg.TypesInfo
				arg := call.Args[1]
				if isNilIdent(info, arg) {
					c.R.Hold("R-BOUND/rpc", p.Pos(call), f.Name, "yamux config of "+shortName(full), "nil config = yamux defaults (keep-alive enabled)", false)
					continue
				}
				// a config variable: must come from yamux.DefaultConfig() and never disable keep-alive
				bad := ""
				ast.Inspect(f.Body, func(x ast.Node) bool {
					if as, ok := x.(*ast.AssignStmt); ok {
						for i, l := range as.Lhs {
							if se, ok := l.(*ast.SelectorExpr); ok && se.Sel.Name == "EnableKeepAlive" && i < len(as.Rhs) {
								if id, ok := as.Rhs[i].(*ast.Ident); ok && id.Name == "false" {
									bad = "EnableKeepAlive set to false"
								}
							}
						}
					}
					return true
				})
				if bad != "" {
					c.R.Violate("R-BOUND/rpc", p.Pos(call), f.Name, "yamux config of "+shortName(full), bad+": a dead peer is no longer detected", nil)
				} else {
					c.R.Hold("R-BOUND/rpc", p.Pos(call), f.Name, "yamux config of "+shortName(full), "config keeps keep-alive enabled", false)
				}
			}
		}
	}
	if n < 5 {
		c.R.Undecided("R-BOUND/rpc", "", "instance-floor", fmt.Sprintf("only %d obligations, expected at least 5", n))
	}
}

func (p *Prog) implementsClientProtocol(f *Func) bool {
	cp := p.Pkgs[modPath].Types.Scope().Lookup("ClientProtocol")
	if cp == nil {
		return false
	}
	iface, ok := cp.Type().Underlying().(*types.Interface)
	if !ok {
		return false
	}
	sig := f.Obj.Type().(*types.Signature)
	if sig.Recv() == nil {
		return false
	}
	return types.Implements(sig.Recv().Type(), iface)
}

// ctxOrigin names the producer of a context expression: the callee that
// defined the variable (single definition), the field it is read from, or
// "context.Background"/"context.TODO".
func (p *Prog) ctxOrigin(f *Func, e ast.Expr) string {
	info := f.Pkg.TypesInfo
	e = ast.Unparen(e)
	switch x := e.(type) {
	case *ast.CallExpr:
		return p.CalleeName(f, x)
	case *ast.SelectorExpr:
		if fv := SelField(info, x); fv != nil {
			return "field " + p.FieldName(fv)
		}
	case *ast.Ident:
		v, ok := info.Uses[x].(*types.Var)
		if !ok {
			return "?"
		}
		org := ""
		n := 0
		ast.Inspect(f.Body, func(y ast.Node) bool {
			as, ok := y.(*ast.AssignStmt)
			if !ok {
				return true
			}
			for i, l := range as.Lhs {
				if identObj(info, l) != v {
					continue
				}
				n++
				var rhs ast.Expr
				if len(as.Rhs) == len(as.Lhs) {
					rhs = as.Rhs[i]
				} else {
					rhs = as.Rhs[0]
				}
				org = p.ctxOrigin(f, rhs)
			}
			return true
		})
		if n == 1 {
			return org
		}
		if n == 0 {
			return "parameter " + v.Name()
		}
		return "multiple definitions"
	}
	return "?"
}

// bufferedLocalSend: op is a send statement on a local channel variable that
// is defined once by make(chan T, K) with a constant K. It returns K and the
// number of send sites on that variable in the enclosing top-level function
// (function literals included); n is 0 when the shape is not recognised or a
// send site is repeated by a loop that does not also contain the make.
func (p *Prog) bufferedLocalSend(f *Func, op ast.Node) (k int64, n int) {
	send, ok := op.(*ast.SendStmt)
	if !ok {
		return 0, 0
	}
	info := f.Pkg.TypesInfo
	v, ok := identObj(info, send.Chan).(*types.Var)
	if !ok || v.IsField() || v.Parent() == nil || v.Parent() == f.Pkg.Types.Scope() {
		return 0, 0
	}
	root := f
	for root.Parent != nil {
		root = root.Parent
	}
	var mk *ast.CallExpr
	defs := 0
	innermostLoop := func(target ast.Node) ast.Node {
		var loop ast.Node
		var stack []ast.Node
		ast.Inspect(root.Body, func(x ast.Node) bool {
			if x == nil {
				stack = stack[:len(stack)-1]
				return false
			}
			stack = append(stack, x)
			if x == target {
				for i := len(stack) - 1; i >= 0; i-- {
					switch stack[i].(type) {
					case *ast.ForStmt, *ast.RangeStmt:
						loop = stack[i]
						return false
					}
				}
			}
			return true
		})
		return loop
	}
	var sends []ast.Node
	bad := false
	ast.Inspect(root.Body, func(x ast.Node) bool {
		switch y := x.(type) {
		case *ast.AssignStmt:
			for i, l := range y.Lhs {
				if identObj(info, l) == v {
					defs++
					if len(y.Lhs) == len(y.Rhs) {
						if call, ok := ast.Unparen(y.Rhs[i]).(*ast.CallExpr); ok && p.CalleeName(root, call) == "builtin.make" && len(call.Args) == 2 {
							mk = call
						}
					}
				}
			}
		case *ast.ValueSpec:
			for i, nm := range y.Names {
				if info.Defs[nm] == v {
					defs++
					if len(y.Values) == len(y.Names) {
						if call, ok := ast.Unparen(y.Values[i]).(*ast.CallExpr); ok && p.CalleeName(root, call) == "builtin.make" && len(call.Args) == 2 {
							mk = call
						}
					}
				}
			}
		case *ast.SendStmt:
			if identObj(info, y.Chan) == v {
				sends = append(sends, y)
			}
		case *ast.CallExpr:
			// the channel handed to something else: sends we cannot see
			for _, a := range y.Args {
				if identObj(info, a) == v && p.CalleeName(root, y) != "builtin.close" && p.CalleeName(root, y) != "builtin.len" && p.CalleeName(root, y) != "builtin.cap" {
					bad = true
				}
			}
		}
		return true
	})
	if mk == nil || defs != 1 || bad {
		return 0, 0
	}
	kk, isK := constInt(info, mk.Args[1])
	if !isK || kk < 1 {
		return 0, 0
	}
	mkLoop := innermostLoop(mk)
	for _, sd := range sends {
		if innermostLoop(sd) != mkLoop {
			return 0, 0
		}
	}
	return int64(kk), len(sends)
}

// ---------- R-BOUND/closepath: the shutdown request made by Kill waits only on timers ----------

// ruleClosePathBounded: Client.Kill asks the plugin to exit by calling Close on
// the protocol client and only afterwards arms its grace timer and, if that
// elapses, kills the process. A wait inside Close that ends on the exit
// context (the plugin going away) or on an event the plugin controls is
// circular there: a plugin that does not go away keeps Kill in Close for
// ever, and the forced kill is never reached. Every channel wait in the two
// Close implementations (and in private module functions they call
// synchronously, two levels deep) therefore has a timer arm or a default arm.
func ruleClosePathBounded(c *Ctx) {
	p := c.P
	ci := p.Calls()
	n := 0
	for _, name := range []string{"GRPCClient.Close", "RPCClient.Close"} {
		root := p.Fn(name)
		if root == nil {
			c.R.Undecided("R-BOUND/closepath", name, "anchor", "function not found")
			continue
		}
		seen := map[*Func]bool{}
		var visit func(f *Func, depth int)
		visit = func(f *Func, depth int) {
			if f == nil || seen[f] || depth > 2 {
				return
			}
			seen[f] = true
			for _, op := range p.BlockOps(f) {
				n++
				switch op.Class {
				case "A", "B":
					c.R.Hold("R-BOUND/closepath", p.Pos(op.Ast), f.Name, op.Desc, "default or timer arm", false)
				default:
					if op.Kind == "wait" || op.Kind == "sleep" {
						continue
					}
					c.R.Violate("R-BOUND/closepath", p.Pos(op.Ast), f.Name, op.Desc,
						"a wait without timer arm inside the protocol client's Close (class "+op.Class+"): Client.Kill calls Close before it arms the grace timer, so a plugin that neither answers nor exits keeps Kill here and is never killed", nil)
				}
			}
			for _, cs := range ci.sites[f] {
				if cs.Kind != "call" || cs.IsIface || cs.Dynamic {
					continue
				}
				for _, ce := range cs.Callees {
					if ce != nil && ce.Obj != nil && !ce.Obj.Exported() && ce.Lit == nil {
						visit(ce, depth+1)
					}
				}
			}
		}
		visit(root, 0)
		c.R.Hold("R-BOUND/closepath", p.Pos(root.Node()), root.Name, "channel waits of the close path", fmt.Sprintf("%d channel waits examined so far, all with a timer or default arm", n), true)
	}
}

// ---------- R-BOUND/ready: no RPC of the library waits for the connection to come up ----------

// ruleNoWaitForReady: gRPC calls fail fast by default - a call on a connection
// that cannot be established returns Unavailable. grpc.WaitForReady(true) (and
// its old spelling FailFast(false)) turns that into a wait that ends only with
// the call's context; the library's own calls run on the plugin's exit context
// or on none, under the client lock, so for a plugin that never becomes
// reachable Client() would never return. No function of the module builds that
// call option.
func ruleNoWaitForReady(c *Ctx) {
	p := c.P
	bad := false
	for _, f := range p.Funcs {
		if !notTesting(p, f) {
			continue
		}
		info := f.Pkg.TypesInfo
		for _, call := range f.Calls() {
			nm := p.CalleeName(f, call)
			waits := false
			switch nm {
			case "google.golang.org/grpc.WaitForReady":
				waits = true
				if len(call.Args) == 1 {
					if tv, ok := info.Types[call.Args[0]]; ok && tv.Value != nil && tv.Value.Kind() == constant.Bool && !constant.BoolVal(tv.Value) {
						waits = false
					}
				}
			case "google.golang.org/grpc.FailFast":
				waits = true
				if len(call.Args) == 1 {
					if tv, ok := info.Types[call.Args[0]]; ok && tv.Value != nil && tv.Value.Kind() == constant.Bool && constant.BoolVal(tv.Value) {
						waits = false
					}
				}
			}
			if waits {
				bad = true
				c.R.Violate("R-BOUND/ready", p.Pos(call), f.Name, "call option "+shortName(nm), "the library makes a gRPC call that waits for the connection to become ready instead of failing fast: against a plugin that never becomes reachable the call (and with it Client(), which holds the client lock) returns only when its context ends - the plugin's exit context, or never", nil)
			}
		}
	}
	if !bad {
		c.R.Hold("R-BOUND/ready", "-", "", "library RPCs fail fast", "no grpc.WaitForReady(true) / FailFast(false) call option is built anywhere in the module", false)
	}
}


// timerRearmed: the select of a required bounded wait sits in a loop, its
// timer arm receives from a timer made in the arm itself (time.After(d),
// time.NewTimer(d).C: made again each time the select is entered), and another
// arm can complete without leaving the loop. Returns a description of that
// arm, or "" if the timer bounds the whole wait. A loop that consults the
// clock itself (time.Since, time.Now, time.Until) is left alone.
func (p *Prog) timerRearmed(f *Func, op *BlockOp) string {
	sel, ok := op.Ast.(*ast.SelectStmt)
	if !ok {
		return ""
	}
	var loop ast.Node
	for cur := p.Parent(sel); cur != nil && loop == nil; cur = p.Parent(cur) {
		switch cur.(type) {
		case *ast.ForStmt, *ast.RangeStmt:
			loop = cur
		case *ast.FuncLit, *ast.FuncDecl:
			return ""
		}
	}
	if loop == nil {
		return ""
	}
	clock := false
	// a clock test counts only as a condition: if/for condition that mentions time.Since / time.Now / time.Until
	ast.Inspect(loop, func(x ast.Node) bool {
		var cond ast.Expr
		switch s := x.(type) {
		case *ast.IfStmt:
			cond = s.Cond
		case *ast.ForStmt:
			cond = s.Cond
		}
		if cond != nil {
			ast.Inspect(cond, func(y ast.Node) bool {
				if call, ok := y.(*ast.CallExpr); ok {
					switch p.CalleeName(f, call) {
					case "time.Since", "time.Now", "time.Until":
						clock = true
					}
				}
				return true
			})
		}
		return true
	})
	if clock {
		return ""
	}
	fresh := false
	var looping string
	for _, st := range sel.Body.List {
		cc, ok := st.(*ast.CommClause)
		if !ok || cc.Comm == nil {
			continue
		}
		isTimer := false
		ast.Inspect(cc.Comm, func(x ast.Node) bool {
			if call, ok := x.(*ast.CallExpr); ok {
				switch p.CalleeName(f, call) {
				case "time.After", "time.NewTimer":
					isTimer = true
				}
			}
			return true
		})
		if isTimer {
			fresh = true
			continue
		}
		leaves := false
		if n := len(cc.Body); n > 0 {
			switch s := cc.Body[n-1].(type) {
			case *ast.ReturnStmt:
				leaves = true
			case *ast.BranchStmt:
				leaves = s.Tok == token.GOTO || (s.Tok == token.BREAK && s.Label != nil)
			case *ast.ExprStmt:
				if call, ok := s.X.(*ast.CallExpr); ok {
					n := p.CalleeName(f, call)
					leaves = n == "builtin.panic" || n == "os.Exit"
				}
			}
		}
		if !leaves && looping == "" {
			looping = "the arm at " + p.Pos(cc)
		}
	}
	if fresh && looping != "" {
		return looping
	}
	return ""
}
