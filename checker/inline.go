package main

import (
	"bytes"
	"fmt"
	"go/ast"
	"go/format"
	"go/parser"
	"go/token"
	"go/types"
	"os"
	"reflect"
	"regexp"
	"sort"
	"strings"

	"golang.org/x/tools/go/ast/astutil"
)

// Helper inlining (pre-pass). Most rules are intra-procedural on a handful of
// anchor functions. A behaviour-preserving edit that extracts part of such a
// function into a new private helper would hide that part from them. Before
// the rules run, calls to private functions that are NOT part of the reference
// tree (knownfuncs.go) are therefore inlined source-to-source into their
// callers; the rewritten files are type-checked again through
// packages.Config.Overlay and the rules analyse that program. Nothing is
// written to /repo. If a call cannot be inlined safely it is left alone; if the
// rewritten program does not type-check the original program is analysed.

type inlineJob struct {
	caller *Func
	callee *Func
	call   *ast.CallExpr
}

// inlineOverlay returns rewritten sources for files in which calls to new
// helpers were inlined, plus notes describing what was done.
func (p *Prog) inlineOverlay() (map[string][]byte, []string) {
	ci := p.Calls()
	var jobs []inlineJob
	newFns := map[*Func]bool{}
	for _, f := range p.Funcs {
		if f.Decl == nil || f.Obj == nil || knownFuncs[f.Name] {
			continue
		}
		// a new exported function is treated like a new private helper when the
		// module itself calls it (the old entry point delegating to its new,
		// more general variant: Dial -> DialContext, Start -> StartContext); one
		// nobody in the module calls is a new entry point and stays as it is
		if f.Obj.Exported() && len(ci.callers[f]) == 0 {
			continue
		}
		// ... and only on a type the reference tree already has (or at package
		// level): the exported methods of a new private type are that type's
		// interface, which the rules recognise by role
		if f.Obj.Exported() && f.Decl.Recv != nil {
			prefix := f.Name[:strings.LastIndex(f.Name, ".")+1]
			knownType := false
			for k := range knownFuncs {
				if strings.HasPrefix(k, prefix) {
					knownType = true
					break
				}
			}
			if !knownType {
				continue
			}
		}
		if strings.HasSuffix(p.Fset.Position(f.Body.Pos()).Filename, "testing.go") {
			continue
		}
		sig := f.Obj.Type().(*types.Signature)
		if sig.TypeParams() != nil {
			continue
		}
		recursive := false
		for _, cs := range ci.sites[f] {
			if hasFunc(cs.Callees, f) {
				recursive = true
			}
		}
		if recursive {
			continue
		}
		newFns[f] = true
	}
	if len(newFns) == 0 {
		return nil, nil
	}
	// leaf-first: a helper that itself calls other new helpers is inlined in a
	// later round, after those calls were inlined into it (otherwise its copied
	// body would still call helpers that this round removes)
	nonLeaf := map[*Func]bool{}
	for f := range newFns {
		for _, cs := range ci.sites[f] {
			for _, ce := range cs.Callees {
				if ce != nil && ce != f && newFns[ce] {
					nonLeaf[f] = true
				}
			}
		}
		// literals inside the helper calling new helpers count as well
		for _, lf := range p.Funcs {
			if lf.Lit == nil {
				continue
			}
			root := lf
			for root.Parent != nil {
				root = root.Parent
			}
			if root != f {
				continue
			}
			for _, cs := range ci.sites[lf] {
				for _, ce := range cs.Callees {
					if ce != nil && ce != f && newFns[ce] {
						nonLeaf[f] = true
					}
				}
			}
		}
	}
	for f := range newFns {
		if nonLeaf[f] {
			continue
		}
		for _, cs := range ci.callers[f] {
			if len(cs.Callees) != 1 || cs.IsIface || newFns[cs.Caller] && false {
				continue
			}
			jobs = append(jobs, inlineJob{cs.Caller, f, cs.Call})
		}
	}
	if len(jobs) == 0 {
		return nil, nil
	}
	// group by caller file
	byFile := map[string][]inlineJob{}
	for _, j := range jobs {
		fn := p.Fset.Position(j.call.Pos()).Filename
		byFile[fn] = append(byFile[fn], j)
	}
	overlay := map[string][]byte{}
	var notes []string
	inlinedAll := map[*Func]int{}
	for fn, js := range byFile {
		src := p.Overlay[fn]
		if src == nil {
			b, err := os.ReadFile(fn)
			if err != nil {
				continue
			}
			src = b
		}
		fset := token.NewFileSet()
		file, err := parser.ParseFile(fset, fn, src, parser.ParseComments)
		if err != nil {
			continue
		}
		// process inner-most / later call sites first
		sort.Slice(js, func(a, b int) bool { return js[a].call.Pos() > js[b].call.Pos() })
		changed := false
		for i, j := range js {
			off := p.Fset.Position(j.call.Pos()).Offset
			inlineSeq++
			_ = i
			// locals of a helper that has no error result are marked ("h"): an
			// error such a helper deals with is dealt with - it could not have
			// reported it - and R-ERR/L2 does not hold the caller to it
			sfx := fmt.Sprintf("_i%d", inlineSeq)
			if !hasErrorResult(j.callee) {
				sfx += "h"
			}
			if p.inlineOne(fset, file, off, j, sfx) {
				changed = true
				inlinedAll[j.callee]++
				notes = append(notes, fmt.Sprintf("inlined helper %s into %s at %s", j.callee.Name, j.caller.Name, p.Pos(j.call)))
			}
		}
		if !changed {
			continue
		}
		unhoistConds(file)
		p.liftFreshChanFields(file)
		lowerTimeoutCtxWaits(file)
		var buf bytes.Buffer
		if err := format.Node(&buf, fset, file); err != nil {
			continue
		}
		overlay[fn] = buf.Bytes()
	}
	if len(overlay) == 0 {
		return nil, nil
	}
	// helpers whose every call site was inlined are removed from the overlay
	// source (they are dead); if that breaks compilation the caller falls back.
	for f, n := range inlinedAll {
		if n != len(ci.callers[f]) || p.takenAsValue(f) {
			continue
		}
		fn := p.Fset.Position(f.Decl.Pos()).Filename
		src := overlay[fn]
		if src == nil {
			src = p.Overlay[fn]
		}
		if src == nil {
			b, err := os.ReadFile(fn)
			if err != nil {
				continue
			}
			src = b
		}
		fset := token.NewFileSet()
		file, err := parser.ParseFile(fset, fn, src, parser.ParseComments)
		if err != nil {
			continue
		}
		removed := false
		for i, d := range file.Decls {
			fd, ok := d.(*ast.FuncDecl)
			if !ok || fd.Name.Name != f.Decl.Name.Name {
				continue
			}
			if (fd.Recv == nil) != (f.Decl.Recv == nil) {
				continue
			}
			if fd.Recv != nil && recvTypeName(fd) != recvTypeName(f.Decl) {
				continue
			}
			// drop the declaration and its doc comment
			if fd.Doc != nil {
				for k, cg := range file.Comments {
					if cg == fd.Doc {
						file.Comments = append(file.Comments[:k], file.Comments[k+1:]...)
						break
					}
				}
			}
			file.Decls = append(file.Decls[:i], file.Decls[i+1:]...)
			removed = true
			break
		}
		if removed {
			// imports only the removed helper used would now be unused
			p.pruneImports(fset, file)
			var buf bytes.Buffer
			if err := format.Node(&buf, fset, file); err == nil {
				overlay[fn] = buf.Bytes()
				notes = append(notes, "removed fully inlined helper "+f.Name)
			}
		}
	}
	return overlay, notes
}

func recvTypeName(fd *ast.FuncDecl) string {
	if fd.Recv == nil || len(fd.Recv.List) == 0 {
		return ""
	}
	t := fd.Recv.List[0].Type
	if s, ok := t.(*ast.StarExpr); ok {
		t = s.X
	}
	if id, ok := t.(*ast.Ident); ok {
		return id.Name
	}
	return ""
}

// deepCopy copies an AST subtree; identMap maps each new identifier to the
// original one (for type-information lookups). Positions are cleared.
func deepCopy(n ast.Node, identMap map[*ast.Ident]*ast.Ident) ast.Node {
	v := copyValue(reflect.ValueOf(n), identMap)
	if !v.IsValid() {
		return nil
	}
	out, _ := v.Interface().(ast.Node)
	return out
}

var posType = reflect.TypeOf(token.NoPos)

func copyValue(v reflect.Value, identMap map[*ast.Ident]*ast.Ident) reflect.Value {
	switch v.Kind() {
	case reflect.Interface:
		if v.IsNil() {
			return v
		}
		c := copyValue(v.Elem(), identMap)
		out := reflect.New(v.Type()).Elem()
		out.Set(c)
		return out
	case reflect.Ptr:
		if v.IsNil() {
			return v
		}
		switch v.Interface().(type) {
		case *ast.Object, *ast.Scope:
			return reflect.Zero(v.Type())
		case *ast.CommentGroup:
			return reflect.Zero(v.Type())
		}
		out := reflect.New(v.Type().Elem())
		out.Elem().Set(copyValue(v.Elem(), identMap))
		if id, ok := v.Interface().(*ast.Ident); ok {
			identMap[out.Interface().(*ast.Ident)] = id
		}
		return out
	case reflect.Struct:
		out := reflect.New(v.Type()).Elem()
		for i := 0; i < v.NumField(); i++ {
			f := v.Field(i)
			if f.Type() == posType {
				// positions are cleared, except the ones that carry meaning: a
				// valid CallExpr.Ellipsis means f(xs...), a valid Ellipsis.Ellipsis /
				// ChanType.Arrow / etc. are only layout
				if v.Type().Name() == "CallExpr" && v.Type().Field(i).Name == "Ellipsis" && f.Int() != 0 {
					out.Field(i).SetInt(1)
				}
				continue
			}
			if !out.Field(i).CanSet() {
				continue
			}
			out.Field(i).Set(copyValue(f, identMap))
		}
		return out
	case reflect.Slice:
		if v.IsNil() {
			return v
		}
		out := reflect.MakeSlice(v.Type(), v.Len(), v.Len())
		for i := 0; i < v.Len(); i++ {
			out.Index(i).Set(copyValue(v.Index(i), identMap))
		}
		return out
	default:
		return v
	}
}

func isPureExpr(e ast.Expr) bool {
	switch x := ast.Unparen(e).(type) {
	case *ast.Ident:
		return true
	case *ast.SelectorExpr:
		return isPureExpr(x.X)
	case *ast.BasicLit:
		return true
	case *ast.IndexExpr:
		return isPureExpr(x.X) && isPureExpr(x.Index)
	case *ast.StarExpr:
		return isPureExpr(x.X)
	case *ast.UnaryExpr:
		// &x of a pure operand denotes the same object every time it is evaluated
		if x.Op == token.AND {
			return isPureExpr(x.X)
		}
	}
	return false
}

// inlineOne rewrites, in the freshly parsed file, the statement containing the
// call at byte offset off. Returns false if the call form is not supported.
func (p *Prog) inlineOne(fset *token.FileSet, file *ast.File, off int, j inlineJob, suffix string) bool {
	ok := p.inlineOneImpl(fset, file, off, j, suffix)
	if !ok {
		// last resort for a form the statement-level inliner refuses (a body
		// with closures in its defers): the pure delegation, collapsed
		var call *ast.CallExpr
		var path, stack []ast.Node
		ast.Inspect(file, func(n ast.Node) bool {
			if n == nil {
				stack = stack[:len(stack)-1]
				return true
			}
			stack = append(stack, n)
			if c, isCall := n.(*ast.CallExpr); isCall && call == nil && fset.Position(c.Pos()).Offset == off {
				call = c
				path = append([]ast.Node{}, stack...)
			}
			return true
		})
		if call != nil && p.collapseDelegation(file, path, call, j) {
			return true
		}
	}
	if !ok && os.Getenv("GP_INLINE_DEBUG") != "" {
		fmt.Fprintf(os.Stderr, "INLINE-SKIP %s into %s at %s: %s\n", j.callee.Name, j.caller.Name, p.Pos(j.call), inlineWhy)
	}
	return ok
}

var inlineWhy string

// inlineSeq numbers inlined call sites across all rounds of one process so that
// generated labels and locals never collide.
var inlineSeq int

func (p *Prog) inlineOneImpl(fset *token.FileSet, file *ast.File, off int, j inlineJob, suffix string) bool {
	inlineWhy = "unsupported call form"
	callee := j.callee
	cinfo := callee.Pkg.TypesInfo
	if callee.Pkg != j.caller.Pkg {
		return false // cross-package: qualifiers would be needed
	}
	// locate the call and its statement in the fresh AST
	var call *ast.CallExpr
	var path []ast.Node
	var stack []ast.Node
	ast.Inspect(file, func(n ast.Node) bool {
		if n == nil {
			stack = stack[:len(stack)-1]
			return true
		}
		stack = append(stack, n)
		if c, ok := n.(*ast.CallExpr); ok && call == nil && fset.Position(c.Pos()).Offset == off {
			call = c
			path = append([]ast.Node{}, stack...)
		}
		return true
	})
	if call == nil || len(path) < 3 {
		return false
	}
	parent := path[len(path)-2]
	// x := A && H(...)  ->  x := A; if x { x = H(...) }   (same evaluation order)
	if be, ok := parent.(*ast.BinaryExpr); ok && be.Op == token.LAND && ast.Unparen(be.Y) == ast.Expr(call) && len(path) >= 4 {
		if as, ok := path[len(path)-3].(*ast.AssignStmt); ok && len(as.Lhs) == 1 && len(as.Rhs) == 1 && as.Rhs[0] == ast.Expr(be) {
			if lhs, ok := as.Lhs[0].(*ast.Ident); ok && lhs.Name != "_" {
				if _, inBlock := path[len(path)-4].(*ast.BlockStmt); inBlock {
					s1 := &ast.AssignStmt{Lhs: as.Lhs, Tok: as.Tok, Rhs: []ast.Expr{be.X}}
					inner := &ast.AssignStmt{Lhs: []ast.Expr{ast.NewIdent(lhs.Name)}, Tok: token.ASSIGN, Rhs: []ast.Expr{call}}
					s2 := &ast.IfStmt{Cond: ast.NewIdent(lhs.Name), Body: &ast.BlockStmt{List: []ast.Stmt{inner}}}
					if spliceStmt(file, as, []ast.Stmt{s1, s2}) {
						return p.inlineOneImpl(fset, file, off, j, suffix)
					}
					return false
				}
			}
		}
		// other positions of a short-circuit operand are handled further down
	}
	// callee facts
	sig := callee.Obj.Type().(*types.Signature)
	nres := sig.Results().Len()
	// A call nested in a larger expression of a simple statement is hoisted:
	//   S(... H(args) ...)  ->  tmp := H(args); S(... tmp ...)
	// provided nothing with side effects is evaluated before it within S.
	switch parent.(type) {
	case *ast.ExprStmt, *ast.GoStmt, *ast.DeferStmt, *ast.ReturnStmt, *ast.AssignStmt:
		if as, isAs := parent.(*ast.AssignStmt); isAs && (len(as.Rhs) != 1 || ast.Unparen(as.Rhs[0]) != ast.Expr(call)) {
			// H is one of several right-hand sides: hoist
		} else if rs, isRet := parent.(*ast.ReturnStmt); isRet && len(rs.Results) != 1 {
			// return a, H(): hoist
		} else {
			goto direct
		}
	}
	if nres == 1 {
		// nearest enclosing statement that sits in a statement list
		var stmt ast.Stmt
		for i := len(path) - 2; i >= 0; i-- {
			if st, ok := path[i].(ast.Stmt); ok {
				stmt = st
				if i > 0 {
					switch path[i-1].(type) {
					case *ast.BlockStmt, *ast.CaseClause, *ast.CommClause:
					default:
						stmt = nil
					}
				}
				break
			}
		}
		okHoist := stmt != nil
		switch st := stmt.(type) {
		case *ast.ExprStmt, *ast.AssignStmt, *ast.ReturnStmt, *ast.SendStmt:
		case *ast.RangeStmt:
			// the range expression is evaluated once, before the loop
			in := false
			ast.Inspect(st.X, func(n ast.Node) bool {
				if n == ast.Node(call) {
					in = true
				}
				return true
			})
			if !in {
				okHoist = false
			}
		case *ast.SwitchStmt:
			in := false
			if st.Tag != nil && st.Init == nil {
				ast.Inspect(st.Tag, func(n ast.Node) bool {
					if n == ast.Node(call) {
						in = true
					}
					return true
				})
			}
			if !in {
				okHoist = false
			}
		case *ast.IfStmt:
			// only from the condition of an if without init
			in := false
			ast.Inspect(st.Cond, func(n ast.Node) bool {
				if n == ast.Node(call) {
					in = true
				}
				return true
			})
			if st.Init != nil || !in {
				okHoist = false
			}
		default:
			okHoist = false
		}
		if okHoist {
			// nothing impure may be evaluated before the call inside stmt
			impure := false
			ast.Inspect(stmt, func(n ast.Node) bool {
				if n == nil || impure {
					return false
				}
				if _, isLit := n.(*ast.FuncLit); isLit {
					return false
				}
				if n.Pos() >= call.Pos() {
					return true
				}
				switch x := n.(type) {
				case *ast.CallExpr:
					if x.End() <= call.Pos() { // evaluated before
						if p.pureCtorCall(j.caller, file, x) {
							return false // a value constructor with pure operands: order does not matter
						}
						impure = true
					}
				case *ast.UnaryExpr:
					if x.Op == token.ARROW && x.End() <= call.Pos() {
						impure = true
					}
				case *ast.BinaryExpr:
					// short-circuit operators make evaluation of the call conditional
					if (x.Op == token.LAND || x.Op == token.LOR) && x.Y.Pos() <= call.Pos() && call.End() <= x.Y.End() {
						impure = true
					}
				}
				return true
			})
			ts := p.typeText(j.caller, sig.Results().At(0).Type())
			if !impure && ts != "" {
				if te, err := parser.ParseExpr(ts); err == nil {
					tmp := "hoisted" + suffix
					decl := &ast.DeclStmt{Decl: &ast.GenDecl{Tok: token.VAR, Specs: []ast.Spec{&ast.ValueSpec{Names: []*ast.Ident{ast.NewIdent(tmp)}, Type: te}}}}
					assign := &ast.AssignStmt{Lhs: []ast.Expr{ast.NewIdent(tmp)}, Tok: token.ASSIGN, Rhs: []ast.Expr{call}}
					// replace the call by the temporary inside stmt
					replaced := false
					astutil.Apply(stmt, func(c *astutil.Cursor) bool {
						if c.Node() == ast.Node(call) && !replaced {
							c.Replace(ast.NewIdent(tmp))
							replaced = true
							return false
						}
						return true
					}, nil)
					if replaced && insertBefore(file, stmt, []ast.Stmt{decl, assign}) {
						return p.inlineOneImpl(fset, file, off, j, suffix)
					}
				}
			}
		}
		// if A && H() && B { ... }: evaluate the chain step by step into a
		// temporary, preserving short-circuit order, then retry
		if ifs, ok := stmt.(*ast.IfStmt); ok && ifs.Init == nil && stmt != nil {
			var flat func(e ast.Expr, op token.Token) []ast.Expr
			flat = func(e ast.Expr, op token.Token) []ast.Expr {
				if be, ok := ast.Unparen(e).(*ast.BinaryExpr); ok && be.Op == op {
					return append(flat(be.X, op), flat(be.Y, op)...)
				}
				return []ast.Expr{e}
			}
			if be, ok := ast.Unparen(ifs.Cond).(*ast.BinaryExpr); ok && (be.Op == token.LAND || be.Op == token.LOR) {
				ops := flat(ifs.Cond, be.Op)
				holds := false
				for _, o := range ops {
					ast.Inspect(o, func(n ast.Node) bool {
						if n == ast.Node(call) {
							holds = true
						}
						return true
					})
				}
				if holds && len(ops) >= 2 {
					tmp := "cond" + suffix
					var seq []ast.Stmt
					seq = append(seq, &ast.AssignStmt{Lhs: []ast.Expr{ast.NewIdent(tmp)}, Tok: token.DEFINE, Rhs: []ast.Expr{ops[0]}})
					for _, o := range ops[1:] {
						var guard ast.Expr = ast.NewIdent(tmp)
						if be.Op == token.LOR {
							guard = &ast.UnaryExpr{Op: token.NOT, X: ast.NewIdent(tmp)}
						}
						seq = append(seq, &ast.IfStmt{Cond: guard, Body: &ast.BlockStmt{List: []ast.Stmt{
							&ast.AssignStmt{Lhs: []ast.Expr{ast.NewIdent(tmp)}, Tok: token.ASSIGN, Rhs: []ast.Expr{o}},
						}}})
					}
					ifs.Cond = ast.NewIdent(tmp)
					if insertBefore(file, stmt, seq) {
						r := p.inlineOneImpl(fset, file, off, j, suffix)
						if !r {
							inlineWhy = "after && normalisation: " + inlineWhy
						}
						return r
					}
					inlineWhy = "&& normalisation: statement is not in a statement list"
					return false
				}
			}
		}
		inlineWhy = "call is nested in an expression that cannot be hoisted safely"
		return false
	}
	return false
direct:
	hasDefer := false
	walkNoLit(callee.Body, func(n ast.Node) bool {
		if _, ok := n.(*ast.DeferStmt); ok {
			hasDefer = true
		}
		return true
	})
	// Deferred calls of the simple kind (mu.Unlock(), wg.Done(), close(ch), with
	// pure operands), written as top-level statements of the helper before any
	// return, are run explicitly after the inlined body instead.
	simpleDefers := false
	lateDefers := false
	if hasDefer {
		simpleDefers = true
		firstReturn := token.Pos(1 << 40)
		walkNoLit(callee.Body, func(n ast.Node) bool {
			if rs, ok := n.(*ast.ReturnStmt); ok && rs.Pos() < firstReturn {
				firstReturn = rs.Pos()
			}
			return true
		})
		top := map[ast.Stmt]bool{}
		for _, st := range callee.Body.List {
			top[st] = true
		}
		walkNoLit(callee.Body, func(n ast.Node) bool {
			ds, ok := n.(*ast.DeferStmt)
			if !ok {
				return true
			}
			if !top[ds] {
				simpleDefers = false
			} else if ds.Pos() > firstReturn {
				// registered after an early return: it runs only on the returns that
				// follow it (handled per return, see lateDefers)
				lateDefers = true
			}
			if _, isLit := ds.Call.Fun.(*ast.FuncLit); isLit {
				simpleDefers = false
			}
			if se, ok := ds.Call.Fun.(*ast.SelectorExpr); ok && !isPureExpr(se.X) {
				simpleDefers = false
			}
			for _, a := range ds.Call.Args {
				if !isPureExpr(a) {
					simpleDefers = false
				}
			}
			return true
		})
		// panics inside the helper would have run the deferred call too; only
		// accept helpers without explicit panic calls
		walkNoLit(callee.Body, func(n ast.Node) bool {
			if call, ok := n.(*ast.CallExpr); ok {
				if id, ok := call.Fun.(*ast.Ident); ok && id.Name == "panic" {
					simpleDefers = false
				}
			}
			return true
		})
		if simpleDefers {
			hasDefer = false
		}
	}
	// copy the body
	identMap := map[*ast.Ident]*ast.Ident{}
	body := deepCopy(callee.Body, identMap).(*ast.BlockStmt)
	// parameter / receiver bindings
	type bind struct {
		obj  types.Object
		arg  ast.Expr
		name string
	}
	var binds []bind
	var pre []ast.Stmt
	assignedParams := map[types.Object]bool{}
	ast.Inspect(callee.Body, func(n ast.Node) bool {
		switch s := n.(type) {
		case *ast.AssignStmt:
			for _, l := range s.Lhs {
				if o := identObj(cinfo, l); o != nil {
					assignedParams[o] = true
				}
			}
		case *ast.IncDecStmt:
			if o := identObj(cinfo, s.X); o != nil {
				assignedParams[o] = true
			}
		case *ast.UnaryExpr:
			if s.Op == token.AND {
				if o := identObj(cinfo, s.X); o != nil {
					assignedParams[o] = true
				}
			}
		}
		return true
	})
	bindFail := false
	addBind := func(nm *ast.Ident, arg ast.Expr) {
		if nm == nil || nm.Name == "_" {
			if !isPureExpr(arg) {
				pre = append(pre, &ast.AssignStmt{Lhs: []ast.Expr{ast.NewIdent("_")}, Tok: token.ASSIGN, Rhs: []ast.Expr{arg}})
			}
			return
		}
		obj := cinfo.Defs[nm]
		if obj == nil {
			return
		}
		used := usesObj(cinfo, callee.Body, obj, true)
		if id, isID := ast.Unparen(arg).(*ast.Ident); isID && id.Name == "nil" {
			// an untyped nil argument: substituting it would give `nil != nil`; the
			// parameter becomes a typed local holding its zero value
			ts := p.typeText(j.caller, obj.Type())
			te, err := parser.ParseExpr(ts)
			if ts == "" || err != nil {
				bindFail = true
				return
			}
			name := nm.Name + suffix
			pre = append(pre, &ast.DeclStmt{Decl: &ast.GenDecl{Tok: token.VAR, Specs: []ast.Spec{&ast.ValueSpec{Names: []*ast.Ident{ast.NewIdent(name)}, Type: te}}}})
			pre = append(pre, &ast.AssignStmt{Lhs: []ast.Expr{ast.NewIdent("_")}, Tok: token.ASSIGN, Rhs: []ast.Expr{ast.NewIdent(name)}})
			binds = append(binds, bind{obj, nil, name})
			return
		}
		if isPureExpr(arg) && !assignedParams[obj] {
			binds = append(binds, bind{obj, arg, ""})
			return
		}
		name := nm.Name + suffix
		if _, isLit := ast.Unparen(arg).(*ast.BasicLit); isLit && used {
			// an untyped constant bound to a parameter of a named type: `p := ""`
			// would make it a string, not a Protocol
			if ts := p.typeText(j.caller, obj.Type()); ts != "" {
				if te, err := parser.ParseExpr(ts); err == nil {
					pre = append(pre, &ast.DeclStmt{Decl: &ast.GenDecl{Tok: token.VAR, Specs: []ast.Spec{&ast.ValueSpec{Names: []*ast.Ident{ast.NewIdent(name)}, Type: te, Values: []ast.Expr{arg}}}}})
					binds = append(binds, bind{obj, nil, name})
					return
				}
			}
		}
		if used {
			pre = append(pre, &ast.AssignStmt{Lhs: []ast.Expr{ast.NewIdent(name)}, Tok: token.DEFINE, Rhs: []ast.Expr{arg}})
		} else if !isPureExpr(arg) {
			pre = append(pre, &ast.AssignStmt{Lhs: []ast.Expr{ast.NewIdent("_")}, Tok: token.ASSIGN, Rhs: []ast.Expr{arg}})
		}
		binds = append(binds, bind{obj, nil, name})
	}
	if callee.Decl.Recv != nil && len(callee.Decl.Recv.List) == 1 {
		se, ok := ast.Unparen(call.Fun).(*ast.SelectorExpr)
		if !ok {
			return false
		}
		var rn *ast.Ident
		if len(callee.Decl.Recv.List[0].Names) == 1 {
			rn = callee.Decl.Recv.List[0].Names[0]
		}
		addBind(rn, se.X)
	}
	// a variadic helper is inlined only where the call spreads a slice into the
	// variadic parameter (f(a, xs...)): the parameter is then just that slice
	if csig, ok := callee.Obj.Type().(*types.Signature); ok && csig.Variadic() {
		if !call.Ellipsis.IsValid() || len(call.Args) != csig.Params().Len() {
			inlineWhy = "a variadic helper is called without spreading a slice into its variadic parameter"
			return false
		}
	}
	ai := 0
	for _, fd := range callee.Decl.Type.Params.List {
		if len(fd.Names) == 0 {
			if ai < len(call.Args) {
				addBind(nil, call.Args[ai])
			}
			ai++
			continue
		}
		for _, nm := range fd.Names {
			if ai >= len(call.Args) {
				return false
			}
			addBind(nm, call.Args[ai])
			ai++
		}
	}
	if bindFail {
		inlineWhy = "the type of a parameter that receives an untyped nil cannot be written in the caller's file"
		return false
	}
	// named results become locals
	var resultNames []string
	var resultDecls []ast.Stmt
	named := false
	if callee.Decl.Type.Results != nil {
		for _, fd := range callee.Decl.Type.Results.List {
			for _, nm := range fd.Names {
				named = true
				rn := nm.Name + suffix
				resultNames = append(resultNames, rn)
				obj := cinfo.Defs[nm]
				binds = append(binds, bind{obj, nil, rn})
				ts := p.typeText(j.caller, obj.Type())
				if ts == "" {
					return false
				}
				te, err := parser.ParseExpr(ts)
				if err != nil {
					return false
				}
				resultDecls = append(resultDecls, &ast.DeclStmt{Decl: &ast.GenDecl{Tok: token.VAR, Specs: []ast.Spec{&ast.ValueSpec{Names: []*ast.Ident{ast.NewIdent(rn)}, Type: te}}}})
				// a named result the helper never mentions would be an unused local
				resultDecls = append(resultDecls, &ast.AssignStmt{Lhs: []ast.Expr{ast.NewIdent("_")}, Tok: token.ASSIGN, Rhs: []ast.Expr{ast.NewIdent(rn)}})
			}
		}
	}
	bindOf := map[types.Object]bind{}
	for _, b := range binds {
		if b.obj != nil {
			bindOf[b.obj] = b
		}
	}
	// free package-level names used by the callee must not be shadowed at the call site
	callerScope := j.caller.Pkg.Types.Scope().Innermost(j.call.Pos())
	shadow := false
	shadowName := ""
	usedFree := map[string]bool{} // package names and package-level names the helper's body refers to
	needImports := map[string]string{}
	defer func() {
		// imports are added even if a later step fails; unused imports would break the
		// overlay, so they are only added on success (see below)
	}()
	for ni, oi := range identMap {
		_ = ni
		o := cinfo.Uses[oi]
		if o == nil || o.Pkg() == nil {
			continue
		}
		if !isPkgName(o) && o.Pkg() != j.caller.Pkg.Types {
			// a qualified name (tls.Client): only its package name can be shadowed
			continue
		}
		if o.Parent() == o.Pkg().Scope() || isPkgName(o) {
			usedFree[oi.Name] = true
			if callerScope != nil {
				_, found := callerScope.LookupParent(oi.Name, j.call.Pos())
				if pn, isPN := o.(*types.PkgName); isPN {
					// package names are per-file objects: the caller's file must import the same package under the same name
					if found == nil {
						needImports[pn.Imported().Path()] = pn.Name()
						continue
					}
					fpn, ok := found.(*types.PkgName)
					if !ok || fpn.Imported() != pn.Imported() {
						shadow = true
						shadowName = oi.Name
					}
					continue
				}
				if found != nil && found != o {
					shadow = true
					shadowName = oi.Name
				}
			}
		}
	}
	addImports := func() {
		for path, name := range needImports {
			base := path
			if i := strings.LastIndex(path, "/"); i >= 0 {
				base = path[i+1:]
			}
			if name == base {
				astutil.AddImport(fset, file, path)
			} else {
				astutil.AddNamedImport(fset, file, name, path)
			}
		}
	}
	if shadow {
		inlineWhy = "a package-level or imported name used by the helper (" + shadowName + ") is shadowed (or not imported) at the call site"
		return false
	}
	// rename locals and substitute parameters
	calleeLo, calleeHi := callee.Decl.Pos(), callee.Decl.End()
	body = astutil.Apply(body, func(c *astutil.Cursor) bool {
		id, ok := c.Node().(*ast.Ident)
		if !ok {
			return true
		}
		oi := identMap[id]
		if oi == nil {
			return true
		}
		// selector field names and composite-literal keys are not references to locals
		if se, ok := c.Parent().(*ast.SelectorExpr); ok && se.Sel == id {
			return true
		}
		obj := cinfo.Uses[oi]
		if obj == nil {
			obj = cinfo.Defs[oi]
		}
		if obj == nil {
			return true
		}
		if b, ok := bindOf[obj]; ok {
			if b.arg != nil {
				im := map[*ast.Ident]*ast.Ident{}
				if _, isKV := c.Parent().(*ast.KeyValueExpr); isKV && c.Name() == "Key" {
					return true
				}
				c.Replace(deepCopy(b.arg, im))
			} else {
				id.Name = b.name
			}
			return true
		}
		if v, isVar := obj.(*types.Var); isVar && v.IsField() {
			return true
		}
		if obj.Pos() >= calleeLo && obj.Pos() < calleeHi && obj.Parent() != nil && obj.Parent() != obj.Pkg().Scope() {
			id.Name = id.Name + suffix
		} else if _, isLabel := obj.(*types.Label); isLabel {
			id.Name = id.Name + suffix
		}
		return true
	}, nil).(*ast.BlockStmt)

	// helper: rewrite returns (not inside literals) into assignments + break
	label := "inl" + suffix
	earlyReturn := false
	retDefers := map[*ast.ReturnStmt][]ast.Expr{} // late simple defers: the calls registered before each return
	rewriteReturns := func(targets []ast.Expr, define bool) bool {
		ok := true
		var lastStmt ast.Stmt
		if len(body.List) > 0 {
			lastStmt = body.List[len(body.List)-1]
		}
		body = astutil.Apply(body, func(c *astutil.Cursor) bool {
			if _, isLit := c.Node().(*ast.FuncLit); isLit {
				return false
			}
			rs, isRet := c.Node().(*ast.ReturnStmt)
			if !isRet {
				return true
			}
			var stmts []ast.Stmt
			var results []ast.Expr
			if len(rs.Results) == 0 && named {
				for _, rn := range resultNames {
					results = append(results, ast.NewIdent(rn))
				}
			} else {
				results = rs.Results
			}
			if len(targets) > 0 {
				if len(results) == 1 && len(targets) > 1 {
					// return f() with multiple results: t1, t2 = f()
					var lhs []ast.Expr
					for _, t := range targets {
						im := map[*ast.Ident]*ast.Ident{}
						lhs = append(lhs, deepCopy(t, im).(ast.Expr))
					}
					stmts = append(stmts, &ast.AssignStmt{Lhs: lhs, Tok: token.ASSIGN, Rhs: []ast.Expr{results[0]}})
					for k := len(retDefers[rs]) - 1; k >= 0; k-- {
						im := map[*ast.Ident]*ast.Ident{}
						stmts = append(stmts, &ast.ExprStmt{X: deepCopy(retDefers[rs][k], im).(ast.Expr)})
					}
					if ast.Stmt(rs) != lastStmt {
						earlyReturn = true
						stmts = append(stmts, &ast.BranchStmt{Tok: token.BREAK, Label: ast.NewIdent(label)})
					}
					c.Replace(&ast.BlockStmt{List: stmts})
					return false
				}
				if len(results) != len(targets) {
					ok = false
					return false
				}
				var lhs, rhs []ast.Expr
				for i, t := range targets {
					if id, isID := t.(*ast.Ident); isID && id.Name == "_" {
						if !isPureExpr(results[i]) {
							lhs = append(lhs, ast.NewIdent("_"))
							rhs = append(rhs, results[i])
						}
						continue
					}
					im := map[*ast.Ident]*ast.Ident{}
					lhs = append(lhs, deepCopy(t, im).(ast.Expr))
					rhs = append(rhs, results[i])
				}
				if len(lhs) > 0 {
					stmts = append(stmts, &ast.AssignStmt{Lhs: lhs, Tok: token.ASSIGN, Rhs: rhs})
				}
			} else {
				for _, r := range results {
					if !isPureExpr(r) {
						stmts = append(stmts, &ast.AssignStmt{Lhs: []ast.Expr{ast.NewIdent("_")}, Tok: token.ASSIGN, Rhs: []ast.Expr{r}})
					}
				}
			}
			// simple deferred calls registered before this return run now (after
			// the results were evaluated), latest first
			for k := len(retDefers[rs]) - 1; k >= 0; k-- {
				im := map[*ast.Ident]*ast.Ident{}
				stmts = append(stmts, &ast.ExprStmt{X: deepCopy(retDefers[rs][k], im).(ast.Expr)})
			}
			if ast.Stmt(rs) != lastStmt {
				earlyReturn = true
				stmts = append(stmts, &ast.BranchStmt{Tok: token.BREAK, Label: ast.NewIdent(label)})
			}
			// replace the return by a block holding the statements
			c.Replace(&ast.BlockStmt{List: stmts})
			return false
		}, nil).(*ast.BlockStmt)
		return ok
	}
	// take the simple defers out of the (renamed) body; they run after it
	var deferred []ast.Stmt
	deferPrefix := 0 // statements in front of the last simple defer: no return among them (checked above)
	_, parentIsGo := parent.(*ast.GoStmt)
	_, parentIsDefer := parent.(*ast.DeferStmt)
	if simpleDefers && !parentIsGo && !parentIsDefer {
		var kept []ast.Stmt
		var regs []ast.Expr
		for _, st := range body.List {
			if ds, ok := st.(*ast.DeferStmt); ok {
				deferred = append([]ast.Stmt{&ast.ExprStmt{X: ds.Call}}, deferred...)
				deferPrefix = len(kept)
				regs = append(regs, ds.Call)
				continue
			}
			if lateDefers {
				cur := append([]ast.Expr{}, regs...)
				ast.Inspect(st, func(n ast.Node) bool {
					if _, isLit := n.(*ast.FuncLit); isLit {
						return false
					}
					if rs, ok := n.(*ast.ReturnStmt); ok {
						retDefers[rs] = cur
					}
					return true
				})
			}
			kept = append(kept, st)
		}
		body.List = kept
		if lateDefers {
			// every exit runs its own deferred calls; a helper without results that
			// falls off its end runs all of them there
			deferred = nil
			deferPrefix = 0
			if len(kept) > 0 {
				if _, endsInReturn := kept[len(kept)-1].(*ast.ReturnStmt); !endsInReturn {
					for k := len(regs) - 1; k >= 0; k-- {
						im := map[*ast.Ident]*ast.Ident{}
						body.List = append(body.List, &ast.ExprStmt{X: deepCopy(regs[k], im).(ast.Expr)})
					}
				}
			}
		}
	}
	wrap := func() []ast.Stmt {
		out := append([]ast.Stmt{}, pre...)
		out = append(out, resultDecls...)
		defer func() {}()
		if len(deferred) > 0 {
			// every return must leave through the end of the block so that the
			// deferred calls run: force the labelled form
			var inner []ast.Stmt
			if earlyReturn {
				// what precedes the defers stays outside the wrapper, so that the
				// locals the deferred calls name are still in scope after it
				out = append(out, body.List[:deferPrefix]...)
				inner = []ast.Stmt{&ast.LabeledStmt{Label: ast.NewIdent(label), Stmt: &ast.SwitchStmt{Body: &ast.BlockStmt{List: []ast.Stmt{&ast.CaseClause{Body: body.List[deferPrefix:]}}}}}}
			} else {
				inner = body.List
			}
			out = append(out, inner...)
			out = append(out, deferred...)
			return out
		}
		if earlyReturn {
			out = append(out, &ast.LabeledStmt{Label: ast.NewIdent(label), Stmt: &ast.SwitchStmt{Body: &ast.BlockStmt{List: []ast.Stmt{&ast.CaseClause{Body: body.List}}}}})
		} else {
			out = append(out, body.List...)
		}
		return out
	}
	replaceStmt := func(old ast.Stmt, repl []ast.Stmt) bool {
		done := false
		astutil.Apply(file, func(c *astutil.Cursor) bool {
			if done {
				return false
			}
			if c.Node() == ast.Node(old) {
				if c.Index() >= 0 {
					c.Replace(&ast.BlockStmt{List: repl})
					done = true
					return false
				}
				// not in a list (e.g. if-else body): wrap
				c.Replace(&ast.BlockStmt{List: repl})
				done = true
				return false
			}
			return true
		}, nil)
		return done
	}

	switch st := parent.(type) {
	case *ast.ExprStmt:
		if hasDefer {
			return false
		}
		if !rewriteReturns(nil, false) {
			return false
		}
		if replaceStmt(st, wrap()) {
			addImports()
			return true
		}
		return false
	case *ast.GoStmt:
		// go H(args)  ->  bindings evaluated now; go func() { body }()
		lit := &ast.FuncLit{Type: &ast.FuncType{Params: &ast.FieldList{}}, Body: body}
		if nres > 0 {
			return false
		}
		out := append([]ast.Stmt{}, pre...)
		out = append(out, &ast.GoStmt{Call: &ast.CallExpr{Fun: lit}})
		if replaceStmt(st, out) {
			addImports()
			return true
		}
		return false
	case *ast.DeferStmt:
		// defer H(args)  ->  bindings evaluated now; defer func() { body }()
		if nres > 0 {
			return false
		}
		dlit := &ast.FuncLit{Type: &ast.FuncType{Params: &ast.FieldList{}}, Body: body}
		dout := append([]ast.Stmt{}, pre...)
		dout = append(dout, &ast.DeferStmt{Call: &ast.CallExpr{Fun: dlit}})
		// the statements must stay in the enclosing function body (a block would
		// end the deferral scope only lexically, which is fine for defer)
		if replaceStmt(st, dout) {
			addImports()
			return true
		}
		return false
	case *ast.ReturnStmt:
		// return H(args)  (tail call with identical result arity)
		if hasDefer || len(st.Results) != 1 {
			return false
		}
		if simpleDefers {
			// r1, r2 := H(args); return r1, r2   — then inline the assignment
			var lhs, rets []ast.Expr
			for i := 0; i < nres; i++ {
				nm := fmt.Sprintf("ret%d%s", i, suffix)
				lhs = append(lhs, ast.NewIdent(nm))
				rets = append(rets, ast.NewIdent(nm))
			}
			if nres == 0 {
				return false
			}
			var decls []ast.Stmt
			for i := 0; i < nres; i++ {
				ts := p.typeText(j.caller, sig.Results().At(i).Type())
				te, err := parser.ParseExpr(ts)
				if ts == "" || err != nil {
					return false
				}
				decls = append(decls, &ast.DeclStmt{Decl: &ast.GenDecl{Tok: token.VAR, Specs: []ast.Spec{&ast.ValueSpec{Names: []*ast.Ident{ast.NewIdent(fmt.Sprintf("ret%d%s", i, suffix))}, Type: te}}}})
			}
			assign := &ast.AssignStmt{Lhs: lhs, Tok: token.ASSIGN, Rhs: []ast.Expr{call}}
			repl := append(decls, assign, &ast.ReturnStmt{Results: rets})
			if replaceStmt(st, repl) {
				return p.inlineOneImpl(fset, file, off, j, suffix)
			}
			return false
		}
		csig, _ := j.caller.Pkg.TypesInfo.TypeOf(j.caller.Type).(*types.Signature)
		if j.caller.Obj != nil {
			csig = j.caller.Obj.Type().(*types.Signature)
		}
		if csig == nil || csig.Results().Len() != nres {
			return false
		}
		// bare returns of named results must become explicit
		if named {
			body = astutil.Apply(body, func(c *astutil.Cursor) bool {
				if _, isLit := c.Node().(*ast.FuncLit); isLit {
					return false
				}
				if rs, ok := c.Node().(*ast.ReturnStmt); ok && len(rs.Results) == 0 {
					for _, rn := range resultNames {
						rs.Results = append(rs.Results, ast.NewIdent(rn))
					}
				}
				return true
			}, nil).(*ast.BlockStmt)
		}
		out := append([]ast.Stmt{}, pre...)
		out = append(out, resultDecls...)
		out = append(out, body.List...)
		if replaceStmt(st, out) {
			addImports()
			return true
		}
		return false
	case *ast.AssignStmt:
		if hasDefer || len(st.Rhs) != 1 || ast.Unparen(st.Rhs[0]) != ast.Expr(call) {
			inlineWhy = "assignment form: step 1"
			return false
		}
		if len(st.Lhs) != nres {
			inlineWhy = "assignment form: step 2"
			return false
		}
		// where does the assignment live: plain statement, or init of an if
		var holder ast.Node
		if len(path) >= 3 {
			holder = path[len(path)-3]
		}
		var decls []ast.Stmt
		type lhsFix struct {
			i         int
			tmp, name string
		}
		var lhsOut []lhsFix
		if st.Tok == token.DEFINE {
			// the new variables need declarations with explicit types
			orig := p.origAssign(j)
			if orig == nil {
				inlineWhy = "assignment form: step 3"
				return false
			}
			oinfo := j.caller.Pkg.TypesInfo
			for i, l := range orig.Lhs {
				id, ok := l.(*ast.Ident)
				if !ok || id.Name == "_" {
					continue
				}
				if obj := oinfo.Defs[id]; obj != nil {
					if usedFree[id.Name] && i < len(st.Lhs) {
						// `runner, err := c.launch()` where the helper's body names the
						// package runner: the new local must not be in scope inside the
						// inlined body, so the body fills a temporary and the local is
						// defined from it afterwards
						ts := p.typeText(j.caller, obj.Type())
						te, err := parser.ParseExpr(ts)
						if ts == "" || err != nil {
							inlineWhy = "assignment form: step 4b"
							return false
						}
						tmp := id.Name + "_r" + suffix
						decls = append(decls, &ast.DeclStmt{Decl: &ast.GenDecl{Tok: token.VAR, Specs: []ast.Spec{&ast.ValueSpec{Names: []*ast.Ident{ast.NewIdent(tmp)}, Type: te}}}})
						lhsOut = append(lhsOut, lhsFix{i, tmp, id.Name})
						continue
					}
					ts := p.typeText(j.caller, obj.Type())
					if ts == "" {
						inlineWhy = "assignment form: step 4"
						return false
					}
					te, err := parser.ParseExpr(ts)
					if err != nil {
						inlineWhy = "assignment form: step 5"
						return false
					}
					decls = append(decls, &ast.DeclStmt{Decl: &ast.GenDecl{Tok: token.VAR, Specs: []ast.Spec{&ast.ValueSpec{Names: []*ast.Ident{ast.NewIdent(id.Name)}, Type: te}}}})
					// silence "declared and not used" for variables only read later in odd ways
				}
			}
		} else if st.Tok != token.ASSIGN {
			inlineWhy = "assignment form: step 6"
			return false
		}
		var post []ast.Stmt
		for _, lf := range lhsOut {
			st.Lhs[lf.i] = ast.NewIdent(lf.tmp)
			post = append(post, &ast.AssignStmt{Lhs: []ast.Expr{ast.NewIdent(lf.name)}, Tok: token.DEFINE, Rhs: []ast.Expr{ast.NewIdent(lf.tmp)}})
		}
		if !rewriteReturns(st.Lhs, st.Tok == token.DEFINE) {
			inlineWhy = "assignment form: step 7"
			return false
		}
		inl := append(decls, wrap()...)
		inl = append(inl, post...)
		if ifs, ok := holder.(*ast.IfStmt); ok && ifs.Init == ast.Stmt(st) {
			// if x := H(); cond {...}  ->  { decls; inlined; if cond {...} }
			ifs.Init = nil
			repl := append(inl, ifs)
			if replaceStmtKeep(file, ifs, repl) {
				addImports()
				return true
			}
			inlineWhy = "assignment form: step 8"
			return false
		}
		if _, ok := holder.(*ast.BlockStmt); ok {
			// a := in a block: the declarations must stay visible afterwards, so splice
			// without an enclosing block
			if spliceStmt(file, st, inl) {
				addImports()
				return true
			}
			inlineWhy = "assignment form: step 9"
			return false
		}
		switch holder.(type) {
		case *ast.CaseClause, *ast.CommClause:
			if spliceStmt(file, st, inl) {
				addImports()
				return true
			}
			inlineWhy = "assignment form: step 10"
			return false
		}
		inlineWhy = "assignment form: step 11"
		return false
	}
	inlineWhy = "assignment form: step 12"
	return false
}

func isPkgName(o types.Object) bool {
	_, ok := o.(*types.PkgName)
	return ok
}

// replaceStmtKeep replaces statement old (which is itself reused inside repl) by a block.
func replaceStmtKeep(file *ast.File, old ast.Stmt, repl []ast.Stmt) bool {
	done := false
	astutil.Apply(file, func(c *astutil.Cursor) bool {
		if done {
			return false
		}
		if c.Node() == ast.Node(old) {
			c.Replace(&ast.BlockStmt{List: repl})
			done = true
			return false
		}
		return true
	}, nil)
	return done
}

// spliceStmt replaces old by the statements of repl inside its statement list.
func spliceStmt(file *ast.File, old ast.Stmt, repl []ast.Stmt) bool {
	done := false
	astutil.Apply(file, func(c *astutil.Cursor) bool {
		if done {
			return false
		}
		if c.Node() == ast.Node(old) && c.Index() >= 0 {
			for _, s := range repl {
				c.InsertBefore(s)
			}
			c.Delete()
			done = true
			return false
		}
		return true
	}, nil)
	return done
}

// origAssign finds the typed assignment statement that contains the job's call.
func (p *Prog) origAssign(j inlineJob) *ast.AssignStmt {
	if as, ok := p.Parent(j.call).(*ast.AssignStmt); ok {
		return as
	}
	return nil
}

// typeText renders a type so that it is valid in the caller's file (packages
// qualified by the name they are imported under there); "" if not expressible.
func (p *Prog) typeText(caller *Func, t types.Type) string {
	ok := true
	imports := map[string]string{}
	for _, im := range caller.File.Imports {
		path := strings.Trim(im.Path.Value, `"`)
		name := ""
		if im.Name != nil {
			name = im.Name.Name
		}
		imports[path] = name
	}
	s := types.TypeString(t, func(pk *types.Package) string {
		if pk == caller.Pkg.Types {
			return ""
		}
		name, found := imports[pk.Path()]
		if !found {
			ok = false
			return pk.Name()
		}
		if name == "" {
			return pk.Name()
		}
		return name
	})
	if !ok {
		return ""
	}
	return s
}

// insertBefore inserts stmts before old in its statement list.
func insertBefore(file *ast.File, old ast.Stmt, stmts []ast.Stmt) bool {
	done := false
	astutil.Apply(file, func(c *astutil.Cursor) bool {
		if done {
			return false
		}
		if c.Node() == ast.Node(old) && c.Index() >= 0 {
			for _, s := range stmts {
				c.InsertBefore(s)
			}
			done = true
			return false
		}
		return true
	}, nil)
	return done
}

// pruneImports deletes imports that no identifier of the file refers to any
// more. The local name of an import is its explicit name or the imported
// package's declared name (not the last path element: go-hclog is hclog).
func (p *Prog) pruneImports(fset *token.FileSet, file *ast.File) {
	used := map[string]bool{}
	ast.Inspect(file, func(n ast.Node) bool {
		if se, ok := n.(*ast.SelectorExpr); ok {
			if id, ok := se.X.(*ast.Ident); ok && id.Obj == nil {
				used[id.Name] = true
			}
		}
		return true
	})
	for _, im := range append([]*ast.ImportSpec{}, file.Imports...) {
		path := strings.Trim(im.Path.Value, `"`)
		name := ""
		if im.Name != nil {
			name = im.Name.Name
			if name == "_" || name == "." {
				continue
			}
		} else {
			for _, pk := range p.All {
				if ip := pk.Imports[path]; ip != nil && ip.Name != "" {
					name = ip.Name
					break
				}
			}
			if name == "" {
				continue // unknown: keep
			}
		}
		if used[name] {
			continue
		}
		if im.Name != nil {
			astutil.DeleteNamedImport(fset, file, im.Name.Name, path)
		} else {
			astutil.DeleteImport(fset, file, path)
		}
	}
}

// unhoistConds puts a one-expression predicate back into the condition it
// was hoisted out of:
//
//	var hoisted_i1 bool; { hoisted_i1 = EXPR }; if ... hoisted_i1 ... { }
//
// becomes `if ... (EXPR) ... { }` when the temporary is used exactly once, in
// the condition of the if statement that follows directly (no init statement).
// The hoist had established that nothing impure is evaluated before the call
// inside that condition, so EXPR is evaluated at the same point as before; the
// point of the rewrite is that the edges of the if statement carry the atoms of
// EXPR again (short-circuit expansion) instead of an opaque boolean.
func unhoistConds(file *ast.File) {
	rewriteList := func(list []ast.Stmt) []ast.Stmt {
		for i := 0; i+2 < len(list); i++ {
			ds, ok := list[i].(*ast.DeclStmt)
			if !ok {
				continue
			}
			gd, ok := ds.Decl.(*ast.GenDecl)
			if !ok || gd.Tok != token.VAR || len(gd.Specs) != 1 {
				continue
			}
			vs, ok := gd.Specs[0].(*ast.ValueSpec)
			if !ok || len(vs.Names) != 1 || len(vs.Values) != 0 || !strings.HasPrefix(vs.Names[0].Name, "hoisted_i") {
				continue
			}
			name := vs.Names[0].Name
			blk, ok := list[i+1].(*ast.BlockStmt)
			if !ok || len(blk.List) != 1 {
				continue
			}
			as, ok := blk.List[0].(*ast.AssignStmt)
			if !ok || as.Tok != token.ASSIGN || len(as.Lhs) != 1 || len(as.Rhs) != 1 {
				continue
			}
			if id, ok := as.Lhs[0].(*ast.Ident); !ok || id.Name != name {
				continue
			}
			ifs, ok := list[i+2].(*ast.IfStmt)
			if !ok || ifs.Init != nil {
				continue
			}
			uses, inCond := 0, 0
			for j := i + 2; j < len(list); j++ {
				ast.Inspect(list[j], func(n ast.Node) bool {
					if id, ok := n.(*ast.Ident); ok && id.Name == name {
						uses++
					}
					return true
				})
			}
			ast.Inspect(ifs.Cond, func(n ast.Node) bool {
				if id, ok := n.(*ast.Ident); ok && id.Name == name {
					inCond++
				}
				return true
			})
			if uses != 1 || inCond != 1 {
				continue
			}
			repl := &ast.ParenExpr{X: as.Rhs[0]}
			if id, ok := ifs.Cond.(*ast.Ident); ok && id.Name == name {
				ifs.Cond = as.Rhs[0]
			} else {
				ifs.Cond = astutil.Apply(ifs.Cond, func(c *astutil.Cursor) bool {
					if id, ok := c.Node().(*ast.Ident); ok && id.Name == name {
						c.Replace(repl)
						return false
					}
					return true
				}, nil).(ast.Expr)
			}
			list = append(list[:i:i], list[i+2:]...)
			i--
		}
		return list
	}
	ast.Inspect(file, func(n ast.Node) bool {
		switch x := n.(type) {
		case *ast.BlockStmt:
			x.List = rewriteList(x.List)
		case *ast.CaseClause:
			x.Body = rewriteList(x.Body)
		case *ast.CommClause:
			x.Body = rewriteList(x.Body)
		}
		return true
	})
}

// pureCtorCall: a call that only builds a value and whose operands are pure, so
// that evaluating another call before or after it makes no difference:
// gRPC's option constructors (grpc.WithX(...), grpc.MaxCallX(...),
// grpc.FailOnNonTempDialError(...)) and module functions whose whole body is
// `return <function literal>` (adapters). Decided on the re-parsed file, by the
// file's imports and the caller package's scope.
func (p *Prog) pureCtorCall(caller *Func, file *ast.File, x *ast.CallExpr) bool {
	for _, a := range x.Args {
		if isPureExpr(a) {
			continue
		}
		if c2, ok := ast.Unparen(a).(*ast.CallExpr); ok && p.pureCtorCall(caller, file, c2) {
			continue
		}
		return false
	}
	switch fn := ast.Unparen(x.Fun).(type) {
	case *ast.SelectorExpr:
		pk, ok := fn.X.(*ast.Ident)
		if !ok {
			return false
		}
		for _, im := range file.Imports {
			path := strings.Trim(im.Path.Value, "\"")
			name := path[strings.LastIndex(path, "/")+1:]
			if im.Name != nil {
				name = im.Name.Name
			}
			if name == pk.Name && path == "google.golang.org/grpc" {
				n := fn.Sel.Name
				return strings.HasPrefix(n, "With") || strings.HasPrefix(n, "MaxCall") || n == "FailOnNonTempDialError"
			}
		}
	case *ast.Ident:
		if caller == nil || caller.Pkg == nil || caller.Pkg.Types == nil {
			return false
		}
		fo, ok := caller.Pkg.Types.Scope().Lookup(fn.Name).(*types.Func)
		if !ok {
			return false
		}
		if d := p.FnOf(fo); d != nil && d.Body != nil && len(d.Body.List) == 1 {
			if rs, ok := d.Body.List[0].(*ast.ReturnStmt); ok && len(rs.Results) == 1 {
				_, isLit := ast.Unparen(rs.Results[0]).(*ast.FuncLit)
				return isLit
			}
		}
	}
	return false
}

// liftFreshChanFields gives the channel created inside a fresh message
// literal a name of its own:
//
//	se := &sendErr{i: i, ch: make(chan error)}  ...  se.ch
//
// becomes `ch_l1 := make(chan error); se := &sendErr{i: i, ch: ch_l1} ... ch_l1`,
// when se is defined once in the function and no statement anywhere in the
// module assigns a field of that name (so se.ch denotes that channel for
// good). The rules about reply channels (single local owner of a close, the
// reviewed bare receive on the reply) are stated for a local channel; this is
// the same program.
func (p *Prog) liftFreshChanFields(file *ast.File) {
	assignedField := func(name string) bool {
		for _, pkg := range p.Pkgs {
			for _, f := range pkg.Syntax {
				found := false
				ast.Inspect(f, func(n ast.Node) bool {
					switch x := n.(type) {
					case *ast.AssignStmt:
						for _, l := range x.Lhs {
							if se, ok := ast.Unparen(l).(*ast.SelectorExpr); ok && se.Sel.Name == name {
								found = true
							}
						}
					case *ast.UnaryExpr:
						if se, ok := ast.Unparen(x.X).(*ast.SelectorExpr); ok && x.Op == token.AND && se.Sel.Name == name {
							found = true
						}
					}
					return !found
				})
				if found {
					return true
				}
			}
		}
		return false
	}
	seq := 0
	for _, d := range file.Decls {
		fd, ok := d.(*ast.FuncDecl)
		if !ok || fd.Body == nil {
			continue
		}
		var rewrite func(list []ast.Stmt) []ast.Stmt
		rewrite = func(list []ast.Stmt) []ast.Stmt {
			for i := 0; i < len(list); i++ {
				as, ok := list[i].(*ast.AssignStmt)
				if !ok || as.Tok != token.DEFINE || len(as.Lhs) != 1 || len(as.Rhs) != 1 {
					continue
				}
				v, ok := as.Lhs[0].(*ast.Ident)
				if !ok || v.Name == "_" {
					continue
				}
				r := ast.Unparen(as.Rhs[0])
				if u, ok := r.(*ast.UnaryExpr); ok && u.Op == token.AND {
					r = ast.Unparen(u.X)
				}
				cl, ok := r.(*ast.CompositeLit)
				if !ok {
					continue
				}
				for _, el := range cl.Elts {
					kv, ok := el.(*ast.KeyValueExpr)
					if !ok {
						continue
					}
					key, ok := kv.Key.(*ast.Ident)
					if !ok {
						continue
					}
					mk, ok := ast.Unparen(kv.Value).(*ast.CallExpr)
					if !ok || len(mk.Args) < 1 {
						continue
					}
					if id, ok := mk.Fun.(*ast.Ident); !ok || id.Name != "make" {
						continue
					}
					if _, isChan := mk.Args[0].(*ast.ChanType); !isChan {
						continue
					}
					// v defined once in the function, v.key never assigned in the module
					defs := 0
					ast.Inspect(fd.Body, func(n ast.Node) bool {
						if a2, ok := n.(*ast.AssignStmt); ok {
							for _, l := range a2.Lhs {
								if id, ok := l.(*ast.Ident); ok && id.Name == v.Name {
									defs++
								}
							}
						}
						return true
					})
					if defs != 1 || assignedField(key.Name) {
						continue
					}
					// only reply channels of messages: an unbuffered channel in a value
					// that this function sends on a channel
					sent := false
					ast.Inspect(fd.Body, func(n ast.Node) bool {
						if ss, ok := n.(*ast.SendStmt); ok {
							if id, ok := ast.Unparen(ss.Value).(*ast.Ident); ok && id.Name == v.Name {
								sent = true
							}
						}
						return true
					})
					if len(mk.Args) != 1 || !sent {
						continue
					}
					seq++
					name := fmt.Sprintf("%s_l%d", key.Name, seq)
					kv.Value = ast.NewIdent(name)
					def := &ast.AssignStmt{Lhs: []ast.Expr{ast.NewIdent(name)}, Tok: token.DEFINE, Rhs: []ast.Expr{mk}}
					// every v.key after the definition names the channel
					for j := i + 1; j < len(list); j++ {
						list[j] = astutil.Apply(list[j], func(c *astutil.Cursor) bool {
							if se, ok := c.Node().(*ast.SelectorExpr); ok && se.Sel.Name == key.Name {
								if id, ok := se.X.(*ast.Ident); ok && id.Name == v.Name {
									c.Replace(ast.NewIdent(name))
									return false
								}
							}
							return true
						}, nil).(ast.Stmt)
					}
					list = append(list[:i:i], append([]ast.Stmt{def}, list[i:]...)...)
					i++
				}
			}
			return list
		}
		ast.Inspect(fd.Body, func(n ast.Node) bool {
			switch x := n.(type) {
			case *ast.BlockStmt:
				x.List = rewrite(x.List)
			case *ast.CaseClause:
				x.Body = rewrite(x.Body)
			}
			return true
		})
	}
}

// lowerTimeoutCtxWaits rewrites a wait on a context that exists only to bound
// that wait into the select it stands for:
//
//	ctx, cancel := context.WithTimeout(P, D); defer cancel(); ...; <-ctx.Done()
//
// becomes `select { case <-P.Done(): case <-time.After(D): }` when ctx is used
// nowhere else, every use of cancel is a call statement of its own (deferred,
// or run explicitly at the exits of an inlined helper), and P and D are pure
// expressions. Both forms return when P is done or D has elapsed, whichever
// comes first; the waiting rules (class B: timer arm, cancellation arm) are
// stated for the select.
func lowerTimeoutCtxWaits(file *ast.File) {
	hasTime := false
	for _, im := range file.Imports {
		if im.Path.Value == "\"time\"" && im.Name == nil {
			hasTime = true
		}
	}
	if !hasTime {
		return
	}
	count := func(root ast.Node, name string) int {
		n := 0
		ast.Inspect(root, func(x ast.Node) bool {
			if id, ok := x.(*ast.Ident); ok && id.Name == name {
				n++
			}
			return true
		})
		return n
	}
	for _, d := range file.Decls {
		fd, ok := d.(*ast.FuncDecl)
		if !ok || fd.Body == nil {
			continue
		}
		type job struct {
			def    *ast.AssignStmt
			wait   *ast.ExprStmt
			cancel string
			p, d   ast.Expr
		}
		var jobs []job
		ast.Inspect(fd.Body, func(n ast.Node) bool {
			as, ok := n.(*ast.AssignStmt)
			if !ok || as.Tok != token.DEFINE || len(as.Lhs) != 2 || len(as.Rhs) != 1 {
				return true
			}
			ctxID, ok1 := as.Lhs[0].(*ast.Ident)
			cancelID, ok2 := as.Lhs[1].(*ast.Ident)
			call, ok3 := ast.Unparen(as.Rhs[0]).(*ast.CallExpr)
			if !ok1 || !ok2 || !ok3 || len(call.Args) != 2 || ctxID.Name == "_" {
				return true
			}
			se, ok := call.Fun.(*ast.SelectorExpr)
			if !ok || se.Sel.Name != "WithTimeout" {
				return true
			}
			if pk, ok := se.X.(*ast.Ident); !ok || pk.Name != "context" {
				return true
			}
			if !isPureExpr(call.Args[0]) || !isPureExpr(call.Args[1]) || count(fd.Body, ctxID.Name) != 2 {
				return true
			}
			var wait *ast.ExprStmt
			ast.Inspect(fd.Body, func(x ast.Node) bool {
				es, ok := x.(*ast.ExprStmt)
				if !ok {
					return true
				}
				u, ok := ast.Unparen(es.X).(*ast.UnaryExpr)
				if !ok || u.Op != token.ARROW {
					return true
				}
				c2, ok := ast.Unparen(u.X).(*ast.CallExpr)
				if !ok || len(c2.Args) != 0 {
					return true
				}
				s2, ok := c2.Fun.(*ast.SelectorExpr)
				if !ok || s2.Sel.Name != "Done" {
					return true
				}
				if id, ok := s2.X.(*ast.Ident); ok && id.Name == ctxID.Name {
					wait = es
				}
				return true
			})
			if wait == nil {
				return true
			}
			if cancelID.Name != "_" {
				nStmts := 0
				ast.Inspect(fd.Body, func(x ast.Node) bool {
					if x != nil && isBareCallStmt(x, cancelID.Name) {
						nStmts++
					}
					return true
				})
				if nStmts == 0 || count(fd.Body, cancelID.Name) != 1+nStmts {
					return true
				}
			}
			// the timer must start where the wait is: the definition is followed
			// directly by the wait (only the deferred cancel may stand between);
			// anything else in between would run on the context's clock
			adjacent := false
			ast.Inspect(fd.Body, func(x ast.Node) bool {
				var list []ast.Stmt
				switch y := x.(type) {
				case *ast.BlockStmt:
					list = y.List
				case *ast.CaseClause:
					list = y.Body
				case *ast.CommClause:
					list = y.Body
				}
				for k, st := range list {
					if st != ast.Stmt(as) {
						continue
					}
					for m := k + 1; m < len(list); m++ {
						if cancelID.Name != "_" && isBareCallStmt(list[m], cancelID.Name) {
							continue
						}
						adjacent = list[m] == ast.Stmt(wait)
						break
					}
				}
				return true
			})
			if !adjacent {
				return true
			}
			jobs = append(jobs, job{as, wait, cancelID.Name, call.Args[0], call.Args[1]})
			return true
		})
		for _, j := range jobs {
			jb := j
			recv := func(e ast.Expr) ast.Stmt { return &ast.ExprStmt{X: &ast.UnaryExpr{Op: token.ARROW, X: e}} }
			parentDone := &ast.CallExpr{Fun: &ast.SelectorExpr{X: jb.p, Sel: ast.NewIdent("Done")}}
			after := &ast.CallExpr{Fun: &ast.SelectorExpr{X: ast.NewIdent("time"), Sel: ast.NewIdent("After")}, Args: []ast.Expr{jb.d}}
			sel := &ast.SelectStmt{Body: &ast.BlockStmt{List: []ast.Stmt{
				&ast.CommClause{Comm: recv(parentDone)},
				&ast.CommClause{Comm: recv(after)},
			}}}
			astutil.Apply(fd.Body, func(c *astutil.Cursor) bool {
				n := c.Node()
				if n == nil {
					return true
				}
				switch {
				case n == ast.Node(jb.def) && c.Index() >= 0:
					c.Delete()
					return false
				case n == ast.Node(jb.wait):
					c.Replace(sel)
					return false
				case jb.cancel != "_" && isBareCallStmt(n, jb.cancel) && c.Index() >= 0:
					c.Delete()
					return false
				}
				return true
			}, nil)
		}
	}
}

// isBareCallStmt: `name()` or `defer name()` as a statement.
func isBareCallStmt(n ast.Node, name string) bool {
	var c3 *ast.CallExpr
	switch y := n.(type) {
	case *ast.DeferStmt:
		c3 = y.Call
	case *ast.ExprStmt:
		c3, _ = y.X.(*ast.CallExpr)
	}
	if c3 == nil || len(c3.Args) != 0 {
		return false
	}
	id, ok := c3.Fun.(*ast.Ident)
	return ok && id.Name == name
}

// collapseDelegation handles the wrapper whose whole body is one delegation,
//
//	func (c *T) Old(a A) (R, error) { return c.New(x, a) }      (or: c.New(x, a) with no results)
//
// where New is a function the reference tree does not have, declared in the
// same file with the same receiver name. The body of New becomes the body of
// Old: Old takes over New's result list (names included - deferred closures of
// the body may read them), New's parameters become locals bound to the
// arguments in front of the body, and the statements are moved as they are, so
// defers, returns and labels keep their meaning (the function boundary is the
// same). This is the only inlining form that accepts arbitrary defers.
func (p *Prog) collapseDelegation(file *ast.File, path []ast.Node, call *ast.CallExpr, j inlineJob) bool {
	callee := j.callee
	if callee.Decl == nil || j.caller.Decl == nil || len(path) < 4 {
		return false
	}
	// the statement that holds the call is the only statement of the caller
	var callerFD *ast.FuncDecl
	for _, n := range path {
		if fd, ok := n.(*ast.FuncDecl); ok {
			callerFD = fd
		}
	}
	if callerFD == nil || callerFD.Body == nil || len(callerFD.Body.List) != 1 {
		return false
	}
	switch st := callerFD.Body.List[0].(type) {
	case *ast.ReturnStmt:
		if len(st.Results) != 1 || ast.Unparen(st.Results[0]) != ast.Expr(call) {
			return false
		}
	case *ast.ExprStmt:
		if ast.Unparen(st.X) != ast.Expr(call) {
			return false
		}
		if callee.Decl.Type.Results != nil && len(callee.Decl.Type.Results.List) > 0 {
			return false
		}
	default:
		return false
	}
	// the callee's declaration in the same (re-parsed) file
	var calleeFD *ast.FuncDecl
	for _, d := range file.Decls {
		fd, ok := d.(*ast.FuncDecl)
		if !ok || fd.Name.Name != callee.Decl.Name.Name || fd.Body == nil {
			continue
		}
		if (fd.Recv == nil) != (callee.Decl.Recv == nil) {
			continue
		}
		if fd.Recv != nil && recvTypeName(fd) != recvTypeName(callee.Decl) {
			continue
		}
		calleeFD = fd
	}
	if calleeFD == nil || calleeFD == callerFD {
		return false
	}
	// result types agree
	csig, ok1 := callee.Obj.Type().(*types.Signature)
	rsig, ok2 := j.caller.Obj.Type().(*types.Signature)
	if !ok1 || !ok2 || csig.Results().Len() != rsig.Results().Len() {
		return false
	}
	for i := 0; i < csig.Results().Len(); i++ {
		if !types.Identical(csig.Results().At(i).Type(), rsig.Results().At(i).Type()) {
			return false
		}
	}
	// receiver: same name, called on the caller's receiver
	recvName := func(fd *ast.FuncDecl) string {
		if fd.Recv == nil || len(fd.Recv.List) != 1 || len(fd.Recv.List[0].Names) != 1 {
			return ""
		}
		return fd.Recv.List[0].Names[0].Name
	}
	if calleeFD.Recv != nil {
		se, ok := ast.Unparen(call.Fun).(*ast.SelectorExpr)
		if !ok {
			return false
		}
		x, ok := se.X.(*ast.Ident)
		if !ok || callerFD.Recv == nil || x.Name != recvName(callerFD) || recvName(calleeFD) != x.Name || x.Name == "" {
			return false
		}
	}
	// parameters become locals; every argument is pure
	callerParams := map[string]bool{}
	if callerFD.Type.Params != nil {
		for _, fd := range callerFD.Type.Params.List {
			for _, nm := range fd.Names {
				callerParams[nm.Name] = true
			}
		}
	}
	var prologue []ast.Stmt
	ai := 0
	if calleeFD.Type.Params != nil {
		for _, fd := range calleeFD.Type.Params.List {
			if len(fd.Names) == 0 {
				ai++
				continue
			}
			for _, nm := range fd.Names {
				if ai >= len(call.Args) {
					return false
				}
				arg := call.Args[ai]
				ai++
				if call.Ellipsis.IsValid() && ai == len(call.Args) {
					// xs... spread into the variadic parameter: it is that slice
				} else if _, isVar := fd.Type.(*ast.Ellipsis); isVar {
					return false
				}
				if !isPureExpr(arg) && !isBackgroundCtx(arg) {
					return false
				}
				if id, isID := ast.Unparen(arg).(*ast.Ident); isID && id.Name == nm.Name {
					continue // same name: the caller's parameter is the callee's
				}
				if nm.Name == "_" {
					continue
				}
				if callerParams[nm.Name] {
					return false // the name means something else in the caller
				}
				typ := fd.Type
				if el, isVar := typ.(*ast.Ellipsis); isVar {
					typ = &ast.ArrayType{Elt: el.Elt}
				}
				prologue = append(prologue,
					&ast.DeclStmt{Decl: &ast.GenDecl{Tok: token.VAR, Specs: []ast.Spec{&ast.ValueSpec{Names: []*ast.Ident{ast.NewIdent(nm.Name)}, Type: typ, Values: []ast.Expr{arg}}}}},
					&ast.AssignStmt{Lhs: []ast.Expr{ast.NewIdent("_")}, Tok: token.ASSIGN, Rhs: []ast.Expr{ast.NewIdent(nm.Name)}})
			}
		}
	}
	if ai != len(call.Args) {
		return false
	}
	callerFD.Type.Results = calleeFD.Type.Results
	callerFD.Body = &ast.BlockStmt{Lbrace: callerFD.Body.Lbrace, List: append(prologue, calleeFD.Body.List...), Rbrace: callerFD.Body.Rbrace}
	return true
}

// isBackgroundCtx: context.Background() / context.TODO().
func isBackgroundCtx(e ast.Expr) bool {
	call, ok := ast.Unparen(e).(*ast.CallExpr)
	if !ok || len(call.Args) != 0 {
		return false
	}
	se, ok := call.Fun.(*ast.SelectorExpr)
	if !ok || (se.Sel.Name != "Background" && se.Sel.Name != "TODO") {
		return false
	}
	pk, ok := se.X.(*ast.Ident)
	return ok && pk.Name == "context" && pk.Obj == nil
}

func hasErrorResult(f *Func) bool {
	if f == nil || f.Obj == nil {
		return true
	}
	sig, ok := f.Obj.Type().(*types.Signature)
	if !ok {
		return true
	}
	for i := 0; i < sig.Results().Len(); i++ {
		if isErrorType(sig.Results().At(i).Type()) {
			return true
		}
	}
	return false
}

var handledSuffix = regexp.MustCompile(`_i\d+h$`)
