package main

import (
	"fmt"
	"go/ast"
	"go/token"
	"go/types"
	"sort"
	"strings"
)

// ---------- R-TABLE/stdio, joining receives ----------

// ruleStdioJoin: in grpcStdioServer.StreamStdio a chunk received outside the
// tagged arms of the select (a receive that adds to a message which already
// has its tag) comes from the channel of that tag. Decided by a forward
// dataflow over pairs (tag of the message, stream of each local channel
// alias), refined on comparisons of the tag: at every such receive, in every
// reaching pair, the stream of the channel received from equals the tag.
func ruleStdioJoin(c *Ctx) {
	p := c.P
	f := p.Fn("grpcStdioServer.StreamStdio")
	if f == nil {
		c.R.Undecided("R-TABLE/stdio", "grpcStdioServer.StreamStdio", "anchor", "function not found")
		return
	}
	info := f.Pkg.TypesInfo
	g := p.Graph(f)
	isByteChan := func(t types.Type) bool {
		if t == nil {
			return false
		}
		ch, ok := t.Underlying().(*types.Chan)
		if !ok {
			return false
		}
		s, ok := ch.Elem().Underlying().(*types.Slice)
		if !ok {
			return false
		}
		b, ok := s.Elem().Underlying().(*types.Basic)
		return ok && b.Kind() == types.Uint8
	}
	isTagSel := func(e ast.Expr) bool {
		se, ok := ast.Unparen(e).(*ast.SelectorExpr)
		return ok && se.Sel.Name == "Channel"
	}
	tagConst := func(e ast.Expr) (string, bool) {
		if o, ok := objOfExpr(info, e).(*types.Const); ok && strings.Contains(o.Name(), "StdioData_") {
			return streamLabel(o.Name()), true
		}
		return "", false
	}
	// local aliases of the stdio channels
	var aliases []*types.Var
	aliasIdx := map[types.Object]int{}
	walkNoLit(f.Body, func(x ast.Node) bool {
		if id, ok := x.(*ast.Ident); ok {
			if v, ok := info.Defs[id].(*types.Var); ok && isByteChan(v.Type()) {
				if _, dup := aliasIdx[v]; !dup {
					aliasIdx[v] = len(aliases) + 1
					aliases = append(aliases, v)
				}
			}
		}
		return true
	})
	// receives that are the communication of an arm which sets the tag
	main := map[*ast.UnaryExpr]bool{}
	walkNoLit(f.Body, func(x ast.Node) bool {
		cc, ok := x.(*ast.CommClause)
		if !ok || cc.Comm == nil {
			return true
		}
		sets := false
		for _, st := range cc.Body {
			if as, ok := st.(*ast.AssignStmt); ok {
				for _, l := range as.Lhs {
					if isTagSel(l) {
						sets = true
					}
				}
			}
		}
		if sets {
			walkNoLit(cc.Comm, func(y ast.Node) bool {
				if u, ok := y.(*ast.UnaryExpr); ok && u.Op == token.ARROW {
					main[u] = true
				}
				return true
			})
		}
		return true
	})
	var joins []*ast.UnaryExpr
	walkNoLit(f.Body, func(x ast.Node) bool {
		if u, ok := x.(*ast.UnaryExpr); ok && u.Op == token.ARROW && !main[u] && isByteChan(info.TypeOf(u.X)) {
			joins = append(joins, u)
		}
		return true
	})
	if len(joins) == 0 {
		c.R.Hold("R-TABLE/stdio", p.Pos(f.Node()), f.Name, "chunks joining a tagged message", "every receive of a stdio chunk is the communication of a select arm that sets the tag itself", false)
		return
	}
	// tuple: tag, then the stream of each alias
	type tuple = string
	get := func(t tuple, i int) string { return strings.Split(t, "|")[i] }
	set := func(t tuple, i int, v string) tuple {
		parts := strings.Split(t, "|")
		parts[i] = v
		return strings.Join(parts, "|")
	}
	chanLabel := func(t tuple, e ast.Expr) string {
		if i, ok := aliasIdx[identObj(info, ast.Unparen(e))]; ok {
			return get(t, i)
		}
		return p.exprLabel(f, e)
	}
	assign := func(t tuple, lhs, rhs ast.Expr) tuple {
		if isTagSel(lhs) {
			lab, _ := tagConst(rhs)
			return set(t, 0, lab)
		}
		if id, ok := ast.Unparen(lhs).(*ast.Ident); ok {
			o := info.Defs[id]
			if o == nil {
				o = info.Uses[id]
			}
			if i, ok := aliasIdx[o]; ok {
				if rhs == nil {
					return set(t, i, "")
				}
				return set(t, i, chanLabel(t, rhs))
			}
		}
		return t
	}
	transfer := func(n *Node, t tuple) tuple {
		switch s := n.Ast.(type) {
		case *ast.AssignStmt:
			if len(s.Lhs) == len(s.Rhs) {
				old := t
				for i := range s.Lhs {
					// right-hand sides are evaluated in the old state
					if _, isAlias := aliasIdx[identObj(info, ast.Unparen(s.Rhs[i]))]; isAlias {
						lab := chanLabel(old, s.Rhs[i])
						if id, ok := ast.Unparen(s.Lhs[i]).(*ast.Ident); ok {
							o := info.Defs[id]
							if o == nil {
								o = info.Uses[id]
							}
							if k, ok := aliasIdx[o]; ok {
								t = set(t, k, lab)
								continue
							}
						}
					}
					t = assign(t, s.Lhs[i], s.Rhs[i])
				}
			} else {
				for _, l := range s.Lhs {
					t = assign(t, l, nil)
				}
			}
		case *ast.ValueSpec:
			for i, nm := range s.Names {
				var rhs ast.Expr
				if i < len(s.Values) {
					rhs = s.Values[i]
				}
				t = assign(t, nm, rhs)
			}
		case *ast.DeclStmt:
			if gd, ok := s.Decl.(*ast.GenDecl); ok {
				for _, sp := range gd.Specs {
					if vs, ok := sp.(*ast.ValueSpec); ok {
						for i, nm := range vs.Names {
							var rhs ast.Expr
							if i < len(vs.Values) {
								rhs = vs.Values[i]
							}
							t = assign(t, nm, rhs)
						}
					}
				}
			}
		}
		return t
	}
	// refinement on a comparison of the tag with a tag constant
	admits := func(e *Edge, t tuple) bool {
		if e.Cond == nil || e.Branch == 0 {
			return true
		}
		var lab string
		var ok, neg bool
		if e.Tag != nil {
			if !isTagSel(e.Tag) {
				return true
			}
			lab, ok = tagConst(e.Cond)
		} else if be, isB := ast.Unparen(e.Cond).(*ast.BinaryExpr); isB && (be.Op == token.EQL || be.Op == token.NEQ) {
			neg = be.Op == token.NEQ
			if isTagSel(be.X) {
				lab, ok = tagConst(be.Y)
			} else if isTagSel(be.Y) {
				lab, ok = tagConst(be.X)
			}
		}
		if !ok || lab == "" {
			return true
		}
		eq := get(t, 0) == lab
		if neg {
			eq = !eq
		}
		if e.Branch > 0 {
			return eq
		}
		return !eq
	}
	in := map[*Node]map[tuple]bool{}
	init := strings.Repeat("|", len(aliases))
	in[g.Entry] = map[tuple]bool{init: true}
	work := []*Node{g.Entry}
	steps := 0
	for len(work) > 0 {
		n := work[len(work)-1]
		work = work[:len(work)-1]
		steps++
		if steps > 200000 {
			c.R.Undecided("R-TABLE/stdio", f.Name, "chunks joining a tagged message", "dataflow did not converge")
			return
		}
		for t := range in[n] {
			out := transfer(n, t)
			for _, e := range n.Succs {
				if !admits(e, out) {
					continue
				}
				if in[e.To] == nil {
					in[e.To] = map[tuple]bool{}
				}
				if !in[e.To][out] {
					in[e.To][out] = true
					work = append(work, e.To)
				}
			}
		}
	}
	name := map[string]string{"out": "stdout", "err": "stderr", "": "unknown"}
	for k, u := range joins {
		n := g.NodeOf(u)
		construct := fmt.Sprintf("chunk joining a tagged message #%d: <-%s", k+1, types.ExprString(u.X))
		if n == nil {
			c.R.Undecided("R-TABLE/stdio", f.Name, construct, "receive not found in the flow graph")
			continue
		}
		var bad []string
		for t := range in[n] {
			lab := chanLabel(t, u.X)
			if lab == "" || lab != get(t, 0) {
				bad = append(bad, fmt.Sprintf("a chunk of the %s channel joins a message tagged %s", name[lab], name[get(t, 0)]))
			}
		}
		sort.Strings(bad)
		if len(bad) > 0 {
			c.R.Violate("R-TABLE/stdio", p.Pos(u), f.Name, construct, bad[0]+" (the host writes it to the wrong stream)", nil)
		} else {
			c.R.Hold("R-TABLE/stdio", p.Pos(u), f.Name, construct, fmt.Sprintf("in each of the %d reaching states the channel received from is the channel of the message's tag", len(in[n])), true)
		}
	}
}
