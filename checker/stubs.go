package main

// Rules that are registered but not implemented yet. A property that still
// uses one of these is not entered in MANIFEST.json.

var pendingRules = map[string]bool{}

func pending(c *Ctx, name string) {
	pendingRules[name] = true
	c.R.Notes = append(c.R.Notes, "rule "+name+" is not implemented yet")
}
