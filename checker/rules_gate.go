package main

import (
	"fmt"
	"go/ast"
	"go/constant"
	"go/token"
	"go/types"
	"strings"
)

// startInfo gathers the anchors of Client.Start used by the gate rules.
type startInfo struct {
	p       *Prog
	f       *Func
	g       *Graph
	info    *types.Info
	commit  *Node      // c.address = addr (the last such store)
	commits []*Node    // every store to Client.address in Start
	lineN   *Node      // the select clause that received the handshake line
	parts   *types.Var // strings.Split(line, "|")
	launch  map[*Node]string
}

func (p *Prog) startInfo(c *Ctx, rule string) *startInfo {
	f := p.Fn("Client.Start")
	if f == nil {
		c.R.Undecided(rule, "Client.Start", "anchor", "function not found")
		return nil
	}
	si := &startInfo{p: p, f: f, g: p.Graph(f), info: f.Pkg.TypesInfo}
	addrF := p.FieldObj(modPath, "Client", "address")
	for _, n := range si.g.Nodes {
		if as, ok := n.Ast.(*ast.AssignStmt); ok {
			for _, l := range as.Lhs {
				if SelField(si.info, l) == addrF {
					si.commit = n
					si.commits = append(si.commits, n)
				}
			}
		}
	}
	for _, call := range f.Calls() {
		if p.CalleeName(f, call) == "strings.Split" {
			if sep, ok := constString(si.info, call.Args[1]); ok && sep == "|" {
				si.parts = assignedVar(p, si.info, call)
			}
		}
	}
	// the select clause whose comm receives a string (the line channel)
	for _, n := range si.g.Nodes {
		for _, e := range n.Succs {
			if e.Comm == nil || e.Comm.Comm == nil {
				continue
			}
			if as, ok := e.Comm.Comm.(*ast.AssignStmt); ok && len(as.Rhs) == 1 {
				if u, ok := ast.Unparen(as.Rhs[0]).(*ast.UnaryExpr); ok && u.Op == token.ARROW {
					if ch, ok := si.info.TypeOf(u.X).Underlying().(*types.Chan); ok && types.Identical(ch.Elem(), types.Typ[types.String]) {
						si.lineN = e.To
					}
				}
			}
		}
	}
	si.launch = p.launchNodes(f)
	if si.commit == nil || si.parts == nil || si.lineN == nil {
		c.R.Undecided(rule, f.Name, "anchors", fmt.Sprintf("commit store (%v), handshake split (%v) or line receive (%v) not found", si.commit != nil, si.parts != nil, si.lineN != nil))
		return nil
	}
	return si
}

// isPartsIdx: e is parts[k].
func (si *startInfo) isPartsIdx(e ast.Expr, k int64) bool {
	// look through single-definition aliases, fields of a parsed-line struct
	// and type conversions (Protocol(parts[4]))
	for i := 0; i < 4; i++ {
		e = ast.Unparen(si.p.Deref(si.f, e))
		if call, ok := e.(*ast.CallExpr); ok && len(call.Args) == 1 {
			if tv, ok := si.info.Types[call.Fun]; ok && tv.IsType() {
				e = call.Args[0]
				continue
			}
		}
		break
	}
	ix, ok := ast.Unparen(e).(*ast.IndexExpr)
	if !ok || identObj(si.info, ix.X) != si.parts {
		return false
	}
	v, ok := constInt(si.info, ix.Index)
	return ok && v == k
}

// varFromCall finds the variable bound to result idx of a call matching pred.
func (si *startInfo) varsFromCall(p *Prog, pred func(*ast.CallExpr) bool) (vars []*types.Var, node *Node) {
	for _, n := range si.g.Nodes {
		var lhs []ast.Expr
		var rhs ast.Expr
		switch a := n.Ast.(type) {
		case *ast.AssignStmt:
			if len(a.Rhs) == 1 {
				lhs, rhs = a.Lhs, a.Rhs[0]
			}
		}
		call, ok := ast.Unparen(rhs).(*ast.CallExpr)
		if rhs == nil || !ok || !pred(call) {
			continue
		}
		for _, l := range lhs {
			v, _ := identObj(si.info, l).(*types.Var)
			vars = append(vars, v)
		}
		return vars, n
	}
	return nil, nil
}

// anyCommit: pred holds for one of the stores to Client.address (every one of
// them marks a handshake as accepted).
func (si *startInfo) anyCommit(pred func(*Node) bool) bool {
	for _, m := range si.commits {
		if pred(m) {
			return true
		}
	}
	return false
}

// mustPassNode: every path from the line receive to the commit passes node n.
func (si *startInfo) mustPassNode(n *Node) bool {
	seen := si.p.FeasibleReach(si.f, []*Node{si.lineN}, func(x *Node) bool { return x == n }, nil)
	return !si.anyCommit(func(m *Node) bool { return seen[m] })
}

// gatePass: every path from the line receive to the commit takes one of the pass edges.
func (si *startInfo) gatePass(pass func(*Edge) bool) bool {
	seen := si.p.FeasibleReach(si.f, []*Node{si.lineN}, nil, pass)
	return !si.anyCommit(func(m *Node) bool { return seen[m] })
}

// R-GATE — required validations of the handshake line dominate the success commit.
func ruleGate(c *Ctx) {
	p := c.P
	si := p.startInfo(c, "R-GATE")
	if si == nil {
		return
	}
	f, g, info := si.f, si.g, si.info
	report := func(gate string, ok bool, site ast.Node, okDetail, badDetail string) {
		pos := p.Pos(f.Node())
		if site != nil {
			pos = p.Pos(site)
		}
		if ok {
			c.R.Hold("R-GATE", pos, f.Name, gate, okDetail, true)
		} else {
			c.R.Violate("R-GATE", pos, f.Name, gate, badDetail, nil)
		}
	}
	// G-core
	{
		vars, n := si.varsFromCall(p, func(call *ast.CallExpr) bool {
			return p.CalleeName(f, call) == "strconv.Atoi" && si.isPartsIdx(call.Args[0], 0)
		})
		coreConst := p.Pkgs[modPath].Types.Scope().Lookup("CoreProtocolVersion")
		if n == nil || len(vars) < 1 || coreConst == nil {
			c.R.Undecided("R-GATE", f.Name, "G-core", "strconv.Atoi(parts[0]) / CoreProtocolVersion not found")
		} else {
			cv := vars[0]
			ok := si.gatePass(func(e *Edge) bool {
				at, isAt := edgeAtom(info, e)
				if !isAt || at.Kind != "cmp" || at.Op != token.EQL {
					return false
				}
				a, b := identObj(info, at.X), identObj(info, at.Y)
				return (a == cv && b == coreConst) || (b == cv && a == coreConst)
			})
			report("G-core", ok, n.Ast, "the commit is reachable from the line receive only through `Atoi(parts[0]) == CoreProtocolVersion`",
				"a handshake line can be accepted without its core protocol version (field 1) being equal to CoreProtocolVersion")
			// the wire value itself: every released plugin and host announces core version 1
			if cc, isC := coreConst.(*types.Const); isC {
				if v, exact := constant.Int64Val(cc.Val()); exact && v == 1 {
					c.R.Hold("R-GATE", p.PosOf(cc.Pos()), f.Name, "G-core/value", "CoreProtocolVersion == 1", true)
				} else {
					c.R.Violate("R-GATE", p.PosOf(cc.Pos()), f.Name, "G-core/value", "CoreProtocolVersion is "+cc.Val().String()+", not 1: the client refuses every handshake line of a plugin built against the released protocol (core version 1) and accepts lines that announce another core version", nil)
				}
			}
		}
	}
	// G-app
	{
		var callee *Func
		vars, n := si.varsFromCall(p, func(call *ast.CallExpr) bool {
			if len(call.Args) != 1 || !si.isPartsIdx(call.Args[0], 1) {
				return false
			}
			callee = p.FnOf(asFunc(p.Callee(f, call)))
			return callee != nil
		})
		if n == nil || callee == nil {
			c.R.Undecided("R-GATE", f.Name, "G-app", "no module call taking parts[1] found")
		} else {
			var ev *types.Var
			for _, v := range vars {
				if v != nil && isErrorType(v.Type()) {
					ev = v
				}
			}
			ok := ev != nil && si.gatePass(func(e *Edge) bool {
				at, isAt := edgeAtom(info, e)
				return isAt && at.Kind == "nil" && at.Op == token.EQL && identObj(info, at.X) == ev && g.Dominates(n, e.From)
			})
			report("G-app", ok, n.Ast, "the commit is reachable only after "+callee.Name+"(parts[1]) returned a nil error",
				"a handshake line can be accepted without its application version (field 2) being checked against the offered versions")
			// inside the callee: nil-error returns only under Atoi(arg) == key of VersionedPlugins
			p.gateAppCallee(c, callee)
			// Start stores the returned version and set
			okStore := false
			nvF := p.FieldObj(modPath, "Client", "negotiatedVersion")
			plF := p.FieldObj(modPath, "ClientConfig", "Plugins")
			var stV, stP bool
			for _, m := range g.Nodes {
				if as, isAs := m.Ast.(*ast.AssignStmt); isAs && len(as.Lhs) == 1 && len(as.Rhs) == 1 {
					if SelField(info, as.Lhs[0]) == nvF && len(vars) >= 1 && identObj(info, as.Rhs[0]) == vars[0] && si.mustPassNode(m) {
						stV = true
					}
					if SelField(info, as.Lhs[0]) == plF && len(vars) >= 2 && identObj(info, as.Rhs[0]) == vars[1] && si.mustPassNode(m) {
						stP = true
					}
				}
			}
			okStore = stV && stP
			report("G-app/store", okStore, n.Ast, "on every accepting path negotiatedVersion and config.Plugins are stored from the results of the version check",
				"the version/plugin set the client reports are not the ones returned by the version check for field 2")
		}
	}
	// G-addr
	{
		vars, n := si.varsFromCall(p, func(call *ast.CallExpr) bool {
			return strings.HasSuffix(p.CalleeName(f, call), "/runner.AddrTranslator.PluginToHost") && len(call.Args) == 2 && si.isPartsIdx(call.Args[0], 2) && si.isPartsIdx(call.Args[1], 3)
		})
		if n == nil || len(vars) < 2 {
			c.R.Violate("R-GATE", p.Pos(f.Node()), f.Name, "G-addr", "the address is no longer obtained by PluginToHost(parts[2], parts[3])", nil)
		} else {
			netV, addrV := vars[0], vars[1]
			okAll := true
			nres := 0
			for _, m := range g.Nodes {
				as, isAs := m.Ast.(*ast.AssignStmt)
				if !isAs || len(as.Rhs) != 1 {
					continue
				}
				call, isC := ast.Unparen(as.Rhs[0]).(*ast.CallExpr)
				if !isC {
					continue
				}
				want := ""
				switch p.CalleeName(f, call) {
				case "net.ResolveTCPAddr":
					want = "tcp"
				case "net.ResolveUnixAddr":
					want = "unix"
				default:
					continue
				}
				nres++
				if len(call.Args) != 2 || identObj(info, call.Args[1]) != addrV {
					okAll = false
				}
				if s, isS := constString(info, call.Args[0]); !isS || s != want {
					okAll = false
				}
				mm := m
				if !g.OnlyViaEdge(mm, func(e *Edge) bool {
					at, isAt := edgeAtom(info, e)
					if !isAt || at.Kind != "cmp" || at.Op != token.EQL {
						return false
					}
					s, isS := constString(info, at.Y)
					return isS && s == want && identObj(info, at.X) == netV
				}) {
					okAll = false
				}
			}
			// the named result is assigned only by those resolves
			var addrRes *types.Var
			if f.Type.Results != nil && len(f.Type.Results.List) > 0 && len(f.Type.Results.List[0].Names) > 0 {
				addrRes, _ = info.Defs[f.Type.Results.List[0].Names[0]].(*types.Var)
			}
			ok := okAll && nres == 2 && !si.anyCommit(func(m *Node) bool {
				return !g.DominatedBy(m, func(x *Node) bool { return x == n || !reachable(g, si.lineN, x) })
			})
			_ = addrRes
			pathOK := si.gatePass(func(e *Edge) bool { return e.From == n }) // every line path passes PluginToHost
			report("G-addr", ok && pathOK, n.Ast, "network tcp/unix selects ResolveTCPAddr/ResolveUnixAddr on the translated address of fields 3 and 4; every accepting path passes the translation",
				"the address committed is not (only) the resolve of the translated fields 3/4 selected by the announced network")
		}
	}
	// G-proto
	p.gateProto(c, si)
	// G-cert
	{
		var certCall *Node
		for _, m := range g.Nodes {
			for _, call := range callsIn(m.Ast) {
				if len(call.Args) == 1 && si.isPartsIdx(call.Args[0], 5) {
					if ce := p.FnOf(asFunc(p.Callee(f, call))); ce != nil {
						reach := p.ReachableFuncs([]*Func{ce}, false)
						for rf := range reach {
							for _, cc := range rf.Calls() {
								if p.CalleeName(rf, cc) == "crypto/x509.ParseCertificate" {
									certCall = m
								}
							}
						}
					}
				}
			}
		}
		if certCall == nil {
			c.R.Violate("R-GATE", p.Pos(f.Node()), f.Name, "G-cert", "no call with parts[5] reaches x509.ParseCertificate: an announced certificate is not parsed", nil)
		} else {
			// every accepting path either parses the certificate or established that field 6 is
			// absent (fewer than six fields) or too short to be one
			absent := func(e *Edge) bool {
				at, isAt := edgeAtom(info, e)
				if !isAt || at.Kind != "len" {
					return false
				}
				if identObj(info, at.X) == si.parts && (at.Op == token.LSS && at.K <= 6 || at.Op == token.LEQ && at.K <= 5) {
					return true
				}
				if si.isPartsIdx(at.X, 5) && (at.Op == token.LEQ || at.Op == token.LSS) {
					return true
				}
				return false
			}
			seen := g.Reach([]*Node{si.lineN}, func(x *Node) bool { return x == certCall }, absent)
			leak := si.anyCommit(func(m *Node) bool { _, r := seen[m]; return r })
			ok := !leak
			report("G-cert", ok, certCall.Ast, "every accepting path parses field 6 unless it established that the field is absent or too short to be a certificate (the parse error is returned per R-ERR)",
				"a handshake line with a certificate field can be accepted without the certificate being parsed and pinned")
		}
	}
}

func reachable(g *Graph, from, to *Node) bool {
	_, ok := g.Reach([]*Node{from}, nil, nil)[to]
	return ok
}

// gateAppCallee: in the version-check helper, a nil error is returned only
// under equality of Atoi(param) with a key of ClientConfig.VersionedPlugins,
// and the returned set is the value of the same key.
func (p *Prog) gateAppCallee(c *Ctx, f *Func) {
	info := f.Pkg.TypesInfo
	g := p.Graph(f)
	vpF := p.FieldObj(modPath, "ClientConfig", "VersionedPlugins")
	var sv *types.Var // strconv.Atoi(param)
	for _, call := range f.Calls() {
		if p.CalleeName(f, call) == "strconv.Atoi" {
			if pv, ok := identObj(info, call.Args[0]).(*types.Var); ok && isParamOf(info, f, pv) {
				sv = assignedVar(p, info, call)
			}
		}
	}
	var keyV, valV *types.Var
	var rangeStmt *ast.RangeStmt
	ast.Inspect(f.Body, func(x ast.Node) bool {
		if rs, ok := x.(*ast.RangeStmt); ok && SelField(info, rs.X) == vpF {
			rangeStmt = rs
			if rs.Key != nil {
				keyV, _ = identObj(info, rs.Key).(*types.Var)
			}
			if rs.Value != nil {
				valV, _ = identObj(info, rs.Value).(*types.Var)
			}
		}
		return true
	})
	// alternative idiom: comma-ok lookup VersionedPlugins[Atoi(arg)]; a
	// function may use both (a fast path in front of the loop), each
	// successful return is judged against the form it lies behind
	type lookup struct{ ok, val *types.Var }
	var lookups []lookup
	if sv != nil {
		for _, m := range g.Nodes {
			as, ok := m.Ast.(*ast.AssignStmt)
			if !ok || len(as.Lhs) != 2 || len(as.Rhs) != 1 {
				continue
			}
			if ix, ok := ast.Unparen(as.Rhs[0]).(*ast.IndexExpr); ok && SelField(info, ix.X) == vpF && identObj(info, ix.Index) == sv {
				v, _ := identObj(info, as.Lhs[0]).(*types.Var)
				o, _ := identObj(info, as.Lhs[1]).(*types.Var)
				if v != nil && o != nil {
					lookups = append(lookups, lookup{o, v})
				}
			}
		}
	}
	if sv == nil || (keyV == nil && len(lookups) == 0) {
		c.R.Undecided("R-GATE", f.Name, "G-app/callee", "Atoi(param) or range over / comma-ok lookup in ClientConfig.VersionedPlugins not found")
		return
	}
	n := 0
	bad := ""
	for _, m := range g.Nodes {
		rs, ok := m.Ast.(*ast.ReturnStmt)
		if !ok || len(rs.Results) != 3 || !isNilIdent(info, rs.Results[2]) {
			continue
		}
		n++
		mm := m
		r0, r1 := identObj(info, rs.Results[0]), identObj(info, rs.Results[1])
		viaLookup := false
		for _, lk := range lookups {
			lk := lk
			if r1 == types.Object(lk.val) && g.OnlyViaEdge(mm, func(e *Edge) bool {
				at, isAt := edgeAtom(info, e)
				return isAt && at.Kind == "bool" && at.True && identObj(info, at.X) == lk.ok
			}) {
				viaLookup = true
				if r0 != types.Object(sv) {
					bad = "the returned version / plugin set are not the looked-up key and its map value"
				}
			}
		}
		if viaLookup {
			continue
		}
		if keyV == nil {
			if len(lookups) > 0 && r1 != types.Object(lookups[0].val) {
				bad = "the returned version / plugin set are not the looked-up key and its map value"
			} else {
				bad = "a nil error is returned without the announced version being a key of the offered versions"
			}
			continue
		}
		if !g.OnlyViaEdge(mm, func(e *Edge) bool {
			at, isAt := edgeAtom(info, e)
			if !isAt || at.Kind != "cmp" || at.Op != token.EQL {
				return false
			}
			a, b := identObj(info, at.X), identObj(info, at.Y)
			return (a == sv && b == keyV) || (a == keyV && b == sv)
		}) {
			bad = "a nil error is returned without the announced version being equal to an offered version"
		}
		if !((r0 == keyV || r0 == sv) && r1 == valV && valV != nil) {
			bad = "the returned version / plugin set are not the matched key and its map value"
		}
	}
	// every offered key is compared: inside the loop over the offered versions
	// nothing leads back to the loop head before the comparison with the
	// announced version was made (a filter in front of it makes the client
	// refuse a version it offered - the plugin was still told it could use it)
	if keyV != nil && rangeStmt != nil {
		// go/cfg evaluates X, key and value in the block in front of the loop;
		// the (empty) loop block that follows is the target of the back edges
		// and branches into the body
		pre := g.NodeOf(rangeStmt.X)
		if kn := g.NodeOf(rangeStmt.Key); kn != nil {
			pre = kn
		}
		if rangeStmt.Value != nil {
			if vn := g.NodeOf(rangeStmt.Value); vn != nil {
				pre = vn
			}
		}
		var hn, bn *Node
		if pre != nil && len(pre.Succs) == 1 {
			hn = pre.Succs[0].To
			bn = hn
		}
		if hn != nil && bn != nil {
			isCmp := func(m *Node) bool {
				for _, e := range m.Succs {
					at, isAt := edgeAtom(info, e)
					if !isAt || at.Kind != "cmp" {
						continue
					}
					a, b := identObj(info, at.X), identObj(info, at.Y)
					if (a == types.Object(sv) && b == types.Object(keyV)) || (a == types.Object(keyV) && b == types.Object(sv)) {
						return true
					}
				}
				return false
			}
			var starts []*Node
			for _, e := range bn.Succs {
				// the body branch is the one that can come back to the loop head
				if _, back := g.Reach([]*Node{e.To}, nil, nil)[hn]; back {
					starts = append(starts, e.To)
				}
			}
			var st2 []*Node
			for _, m := range starts {
				if !isCmp(m) {
					st2 = append(st2, m)
				}
			}
			// the clause is about a loop that matches by comparison; a loop
			// without one (it only collects the versions for the error text, the
			// match is a map lookup) has nothing to skip
			hasCmp := false
			for _, m := range g.Nodes {
				if isCmp(m) {
					hasCmp = true
				}
			}
			if !hasCmp {
				starts = nil
			}
			seen := g.Reach(st2, isCmp, nil)
			if _, skips := seen[hn]; skips && len(starts) > 0 {
				c.R.Violate("R-GATE", p.Pos(rangeStmt), f.Name, "G-app/every offered version is compared", "an iteration over the offered versions can go on to the next version without comparing this one with the version the plugin announced: the list sent to the plugin is built from the same map without that condition, so the plugin may announce a version the client then refuses although a common version exists", p.PathTo(seen, hn))
			} else if len(starts) > 0 {
				c.R.Hold("R-GATE", p.Pos(rangeStmt), f.Name, "G-app/every offered version is compared", "no path inside the loop reaches the next iteration without the comparison", true)
			}
		}
	}
	if n == 0 {
		bad = "no successful return found"
	}
	if bad == "" {
		c.R.Hold("R-GATE", p.Pos(f.Node()), f.Name, "G-app/callee", "success only under Atoi(arg) == key of ClientConfig.VersionedPlugins (range match or comma-ok lookup), returning that key and its value", true)
	} else {
		c.R.Violate("R-GATE", p.Pos(f.Node()), f.Name, "G-app/callee", bad, nil)
	}
}

// gateProto: the announced protocol must be a member of AllowedProtocols.
func (p *Prog) gateProto(c *Ctx, si *startInfo) {
	f, g, info := si.f, si.g, si.info
	apF := p.FieldObj(modPath, "ClientConfig", "AllowedProtocols")
	protoF := p.FieldObj(modPath, "Client", "protocol")
	var elemV *types.Var
	ast.Inspect(f.Body, func(x ast.Node) bool {
		if rs, ok := x.(*ast.RangeStmt); ok && SelField(info, rs.X) == apF && rs.Value != nil {
			elemV, _ = identObj(info, rs.Value).(*types.Var)
		}
		return true
	})
	if elemV == nil {
		// alternative idiom: found := slices.Contains(AllowedProtocols, c.protocol)
		var flag2 *types.Var
		for _, call := range f.Calls() {
			nm := p.CalleeName(f, call)
			if (nm == "slices.Contains" || nm == "golang.org/x/exp/slices.Contains") && len(call.Args) == 2 && SelField(info, call.Args[0]) == apF && SelField(info, call.Args[1]) == protoF {
				flag2 = assignedVar(p, info, call)
				if flag2 == nil {
					// used directly as a condition
					n := g.NodeOf(call)
					if n != nil && si.gatePass(func(e *Edge) bool {
						at, isAt := edgeAtom(info, e)
						return isAt && at.Kind == "call" && at.True && at.X == ast.Expr(call)
					}) {
						c.R.Hold("R-GATE", p.Pos(si.commit.Ast), f.Name, "G-proto", "the commit is reachable only through slices.Contains(AllowedProtocols, Client.protocol)", true)
						return
					}
				}
			}
		}
		if flag2 != nil {
			pass := si.gatePass(func(e *Edge) bool {
				at, isAt := edgeAtom(info, e)
				return isAt && at.Kind == "bool" && at.True && identObj(info, at.X) == flag2
			})
			// the flag has no other definition
			ndef := 0
			ast.Inspect(f.Body, func(x ast.Node) bool {
				if as, ok := x.(*ast.AssignStmt); ok {
					for _, l := range as.Lhs {
						if identObj(info, l) == flag2 {
							ndef++
						}
					}
				}
				return true
			})
			if pass && ndef == 1 && p.protoStoresOK(si) {
				c.R.Hold("R-GATE", p.Pos(si.commit.Ast), f.Name, "G-proto", "the commit is reachable only with slices.Contains(AllowedProtocols, Client.protocol) true; Client.protocol is field 5 or the net/rpc default", true)
			} else {
				c.R.Violate("R-GATE", p.Pos(si.commit.Ast), f.Name, "G-proto", "a handshake line can be accepted although its protocol is not in AllowedProtocols", nil)
			}
			return
		}
		c.R.Violate("R-GATE", p.Pos(f.Node()), f.Name, "G-proto", "Start no longer tests the announced protocol for membership in ClientConfig.AllowedProtocols", nil)
		return
	}
	isEq := func(e *Edge) bool {
		at, isAt := edgeAtom(info, e)
		if !isAt || at.Kind != "cmp" || at.Op != token.EQL {
			return false
		}
		return (identObj(info, at.X) == elemV && SelField(info, at.Y) == protoF) || (identObj(info, at.Y) == elemV && SelField(info, at.X) == protoF)
	}
	// the membership flag: a bool local assigned true only behind the equality
	var flag *types.Var
	okFlag := true
	for _, m := range g.Nodes {
		as, ok := m.Ast.(*ast.AssignStmt)
		if !ok || len(as.Lhs) != 1 || len(as.Rhs) != 1 {
			continue
		}
		if id, ok := as.Rhs[0].(*ast.Ident); ok && id.Name == "true" {
			v, _ := identObj(info, as.Lhs[0]).(*types.Var)
			if v == nil || v.IsField() {
				continue
			}
			mm := m
			if g.OnlyViaEdge(mm, isEq) {
				flag = v
			}
		}
	}
	if flag == nil {
		c.R.Violate("R-GATE", p.Pos(f.Node()), f.Name, "G-proto", "no membership flag is set under `p == c.protocol` while ranging AllowedProtocols", nil)
		return
	}
	for _, m := range g.Nodes {
		as, ok := m.Ast.(*ast.AssignStmt)
		if !ok {
			continue
		}
		for i, l := range as.Lhs {
			if identObj(info, l) == flag && i < len(as.Rhs) {
				if id, ok := as.Rhs[i].(*ast.Ident); ok && id.Name == "true" {
					mm := m
					if !g.OnlyViaEdge(mm, isEq) {
						okFlag = false
					}
				} else if id, ok := as.Rhs[i].(*ast.Ident); !ok || id.Name != "false" {
					okFlag = false
				}
			}
		}
	}
	pass := si.gatePass(func(e *Edge) bool {
		at, isAt := edgeAtom(info, e)
		return isAt && at.Kind == "bool" && at.True && identObj(info, at.X) == flag
	})
	// Client.protocol is stored only from parts[4] (or the net/rpc default)
	okStore := true
	nst := 0
	for _, m := range g.Nodes {
		as, ok := m.Ast.(*ast.AssignStmt)
		if !ok {
			continue
		}
		for i, l := range as.Lhs {
			if SelField(info, l) != protoF || i >= len(as.Rhs) {
				continue
			}
			nst++
			r := ast.Unparen(as.Rhs[i])
			if s, ok := constString(info, r); ok && s == "netrpc" {
				continue
			}
			if conv, ok := r.(*ast.CallExpr); ok && len(conv.Args) == 1 && si.isPartsIdx(conv.Args[0], 4) {
				continue
			}
			okStore = false
		}
	}
	if okFlag && pass && okStore && nst >= 1 {
		c.R.Hold("R-GATE", p.Pos(si.commit.Ast), f.Name, "G-proto", "the commit is reachable only with the membership flag true; the flag is set only under equality of an AllowedProtocols element with Client.protocol, which is field 5 or the net/rpc default", true)
	} else {
		c.R.Violate("R-GATE", p.Pos(si.commit.Ast), f.Name, "G-proto",
			fmt.Sprintf("a handshake line can be accepted although its protocol is not in AllowedProtocols (flagOnlyUnderEquality=%v commitOnlyIfFlag=%v protocolFromField5=%v)", okFlag, pass, okStore && nst >= 1), nil)
	}
}

// ruleGateProtoMux: G-proto and G-mux for C14.
func ruleGateProtoMux(c *Ctx) {
	p := c.P
	si := p.startInfo(c, "R-GATE")
	if si == nil {
		return
	}
	p.gateProto(c, si)
	f, g, info := si.f, si.g, si.info
	muxF := p.FieldObj(modPath, "ClientConfig", "GRPCBrokerMultiplex")
	protoF := p.FieldObj(modPath, "Client", "protocol")
	sentinel := p.Pkgs[modPath].Types.Scope().Lookup("ErrGRPCBrokerMuxNotSupported")
	// the edge on which multiplexing is requested and the protocol is gRPC
	var entry []*Node
	for _, m := range g.Nodes {
		for _, e := range m.Succs {
			at, isAt := edgeAtom(info, e)
			if !isAt || at.Kind != "cmp" || at.Op != token.EQL || SelField(info, at.X) != protoF {
				continue
			}
			if s, ok := constString(info, at.Y); !ok || s != "grpc" {
				continue
			}
			// the test is reached only with the multiplexing flag known to be set
			if g.OnlyViaEdge(e.From, func(x *Edge) bool {
				a2, ok := edgeAtom(info, x)
				return ok && a2.Kind == "bool" && a2.True && SelField(info, a2.X) == muxF
			}) {
				entry = append(entry, e.To)
			}
		}
	}
	if len(entry) == 0 {
		// the conjunction written the other way round: protocol == grpc && GRPCBrokerMultiplex
		isProtoEdge := func(x *Edge) bool {
			a2, ok := edgeAtom(info, x)
			if !ok || a2.Kind != "cmp" || a2.Op != token.EQL || SelField(info, a2.X) != protoF {
				return false
			}
			sv, isS := constString(info, a2.Y)
			return isS && sv == "grpc"
		}
		for _, m := range g.Nodes {
			for _, e := range m.Succs {
				a2, ok := edgeAtom(info, e)
				if ok && a2.Kind == "bool" && a2.True && SelField(info, a2.X) == muxF && g.OnlyViaEdge(e.From, isProtoEdge) {
					entry = append(entry, e.To)
				}
			}
		}
	}
	if len(entry) == 0 || sentinel == nil {
		c.R.Violate("R-GATE", p.Pos(f.Node()), f.Name, "G-mux", "no check of the multiplexing field under `GRPCBrokerMultiplex && protocol == grpc`", nil)
		return
	}
	var muxV *types.Var
	for _, call := range f.Calls() {
		if p.CalleeName(f, call) == "strconv.ParseBool" && si.isPartsIdx(call.Args[0], 6) {
			muxV = assignedVar(p, info, call)
		}
	}
	okPass := muxV != nil
	for _, en := range entry {
		seen := g.Reach([]*Node{en}, nil, func(e *Edge) bool {
			at, isAt := edgeAtom(info, e)
			return isAt && at.Kind == "bool" && at.True && identObj(info, at.X) == muxV
		})
		if leak := si.anyCommit(func(m *Node) bool { _, r := seen[m]; return r }); leak {
			okPass = false
		}
	}
	// ... and no accepting path goes around the gate: every path from the line
	// receive to a commit evaluates the multiplexing request
	if !si.gatePass(func(e *Edge) bool {
		at, isAt := edgeAtom(info, e)
		if isAt && at.Kind == "bool" && SelField(info, at.X) == muxF {
			return true
		}
		// protocol == grpc && GRPCBrokerMultiplex: on a protocol other than gRPC
		// the request is evaluated by the protocol test alone
		if isAt && at.Kind == "cmp" && at.Op == token.NEQ && SelField(info, at.X) == protoF {
			sv, isS := constString(info, at.Y)
			return isS && sv == "grpc"
		}
		return false
	}) {
		okPass = false
	}
	// failing edges for "missing" and "false" return the sentinel (or wrap it with %w)
	isSentinelReturn := func(x *Node) bool {
		rs, ok := x.Ast.(*ast.ReturnStmt)
		if !ok || len(rs.Results) == 0 {
			return false
		}
		r := ast.Unparen(rs.Results[len(rs.Results)-1])
		if identObj(info, r) == sentinel {
			return true
		}
		if call, ok := r.(*ast.CallExpr); ok && p.CalleeName(f, call) == "fmt.Errorf" {
			if format, ok := constString(info, call.Args[0]); ok && strings.Contains(format, "%w") {
				for _, a := range call.Args[1:] {
					if identObj(info, a) == sentinel {
						return true
					}
				}
			}
		}
		return false
	}
	okSent := true
	nFail := 0
	for _, m := range g.Nodes {
		for _, e := range m.Succs {
			at, isAt := edgeAtom(info, e)
			if !isAt {
				continue
			}
			fail := false
			if at.Kind == "len" && identObj(info, at.X) == si.parts && (at.Op == token.LEQ && at.K == 6 || at.Op == token.LSS && at.K == 7) {
				fail = true
			}
			if at.Kind == "bool" && !at.True && muxV != nil && identObj(info, at.X) == muxV {
				fail = true
			}
			if !fail {
				continue
			}
			nFail++
			seen := g.Reach([]*Node{e.To}, isSentinelReturn, nil)
			if _, leak := seen[g.Exit]; leak {
				okSent = false
			}
		}
	}
	if okPass && okSent && nFail >= 2 {
		c.R.Hold("R-GATE", p.Pos(f.Node()), f.Name, "G-mux", "with multiplexing requested over gRPC the commit is reachable only when field 7 parsed to true; a missing or false field returns an error that is or wraps ErrGRPCBrokerMuxNotSupported", true)
	} else {
		c.R.Violate("R-GATE", p.Pos(f.Node()), f.Name, "G-mux",
			fmt.Sprintf("multiplexing requested from a plugin that does not advertise it is not refused with the dedicated error (commitOnlyIfTrue=%v sentinelOnMissingAndFalse=%v failingEdges=%d)", okPass, okSent, nFail), nil)
	}
}

// ruleGateExcl: configuration exclusivity checks precede every launch site.
func ruleGateExcl(c *Ctx) {
	p := c.P
	si := p.startInfo(c, "R-GATE")
	if si == nil {
		return
	}
	f, g, info := si.f, si.g, si.info
	cmdF := p.FieldObj(modPath, "ClientConfig", "Cmd")
	reF := p.FieldObj(modPath, "ClientConfig", "Reattach")
	rfF := p.FieldObj(modPath, "ClientConfig", "RunnerFunc")
	scF := p.FieldObj(modPath, "ClientConfig", "SecureConfig")
	muxF := p.FieldObj(modPath, "ClientConfig", "GRPCBrokerMultiplex")
	// sites that act on the configuration: launch sites and the reattach call
	var acts []*Node
	for n := range si.launch {
		acts = append(acts, n)
	}
	for _, cs := range p.Calls().sites[f] {
		if len(cs.Callees) == 1 && cs.Callees[0].Name == "Client.reattach" {
			acts = append(acts, cs.Node)
		}
	}
	// (1) a counter incremented under each of the three != nil tests, compared != 1 -> error return
	var counter *types.Var
	incUnder := map[*types.Var]bool{}
	for _, m := range g.Nodes {
		var cv *types.Var
		switch s := m.Ast.(type) {
		case *ast.IncDecStmt:
			cv, _ = identObj(info, s.X).(*types.Var)
		case *ast.AssignStmt:
			if s.Tok == token.ADD_ASSIGN && len(s.Lhs) == 1 {
				if k, ok := constInt(info, s.Rhs[0]); ok && k == 1 {
					cv, _ = identObj(info, s.Lhs[0]).(*types.Var)
				}
			}
		}
		if cv == nil {
			continue
		}
		for _, fv := range []*types.Var{cmdF, reF, rfF} {
			ff := fv
			mm := m
			if g.OnlyViaEdge(mm, func(e *Edge) bool {
				at, ok := edgeAtom(info, e)
				return ok && at.Kind == "nil" && at.Op == token.NEQ && SelField(info, at.X) == ff
			}) {
				counter = cv
				incUnder[ff] = true
			}
		}
	}
	okCount := counter != nil && len(incUnder) == 3
	if okCount {
		// all acting sites only via `counter == 1` (feasible paths: a failing test may
		// merely record its error in a variable that is tested afterwards)
		seen := p.FeasibleReach(f, []*Node{g.Entry}, nil, func(e *Edge) bool {
			at, ok := edgeAtom(info, e)
			if !ok || at.Kind != "cmp" || at.Op != token.EQL || identObj(info, at.X) != counter {
				return false
			}
			k, isK := constInt(info, at.Y)
			return isK && k == 1
		})
		for _, a := range acts {
			if seen[a] {
				okCount = false
			}
		}
	}
	if okCount {
		c.R.Hold("R-GATE", p.Pos(f.Node()), f.Name, "G-excl/one-of", "launch and reattach sites are reachable only when exactly one of Cmd, Reattach, RunnerFunc is set", true)
	} else {
		c.R.Violate("R-GATE", p.Pos(f.Node()), f.Name, "G-excl/one-of", "the plugin can be launched or reattached although not exactly one of Cmd, Reattach, RunnerFunc is set", nil)
	}
	// (2) SecureConfig && Reattach, (3) GRPCBrokerMultiplex && Reattach: under the
	// assumption that both hold no acting site is reachable
	assumeNonNil := func(fv *types.Var) func(*Edge) bool {
		return func(e *Edge) bool { // cut edges that assert the field is nil
			at, ok := edgeAtom(info, e)
			return ok && at.Kind == "nil" && at.Op == token.EQL && SelField(info, at.X) == fv
		}
	}
	assumeTrue := func(fv *types.Var) func(*Edge) bool {
		return func(e *Edge) bool {
			at, ok := edgeAtom(info, e)
			return ok && at.Kind == "bool" && !at.True && SelField(info, at.X) == fv
		}
	}
	for _, pair := range []struct {
		name string
		a    func(*Edge) bool
	}{
		{"G-excl/secure+reattach", assumeNonNil(scF)},
		{"G-excl/mux+reattach", assumeTrue(muxF)},
	} {
		b := assumeNonNil(reF)
		seen := p.FeasibleReach(f, []*Node{g.Entry}, nil, func(e *Edge) bool { return pair.a(e) || b(e) })
		hit := false
		for _, a := range acts {
			if seen[a] {
				hit = true
			}
		}
		// the assumption must be tested at all (otherwise nothing was cut and the result is vacuous)
		tested := false
		for _, m := range g.Nodes {
			for _, e := range m.Succs {
				if pair.a(e) {
					tested = true
				}
			}
		}
		if !hit && tested {
			c.R.Hold("R-GATE", p.Pos(f.Node()), f.Name, pair.name, "with both options set no launch or reattach site is reachable (an error is returned first)", true)
		} else {
			c.R.Violate("R-GATE", p.Pos(f.Node()), f.Name, pair.name, "the conflicting option combination is not refused before the plugin is launched / reattached", nil)
		}
	}
	// sentinel for secure+reattach: returned directly or through an error variable
	sent := p.Pkgs[modPath].Types.Scope().Lookup("ErrSecureConfigAndReattach")
	found := false
	for _, m := range g.Nodes {
		switch st := m.Ast.(type) {
		case *ast.ReturnStmt:
			if len(st.Results) == 2 && identObj(info, st.Results[1]) == sent && sent != nil {
				found = true
			}
		case *ast.AssignStmt:
			for i, r := range st.Rhs {
				if identObj(info, r) == sent && sent != nil && i < len(st.Lhs) && isErrorType(info.TypeOf(st.Lhs[i])) {
					found = true
				}
			}
		}
	}
	if found {
		c.R.Hold("R-SENT", p.Pos(f.Node()), f.Name, "ErrSecureConfigAndReattach returned", "", false)
	} else {
		c.R.Violate("R-SENT", p.Pos(f.Node()), f.Name, "ErrSecureConfigAndReattach returned", "the dedicated error for SecureConfig with Reattach is no longer returned", nil)
	}
}

// protoStoresOK: Client.protocol is stored only from handshake field 5 or the net/rpc default.
func (p *Prog) protoStoresOK(si *startInfo) bool {
	protoF := p.FieldObj(modPath, "Client", "protocol")
	ok, n := true, 0
	for _, m := range si.g.Nodes {
		as, isAs := m.Ast.(*ast.AssignStmt)
		if !isAs {
			continue
		}
		for i, l := range as.Lhs {
			if SelField(si.info, l) != protoF || i >= len(as.Rhs) {
				continue
			}
			n++
			r := ast.Unparen(as.Rhs[i])
			if s, isS := constString(si.info, r); isS && s == "netrpc" {
				continue
			}
			if conv, isC := r.(*ast.CallExpr); isC && len(conv.Args) == 1 && si.isPartsIdx(conv.Args[0], 4) {
				continue
			}
			ok = false
		}
	}
	return ok && n >= 1
}
