package main

func init() {
	register(&propDef{ID: "T00", Rules: []func(*Ctx){ruleOrderStart, ruleOrderO4, ruleSecureOrder, ruleCmp, ruleSentinelSecure}, Explanation: "test", NotDecided: "n/a"})
}
