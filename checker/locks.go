package main

import (
	"go/ast"
	"go/types"
	"sort"
	"strings"
)

// Engine E4: lock regions. Locks are identified by the mutex *variable*
// (struct field, embedded field, or package variable) — a may-alias
// abstraction over objects.

type lockSet map[*types.Var]bool

func (s lockSet) clone() lockSet {
	o := lockSet{}
	for k := range s {
		o[k] = true
	}
	return o
}

func (s lockSet) names(p *Prog) string {
	var out []string
	for v := range s {
		out = append(out, p.lockName(v))
	}
	sort.Strings(out)
	return strings.Join(out, ",")
}

func (p *Prog) lockName(v *types.Var) string {
	if v.IsField() {
		return p.FieldName(v)
	}
	return v.Name()
}

// lockOp classifies a call as a mutex operation on a lock variable.
func (p *Prog) lockOp(f *Func, call *ast.CallExpr) (*types.Var, string) {
	info := f.Pkg.TypesInfo
	sel, ok := ast.Unparen(call.Fun).(*ast.SelectorExpr)
	if !ok {
		return nil, ""
	}
	full := p.CalleeName(f, call)
	op := ""
	switch full {
	case "sync.Mutex.Lock", "sync.RWMutex.Lock":
		op = "lock"
	case "sync.Mutex.Unlock", "sync.RWMutex.Unlock":
		op = "unlock"
	case "sync.RWMutex.RLock":
		op = "lock"
	case "sync.RWMutex.RUnlock":
		op = "unlock"
	default:
		return nil, ""
	}
	s := info.Selections[sel]
	if s == nil {
		return nil, ""
	}
	idx := s.Index()
	if len(idx) > 1 {
		t := s.Recv()
		var fv *types.Var
		for _, i := range idx[:len(idx)-1] {
			if pt, ok := t.Underlying().(*types.Pointer); ok {
				t = pt.Elem()
			}
			st, ok := t.Underlying().(*types.Struct)
			if !ok {
				return nil, ""
			}
			fv = st.Field(i)
			t = fv.Type()
		}
		return fv, op
	}
	if fv := SelField(info, sel.X); fv != nil {
		return fv, op
	}
	if v, ok := identObj(info, sel.X).(*types.Var); ok {
		return v, op
	}
	if se, ok := ast.Unparen(sel.X).(*ast.SelectorExpr); ok {
		if v, ok := info.Uses[se.Sel].(*types.Var); ok {
			return v, op
		}
	}
	return nil, ""
}

type lockInfo struct {
	must map[*Node]lockSet // held on every path before the node executes
	may  map[*Node]lockSet // held on some path before the node executes
}

var lockCache = map[*Func]*lockInfo{}

// Locks computes intraprocedural must/may lock sets (entry = no locks).
func (p *Prog) Locks(f *Func) *lockInfo {
	if li := lockCache[f]; li != nil {
		return li
	}
	g := p.Graph(f)
	gen := map[*Node][]*types.Var{}
	kill := map[*Node][]*types.Var{}
	universe := lockSet{}
	for _, n := range g.Nodes {
		if n.Ast == nil {
			continue
		}
		if _, isDefer := n.Ast.(*ast.DeferStmt); isDefer {
			continue // a deferred Unlock releases at exit: the lock stays held until then
		}
		if _, isGo := n.Ast.(*ast.GoStmt); isGo {
			continue
		}
		for _, call := range callsIn(n.Ast) {
			if v, op := p.lockOp(f, call); v != nil {
				universe[v] = true
				if op == "lock" {
					gen[n] = append(gen[n], v)
				} else {
					kill[n] = append(kill[n], v)
				}
			}
		}
	}
	li := &lockInfo{must: map[*Node]lockSet{}, may: map[*Node]lockSet{}}
	if len(universe) == 0 {
		for _, n := range g.Nodes {
			li.must[n] = lockSet{}
			li.may[n] = lockSet{}
		}
		lockCache[f] = li
		return li
	}
	out := func(in lockSet, n *Node) lockSet {
		o := in.clone()
		for _, v := range gen[n] {
			o[v] = true
		}
		for _, v := range kill[n] {
			delete(o, v)
		}
		return o
	}
	// may: union, start empty
	for _, n := range g.Nodes {
		li.may[n] = lockSet{}
	}
	changed := true
	for changed {
		changed = false
		for _, n := range g.Nodes {
			o := out(li.may[n], n)
			for _, e := range n.Succs {
				for v := range o {
					if !li.may[e.To][v] {
						li.may[e.To][v] = true
						changed = true
					}
				}
			}
		}
	}
	// must: intersection, start full except entry
	for _, n := range g.Nodes {
		if n == g.Entry {
			li.must[n] = lockSet{}
		} else {
			li.must[n] = universe.clone()
		}
	}
	changed = true
	for changed {
		changed = false
		for _, n := range g.Nodes {
			if n == g.Entry {
				continue
			}
			var acc lockSet
			for _, e := range n.Preds {
				o := out(li.must[e.From], e.From)
				if acc == nil {
					acc = o
				} else {
					for v := range acc {
						if !o[v] {
							delete(acc, v)
						}
					}
				}
			}
			if acc == nil {
				acc = lockSet{}
			}
			if len(acc) != len(li.must[n]) {
				li.must[n] = acc
				changed = true
			}
		}
	}
	lockCache[f] = li
	return li
}

// MustHeldAt returns the locks certainly held just before node n of f
// executes, including those every caller holds (EntryHeld).
func (p *Prog) MustHeldAt(f *Func, n *Node) lockSet {
	s := p.Locks(f).must[n].clone()
	for v := range p.EntryHeld(f) {
		s[v] = true
	}
	return s
}

var entryHeldCache = map[*Prog]map[*Func]lockSet{}

// EntryHeld: locks held at every call of f ("callers all hold it"). Exported
// functions and methods, functions without module callers, and goroutine
// bodies hold nothing at entry.
func (p *Prog) EntryHeld(f *Func) lockSet {
	m := entryHeldCache[p]
	if m == nil {
		m = p.computeEntryHeld()
		entryHeldCache[p] = m
	}
	return m[f]
}

func (p *Prog) computeEntryHeld() map[*Func]lockSet {
	ci := p.Calls()
	all := lockSet{}
	for _, f := range p.Funcs {
		li := p.Locks(f)
		for _, s := range li.may {
			for v := range s {
				all[v] = true
			}
		}
	}
	// literal creation sites that run the literal synchronously
	type litSite struct {
		parent *Func
		node   *Node
		kind   string
	}
	litSites := map[*Func][]litSite{}
	for _, f := range p.Funcs {
		for _, cs := range ci.sites[f] {
			for _, ce := range cs.Callees {
				if ce.Lit != nil {
					litSites[ce] = append(litSites[ce], litSite{f, cs.Node, cs.Kind})
				}
			}
			if cs.ViaOnce {
				for _, l := range cs.ArgLits {
					litSites[l] = append(litSites[l], litSite{f, cs.Node, "call"})
				}
			}
		}
	}
	held := map[*Func]lockSet{}
	open := func(f *Func) bool { // may be entered from outside the module or as a value
		if f.Lit != nil {
			return len(litSites[f]) == 0
		}
		if f.Obj != nil && f.Obj.Exported() {
			return true
		}
		if len(ci.callers[f]) == 0 {
			return true
		}
		// method values / function values taken (e.g. c.dialer): treat as open
		return p.takenAsValue(f)
	}
	for _, f := range p.Funcs {
		if open(f) {
			held[f] = lockSet{}
		} else {
			held[f] = all.clone()
		}
	}
	changed := true
	for changed {
		changed = false
		for _, f := range p.Funcs {
			if open(f) {
				continue
			}
			var acc lockSet
			meet := func(s lockSet) {
				if acc == nil {
					acc = s.clone()
					return
				}
				for v := range acc {
					if !s[v] {
						delete(acc, v)
					}
				}
			}
			if f.Lit != nil {
				for _, ls := range litSites[f] {
					if ls.kind == "go" || ls.node == nil {
						meet(lockSet{})
						continue
					}
					s := p.Locks(ls.parent).must[ls.node].clone()
					for v := range held[ls.parent] {
						s[v] = true
					}
					if ls.kind == "defer" {
						// runs at exit: locks released by non-deferred unlocks may be gone;
						// use the must-set at the function's exit instead.
						g := p.Graph(ls.parent)
						s = p.Locks(ls.parent).must[g.Exit].clone()
						// deferred unlocks registered before this defer run after it (LIFO),
						// so locks held at exit are still held.
						for v := range held[ls.parent] {
							s[v] = true
						}
					}
					meet(s)
				}
			} else {
				for _, cs := range ci.callers[f] {
					if cs.Kind == "go" || cs.Node == nil {
						meet(lockSet{})
						continue
					}
					s := p.Locks(cs.Caller).must[cs.Node].clone()
					for v := range held[cs.Caller] {
						s[v] = true
					}
					if cs.Kind == "defer" {
						g := p.Graph(cs.Caller)
						s = p.Locks(cs.Caller).must[g.Exit].clone()
						for v := range held[cs.Caller] {
							s[v] = true
						}
					}
					meet(s)
				}
			}
			if acc == nil {
				acc = lockSet{}
			}
			if len(acc) != len(held[f]) {
				held[f] = acc
				changed = true
			}
		}
	}
	return held
}

var takenCache = map[*Prog]map[*types.Func]bool{}

// takenAsValue reports whether the function is referenced other than as the
// callee of a call (method value, function value).
func (p *Prog) takenAsValue(f *Func) bool {
	m := takenCache[p]
	if m == nil {
		m = map[*types.Func]bool{}
		for _, sp := range scopePkgs {
			pk := p.Pkgs[sp]
			for _, file := range pk.Syntax {
				ast.Inspect(file, func(n ast.Node) bool {
					id, ok := n.(*ast.Ident)
					if !ok {
						return true
					}
					fo, ok := pk.TypesInfo.Uses[id].(*types.Func)
					if !ok {
						return true
					}
					// find the outermost selector this ident belongs to
					var e ast.Node = id
					if se, ok := p.Parent(id).(*ast.SelectorExpr); ok && se.Sel == id {
						e = se
					}
					par := p.Parent(e)
					for {
						if pe, ok := par.(*ast.ParenExpr); ok {
							e, par = pe, p.Parent(pe)
							continue
						}
						break
					}
					if call, ok := par.(*ast.CallExpr); ok && call.Fun == e {
						return true
					}
					m[fo] = true
					return true
				})
			}
		}
		takenCache[p] = m
	}
	return f.Obj != nil && m[f.Obj]
}
