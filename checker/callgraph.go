package main

import (
	"go/ast"
	"go/types"
	"sort"
)

// Engine E5 (AST level): call sites with resolved callees. Interface calls are
// resolved by class-hierarchy analysis over the module's named types.

type CallSite struct {
	Caller  *Func
	Call    *ast.CallExpr
	Node    *Node  // CFG node in the caller
	Kind    string // "call", "go", "defer"
	Callees []*Func
	Full    string // full name of the static callee ("" if dynamic)
	Dynamic bool   // call through a func value that is not a literal
	IsIface bool
	ViaOnce bool    // literal passed to sync.Once.Do (runs synchronously)
	ArgLits []*Func // function literals passed as arguments
}

type callIndex struct {
	sites   map[*Func][]*CallSite
	callers map[*Func][]*CallSite
}

func (p *Prog) buildCalls() *callIndex {
	ci := &callIndex{sites: map[*Func][]*CallSite{}, callers: map[*Func][]*CallSite{}}
	named := p.moduleNamedTypes()
	for _, f := range p.Funcs {
		g := p.Graph(f)
		info := f.Pkg.TypesInfo
		walkNoLit(f.Body, func(n ast.Node) bool {
			call, ok := n.(*ast.CallExpr)
			if !ok {
				return true
			}
			cs := &CallSite{Caller: f, Call: call, Node: g.NodeOf(call), Kind: "call"}
			switch par := p.Parent(call).(type) {
			case *ast.GoStmt:
				if par.Call == call {
					cs.Kind = "go"
				}
			case *ast.DeferStmt:
				if par.Call == call {
					cs.Kind = "defer"
				}
			}
			for _, a := range call.Args {
				if fl, ok := ast.Unparen(a).(*ast.FuncLit); ok {
					cs.ArgLits = append(cs.ArgLits, p.Lit(fl))
				}
			}
			if fl, ok := ast.Unparen(call.Fun).(*ast.FuncLit); ok {
				cs.Callees = []*Func{p.Lit(fl)}
			} else if tv, ok := info.Types[call.Fun]; ok && tv.IsType() {
				return true // conversion
			} else {
				obj := p.Callee(f, call)
				switch o := obj.(type) {
				case *types.Func:
					cs.Full = objFullName(o)
					sig := o.Type().(*types.Signature)
					if r := sig.Recv(); r != nil && types.IsInterface(r.Type()) {
						cs.IsIface = true
						for _, nt := range named {
							for _, t := range []types.Type{nt, types.NewPointer(nt)} {
								if types.Implements(t, r.Type().Underlying().(*types.Interface)) {
									ms := types.NewMethodSet(t)
									if sel := ms.Lookup(o.Pkg(), o.Name()); sel != nil {
										if mf, ok := sel.Obj().(*types.Func); ok {
											if tf := p.FnOf(mf); tf != nil && !hasFunc(cs.Callees, tf) {
												cs.Callees = append(cs.Callees, tf)
											}
										}
									}
								}
							}
						}
					} else if tf := p.FnOf(o); tf != nil {
						cs.Callees = []*Func{tf}
					}
					if cs.Full == "sync.Once.Do" && len(cs.ArgLits) == 1 {
						cs.ViaOnce = true
					}
				case *types.Builtin:
					cs.Full = "builtin." + o.Name()
				case nil:
					cs.Dynamic = true
					cs.Callees = p.resolveDynamic(f, call, 0)
				default:
					cs.Dynamic = true
					cs.Callees = p.resolveDynamic(f, call, 0)
				}
			}
			ci.sites[f] = append(ci.sites[f], cs)
			for _, ce := range cs.Callees {
				ci.callers[ce] = append(ci.callers[ce], cs)
			}
			return true
		})
	}
	return ci
}

func hasFunc(l []*Func, f *Func) bool {
	for _, x := range l {
		if x == f {
			return true
		}
	}
	return false
}

func (p *Prog) moduleNamedTypes() []*types.Named {
	var out []*types.Named
	for _, sp := range scopePkgs {
		pk := p.Pkgs[sp]
		sc := pk.Types.Scope()
		names := sc.Names()
		sort.Strings(names)
		for _, n := range names {
			if tn, ok := sc.Lookup(n).(*types.TypeName); ok && !tn.IsAlias() {
				if nt, ok := tn.Type().(*types.Named); ok {
					if _, isIface := nt.Underlying().(*types.Interface); !isIface {
						out = append(out, nt)
					}
				}
			}
		}
	}
	return out
}

var callCache = map[*Prog]*callIndex{}

func (p *Prog) Calls() *callIndex {
	if ci := callCache[p]; ci != nil {
		return ci
	}
	ci := p.buildCalls()
	callCache[p] = ci
	return ci
}

// ReachableFuncs returns the functions reachable from roots through
// call/defer edges (and go edges if followGo), including literals created
// inside reachable functions when they are invoked, deferred, started as
// goroutines (if followGo) or passed as arguments.
func (p *Prog) ReachableFuncs(roots []*Func, followGo bool) map[*Func]*CallSite {
	ci := p.Calls()
	seen := map[*Func]*CallSite{}
	var work []*Func
	for _, r := range roots {
		if r != nil {
			if _, ok := seen[r]; !ok {
				seen[r] = nil
				work = append(work, r)
			}
		}
	}
	for len(work) > 0 {
		f := work[len(work)-1]
		work = work[:len(work)-1]
		for _, cs := range ci.sites[f] {
			if cs.Kind == "go" && !followGo {
				continue
			}
			next := append([]*Func{}, cs.Callees...)
			next = append(next, cs.ArgLits...)
			for _, ce := range next {
				if ce == nil {
					continue
				}
				if _, ok := seen[ce]; !ok {
					seen[ce] = cs
					work = append(work, ce)
				}
			}
		}
	}
	return seen
}

// funcValues returns the module functions an expression of function type may
// denote: a literal, a named function, the literals a called module function
// returns, the values stored in a func-typed struct field anywhere in scope,
// or the single-assignment definitions of a local variable.
func (p *Prog) funcValues(f *Func, e ast.Expr, depth int) []*Func {
	if depth > 3 {
		return nil
	}
	info := f.Pkg.TypesInfo
	e = ast.Unparen(e)
	switch x := e.(type) {
	case *ast.FuncLit:
		if lf := p.Lit(x); lf != nil {
			return []*Func{lf}
		}
	case *ast.CallExpr:
		// g(...) where g returns function literals
		if g := p.FnOf(asFunc(p.Callee(f, x))); g != nil {
			var out []*Func
			walkNoLit(g.Body, func(n ast.Node) bool {
				if rs, ok := n.(*ast.ReturnStmt); ok {
					for _, r := range rs.Results {
						out = append(out, p.funcValues(g, r, depth+1)...)
					}
				}
				return true
			})
			return out
		}
	case *ast.Ident:
		switch o := identObj(info, x).(type) {
		case *types.Func:
			if tf := p.FnOf(o); tf != nil {
				return []*Func{tf}
			}
		case *types.Var:
			if o.IsField() {
				return p.fieldFuncValues(o, depth)
			}
			var out []*Func
			root := f
			for root.Parent != nil {
				root = root.Parent
			}
			ast.Inspect(root.Body, func(n ast.Node) bool {
				if as, ok := n.(*ast.AssignStmt); ok {
					for i, l := range as.Lhs {
						if identObj(info, l) == o && len(as.Rhs) == len(as.Lhs) {
							holder := p.EnclosingFunc(as)
							if holder == nil {
								holder = root
							}
							out = append(out, p.funcValues(holder, as.Rhs[i], depth+1)...)
						}
					}
				}
				return true
			})
			return out
		}
	case *ast.SelectorExpr:
		if fv := SelField(info, x); fv != nil {
			return p.fieldFuncValues(fv, depth)
		}
		if fo, ok := info.Uses[x.Sel].(*types.Func); ok {
			if tf := p.FnOf(fo); tf != nil {
				return []*Func{tf}
			}
		}
	}
	return nil
}

var fieldFuncCache = map[*Prog]map[*types.Var][]*Func{}

func (p *Prog) fieldFuncValues(fv *types.Var, depth int) []*Func {
	m := fieldFuncCache[p]
	if m == nil {
		m = map[*types.Var][]*Func{}
		fieldFuncCache[p] = m
	}
	if v, ok := m[fv]; ok {
		return v
	}
	m[fv] = nil
	var out []*Func
	for _, g := range p.Funcs {
		info := g.Pkg.TypesInfo
		walkNoLit(g.Body, func(n ast.Node) bool {
			switch s := n.(type) {
			case *ast.KeyValueExpr:
				if k, ok := s.Key.(*ast.Ident); ok && info.Uses[k] == fv {
					out = append(out, p.funcValues(g, s.Value, depth+1)...)
				}
			case *ast.AssignStmt:
				for i, l := range s.Lhs {
					if SelField(info, l) == fv && len(s.Rhs) == len(s.Lhs) {
						out = append(out, p.funcValues(g, s.Rhs[i], depth+1)...)
					}
				}
			}
			return true
		})
	}
	m[fv] = out
	return out
}

func (p *Prog) resolveDynamic(f *Func, call *ast.CallExpr, depth int) []*Func {
	var out []*Func
	for _, c := range p.funcValues(f, call.Fun, depth) {
		if c != nil && !hasFunc(out, c) {
			out = append(out, c)
		}
	}
	return out
}
