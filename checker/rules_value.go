package main

import (
	"fmt"
	"go/ast"
	"go/token"
	"go/types"
	"golang.org/x/tools/go/types/typeutil"
	"sort"
	"strings"
)

// Value-level clauses. The rules in the other files decide the *shape* of the
// code; the ones here pin the values that carry a property and that a
// shape-preserving slip (a swapped argument, the sibling field, a changed
// literal) can change: which plugin set is served, which translation
// direction is used, which key is deleted, which duration bounds a wait.

// ---------- R-NEG/served: the negotiated plugin set is what is served ----------

func ruleServedSet(c *Ctx) {
	p := c.P
	f := p.Fn("Serve")
	if f == nil {
		c.R.Undecided("R-NEG", "Serve", "anchor", "function not found")
		return
	}
	info := f.Pkg.TypesInfo
	// the three results of the negotiation call
	var setVar *types.Var
	ast.Inspect(f.Body, func(x ast.Node) bool {
		as, ok := x.(*ast.AssignStmt)
		if !ok || len(as.Lhs) != 3 || len(as.Rhs) != 1 {
			return true
		}
		if call, ok := ast.Unparen(as.Rhs[0]).(*ast.CallExpr); ok && p.CalleeName(f, call) == modPath+".protocolVersion" {
			setVar, _ = identObj(info, as.Lhs[2]).(*types.Var)
		}
		return true
	})
	if setVar == nil {
		c.R.Undecided("R-NEG", f.Name, "negotiated plugin set", "the call of protocolVersion with three results was not found")
		return
	}
	n := 0
	ast.Inspect(f.Body, func(x ast.Node) bool {
		cl, ok := x.(*ast.CompositeLit)
		if !ok {
			return true
		}
		t := info.TypeOf(cl)
		if t == nil {
			return true
		}
		ts := t.String()
		if ts != modPath+".RPCServer" && ts != modPath+".GRPCServer" {
			return true
		}
		for _, el := range cl.Elts {
			kv, ok := el.(*ast.KeyValueExpr)
			if !ok {
				continue
			}
			if k, ok := kv.Key.(*ast.Ident); ok && k.Name == "Plugins" {
				n++
				construct := shortName(ts) + ".Plugins is the negotiated set"
				if identObj(info, p.Deref(f, kv.Value)) == setVar {
					c.R.Hold("R-NEG", p.Pos(kv), f.Name, construct, "the third result of protocolVersion", true)
				} else {
					c.R.Violate("R-NEG", p.Pos(kv), f.Name, construct, "the protocol server is given `"+exprStr(kv.Value)+"` instead of the plugin set registered under the negotiated version: the two sides proceed with sets of different versions", nil)
				}
			}
		}
		return true
	})
	if n < 2 {
		c.R.Undecided("R-NEG", f.Name, "instance-floor", fmt.Sprintf("only %d protocol-server literals with a Plugins field found in Serve, 2 expected", n))
	}
}

// ---------- R-NEG/fold: the legacy pair is folded in only when it exists and does not clash ----------

func ruleLegacyFold(c *Ctx) {
	p := c.P
	foundAny := false
	for _, spec := range []struct{ fn, cfg string }{{"Client.Start", "ClientConfig"}, {"NewClient", "ClientConfig"}} {
		// both are looked at: the fold may live in Start, in the constructor
		// (where the other configuration defaults are applied), or in both - every
		// such store needs the guard
		f := p.Fn(spec.fn)
		if f == nil {
			c.R.Undecided("R-NEG", spec.fn, "anchor", "function not found")
			continue
		}
		info := f.Pkg.TypesInfo
		g := p.Graph(f)
		vpF := p.FieldObj(modPath, spec.cfg, "VersionedPlugins")
		plF := p.FieldObj(modPath, spec.cfg, "Plugins")
		found := false
		for _, m := range g.Nodes {
			as, ok := m.Ast.(*ast.AssignStmt)
			if !ok || len(as.Lhs) != 1 || len(as.Rhs) != 1 {
				continue
			}
			ix, ok := ast.Unparen(as.Lhs[0]).(*ast.IndexExpr)
			if !ok || SelField(info, ix.X) != vpF || SelField(info, as.Rhs[0]) != plF {
				continue
			}
			found = true
			mm := m
			viaAbsent := g.OnlyViaEdge(mm, func(e *Edge) bool {
				at, ok := edgeAtom(info, e)
				if !ok || at.Kind != "bool" || at.True {
					return false
				}
				// the comma-ok of a lookup in VersionedPlugins
				v, isV := identObj(info, at.X).(*types.Var)
				return isV && v.Name() != "_" && types.Identical(v.Type().Underlying(), types.Typ[types.Bool])
			})
			viaPresent := g.OnlyViaEdge(mm, func(e *Edge) bool {
				at, ok := edgeAtom(info, e)
				return ok && at.Kind == "nil" && at.Op == token.NEQ && SelField(info, at.X) == plF
			})
			construct := "legacy ProtocolVersion/Plugins folded in only if absent and set"
			// the server side folds unconditionally into a fresh map (VersionedPlugins == nil): accept that shape
			viaFreshMap := g.OnlyViaEdge(mm, func(e *Edge) bool {
				at, ok := edgeAtom(info, e)
				return ok && at.Kind == "nil" && at.Op == token.EQL && SelField(info, at.X) == vpF
			})
			if (viaAbsent && viaPresent) || viaFreshMap {
				c.R.Hold("R-NEG", p.Pos(as), f.Name, construct, "the store is reachable only when the version is not registered yet and a legacy set exists (or into a freshly made map)", true)
			} else {
				c.R.Violate("R-NEG", p.Pos(as), f.Name, construct, fmt.Sprintf("the legacy plugin set is stored into VersionedPlugins although the version is already registered or no legacy set exists (absent=%v, legacy set non-nil=%v): a spurious or overwritten version is then offered and accepted", viaAbsent, viaPresent), nil)
			}
		}
		if found {
			foundAny = true
		}
		if !foundAny && spec.fn == "NewClient" {
			c.R.Undecided("R-NEG", "Client.Start", "legacy fold", "no store VersionedPlugins[v] = Plugins found")
		}
	}
}

// ruleLegacyFoldServer: the plugin side registers the legacy pair only when a
// legacy plugin set exists (a nil set under version 0 would be a served version).
func ruleLegacyFoldServer(c *Ctx) {
	p := c.P
	f := p.Fn("protocolVersion")
	if f == nil {
		c.R.Undecided("R-NEG", "protocolVersion", "anchor", "function not found")
		return
	}
	info := f.Pkg.TypesInfo
	g := p.Graph(f)
	vpF := p.FieldObj(modPath, "ServeConfig", "VersionedPlugins")
	plF := p.FieldObj(modPath, "ServeConfig", "Plugins")
	found := false
	for _, m := range g.Nodes {
		as, ok := m.Ast.(*ast.AssignStmt)
		if !ok || len(as.Lhs) != 1 || len(as.Rhs) != 1 {
			continue
		}
		ix, ok := ast.Unparen(as.Lhs[0]).(*ast.IndexExpr)
		if !ok || SelField(info, ix.X) != vpF {
			continue
		}
		// the stored value: the legacy field or a local bound to it
		var local *types.Var
		rhs := ast.Unparen(as.Rhs[0])
		isLegacy := SelField(info, rhs) == plF
		if v, ok := identObj(info, rhs).(*types.Var); ok && !v.IsField() {
			// a local that was initialised from the legacy field (it may be re-bound
			// later, in the negotiation loop; the store precedes that)
			for _, d := range g.Nodes {
				if d.Ast == nil {
					continue
				}
				defs, _ := nodeDefsUses(info, d.Ast)
				if r, ok := defs[v]; ok && r != nil && SelField(info, r) == plF {
					isLegacy, local = true, v
				}
			}
		}
		if !isLegacy {
			continue
		}
		found = true
		viaSet := g.OnlyViaEdge(m, func(e *Edge) bool {
			at, ok := edgeAtom(info, e)
			if !ok || at.Kind != "nil" || at.Op != token.NEQ {
				if ok && at.Kind == "len" && (at.Op == token.GTR && at.K == 0 || at.Op == token.NEQ && at.K == 0 || at.Op == token.GEQ && at.K == 1) {
					if SelField(info, at.X) == plF || (local != nil && identObj(info, at.X) == local) {
						return true
					}
				}
				return false
			}
			return SelField(info, at.X) == plF || (local != nil && identObj(info, at.X) == local)
		})
		construct := "legacy ProtocolVersion/Plugins registered only if a legacy set exists (plugin side)"
		if viaSet {
			c.R.Hold("R-NEG", p.Pos(as), f.Name, construct, "the store is reachable only on the non-nil edge of the legacy plugin set", true)
		} else {
			c.R.Violate("R-NEG", p.Pos(as), f.Name, construct, "the legacy pair is stored into VersionedPlugins even when no legacy plugin set is configured: the plugin then serves a spurious version (0 by default) with a nil plugin set, which a host without a common real version negotiates instead of failing", nil)
		}
		// ... and whenever one exists: from the edge on which the legacy set was
		// found non-nil no path goes on to the function's exit without the store
		// (a second condition - "unless the version is 0", "unless versioned sets
		// exist" - takes a legacy version the plugin really serves off the list)
		mm := m
		isSetEdge := func(e *Edge) bool {
			at, ok := edgeAtom(info, e)
			if !ok || at.Kind != "nil" || at.Op != token.NEQ {
				return false
			}
			return SelField(info, at.X) == plF || (local != nil && identObj(info, at.X) == types.Object(local))
		}
		skipped := false
		for _, x := range g.Nodes {
			for _, e := range x.Succs {
				if !isSetEdge(e) || !g.Dominates(x, mm) {
					continue
				}
				seen := p.FeasibleReach(f, []*Node{e.To}, func(y *Node) bool { return y == mm }, nil)
				if seen[g.Exit] {
					skipped = true
				}
			}
		}
		construct2 := "legacy ProtocolVersion/Plugins registered whenever a legacy set exists (plugin side)"
		if skipped {
			c.R.Violate("R-NEG", p.Pos(as), f.Name, construct2, "with a legacy plugin set configured there is a way past this store: a further condition decides whether the legacy version is served at all, so a plugin whose legacy version is the only one in common with the host (version 0 next to newer versioned sets) no longer offers it", nil)
		} else {
			c.R.Hold("R-NEG", p.Pos(as), f.Name, construct2, "from the non-nil edge of the legacy set every path to the exit passes the store", true)
		}
	}
	if !found {
		c.R.Undecided("R-NEG", f.Name, "legacy fold", "no store VersionedPlugins[v] = <legacy Plugins> found")
	}
}

// ---------- R-BOUND/window: the pending-window timers agree; the shutdown deadline is seconds ----------

func ruleWindows(c *Ctx) {
	p := c.P
	type w struct {
		fn   string
		k    int64
		site string
	}
	var ws []w
	for _, nm := range []string{"MuxBroker.Accept", "MuxBroker.timeoutWait", "GRPCBroker.DialWithOptions", "GRPCBroker.timeoutWait", "GRPCBroker.knock"} {
		f := p.Fn(nm)
		if f == nil {
			c.R.Undecided("R-BOUND/window", nm, "anchor", "function not found")
			continue
		}
		got := false
		for _, op := range p.BlockOps(f) {
			if op.Class == "B" && op.TimerK > 0 {
				ws = append(ws, w{nm, op.TimerK, p.Pos(op.Ast)})
				got = true
			}
		}
		if !got {
			c.R.Undecided("R-BOUND/window", nm, "pending-window timer", "no select with a constant timer arm found")
		}
	}
	if len(ws) >= 2 {
		vals := map[int64]bool{}
		for _, x := range ws {
			vals[x.k] = true
		}
		var desc []string
		for _, x := range ws {
			desc = append(desc, fmt.Sprintf("%s=%dms", x.fn, x.k/1e6))
		}
		if len(vals) == 1 && ws[0].k >= 3e9 && ws[0].k <= 10e9 {
			c.R.Hold("R-BOUND/window", ws[0].site, "", "pending-window timers agree", strings.Join(desc, ", "), true)
		} else {
			c.R.Violate("R-BOUND/window", ws[0].site, "", "pending-window timers agree", "the waits that make up the brokers' pending window (accept / dial wait, slot expiry, knock handshake) do not all use the same duration of about five seconds ("+strings.Join(desc, ", ")+"): an accept and a dial issued within the documented window of each other can miss each other, or a wait is not bounded as documented", nil)
		}
	}
	// context deadlines given as constants are between 100 ms and 10 s
	for _, f := range p.Funcs {
		if !notTesting(p, f) {
			continue
		}
		info := f.Pkg.TypesInfo
		for _, call := range f.Calls() {
			if p.CalleeName(f, call) != "context.WithTimeout" || len(call.Args) != 2 {
				continue
			}
			k, isK := constInt(info, call.Args[1])
			if !isK {
				continue
			}
			construct := "constant deadline " + exprStr(call.Args[1])
			if k >= 1e8 && k <= 10e9 {
				c.R.Hold("R-BOUND/window", p.Pos(call), f.Name, construct, fmt.Sprintf("%d ms", k/1e6), false)
			} else {
				c.R.Violate("R-BOUND/window", p.Pos(call), f.Name, construct, fmt.Sprintf("the constant deadline evaluates to %d ms: outside the 0.1 s – 10 s range of every bounded wait in the module (a duration constant multiplied by a unit twice, or a missing unit)", k/1e6), nil)
			}
		}
	}
}

// ---------- R-ID/translate directions ----------

func ruleTranslateDirections(c *Ctx) {
	p := c.P
	for _, spec := range []struct{ fn, want, other, why string }{
		{"GRPCBroker.Accept", "HostToPlugin", "PluginToHost", "the address this side listens on is advertised to the peer, so it is translated from this side's view to the peer's"},
		{"GRPCBroker.DialWithOptions", "PluginToHost", "HostToPlugin", "the address the peer advertised is translated into this side's view before dialling"},
		{"Client.Start", "PluginToHost", "HostToPlugin", "the address on the handshake line is the plugin's view"},
	} {
		f := p.Fn(spec.fn)
		if f == nil {
			c.R.Undecided("R-ID/translate", spec.fn, "anchor", "function not found")
			continue
		}
		var good, bad *ast.CallExpr
		reach := p.ReachableFuncs([]*Func{f}, false)
		for rf := range reach {
			root := rf
			for root.Parent != nil {
				root = root.Parent
			}
			if root != f {
				continue // only f and its literals (and inlined helpers)
			}
			for _, call := range rf.Calls() {
				nm := p.CalleeName(rf, call)
				if strings.HasSuffix(nm, "AddrTranslator."+spec.want) || strings.HasSuffix(nm, "Runner."+spec.want) {
					good = call
				}
				if strings.HasSuffix(nm, "AddrTranslator."+spec.other) || strings.HasSuffix(nm, "Runner."+spec.other) {
					bad = call
				}
			}
		}
		construct := "translation direction " + spec.want
		switch {
		case bad != nil:
			c.R.Violate("R-ID/translate", p.Pos(bad), f.Name, construct, "the address is translated with "+spec.other+" instead of "+spec.want+" ("+spec.why+"): with a runner whose translation is not the identity the peer is told / this side dials an address that does not exist in that namespace", nil)
		case good != nil:
			c.R.Hold("R-ID/translate", p.Pos(good), f.Name, construct, spec.why, true)
		default:
			c.R.Undecided("R-ID/translate", f.Name, construct, "no address translation call found")
		}
	}
}

// ruleTranslateIdentity: the runners that ship with the library (package
// internal/cmdrunner) run the plugin in the host's own namespace, so their
// address translations are the identity: every PluginToHost / HostToPlugin
// method declared in that package returns its two parameters unchanged and a
// nil error. (Start reports, and the broker dials, the translated address; a
// built-in translation that rewrites it makes the client report an address
// that is not the one on the handshake line.)
func ruleTranslateIdentity(c *Ctx) {
	p := c.P
	n := 0
	for _, f := range p.Funcs {
		if f.Decl == nil || f.Decl.Recv == nil || f.Pkg.PkgPath != modPath+"/internal/cmdrunner" {
			continue
		}
		nm := f.Decl.Name.Name
		if nm != "PluginToHost" && nm != "HostToPlugin" {
			continue
		}
		n++
		info := f.Pkg.TypesInfo
		var params []types.Object
		for _, fd := range f.Type.Params.List {
			for _, id := range fd.Names {
				params = append(params, info.Defs[id])
			}
		}
		ok := len(params) == 2
		nRet := 0
		walkNoLit(f.Body, func(x ast.Node) bool {
			rs, isR := x.(*ast.ReturnStmt)
			if !isR {
				return true
			}
			nRet++
			if len(rs.Results) != 3 || len(params) != 2 || identObj(info, rs.Results[0]) != params[0] || identObj(info, rs.Results[1]) != params[1] || !isNilIdent(info, rs.Results[2]) {
				ok = false
			}
			return true
		})
		// the parameters are not re-bound either
		ast.Inspect(f.Body, func(x ast.Node) bool {
			if as, isAs := x.(*ast.AssignStmt); isAs {
				for _, l := range as.Lhs {
					for _, pv := range params {
						if identObj(info, l) == pv {
							ok = false
						}
					}
				}
			}
			return true
		})
		construct := "built-in runner translation is the identity"
		if ok && nRet > 0 {
			c.R.Hold("R-ID/translate", p.Pos(f.Node()), f.Name, construct, "returns its network and address parameters unchanged", true)
		} else {
			c.R.Violate("R-ID/translate", p.Pos(f.Node()), f.Name, construct, "a runner of internal/cmdrunner rewrites the address it translates: the plugin runs in the host's namespace, so the address Start reports (and the broker dials) is then not the address the plugin announced - an abstract socket name or a path the plugin really listens on is replaced by one nothing listens on", nil)
		}
	}
	if n < 2 {
		c.R.Undecided("R-ID/translate", "", "instance-floor", fmt.Sprintf("only %d address translation methods found in internal/cmdrunner, 2 expected", n))
	}
}

// ---------- R-CONN/main: only the protocol-client constructors connect to the plugin's main address ----------

// ruleMainConnOwners: every connection to the plugin's main listener is a
// protocol client's connection - the plugin treats each accepted connection as
// its host (a net/rpc server attaches the process-wide stdout/stderr pipes to
// it, and Client() caches exactly one client). So Client.address is dialled,
// and Client.dialer is used, only inside newRPCClient / newGRPCClient (and
// Client.dialer itself): a second connection made anywhere else (a health
// probe, a re-dial helper) takes output chunks and control of the plugin away
// from the client the host actually uses.
func ruleMainConnOwners(c *Ctx) {
	p := c.P
	addrF := p.FieldObj(modPath, "Client", "address")
	owners := map[string]bool{"newRPCClient": true, "newGRPCClient": true, "Client.dialer": true}
	n, bad := 0, false
	for _, f := range p.Funcs {
		if !notTesting(p, f) {
			continue
		}
		root := f
		for root.Parent != nil {
			root = root.Parent
		}
		info := f.Pkg.TypesInfo
		usesAddr := func(e ast.Expr) bool {
			found := false
			ast.Inspect(e, func(x ast.Node) bool {
				if se, ok := x.(*ast.SelectorExpr); ok && SelField(info, se) == addrF && addrF != nil {
					found = true
				}
				return true
			})
			return found
		}
		walkNoLit(f.Body, func(x ast.Node) bool {
			switch y := x.(type) {
			case *ast.SelectorExpr:
				if fn, ok := info.Uses[y.Sel].(*types.Func); ok && p.FnOf(fn) != nil && p.FnOf(fn).Name == "Client.dialer" {
					n++
					if !owners[root.Name] {
						bad = true
						c.R.Violate("R-CONN/main", p.Pos(y), f.Name, "use of Client.dialer", "the plugin's main address is connected to outside the protocol-client constructors: the plugin serves every accepted connection as its host (net/rpc attaches the stdout/stderr pipes to it), so this second connection takes output and control away from the client Client() returns", nil)
					}
				}
			case *ast.CallExpr:
				nm := p.CalleeName(f, y)
				if nm == "net.Dial" || nm == "net.DialTimeout" || nm == "net.Dialer.Dial" || nm == "net.Dialer.DialContext" || nm == "netAddrDialer" || nm == modPath+".netAddrDialer" || nm == "crypto/tls.Dial" || nm == "crypto/tls.DialWithDialer" {
					on := false
					for _, a := range y.Args {
						if usesAddr(a) {
							on = true
						}
					}
					if on {
						n++
						if !owners[root.Name] {
							bad = true
							c.R.Violate("R-CONN/main", p.Pos(y), f.Name, "dial of Client.address", "the plugin's main address is connected to outside the protocol-client constructors: the plugin serves every accepted connection as its host (net/rpc attaches the stdout/stderr pipes to it), so this second connection takes output and control away from the client Client() returns", nil)
						}
					}
				}
			}
			return true
		})
	}
	if n < 1 {
		c.R.Undecided("R-CONN/main", "", "instance-floor", fmt.Sprintf("only %d connection sites to Client.address found, 3 expected (newRPCClient, Client.dialer, newGRPCClient's use of it)", n))
	} else if !bad {
		c.R.Hold("R-CONN/main", "-", "", "connections to the plugin's main address", fmt.Sprintf("%d sites, all inside newRPCClient, newGRPCClient or Client.dialer", n), true)
	}
}

// ruleMainDialOptionsOnly: ClientConfig.GRPCDialOptions configures the main
// connection - credentials, dialers and interceptors chosen for the plugin's
// main server. It is read in exactly one way: spread into the dialGRPCConn
// call of newGRPCClient. Stored in the broker and applied to brokered dials,
// a credential or dialer option in it points every brokered connection at the
// wrong server or the wrong security.
func ruleMainDialOptionsOnly(c *Ctx) {
	p := c.P
	fv := p.FieldObj(modPath, "ClientConfig", "GRPCDialOptions")
	if fv == nil {
		c.R.Undecided("R-SIB/dialopts", "", "ClientConfig.GRPCDialOptions", "field not found")
		return
	}
	n, bad := 0, false
	for _, f := range p.Funcs {
		if !notTesting(p, f) {
			continue
		}
		info := f.Pkg.TypesInfo
		walkNoLit(f.Body, func(x ast.Node) bool {
			se, ok := x.(*ast.SelectorExpr)
			if !ok || SelField(info, se) != fv {
				return true
			}
			n++
			okUse := false
			if call, isCall := p.Parent(se).(*ast.CallExpr); isCall && p.CalleeName(f, call) == modPath+".dialGRPCConn" && call.Ellipsis.IsValid() && len(call.Args) > 0 && ast.Unparen(call.Args[len(call.Args)-1]) == ast.Expr(se) {
				root := f
				for root.Parent != nil {
					root = root.Parent
				}
				okUse = root.Name == "newGRPCClient"
			}
			construct := "ClientConfig.GRPCDialOptions reaches the main connection only"
			if okUse {
				c.R.Hold("R-SIB/dialopts", p.Pos(se), f.Name, construct, "spread into the dialGRPCConn call of newGRPCClient", true)
			} else {
				bad = true
				c.R.Violate("R-SIB/dialopts", p.Pos(se), f.Name, construct, "the options configured for the main connection are read here for something else (kept in the broker, applied to brokered dials): a credential, authority or dialer option among them sends a connection dialled for a broker id to the wrong server, or makes it speak TLS to a plaintext brokered server", nil)
			}
			return true
		})
	}
	if n == 0 && !bad {
		c.R.Undecided("R-SIB/dialopts", "", "ClientConfig.GRPCDialOptions reaches the main connection only", "the field is never read")
	}
}

// ---------- R-SLOT/one: a pending slot parks exactly one item ----------

func ruleSlotCapacityOne(c *Ctx) {
	p := c.P
	n := 0
	for _, f := range p.Funcs {
		if !notTesting(p, f) {
			continue
		}
		info := f.Pkg.TypesInfo
		ast.Inspect(f.Body, func(x ast.Node) bool {
			cl, ok := x.(*ast.CompositeLit)
			if !ok {
				return true
			}
			t := info.TypeOf(cl)
			if t == nil {
				return true
			}
			nt, ok := t.(*types.Named)
			if !ok {
				return true
			}
			canon := p.typeName(nt.Obj())
			if canon != "muxBrokerPending" && canon != "gRPCBrokerPending" {
				return true
			}
			for _, el := range cl.Elts {
				kv, ok := el.(*ast.KeyValueExpr)
				if !ok {
					continue
				}
				k, _ := kv.Key.(*ast.Ident)
				mk, isCall := ast.Unparen(kv.Value).(*ast.CallExpr)
				if k == nil || !isCall || p.CalleeName(f, mk) != "builtin.make" {
					continue
				}
				fv, _ := info.Uses[k].(*types.Var)
				if fv == nil || !strings.HasSuffix(p.FieldName(fv), ".ch") {
					continue
				}
				n++
				capK := int64(0)
				if len(mk.Args) == 2 {
					capK, _ = constInt(info, mk.Args[1])
				}
				construct := "capacity of " + p.FieldName(fv)
				if capK == 1 {
					c.R.Hold("R-SLOT", p.Pos(kv), f.Name, construct, "exactly one parked item: what the expiry handler looks for and what a second dial to a pending id is refused by", true)
				} else {
					c.R.Violate("R-SLOT", p.Pos(kv), f.Name, construct, fmt.Sprintf("the pending slot's hand-off channel has capacity %d, not 1: with 0 a dial that arrives before the accept is dropped, with more a second connection for the id is parked where neither the acceptor nor the expiry handler ever looks (its dialer waits forever)", capK), nil)
				}
			}
			return true
		})
	}
	if n < 3 {
		c.R.Undecided("R-SLOT", "", "instance-floor", fmt.Sprintf("only %d pending-slot literals found, 3 expected", n))
	}
}

// ---------- R-RES/broker: the brokers' Close really closes ----------

func ruleBrokerCloseCloses(c *Ctx) {
	p := c.P
	if f := p.Fn("MuxBroker.Close"); f != nil {
		g := p.Graph(f)
		seen := g.Reach([]*Node{g.Entry}, func(m *Node) bool {
			for _, call := range callsIn(m.Ast) {
				if p.CalleeName(f, call) == "github.com/hashicorp/yamux.Session.Close" {
					return true
				}
			}
			return false
		}, nil)
		if _, miss := seen[g.Exit]; miss {
			c.R.Violate("R-RES/broker", p.Pos(f.Node()), f.Name, "Close closes the yamux session", "MuxBroker.Close does not call yamux.Session.Close on every path: the session, its connection and the broker's Run goroutine stay alive after the client was closed", nil)
		} else {
			c.R.Hold("R-RES/broker", p.Pos(f.Node()), f.Name, "Close closes the yamux session", "", true)
		}
	} else {
		c.R.Undecided("R-RES/broker", "MuxBroker.Close", "anchor", "function not found")
	}
}

// ---------- R-TABLE/levels json keys ----------

func ruleJSONKeys(c *Ctx) {
	p := c.P
	f := p.Fn("parseJSON")
	if f == nil {
		c.R.Undecided("R-TABLE/levels", "parseJSON", "anchor", "function not found")
		return
	}
	info := f.Pkg.TypesInfo
	// keys read from the raw map, keys deleted from it, in source order
	type site struct {
		key string
		pos token.Pos
	}
	var reads, dels []site
	ast.Inspect(f.Body, func(x ast.Node) bool {
		switch y := x.(type) {
		case *ast.IndexExpr:
			if k, ok := constString(info, y.Index); ok && strings.HasPrefix(k, "@") {
				reads = append(reads, site{k, y.Pos()})
			}
		case *ast.CallExpr:
			if p.CalleeName(f, y) == "builtin.delete" && len(y.Args) == 2 {
				if k, ok := constString(info, y.Args[1]); ok {
					dels = append(dels, site{k, y.Pos()})
				}
			}
		}
		return true
	})
	if len(reads) < 3 {
		c.R.Undecided("R-TABLE/levels", f.Name, "instance-floor", fmt.Sprintf("only %d hclog keys read in parseJSON, 3 expected (@message, @level, @timestamp)", len(reads)))
		return
	}
	// each read key is deleted by the first delete that follows its read and
	// precedes the next read
	for i, r := range reads {
		end := token.Pos(1 << 30)
		if i+1 < len(reads) {
			end = reads[i+1].pos
		}
		var got []string
		for _, d := range dels {
			if d.pos > r.pos && d.pos < end {
				got = append(got, d.key)
			}
		}
		construct := "hclog key " + r.key + " consumed"
		if len(got) == 1 && got[0] == r.key {
			c.R.Hold("R-TABLE/levels", p.Pos(f.Node()), f.Name, construct, "read into its entry field and removed from the key/value remainder", true)
		} else {
			c.R.Violate("R-TABLE/levels", p.Pos(f.Node()), f.Name, construct, fmt.Sprintf("after reading %q the parser removes %v from the remaining fields: the record re-emitted by the host carries a spurious or missing key/value field", r.key, got), nil)
		}
	}
}

// ---------- R-DRAIN: the fallback drain cannot block; every non-empty chunk is sent ----------

func ruleDrainSink(c *Ctx) {
	p := c.P
	start := p.Fn("Client.Start")
	if start == nil {
		c.R.Undecided("R-DRAIN", "Client.Start", "anchor", "function not found")
		return
	}
	n := 0
	for _, f := range p.Funcs {
		root := f
		for root.Parent != nil {
			root = root.Parent
		}
		if root != start {
			continue
		}
		info := f.Pkg.TypesInfo
		for _, call := range f.Calls() {
			if p.CalleeName(f, call) != "io.Copy" || len(call.Args) != 2 {
				continue
			}
			// a copy whose source is the runner's stdout pipe
			src, _ := identObj(info, call.Args[1]).(*types.Var)
			if src == nil {
				continue
			}
			isPipe := false
			if d := p.singleDef(f, src); d != nil {
				if dc, ok := ast.Unparen(d).(*ast.CallExpr); ok && strings.HasSuffix(p.CalleeName(f, dc), "Runner.Stdout") {
					isPipe = true
				}
			}
			if !isPipe {
				continue
			}
			n++
			dst := objFullName(objOfExpr(info, call.Args[0]))
			if dst == "io.Discard" || dst == "io/ioutil.Discard" {
				c.R.Hold("R-DRAIN", p.Pos(call), f.Name, "stdout fallback drain goes to a sink that cannot block", dst, true)
			} else {
				c.R.Violate("R-DRAIN", p.Pos(call), f.Name, "stdout fallback drain goes to a sink that cannot block", "the drain that keeps consuming the plugin's stdout after the line scanner gave up copies into `"+exprStr(call.Args[0])+"`: if that writer blocks or fails the pipe is no longer read and the plugin stalls on its next write", nil)
			}
		}
	}
	if n == 0 {
		c.R.Undecided("R-DRAIN", start.Name, "stdout fallback drain", "no io.Copy from the runner's stdout found in Start")
	}
	// copyChan: every read that returned at least one byte is forwarded
	if f := p.Fn("copyChan"); f != nil {
		info := f.Pkg.TypesInfo
		found := false
		ast.Inspect(f.Body, func(x ast.Node) bool {
			ifs, ok := x.(*ast.IfStmt)
			if !ok {
				return true
			}
			sends := false
			ast.Inspect(ifs.Body, func(y ast.Node) bool {
				if _, ok := y.(*ast.SendStmt); ok {
					sends = true
				}
				return true
			})
			if !sends {
				return true
			}
			be, ok := ast.Unparen(ifs.Cond).(*ast.BinaryExpr)
			if !ok {
				return true
			}
			found = true
			okCond := false
			if k, isK := constInt(info, be.Y); isK {
				okCond = (be.Op == token.GTR && k == 0) || (be.Op == token.NEQ && k == 0) || (be.Op == token.GEQ && k == 1)
			} else if k, isK := constInt(info, be.X); isK {
				okCond = (be.Op == token.LSS && k == 0) || (be.Op == token.NEQ && k == 0) || (be.Op == token.LEQ && k == 1)
			}
			if okCond {
				c.R.Hold("R-ORDER/O10", p.Pos(ifs), f.Name, "every non-empty read is forwarded", "`"+exprStr(ifs.Cond)+"`", true)
			} else {
				c.R.Violate("R-ORDER/O10", p.Pos(ifs), f.Name, "every non-empty read is forwarded", "the chunk is forwarded only when `"+exprStr(ifs.Cond)+"`: reads that returned fewer bytes are dropped, so bytes of the plugin's output are lost", nil)
			}
			return true
		})
		if !found {
			c.R.Undecided("R-ORDER/O10", f.Name, "chunk guard", "no length test guarding the channel send found")
		}
	}
}

// ---------- R-DEFAULTS: a default is stored only into the field that was found unset ----------

func ruleDefaults(c *Ctx) {
	p := c.P
	n := 0
	for _, nm := range []string{"NewClient"} {
		f := p.Fn(nm)
		if f == nil {
			c.R.Undecided("R-DEFAULTS", nm, "anchor", "function not found")
			continue
		}
		info := f.Pkg.TypesInfo
		g := p.Graph(f)
		for _, m := range g.Nodes {
			as, ok := m.Ast.(*ast.AssignStmt)
			if !ok || as.Tok != token.ASSIGN {
				continue
			}
			for _, l := range as.Lhs {
				fv := SelField(info, l)
				if fv == nil || !strings.HasPrefix(p.FieldName(fv), "ClientConfig.") {
					continue
				}
				// is this store conditional at all?
				if g.Dominates(m, g.Exit) {
					continue
				}
				n++
				mm := m
				guarded := g.OnlyViaEdge(mm, func(e *Edge) bool {
					at, ok := edgeAtom(info, e)
					if !ok || SelField(info, at.X) != fv {
						return false
					}
					switch at.Kind {
					case "nil":
						return at.Op == token.EQL
					case "cmp":
						if k, isK := constInt(info, at.Y); isK && k == 0 {
							return at.Op == token.EQL
						}
						if s, isS := constString(info, at.Y); isS && s == "" {
							return at.Op == token.EQL
						}
					case "bool":
						return !at.True
					}
					return false
				})
				construct := "default for " + p.FieldName(fv)
				// the port range is one setting (0 is a legal lower bound): its
				// defaults apply only to a range that is unset as a whole
				partner := map[string]string{"ClientConfig.MinPort": "MaxPort", "ClientConfig.MaxPort": "MinPort"}[p.FieldName(fv)]
				if guarded && partner != "" {
					pf := p.FieldObj(modPath, "ClientConfig", partner)
					both := pf != nil && g.OnlyViaEdge(mm, func(e *Edge) bool {
						at, ok := edgeAtom(info, e)
						if !ok || SelField(info, at.X) != pf || at.Kind != "cmp" {
							return false
						}
						k, isK := constInt(info, at.Y)
						return isK && k == 0 && at.Op == token.EQL
					})
					if !both {
						c.R.Violate("R-DEFAULTS", p.Pos(as), f.Name, construct+" (range unset as a whole)", "the default is stored into "+p.FieldName(fv)+" although ClientConfig."+partner+" may have been configured: a range of which only one bound is set (0 is a legal lower bound) has its other bound replaced, and the plugin is handed a range the caller never asked for (possibly an empty one)", nil)
						continue
					}
					c.R.Hold("R-DEFAULTS", p.Pos(as), f.Name, construct+" (range unset as a whole)", "stored only where both bounds were found zero", true)
				}
				if guarded {
					c.R.Hold("R-DEFAULTS", p.Pos(as), f.Name, construct, "stored only on the edge on which this very field is unset", true)
				} else {
					c.R.Violate("R-DEFAULTS", p.Pos(as), f.Name, construct, "the default is stored into "+p.FieldName(fv)+" on a path that did not establish that this field is unset (the test looks at another field, or combines tests with ||): a value the caller configured is overwritten", nil)
				}
			}
		}
	}
	if n < 6 {
		c.R.Undecided("R-DEFAULTS", "NewClient", "instance-floor", fmt.Sprintf("only %d conditional defaults found, 8 were counted by hand", n))
	}
	// presence: the fields the rest of the client relies on being set
	if f := p.Fn("NewClient"); f != nil {
		info := f.Pkg.TypesInfo
		stored := map[string]bool{}
		ast.Inspect(f.Body, func(x ast.Node) bool {
			if as, ok := x.(*ast.AssignStmt); ok {
				for i, l := range as.Lhs {
					if fv := SelField(info, l); fv != nil && i < len(as.Rhs) && !isNilIdent(info, as.Rhs[i]) {
						if k, isK := constInt(info, as.Rhs[i]); isK && k == 0 {
							continue
						}
						stored[p.FieldName(fv)] = true
					}
				}
			}
			return true
		})
		for _, w := range []struct{ field, why string }{
			{"ClientConfig.MinPort", "the port range handed to the plugin (PLUGIN_MIN_PORT)"},
			{"ClientConfig.MaxPort", "the port range handed to the plugin (PLUGIN_MAX_PORT)"},
			{"ClientConfig.StartTimeout", "a zero timeout makes every Start fail at once"},
			{"ClientConfig.Stderr", "logStderr writes every line to it"},
			{"ClientConfig.SyncStdout", "the stdio forwarders write to it"},
			{"ClientConfig.SyncStderr", "the stdio forwarders write to it"},
			{"ClientConfig.Logger", "every log statement dereferences it"},
		} {
			construct := "default exists for " + w.field
			if stored[w.field] {
				c.R.Hold("R-DEFAULTS", p.Pos(f.Node()), f.Name, construct, "", false)
			} else {
				c.R.Violate("R-DEFAULTS", p.Pos(f.Node()), f.Name, construct, "NewClient no longer gives "+w.field+" a default: "+w.why+", and a configuration that leaves it unset now reaches the plugin (or the forwarding code) with the zero value", nil)
			}
		}
	}
}

// ---------- dial options table ----------

func ruleDialOptions(c *Ctx) {
	p := c.P
	f := p.Fn("dialGRPCConn")
	if f == nil {
		c.R.Undecided("R-SIB/dialopts", "dialGRPCConn", "anchor", "function not found")
		return
	}
	info := f.Pkg.TypesInfo
	// the caller's options (DialWithOptions) are passed on: the variadic
	// parameter is spread into an append or into the Dial call
	if f.Type.Params != nil && len(f.Type.Params.List) > 0 {
		last := f.Type.Params.List[len(f.Type.Params.List)-1]
		if _, isVar := last.Type.(*ast.Ellipsis); isVar && len(last.Names) == 1 {
			pv := info.Defs[last.Names[0]]
			used := false
			ast.Inspect(f.Body, func(x ast.Node) bool {
				if call, ok := x.(*ast.CallExpr); ok && call.Ellipsis.IsValid() && len(call.Args) > 0 && identObj(info, call.Args[len(call.Args)-1]) == pv {
					used = true
				}
				return true
			})
			if used {
				c.R.Hold("R-SIB/dialopts", p.Pos(f.Node()), f.Name, "caller's dial options are applied", "the variadic parameter is spread into the option list", true)
			} else {
				c.R.Violate("R-SIB/dialopts", p.Pos(f.Node()), f.Name, "caller's dial options are applied", "the options a caller passes to DialWithOptions never reach grpc.Dial: per-connection settings (interceptors, authority, message limits) are silently dropped", nil)
			}
		}
	}
	have := map[string]int64{}
	note := func(tinfo *types.Info, call *ast.CallExpr) {
		nm := ""
		if fn := typeutil.Callee(tinfo, call); fn != nil {
			nm = objFullName(fn)
		}
		if nm == "google.golang.org/grpc.MaxCallRecvMsgSize" || nm == "google.golang.org/grpc.MaxCallSendMsgSize" {
			k, _ := constInt(tinfo, call.Args[0])
			have[strings.TrimPrefix(nm, "google.golang.org/")] = k
		}
	}
	for _, call := range f.Calls() {
		note(info, call)
	}
	// options kept in a package-level slice that is never written and is spread
	// or extended in this function count with their initialiser
	ast.Inspect(f.Body, func(x ast.Node) bool {
		id, ok := x.(*ast.Ident)
		if !ok {
			return true
		}
		v, ok := info.Uses[id].(*types.Var)
		if !ok || v.IsField() || v.Pkg() == nil || v.Parent() != v.Pkg().Scope() || !strings.HasPrefix(v.Pkg().Path(), modPath) {
			return true
		}
		if _, isSlice := v.Type().Underlying().(*types.Slice); !isSlice || !p.pkgVarNeverWritten(v) {
			return true
		}
		for _, pkg := range p.Pkgs {
			for _, file := range pkg.Syntax {
				for _, d := range file.Decls {
					gd, isGen := d.(*ast.GenDecl)
					if !isGen {
						continue
					}
					for _, sp := range gd.Specs {
						vs, isVS := sp.(*ast.ValueSpec)
						if !isVS {
							continue
						}
						for i, nm := range vs.Names {
							if pkg.TypesInfo.Defs[nm] == types.Object(v) && i < len(vs.Values) {
								ast.Inspect(vs.Values[i], func(y ast.Node) bool {
									if call, isCall := y.(*ast.CallExpr); isCall {
										note(pkg.TypesInfo, call)
									}
									return true
								})
							}
						}
					}
				}
			}
		}
		return true
	})
	var miss []string
	for _, want := range []string{"grpc.MaxCallRecvMsgSize", "grpc.MaxCallSendMsgSize"} {
		if have[want] != 1<<31-1 {
			miss = append(miss, want)
		}
	}
	sort.Strings(miss)
	if len(miss) == 0 {
		c.R.Hold("R-SIB/dialopts", p.Pos(f.Node()), f.Name, "message size limits lifted in both directions", "MaxCallRecvMsgSize(MaxInt32) and MaxCallSendMsgSize(MaxInt32)", true)
	} else {
		c.R.Violate("R-SIB/dialopts", p.Pos(f.Node()), f.Name, "message size limits lifted in both directions", "the dial options no longer set "+strings.Join(miss, ", ")+" to math.MaxInt32: gRPC's 4 MiB default applies in that direction and large responses/requests fail with ResourceExhausted", nil)
	}
}

// ---------- hostEnv filter ----------

func ruleHostEnvFilter(c *Ctx) {
	p := c.P
	f := p.Fn("hostEnv")
	if f == nil {
		c.R.Undecided("R-TABLE/env", "hostEnv", "anchor", "function not found")
		return
	}
	info := f.Pkg.TypesInfo
	// the variable ranging over os.Environ()
	var kv types.Object
	ast.Inspect(f.Body, func(x ast.Node) bool {
		if rs, ok := x.(*ast.RangeStmt); ok && rs.Value != nil {
			if call, ok := ast.Unparen(rs.X).(*ast.CallExpr); ok && p.CalleeName(f, call) == "os.Environ" {
				kv = identObj(info, rs.Value)
			}
		}
		if fl, ok := x.(*ast.FuncLit); ok && kv == nil && fl.Type.Params != nil && len(fl.Type.Params.List) == 1 && len(fl.Type.Params.List[0].Names) == 1 {
			kv = info.Defs[fl.Type.Params.List[0].Names[0]]
		}
		return true
	})
	got := map[string]bool{}
	var bad []string
	ast.Inspect(f.Body, func(x ast.Node) bool {
		call, ok := x.(*ast.CallExpr)
		if !ok {
			return true
		}
		switch p.CalleeName(f, call) {
		case "strings.HasPrefix":
			pre, isK := constString(info, call.Args[1])
			if identObj(info, call.Args[0]) != kv || kv == nil {
				bad = append(bad, "`"+exprStr(call)+"` does not test the environment entry")
				return true
			}
			if !isK || !strings.HasSuffix(pre, "=") || strings.Count(pre, "=") != 1 {
				bad = append(bad, "`"+exprStr(call)+"` does not test for NAME= exactly")
				return true
			}
			got[strings.TrimSuffix(pre, "=")] = true
		case "strings.Cut":
			// name, _, ok := strings.Cut(kv, "="); name == NAME
			if identObj(info, call.Args[0]) == kv {
				ast.Inspect(f.Body, func(y ast.Node) bool {
					if be, ok := y.(*ast.BinaryExpr); ok && be.Op == token.EQL {
						if s, isS := constString(info, be.Y); isS {
							got[s] = true
						}
					}
					return true
				})
			}
		}
		return true
	})
	for _, want := range []string{"PLUGIN_CLIENT_CERT", "PLUGIN_MULTIPLEX_GRPC"} {
		construct := "inherited " + want + " is filtered whatever its value"
		if got[want] && len(bad) == 0 {
			c.R.Hold("R-TABLE/env", p.Pos(f.Node()), f.Name, construct, "entries named "+want+" are dropped from the inherited environment", true)
		} else {
			why := "no test for the prefix " + want + "= on the environment entry"
			if len(bad) > 0 {
				why = strings.Join(bad, "; ")
			}
			c.R.Violate("R-TABLE/env", p.Pos(f.Node()), f.Name, construct, why+": a host that carries the variable (with any value) passes it on, and the plugin negotiates a feature this client did not ask for", nil)
		}
	}
}

// ---------- exit status of the mux entry point ----------

func ruleServeMuxExit(c *Ctx) {
	p := c.P
	f := p.Fn("ServeMux")
	if f == nil {
		c.R.Undecided("R-GATE/cookie", "ServeMux", "anchor", "function not found")
		return
	}
	info := f.Pkg.TypesInfo
	n := 0
	for _, call := range f.Calls() {
		if p.CalleeName(f, call) != "os.Exit" || len(call.Args) != 1 {
			continue
		}
		n++
		k, isK := constInt(info, call.Args[0])
		if isK && k == 1 {
			c.R.Hold("R-GATE/cookie", p.Pos(call), f.Name, fmt.Sprintf("improper invocation exits with status 1 (#%d)", n), "", false)
		} else {
			c.R.Violate("R-GATE/cookie", p.Pos(call), f.Name, fmt.Sprintf("improper invocation exits with status 1 (#%d)", n), "a plugin binary that is not invoked as a plugin exits with `"+exprStr(call.Args[0])+"` instead of status 1", nil)
		}
	}
	if n < 2 {
		c.R.Undecided("R-GATE/cookie", f.Name, "instance-floor", fmt.Sprintf("only %d os.Exit calls found in ServeMux, 2 expected", n))
	}
}

// ---------- R-ALIAS: no append into a caller-owned slice ----------

// ruleNoAppendToParam — `append(p, ...)` where p is a slice parameter of the
// function (including a variadic one) may write into the caller's backing
// array when it has spare capacity: two goroutines passing the same slice then
// race on it and see each other's elements. Building a new slice must start
// from a local (`append(local, p...)`).
func ruleNoAppendToParam(c *Ctx) {
	p := c.P
	n := 0
	for _, f := range p.Funcs {
		if !notTesting(p, f) {
			continue
		}
		info := f.Pkg.TypesInfo
		params := map[types.Object]bool{}
		if f.Type != nil && f.Type.Params != nil {
			for _, fd := range f.Type.Params.List {
				for _, nm := range fd.Names {
					if o := info.Defs[nm]; o != nil {
						if _, isSlice := o.Type().Underlying().(*types.Slice); isSlice {
							params[o] = true
						}
					}
				}
			}
		}
		if len(params) == 0 {
			continue
		}
		// a parameter that is reassigned is a local from then on (flow-insensitive: skip it)
		ast.Inspect(f.Body, func(x ast.Node) bool {
			if as, ok := x.(*ast.AssignStmt); ok {
				for i, l := range as.Lhs {
					o := identObj(info, l)
					if !params[o] {
						continue
					}
					// p = append(p, ...) keeps p caller-owned; anything else makes it local
					if i < len(as.Rhs) {
						if call, ok := ast.Unparen(as.Rhs[i]).(*ast.CallExpr); ok && p.CalleeName(f, call) == "builtin.append" && len(call.Args) > 0 && identObj(info, call.Args[0]) == o {
							continue
						}
					}
					delete(params, o)
				}
			}
			return true
		})
		for _, call := range f.Calls() {
			if p.CalleeName(f, call) != "builtin.append" || len(call.Args) < 2 {
				continue
			}
			o := identObj(info, call.Args[0])
			if !params[o] {
				continue
			}
			n++
			c.R.Violate("R-ALIAS", p.Pos(call), f.Name, "append into parameter "+o.Name(), "the function appends to its slice parameter `"+o.Name()+"`: if the caller's slice has spare capacity the elements are written into the caller's array, so concurrent callers sharing that slice race and receive each other's values (here: another connection's dialer/options)", nil)
		}
	}
	if n == 0 {
		c.R.Hold("R-ALIAS", "-", "", "no append into a slice parameter anywhere in scope", "", false)
	}
}

// ---------- R-ONCE/cache writers and Kill's cleanup ----------

// ruleKillClears — the protocol-client cache (Client.client) is reset to nil
// only by Client() itself (on a failed connect); Kill's deferred cleanup
// clears Client.runner (so that ID() and later Kills see no process) and
// nothing else of the started-state.
func ruleKillClears(c *Ctx) {
	p := c.P
	clientF := p.FieldObj(modPath, "Client", "client")
	runnerF := p.FieldObj(modPath, "Client", "runner")
	if clientF == nil || runnerF == nil {
		c.R.Undecided("R-ONCE", "Client", "fields client/runner", "not found")
		return
	}
	bad := false
	clearsRunner := false
	for _, f := range p.Funcs {
		if !notTesting(p, f) {
			continue
		}
		info := f.Pkg.TypesInfo
		walkNoLit(f.Body, func(x ast.Node) bool {
			as, ok := x.(*ast.AssignStmt)
			if !ok {
				return true
			}
			for i, l := range as.Lhs {
				if i >= len(as.Rhs) || !isNilIdent(info, as.Rhs[i]) {
					continue
				}
				switch SelField(info, l) {
				case clientF:
					if rootName(f) != "Client.Client" {
						bad = true
						c.R.Violate("R-ONCE", p.Pos(as), f.Name, "protocol-client cache reset only by Client()", "the cached protocol client is dropped outside Client(): a later Client() call dials again and returns a different protocol client than earlier calls (or revives a killed client)", nil)
					}
				case runnerF:
					if rootName(f) == "Client.Kill" {
						clearsRunner = true
					}
				}
			}
			return true
		})
	}
	if !bad {
		c.R.Hold("R-ONCE", "-", "Client.Client", "protocol-client cache reset only by Client()", "no other function stores nil into Client.client", true)
	}
	if clearsRunner {
		c.R.Hold("R-ONCE", "-", "Client.Kill", "Kill clears the runner reference", "", true)
	} else {
		c.R.Violate("R-ONCE", "-", "Client.Kill", "Kill clears the runner reference", "Kill no longer clears Client.runner: ID() keeps reporting the dead process and a later Kill runs the whole shutdown again", nil)
	}
}
