package main

import (
	"go/ast"
	"go/token"
	"go/types"
	"sort"
	"strings"
)

// R-ERR/L3 — a nil-able result that was returned together with an error is not
// dereferenced before that error was tested.
//
//	f, err := elf.Open(path)
//	defer f.Close()          // f is nil whenever err != nil: panic
//	if err != nil { ... }
//
// For every tuple assignment `v, ..., err := call(...)` whose value v has a
// pointer or interface type, every path from the assignment to a node that
// calls a method on v, selects a field through v, dereferences or calls v
// (including in a defer or go statement, whose receiver is evaluated at once)
// must have passed the `err == nil` edge of that very error, or a `v != nil`
// test. Path-sensitive (E3); edges refine on err and on v.
type errL3 struct {
	p     *Prog
	f     *Func
	pairs map[*types.Var]*types.Var // value var -> its error var (latest tuple assignment is tracked in the store)
	bad   map[*Node]string
}

func nilableResult(t types.Type) bool {
	switch t.Underlying().(type) {
	case *types.Pointer, *types.Interface:
		return true
	}
	return false
}

func (d *errL3) Transfer(n *Node, s Store) []Store {
	info := d.f.Pkg.TypesInfo
	if n.Ast == nil {
		return []Store{s}
	}
	// uses first (the right-hand side is evaluated before the assignment)
	for v := range d.pairs {
		k := "L3:" + varKey(v)
		if !s.Has(k) {
			continue
		}
		if use := derefUse(info, n.Ast, v); use != "" {
			if _, seen := d.bad[n]; !seen {
				d.bad[n] = v.Name() + " " + use + " while the error returned with it (" + s.Get(k) + ") has not been tested"
			}
		}
	}
	defs, _ := nodeDefsUses(info, n.Ast)
	// a redefinition of the error variable ends the pairing; of the value too
	for v, ev := range d.pairs {
		k := "L3:" + varKey(v)
		if _, re := defs[ev]; re {
			s = s.Without(k)
		}
		if _, re := defs[v]; re {
			s = s.Without(k)
		}
	}
	if as, ok := n.Ast.(*ast.AssignStmt); ok && len(as.Rhs) == 1 && len(as.Lhs) >= 2 {
		if _, isCall := ast.Unparen(as.Rhs[0]).(*ast.CallExpr); isCall {
			var ev *types.Var
			for _, l := range as.Lhs {
				if v, ok := identObj(info, l).(*types.Var); ok && isErrorType(v.Type()) && v.Name() != "_" {
					ev = v
				}
			}
			if ev != nil {
				for _, l := range as.Lhs {
					v, ok := identObj(info, l).(*types.Var)
					if !ok || v == ev || v.IsField() || v.Name() == "_" || !nilableResult(v.Type()) || isErrorType(v.Type()) {
						continue
					}
					if d.pairs[v] == nil || d.pairs[v] == ev {
						d.pairs[v] = ev
						s = s.With("L3:"+varKey(v), ev.Name()+" at "+d.p.Pos(as))
					}
				}
			}
		}
	}
	return []Store{s}
}

func (d *errL3) Refine(e *Edge, s Store) (Store, bool) {
	info := d.f.Pkg.TypesInfo
	at, ok := edgeAtom(info, e)
	if !ok {
		return s, true
	}
	clearErr := func(ev types.Object) Store {
		for v, pe := range d.pairs {
			if pe == ev {
				s = s.Without("L3:" + varKey(v))
			}
		}
		return s
	}
	switch at.Kind {
	case "nil":
		o := identObj(info, at.X)
		if o == nil {
			return s, true
		}
		if v, isV := o.(*types.Var); isV {
			if isErrorType(v.Type()) {
				// either outcome of a test of the error counts as "tested": on the
				// non-nil edge the function normally leaves, and if it goes on using
				// the value that is the business of the nil-test of the value itself
				if at.Op == token.EQL {
					return clearErr(v), true
				}
				return s, true
			}
			if _, paired := d.pairs[v]; paired && at.Op == token.NEQ {
				return s.Without("L3:" + varKey(v)), true
			}
		}
	case "cmp":
		// err == io.EOF etc.: the error is being looked at; keep the pairing
	}
	return s, true
}

// derefUse reports how node a dereferences v ("" if it does not).
func derefUse(info *types.Info, a ast.Node, v *types.Var) string {
	out := ""
	isV := func(e ast.Expr) bool { return identObj(info, ast.Unparen(e)) == v }
	walkNoLit(a, func(x ast.Node) bool {
		if out != "" {
			return false
		}
		switch s := x.(type) {
		case *ast.SelectorExpr:
			if isV(s.X) {
				if sel := info.Selections[s]; sel != nil {
					switch sel.Kind() {
					case types.FieldVal:
						if _, isPtr := v.Type().Underlying().(*types.Pointer); isPtr {
							out = "is dereferenced (field " + s.Sel.Name + ")"
						}
					case types.MethodVal:
						// a method call on a nil pointer only panics if the method
						// dereferences; for interfaces it always panics. Value-receiver
						// methods through a pointer always dereference.
						out = "has method " + s.Sel.Name + " called on it"
					}
				}
			}
		case *ast.StarExpr:
			if isV(s.X) {
				out = "is dereferenced"
			}
		}
		return true
	})
	return out
}

func ruleErrL3(c *Ctx) {
	p := c.P
	n := 0
	for _, f := range p.Funcs {
		if !notTesting(p, f) {
			continue
		}
		g := p.Graph(f)
		d := &errL3{p: p, f: f, pairs: map[*types.Var]*types.Var{}, bad: map[*Node]string{}}
		// pre-scan: is there any candidate at all?
		has := false
		info := f.Pkg.TypesInfo
		walkNoLit(f.Body, func(x ast.Node) bool {
			as, ok := x.(*ast.AssignStmt)
			if !ok || len(as.Rhs) != 1 || len(as.Lhs) < 2 {
				return true
			}
			for _, l := range as.Lhs {
				if v, ok := identObj(info, l).(*types.Var); ok && !isErrorType(v.Type()) && nilableResult(v.Type()) && v.Name() != "_" {
					has = true
				}
			}
			return true
		})
		if !has {
			continue
		}
		res := Interp(g, d, NewStore())
		if res.Capped {
			c.R.Undecided("R-ERR/L3", f.Name, "state-cap", "too many path states")
			continue
		}
		var vars []string
		for v := range d.pairs {
			vars = append(vars, v.Name())
		}
		if len(d.pairs) == 0 {
			continue
		}
		n += len(d.pairs)
		if len(d.bad) == 0 {
			sort.Strings(vars)
			c.R.Hold("R-ERR/L3", p.Pos(f.Node()), f.Name, "results used only after their error was tested: "+strings.Join(vars, ","), "", true)
			continue
		}
		for node, why := range d.bad {
			c.R.Violate("R-ERR/L3", p.Pos(node.Ast), f.Name, "result used before its error is tested", why+": when the call fails the value is nil and this panics (a deferred or go'd method call evaluates its receiver immediately)", nil)
		}
	}
	if n < 20 {
		c.R.Undecided("R-ERR/L3", "", "instance-floor", "fewer than 20 (value, error) result pairs found; 40 were counted by hand")
	}
}
