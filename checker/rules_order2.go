package main

import (
	"fmt"
	"go/ast"
	"go/token"
	"go/types"
	"strings"
)

// ---------- R-ORDER O2/O3: runner recorded before launch; kill-on-error defer ----------

func ruleOrderStart(c *Ctx) {
	p := c.P
	si := p.startInfo(c, "R-ORDER")
	if si == nil {
		return
	}
	f, g, info := si.f, si.g, si.info
	runnerF := p.FieldObj(modPath, "Client", "runner")
	var startN *Node
	var startCall *ast.CallExpr
	for n, what := range si.launch {
		if what == "runner.Start" {
			startN = n
			for _, call := range callsIn(n.Ast) {
				if p.CalleeName(f, call) == modPath+"/runner.Runner.Start" {
					startCall = call
				}
			}
		}
	}
	if startN == nil || startCall == nil {
		c.R.Undecided("R-ORDER/O2", f.Name, "runner.Start", "launch call not found")
		return
	}
	rv, _ := identObj(info, startCall.Fun.(*ast.SelectorExpr).X).(*types.Var)
	// O2
	okO2 := false
	for _, m := range g.Nodes {
		if as, ok := m.Ast.(*ast.AssignStmt); ok && len(as.Lhs) == 1 && len(as.Rhs) == 1 && SelField(info, as.Lhs[0]) == runnerF {
			if identObj(info, as.Rhs[0]) == rv && rv != nil && g.Dominates(m, startN) {
				okO2 = true
			}
		}
	}
	if okO2 {
		c.R.Hold("R-ORDER/O2", p.Pos(startN.Ast), f.Name, "Client.runner stored before runner.Start", "so that Kill can reach a process whose start-up fails or hangs", true)
	} else {
		c.R.Violate("R-ORDER/O2", p.Pos(startN.Ast), f.Name, "Client.runner stored before runner.Start", "the runner is started before it is recorded in the client: a Kill during a hanging start cannot reach the process", nil)
	}
	// O3: the kill-on-error defer
	var namedErr *types.Var
	if f.Type.Results != nil {
		for _, fd := range f.Type.Results.List {
			for _, nm := range fd.Names {
				if v, ok := info.Defs[nm].(*types.Var); ok && isErrorType(v.Type()) {
					namedErr = v
				}
			}
		}
	}
	if namedErr == nil {
		c.R.Violate("R-ORDER/O3", p.Pos(f.Node()), f.Name, "kill-on-error defer", "Start has no named error result for the deferred cleanup to read", nil)
		return
	}
	var dn *Node
	var lit *Func
	for _, m := range g.Nodes {
		ds, ok := m.Ast.(*ast.DeferStmt)
		if !ok {
			continue
		}
		fl, ok := ast.Unparen(ds.Call.Fun).(*ast.FuncLit)
		if !ok {
			continue
		}
		lf := p.Lit(fl)
		for _, call := range lf.Calls() {
			if p.CalleeName(lf, call) == modPath+"/runner.AttachedRunner.Kill" {
				dn, lit = m, lf
			}
		}
	}
	if dn == nil {
		c.R.Violate("R-ORDER/O3", p.Pos(f.Node()), f.Name, "kill-on-error defer", "no deferred closure in Start kills the runner", nil)
		return
	}
	// registered right after a successful launch: no exit between
	errOfStart := func(e *Edge) bool {
		at, ok := edgeAtom(info, e)
		return ok && at.Kind == "nil" && at.Op == token.NEQ && isErrorType(info.TypeOf(at.X))
	}
	seen := g.ReachAfter(startN, func(x *Node) bool { return x == dn }, func(e *Edge) bool {
		return errOfStart(e) && e.From != dn && g.Dominates(startN, e.From) && firstCondAfter(g, startN, e.From)
	})
	// only feasible paths count: after an inlined launch helper the shared
	// `if err != nil { return }` follows `err = nil` on the success path
	feas := p.FeasibleReach(f, []*Node{startN}, func(x *Node) bool { return x == dn }, func(e *Edge) bool {
		return errOfStart(e) && e.From != dn && g.Dominates(startN, e.From) && firstCondAfter(g, startN, e.From)
	})
	if _, bad := seen[g.Exit]; bad && feas[g.Exit] {
		c.R.Violate("R-ORDER/O3", p.Pos(dn.Ast), f.Name, "defer registered right after the launch", "there is a return between a successful runner.Start and the registration of the cleanup defer: a failure there leaves the process running", p.PathTo(seen, g.Exit))
	} else if !g.Dominates(startN, dn) && p.FeasibleReach(f, []*Node{g.Entry}, func(x *Node) bool { return x == startN }, nil)[dn] {
		c.R.Violate("R-ORDER/O3", p.Pos(dn.Ast), f.Name, "defer registered right after the launch", "the cleanup defer is not registered after the launch", nil)
	} else {
		c.R.Hold("R-ORDER/O3", p.Pos(dn.Ast), f.Name, "defer registered right after the launch", "no return lies between a successful runner.Start and the defer statement", true)
	}
	// the closure: kill iff named err != nil or a panic is in flight; re-panic
	linfo := lit.Pkg.TypesInfo
	lg := p.Graph(lit)
	var recV *types.Var
	for _, call := range lit.Calls() {
		if p.CalleeName(lit, call) == "builtin.recover" {
			recV = assignedVar(p, linfo, call)
		}
	}
	// locals of Start that are plain copies of the started runner (runner := r)
	rvs := map[types.Object]bool{}
	if rv != nil {
		rvs[rv] = true
		for changed := true; changed; {
			changed = false
			nonCopy := map[types.Object]bool{}
			type cp struct{ dst, src types.Object }
			var cps []cp
			ast.Inspect(f.Body, func(x ast.Node) bool {
				as, ok := x.(*ast.AssignStmt)
				if !ok {
					return true
				}
				for i, l := range as.Lhs {
					dv, _ := identObj(info, l).(*types.Var)
					if dv == nil || dv.IsField() {
						continue
					}
					if len(as.Lhs) != len(as.Rhs) {
						nonCopy[dv] = true
						continue
					}
					if isNilIdent(info, as.Rhs[i]) {
						continue
					}
					if sv, ok := identObj(info, ast.Unparen(as.Rhs[i])).(*types.Var); ok && !sv.IsField() {
						cps = append(cps, cp{dv, sv})
					} else {
						nonCopy[dv] = true
					}
				}
				return true
			})
			for _, e := range cps {
				if rvs[e.src] && !rvs[e.dst] && !nonCopy[e.dst] {
					only := true
					for _, e2 := range cps {
						if e2.dst == e.dst && !rvs[e2.src] {
							only = false
						}
					}
					if only {
						rvs[e.dst] = true
						changed = true
					}
				}
			}
		}
	}
	var killN *Node
	for _, m := range lg.Nodes {
		for _, call := range callsIn(m.Ast) {
			if p.CalleeName(lit, call) == modPath+"/runner.AttachedRunner.Kill" {
				if se, ok := call.Fun.(*ast.SelectorExpr); ok && rvs[identObj(linfo, se.X)] {
					killN = m
				}
			}
		}
	}
	isErrEdge := func(e *Edge) bool {
		at, ok := edgeAtom(linfo, e)
		return ok && at.Kind == "nil" && at.Op == token.NEQ && identObj(linfo, at.X) == namedErr
	}
	isRecEdge := func(e *Edge) bool {
		at, ok := edgeAtom(linfo, e)
		return ok && at.Kind == "nil" && at.Op == token.NEQ && recV != nil && identObj(linfo, at.X) == recV
	}
	okGuard := killN != nil && recV != nil
	if okGuard {
		// every path with err != nil or rErr != nil passes the kill; the tests themselves are unavoidable
		nErr, nRec := 0, 0
		for _, m := range lg.Nodes {
			for _, e := range m.Succs {
				if (isErrEdge(e) || isRecEdge(e)) && reachable(lg, m, killN) {
					if isErrEdge(e) {
						nErr++
					} else {
						nRec++
					}
					s2 := lg.Reach([]*Node{e.To}, func(x *Node) bool { return x == killN }, nil)
					if _, miss := s2[lg.Exit]; miss {
						okGuard = false
					}
					if _, miss := s2[lg.Abort]; miss {
						okGuard = false
					}
				}
			}
		}
		if nErr == 0 || nRec == 0 {
			okGuard = false
		}
		// the error test cannot be bypassed
		s3 := lg.Reach([]*Node{lg.Entry}, func(x *Node) bool {
			for _, e := range x.Succs {
				if isErrEdge(e) {
					return true
				}
			}
			return x == killN
		}, nil)
		if _, miss := s3[lg.Exit]; miss {
			okGuard = false
		}
	}
	if okGuard {
		// with a panic in flight the named result can still be nil: a method
		// call on it before the kill makes the cleanup itself panic, and the
		// started process is left behind
		var deref ast.Node
		for _, m := range lg.Nodes {
			for _, e := range m.Succs {
				if !isRecEdge(e) {
					continue
				}
				s4 := lg.Reach([]*Node{e.To}, func(x *Node) bool { return x == killN }, isErrEdge)
				for x := range s4 {
					if x.Ast == nil {
						continue
					}
					for _, call := range callsIn(x.Ast) {
						if se, ok := call.Fun.(*ast.SelectorExpr); ok && identObj(linfo, ast.Unparen(se.X)) == namedErr && deref == nil {
							deref = call
						}
					}
				}
			}
		}
		if deref != nil {
			c.R.Violate("R-ORDER/O3", p.Pos(deref), lit.Name, "kill reached when a panic is in flight", "a method of Start's named result err is called on a path from `recovered != nil` to runner.Kill on which err was not tested: with a panic in flight err is nil, the cleanup itself panics before the kill and the started process is left behind", nil)
		} else {
			c.R.Hold("R-ORDER/O3", p.Pos(killN.Ast), lit.Name, "kill reached when a panic is in flight", "no method of the (possibly nil) named result err is called between the recovered-panic test and runner.Kill", true)
		}
	}
	if okGuard {
		c.R.Hold("R-ORDER/O3", p.Pos(lit.Node()), lit.Name, "kill iff named err != nil or panic", "the deferred closure tests Start's named result err and recover(); either being non-nil leads to runner.Kill on the started runner", true)
	} else {
		c.R.Violate("R-ORDER/O3", p.Pos(lit.Node()), lit.Name, "kill iff named err != nil or panic", "the deferred cleanup does not kill the started runner whenever Start's named result err is non-nil or a panic is in flight (it must read the named result by identity and recover())", nil)
	}
	// re-panic
	rep := false
	for _, m := range lg.Nodes {
		for _, call := range callsIn(m.Ast) {
			if p.CalleeName(lit, call) == "builtin.panic" && len(call.Args) == 1 && identObj(linfo, call.Args[0]) == recV && recV != nil {
				if lg.OnlyViaEdge(m, isRecEdge) {
					rep = true
				}
			}
		}
	}
	if rep {
		c.R.Hold("R-ORDER/O3", p.Pos(lit.Node()), lit.Name, "re-panic after cleanup", "panic(recovered) under recovered != nil", true)
	} else {
		c.R.Violate("R-ORDER/O3", p.Pos(lit.Node()), lit.Name, "re-panic after cleanup", "a recovered panic is swallowed instead of being re-raised after the runner was killed", nil)
	}
}

// firstCondAfter: cond node m tests the error produced at n (no other
// error-producing assignment lies between them).
func firstCondAfter(g *Graph, n, m *Node) bool {
	seen := g.ReachAfter(n, func(x *Node) bool {
		if x == m {
			return false
		}
		_, isAs := x.Ast.(*ast.AssignStmt)
		return isAs
	}, nil)
	_, ok := seen[m]
	return ok
}

// ---------- R-ORDER O4: producer goroutine, then the deferred drain, no exit between ----------

func ruleOrderO4(c *Ctx) {
	p := c.P
	si := p.startInfo(c, "R-ORDER/O4")
	if si == nil {
		return
	}
	f, g := si.f, si.g
	ci := p.Calls()
	var prodN, drainN *Node
	var chV types.Object
	var prodLit *Func
	for _, cs := range ci.sites[f] {
		if cs.Kind != "go" || len(cs.Callees) != 1 || cs.Callees[0].Lit == nil {
			continue
		}
		lf := cs.Callees[0]
		ast.Inspect(lf.Body, func(x ast.Node) bool {
			if ss, ok := x.(*ast.SendStmt); ok {
				if v := identObj(lf.Pkg.TypesInfo, ss.Chan); v != nil {
					if ch, ok := v.Type().Underlying().(*types.Chan); ok && types.Identical(ch.Elem(), types.Typ[types.String]) {
						prodN, chV, prodLit = cs.Node, v, lf
					}
				}
			}
			return true
		})
	}
	for _, m := range g.Nodes {
		ds, ok := m.Ast.(*ast.DeferStmt)
		if !ok {
			continue
		}
		fl, ok := ast.Unparen(ds.Call.Fun).(*ast.FuncLit)
		if !ok {
			continue
		}
		lf := p.Lit(fl)
		for _, cs := range ci.sites[lf] {
			if cs.Kind == "go" && len(cs.Callees) == 1 {
				gl := cs.Callees[0]
				ast.Inspect(gl.Body, func(x ast.Node) bool {
					if rs, ok := x.(*ast.RangeStmt); ok && chV != nil && identObj(gl.Pkg.TypesInfo, rs.X) == chV {
						drainN = m
					}
					return true
				})
			}
		}
	}
	// the drain may also be started by plain go statements on the ways out of
	// Start (an extracted "discard the rest" helper called before each early
	// return): every go statement of Start whose goroutine ranges over the same
	// channel (or a local bound once to it) is a drain start
	drains := map[*Node]bool{}
	if drainN != nil {
		drains[drainN] = true
	}
	isLinesCh := func(lf *Func, e ast.Expr) bool {
		o := identObj(lf.Pkg.TypesInfo, e)
		if o == nil || chV == nil {
			return false
		}
		if o == chV {
			return true
		}
		if v, ok := o.(*types.Var); ok && !v.IsField() {
			if d := p.singleDef(f, v); d != nil && identObj(f.Pkg.TypesInfo, ast.Unparen(d)) == chV {
				return true
			}
		}
		return false
	}
	for _, cs := range ci.sites[f] {
		if cs.Kind != "go" || len(cs.Callees) != 1 || cs.Callees[0].Lit == nil || cs.Node == nil || cs.Node == prodN {
			continue
		}
		gl := cs.Callees[0]
		ast.Inspect(gl.Body, func(x ast.Node) bool {
			if rs, ok := x.(*ast.RangeStmt); ok && isLinesCh(gl, rs.X) {
				drains[cs.Node] = true
				if drainN == nil {
					drainN = cs.Node
				}
			}
			return true
		})
	}
	if prodN != nil && drainN == nil {
		// no drain: the producer itself gives a line up once Start has returned -
		// every send of a line is an arm of a select whose other arm receives
		// from a channel that only a defer of Start closes
		if dn, how := p.producerAbandons(f, prodLit, chV); dn != nil {
			seen := g.ReachAfter(prodN, func(x *Node) bool { return x == dn }, nil)
			if _, bad := seen[g.Exit]; bad && !g.Dominates(dn, prodN) {
				c.R.Violate("R-ORDER/O4", p.Pos(dn.Ast), f.Name, "drain registered right after the producer", "Start can return between starting the stdout producer and registering the deferred close of the channel that releases it: the producer blocks on its channel and the plugin on its pipe", p.PathTo(seen, g.Exit))
			} else {
				c.R.Hold("R-ORDER/O4", p.Pos(dn.Ast), f.Name, "drain registered right after the producer", how, true)
			}
			return
		}
	}
	if prodN == nil || drainN == nil {
		c.R.Violate("R-ORDER/O4", p.Pos(f.Node()), f.Name, "stdout line producer and deferred drain", fmt.Sprintf("the goroutine sending stdout lines (%v) or the deferred goroutine draining the same channel (%v) was not found: after Start returns nobody receives the lines and the producer blocks", prodN != nil, drainN != nil), nil)
		return
	}
	// the drain goroutine receives until the channel is closed: a return,
	// break or goto out of its range loop leaves the producer without a
	// receiver, and the plugin blocked on its stdout pipe
	for _, cs := range ci.sites[f] {
		if cs.Kind != "go" && cs.Kind != "defer" {
			continue
		}
		for _, gl0 := range cs.Callees {
			if gl0.Lit == nil {
				continue
			}
			fns := []*Func{gl0}
			for _, cs2 := range ci.sites[gl0] {
				if cs2.Kind == "go" && len(cs2.Callees) == 1 && cs2.Callees[0].Lit != nil {
					fns = append(fns, cs2.Callees[0])
				}
			}
			for _, gl := range fns {
				if gl == prodLit {
					continue
				}
				ast.Inspect(gl.Body, func(x ast.Node) bool {
					if fl, ok := x.(*ast.FuncLit); ok && fl.Body != gl.Body {
						return false
					}
					if rs, ok := x.(*ast.RangeStmt); ok && isLinesCh(gl, rs.X) {
						if early := earlyLoopExit(rs.Body); early != nil {
							c.R.Violate("R-ORDER/O4", p.Pos(early), f.Name, "drain runs until the channel is closed", "the goroutine draining the stdout line channel leaves its range loop at this statement while the channel is still open: the producer blocks on its next send and the plugin on its stdout pipe", nil)
						} else {
							c.R.Hold("R-ORDER/O4", p.Pos(rs), f.Name, "drain runs until the channel is closed", "no return, break or goto leaves the range loop over the line channel", true)
						}
					}
					return true
				})
			}
		}
	}
	seen := g.ReachAfter(prodN, func(x *Node) bool { return drains[x] }, nil)
	if _, bad := seen[g.Exit]; bad {
		c.R.Violate("R-ORDER/O4", p.Pos(drainN.Ast), f.Name, "drain registered right after the producer", "Start can return between starting the stdout producer and registering the drain: the producer blocks on its channel and the plugin on its pipe", p.PathTo(seen, g.Exit))
	} else {
		c.R.Hold("R-ORDER/O4", p.Pos(drainN.Ast), f.Name, "drain registered right after the producer", "every path from the producer's go statement passes the defer that starts the drain goroutine on the same channel", true)
	}
}

// ---------- R-ORDER O1 + G-sum: checksum verified before any launch ----------

func ruleSecureOrder(c *Ctx) {
	p := c.P
	si := p.startInfo(c, "R-ORDER/O1")
	if si == nil {
		return
	}
	f, g, info := si.f, si.g, si.info
	scF := p.FieldObj(modPath, "ClientConfig", "SecureConfig")
	var chkN *Node
	var okV, errV *types.Var
	var cmdV types.Object
	for _, m := range g.Nodes {
		for _, call := range callsIn(m.Ast) {
			if p.CalleeName(f, call) != modPath+".SecureConfig.Check" {
				continue
			}
			chkN = m
			if as, ok := m.Ast.(*ast.AssignStmt); ok && len(as.Lhs) == 2 {
				okV, _ = identObj(info, as.Lhs[0]).(*types.Var)
				errV, _ = identObj(info, as.Lhs[1]).(*types.Var)
			}
			if se, ok := ast.Unparen(call.Args[0]).(*ast.SelectorExpr); ok && se.Sel.Name == "Path" {
				cmdV = identObj(info, se.X)
			}
		}
	}
	if chkN == nil || okV == nil || errV == nil {
		c.R.Violate("R-ORDER/O1", p.Pos(f.Node()), f.Name, "checksum gate", "Start does not call SecureConfig.Check with both results bound", nil)
		return
	}
	// the check runs with the client lock held: SecureConfig.Hash is one object
	// that every Start of this configuration writes into - two checks at the same
	// time mix their input, so a good binary is refused or (worse) the digest
	// compared belongs to neither file
	{
		heldL := false
		for v := range p.MustHeldAt(f, chkN) {
			if p.lockName(v) == "Client.l" {
				heldL = true
			}
		}
		if heldL {
			c.R.Hold("R-ORDER/O1", p.Pos(chkN.Ast), f.Name, "checksum computed under the client lock", "Client.l is certainly held at the call of SecureConfig.Check", true)
		} else {
			c.R.Violate("R-ORDER/O1", p.Pos(chkN.Ast), f.Name, "checksum computed under the client lock", "SecureConfig.Check is called without Client.l held: concurrent Start/Client calls feed the one shared SecureConfig.Hash at the same time, and the digest that is compared is that of neither binary", nil)
		}
	}
	// the command checked is the command launched
	same := cmdV != nil
	for n := range si.launch {
		for _, call := range callsIn(n.Ast) {
			nm := p.CalleeName(f, call)
			if strings.HasSuffix(nm, "cmdrunner.NewCmdRunner") {
				if len(call.Args) != 2 || identObj(info, call.Args[1]) != cmdV {
					same = false
				}
			}
		}
	}
	// from the SecureConfig != nil edge, launch sites only through err == nil and ok
	okGate := false
	for _, m := range g.Nodes {
		for _, e := range m.Succs {
			at, isAt := edgeAtom(info, e)
			if !isAt || at.Kind != "nil" || at.Op != token.NEQ || SelField(info, at.X) != scF {
				continue
			}
			dom := true
			for ln := range si.launch {
				if !g.Dominates(m, ln) {
					dom = false
				}
			}
			leak := false
			for _, cutter := range []func(*Edge) bool{
				func(x *Edge) bool {
					a, ok := edgeAtom(info, x)
					return ok && a.Kind == "bool" && a.True && identObj(info, a.X) == okV
				},
				func(x *Edge) bool {
					a, ok := edgeAtom(info, x)
					return ok && a.Kind == "nil" && a.Op == token.EQL && identObj(info, a.X) == errV
				},
			} {
				seen := g.Reach([]*Node{e.To}, nil, cutter)
				for ln := range si.launch {
					if _, r := seen[ln]; r {
						leak = true
					}
				}
			}
			if dom && !leak {
				okGate = true
			}
		}
	}
	if !okGate {
		// the same requirement as a feasible-reachability query from the entry of
		// Start: with a SecureConfig (edges asserting it is nil removed) and the
		// passing edge of either result removed, no launch site is reachable. This
		// form also holds when the check sits in an (inlined) helper that only
		// reports an error which Start tests afterwards.
		scNil := func(x *Edge) bool {
			a, ok := edgeAtom(info, x)
			return ok && a.Kind == "nil" && a.Op == token.EQL && SelField(info, a.X) == scF
		}
		tested := false
		for _, m := range g.Nodes {
			for _, e := range m.Succs {
				if scNil(e) {
					tested = true
				}
				if a, ok := edgeAtom(info, e); ok && a.Kind == "nil" && a.Op == token.NEQ && SelField(info, a.X) == scF {
					tested = true
				}
			}
		}
		leak := !tested
		for _, cutter := range []func(*Edge) bool{
			func(x *Edge) bool {
				a, ok := edgeAtom(info, x)
				return ok && a.Kind == "bool" && a.True && identObj(info, a.X) == okV
			},
			func(x *Edge) bool {
				a, ok := edgeAtom(info, x)
				return ok && a.Kind == "nil" && a.Op == token.EQL && identObj(info, a.X) == errV
			},
		} {
			cf := cutter
			fr := p.FeasibleReach(f, []*Node{g.Entry}, nil, func(x *Edge) bool { return cf(x) || scNil(x) })
			for ln := range si.launch {
				if fr[ln] {
					leak = true
				}
			}
		}
		if !leak {
			okGate = true
		}
	}
	if okGate && same {
		c.R.Hold("R-ORDER/O1", p.Pos(chkN.Ast), f.Name, "checksum gate", "with a SecureConfig every launch site is reachable only after Check(cmd.Path) returned (true, nil), for the command that is launched", true)
	} else {
		c.R.Violate("R-ORDER/O1", p.Pos(chkN.Ast), f.Name, "checksum gate",
			fmt.Sprintf("the plugin binary can be launched although SecureConfig.Check did not return (true, nil) for it (gate=%v sameCommand=%v)", okGate, same), nil)
	}
}

// ---------- R-CMP + sentinels in SecureConfig.Check ----------

func ruleCmp(c *Ctx) {
	p := c.P
	f := p.Fn("SecureConfig.Check")
	if f == nil {
		c.R.Undecided("R-CMP", "SecureConfig.Check", "anchor", "function not found")
		return
	}
	info := f.Pkg.TypesInfo
	g := p.Graph(f)
	hashF := p.FieldObj(modPath, "SecureConfig", "Hash")
	sumF := p.FieldObj(modPath, "SecureConfig", "Checksum")
	var openN, copyN, sumN *Node
	var fileV, sumV *types.Var
	for _, m := range g.Nodes {
		for _, call := range callsIn(m.Ast) {
			switch p.CalleeName(f, call) {
			case "os.Open":
				if pv, ok := identObj(info, call.Args[0]).(*types.Var); ok && isParamOf(info, f, pv) {
					openN = m
					fileV = assignedVar(p, info, call)
				}
			case "io.Copy":
				if SelField(info, call.Args[0]) == hashF && fileV != nil && identObj(info, call.Args[1]) == fileV {
					copyN = m
				}
			case "hash.Hash.Sum":
				if se, ok := call.Fun.(*ast.SelectorExpr); ok && SelField(info, se.X) == hashF && isNilIdent(info, call.Args[0]) {
					sumN = m
					sumV = assignedVar(p, info, call)
				}
			}
		}
	}
	if openN == nil || copyN == nil || sumN == nil || sumV == nil {
		c.R.Violate("R-CMP", p.Pos(f.Node()), f.Name, "digest of the file", fmt.Sprintf("Check does not compute Hash.Sum(nil) after io.Copy(Hash, os.Open(path)) (open=%v copy=%v sum=%v)", openN != nil, copyN != nil, sumN != nil), nil)
		return
	}
	if g.Dominates(openN, copyN) && g.Dominates(copyN, sumN) {
		c.R.Hold("R-CMP", p.Pos(sumN.Ast), f.Name, "digest of the file", "os.Open(path) -> io.Copy(Hash, file) -> Hash.Sum(nil), in that order on every path", true)
	} else {
		c.R.Violate("R-CMP", p.Pos(sumN.Ast), f.Name, "digest of the file", "the digest is not taken after the whole file was copied into the hash", nil)
	}
	// the successful return compares the whole values
	n := 0
	for _, m := range g.Nodes {
		rs, ok := m.Ast.(*ast.ReturnStmt)
		if !ok || len(rs.Results) != 2 || !isNilIdent(info, rs.Results[1]) {
			continue
		}
		n++
		r := ast.Unparen(rs.Results[0])
		whole := false
		if be, ok := r.(*ast.BinaryExpr); ok && be.Op == token.EQL {
			if call, ok := ast.Unparen(be.X).(*ast.CallExpr); ok && p.CalleeName(f, call) == "crypto/subtle.ConstantTimeCompare" {
				if k, ok := constInt(info, be.Y); ok && k == 1 {
					whole = p.cmpOperands(info, call, sumV, sumF)
				}
			}
		}
		if call, ok := r.(*ast.CallExpr); ok && p.CalleeName(f, call) == "bytes.Equal" {
			whole = p.cmpOperands(info, call, sumV, sumF)
		}
		if whole && (g.Dominates(sumN, m) || !p.FeasibleReach(f, []*Node{g.Entry}, func(x *Node) bool { return x == sumN }, nil)[m]) {
			c.R.Hold("R-CMP", p.Pos(rs), f.Name, "whole-value comparison", "ConstantTimeCompare(sum, Checksum) == 1 on the un-sliced digest and checksum", true)
		} else {
			c.R.Violate("R-CMP", p.Pos(rs), f.Name, "whole-value comparison", "the match result is not the constant-time (length-sensitive) equality of the complete digest with the complete configured checksum: a truncated, extended or otherwise different checksum can be accepted", nil)
		}
	}
	if n != 1 {
		c.R.Violate("R-CMP", p.Pos(f.Node()), f.Name, "single success return", fmt.Sprintf("%d returns with a nil error found, expected exactly the comparison", n), nil)
	}
}

func (p *Prog) cmpOperands(info *types.Info, call *ast.CallExpr, sumV *types.Var, sumF *types.Var) bool {
	if len(call.Args) != 2 {
		return false
	}
	a, b := ast.Unparen(call.Args[0]), ast.Unparen(call.Args[1])
	isSum := func(e ast.Expr) bool { return identObj(info, e) == sumV }
	isChk := func(e ast.Expr) bool { return SelField(info, e) == sumF }
	return (isSum(a) && isChk(b)) || (isSum(b) && isChk(a))
}

func ruleSentinelSecure(c *Ctx) {
	p := c.P
	f := p.Fn("SecureConfig.Check")
	if f == nil {
		c.R.Undecided("R-SENT", "SecureConfig.Check", "anchor", "function not found")
		return
	}
	info := f.Pkg.TypesInfo
	g := p.Graph(f)
	scope := p.Pkgs[modPath].Types.Scope()
	sumF := p.FieldObj(modPath, "SecureConfig", "Checksum")
	hashF := p.FieldObj(modPath, "SecureConfig", "Hash")
	var openN *Node
	for _, m := range g.Nodes {
		for _, call := range callsIn(m.Ast) {
			if p.CalleeName(f, call) == "os.Open" {
				openN = m
			}
		}
	}
	retSent := func(from *Node, sent types.Object) bool {
		seen := g.Reach([]*Node{from}, func(x *Node) bool {
			rs, ok := x.Ast.(*ast.ReturnStmt)
			if !ok || len(rs.Results) != 2 {
				return false
			}
			id, isFalse := ast.Unparen(rs.Results[0]).(*ast.Ident)
			return isFalse && id.Name == "false" && identObj(info, rs.Results[1]) == sent
		}, nil)
		if _, miss := seen[g.Exit]; miss {
			return false
		}
		if openN != nil {
			if _, r := seen[openN]; r {
				return false
			}
		}
		return true
	}
	type guard struct {
		name string
		sent string
		edge func(condAtom) bool
	}
	for _, gd := range []guard{
		{"empty checksum", "ErrSecureConfigNoChecksum", func(at condAtom) bool {
			return at.Kind == "len" && SelField(info, at.X) == sumF && (at.Op == token.EQL && at.K == 0 || at.Op == token.LSS && at.K == 1 || at.Op == token.LEQ && at.K == 0)
		}},
		{"nil hash", "ErrSecureConfigNoHash", func(at condAtom) bool {
			return at.Kind == "nil" && at.Op == token.EQL && SelField(info, at.X) == hashF
		}},
	} {
		sent := scope.Lookup(gd.sent)
		ok := false
		for _, m := range g.Nodes {
			for _, e := range m.Succs {
				at, isAt := edgeAtom(info, e)
				if isAt && gd.edge(at) && sent != nil && retSent(e.To, sent) && (openN == nil || g.Dominates(m, openN)) {
					ok = true
				}
				// the sentinel recorded in an error variable and returned further down
				// (an inlined validation helper), the file still unopened on that way
				if isAt && gd.edge(at) && sent != nil && !ok && p.sentinelOnEveryPath(f, e.To, sent) {
					if openN == nil || !p.FeasibleReach(f, []*Node{e.To}, nil, nil)[openN] {
						ok = true
					}
				}
			}
		}
		if ok {
			c.R.Hold("R-SENT", p.Pos(f.Node()), f.Name, gd.name+" -> "+gd.sent, "returned (false, sentinel) before the file is opened", true)
		} else {
			c.R.Violate("R-SENT", p.Pos(f.Node()), f.Name, gd.name+" -> "+gd.sent, "the "+gd.name+" case does not return (false, "+gd.sent+") before anything else", nil)
		}
	}
	// Start: !ok -> ErrChecksumsDoNotMatch
	st := p.Fn("Client.Start")
	if st == nil {
		return
	}
	sinfo := st.Pkg.TypesInfo
	sg := p.Graph(st)
	sent := scope.Lookup("ErrChecksumsDoNotMatch")
	var okV *types.Var
	for _, m := range sg.Nodes {
		for _, call := range callsIn(m.Ast) {
			if p.CalleeName(st, call) == modPath+".SecureConfig.Check" {
				if as, ok := m.Ast.(*ast.AssignStmt); ok && len(as.Lhs) == 2 {
					okV, _ = identObj(sinfo, as.Lhs[0]).(*types.Var)
				}
			}
		}
	}
	good := false
	for _, m := range sg.Nodes {
		for _, e := range m.Succs {
			at, isAt := edgeAtom(sinfo, e)
			if !isAt || at.Kind != "bool" || at.True || okV == nil || identObj(sinfo, at.X) != okV {
				continue
			}
			seen := sg.Reach([]*Node{e.To}, func(x *Node) bool {
				rs, ok := x.Ast.(*ast.ReturnStmt)
				return ok && len(rs.Results) == 2 && identObj(sinfo, rs.Results[1]) == sent && sent != nil
			}, nil)
			if _, miss := seen[sg.Exit]; !miss {
				good = true
			} else if p.sentinelOnEveryPath(st, e.To, sent) {
				good = true
			}
		}
	}
	if good {
		c.R.Hold("R-SENT", p.Pos(st.Node()), st.Name, "mismatch -> ErrChecksumsDoNotMatch", "", true)
	} else {
		c.R.Violate("R-SENT", p.Pos(st.Node()), st.Name, "mismatch -> ErrChecksumsDoNotMatch", "a checksum mismatch does not return ErrChecksumsDoNotMatch", nil)
	}
}

// sentinelOnEveryPath: every feasible path from start ends in a return whose
// last result is the sentinel, directly or through local error variables that,
// within the region reachable from start, are only ever assigned the sentinel
// (or another such variable). Covers `err = ErrX; break ...; if err != nil { return nil, err }`.
func (p *Prog) sentinelOnEveryPath(f *Func, start *Node, sent types.Object) bool {
	if sent == nil {
		return false
	}
	info := f.Pkg.TypesInfo
	g := p.Graph(f)
	isRet := func(x *Node) bool { _, ok := x.Ast.(*ast.ReturnStmt); return ok }
	states := p.FeasibleStates(f, []*Node{start}, NewStore(), nil, nil, nil, isRet)
	if _, r := states[g.Exit]; r {
		return false
	}
	// variables that hold the sentinel throughout the region
	holds := map[types.Object]bool{}
	for changed := true; changed; {
		changed = false
		cand := map[types.Object]bool{}
		bad := map[types.Object]bool{}
		for m := range states {
			as, ok := m.Ast.(*ast.AssignStmt)
			if !ok {
				continue
			}
			for i, l := range as.Lhs {
				o := identObj(info, l)
				if o == nil || !isErrorType(o.Type()) {
					continue
				}
				if len(as.Rhs) != len(as.Lhs) {
					bad[o] = true
					continue
				}
				r := identObj(info, as.Rhs[i])
				if r == sent || (r != nil && holds[r]) {
					cand[o] = true
				} else {
					bad[o] = true
				}
			}
		}
		for o := range cand {
			if !bad[o] && !holds[o] {
				holds[o] = true
				changed = true
			}
		}
	}
	n := 0
	for m := range states {
		rs, ok := m.Ast.(*ast.ReturnStmt)
		if !ok {
			continue
		}
		n++
		if len(rs.Results) == 0 {
			return false
		}
		o := identObj(info, rs.Results[len(rs.Results)-1])
		if o != sent && !holds[o] {
			return false
		}
	}
	return n > 0
}

// abandonChans: the locals of f of type chan struct{} that are closed by a
// defer statement of f itself and by nothing else, and are never sent on: such
// a channel is closed exactly when f has returned. The value is the defer node.
func (p *Prog) abandonChans(f *Func) map[types.Object]*Node {
	info := f.Pkg.TypesInfo
	g := p.Graph(f)
	out := map[types.Object]*Node{}
	closes := map[types.Object]int{}
	bad := map[types.Object]bool{}
	ast.Inspect(f.Body, func(x ast.Node) bool {
		switch s := x.(type) {
		case *ast.CallExpr:
			if id, ok := s.Fun.(*ast.Ident); ok && id.Name == "close" && len(s.Args) == 1 && info.Uses[id] == types.Universe.Lookup("close") {
				if o := identObj(info, s.Args[0]); o != nil {
					closes[o]++
				}
			}
		case *ast.SendStmt:
			if o := identObj(info, s.Chan); o != nil {
				bad[o] = true
			}
		case *ast.AssignStmt:
			// re-binding after the definition
			if s.Tok == token.ASSIGN {
				for _, l := range s.Lhs {
					if o := identObj(info, l); o != nil {
						bad[o] = true
					}
				}
			}
		}
		return true
	})
	for _, m := range g.Nodes {
		ds, ok := m.Ast.(*ast.DeferStmt)
		if !ok {
			continue
		}
		call := ds.Call
		if fl, isLit := ast.Unparen(call.Fun).(*ast.FuncLit); isLit && len(fl.Body.List) == 1 && len(call.Args) == 0 {
			if es, ok := fl.Body.List[0].(*ast.ExprStmt); ok {
				if c2, ok := es.X.(*ast.CallExpr); ok {
					call = c2
				}
			}
		}
		id, ok := call.Fun.(*ast.Ident)
		if !ok || id.Name != "close" || len(call.Args) != 1 || info.Uses[id] != types.Universe.Lookup("close") {
			continue
		}
		v, ok := identObj(info, call.Args[0]).(*types.Var)
		if !ok || v.IsField() || bad[v] || closes[v] != 1 {
			continue
		}
		if ch, ok := v.Type().Underlying().(*types.Chan); !ok || ch.Dir() != types.SendRecv {
			continue
		}
		if d := p.singleDef(f, v); d == nil {
			continue
		} else if mk, ok := ast.Unparen(d).(*ast.CallExpr); !ok || types.ExprString(mk.Fun) != "make" {
			continue
		}
		out[v] = m
	}
	return out
}

// isAbandonRecv: the comm statement `<-D` (or `_, _ = <-D`) of a select clause.
func isAbandonRecv(info *types.Info, m *Node, ds map[types.Object]*Node) types.Object {
	if m == nil || m.Ast == nil {
		return nil
	}
	var e ast.Expr
	switch s := m.Ast.(type) {
	case *ast.ExprStmt:
		e = s.X
	case *ast.AssignStmt:
		if len(s.Rhs) == 1 {
			e = s.Rhs[0]
		}
	}
	ue, ok := ast.Unparen(e).(*ast.UnaryExpr)
	if e == nil || !ok || ue.Op != token.ARROW {
		return nil
	}
	if o := identObj(info, ue.X); o != nil && ds[o] != nil {
		return o
	}
	return nil
}

// producerAbandons: every send on ch in the goroutine lit is an arm of a select
// that also has an arm receiving from one abandon channel of f. Returns the
// defer node that closes that channel.
func (p *Prog) producerAbandons(f, lit *Func, ch types.Object) (*Node, string) {
	if lit == nil || ch == nil {
		return nil, ""
	}
	ds := p.abandonChans(f)
	if len(ds) == 0 {
		return nil, ""
	}
	info := lit.Pkg.TypesInfo
	var dn *Node
	ok, n := true, 0
	var walk func(x ast.Node, sel *ast.SelectStmt)
	ast.Inspect(lit.Body, func(x ast.Node) bool {
		ss, isSend := x.(*ast.SendStmt)
		if !isSend || identObj(info, ss.Chan) != ch {
			return true
		}
		n++
		// the enclosing select, if the send is a comm statement
		var owner *ast.SelectStmt
		ast.Inspect(lit.Body, func(y ast.Node) bool {
			if sel, isSel := y.(*ast.SelectStmt); isSel {
				for _, cl := range sel.Body.List {
					if cl.(*ast.CommClause).Comm == ast.Stmt(ss) {
						owner = sel
					}
				}
			}
			return true
		})
		if owner == nil {
			ok = false
			return true
		}
		has := false
		for _, cl := range owner.Body.List {
			cm := cl.(*ast.CommClause).Comm
			if cm == nil {
				continue
			}
			if o := isAbandonRecv(info, &Node{Ast: cm}, ds); o != nil {
				has = true
				if dn != nil && dn != ds[o] {
					ok = false
				}
				dn = ds[o]
			}
		}
		if !has {
			ok = false
		}
		return true
	})
	_ = walk
	if !ok || n == 0 || dn == nil {
		return nil, ""
	}
	return dn, "no drain goroutine: every send of a stdout line is an arm of a select whose other arm receives from a channel that only a defer of Start closes, and that defer is registered on every path from the producer's go statement to a return"
}


// earlyLoopExit returns a statement of a loop body that leaves the loop other
// than by its condition: a return, a goto or break to a label outside the
// body, or an unlabelled break that is not inside a nested breakable statement.
func earlyLoopExit(body *ast.BlockStmt) ast.Node {
	inner := map[string]bool{}
	ast.Inspect(body, func(x ast.Node) bool {
		if ls, ok := x.(*ast.LabeledStmt); ok {
			inner[ls.Label.Name] = true
		}
		return true
	})
	var early ast.Node
	var visit func(n ast.Node, breakable bool)
	visit = func(n ast.Node, breakable bool) {
		ast.Inspect(n, func(x ast.Node) bool {
			if x == nil || early != nil {
				return false
			}
			switch s := x.(type) {
			case *ast.FuncLit:
				return false
			case *ast.ReturnStmt:
				early = s
			case *ast.BranchStmt:
				switch {
				case s.Label != nil && (s.Tok == token.GOTO || s.Tok == token.BREAK) && !inner[s.Label.Name]:
					early = s
				case s.Label == nil && s.Tok == token.BREAK && !breakable:
					early = s
				}
			case *ast.ForStmt, *ast.RangeStmt, *ast.SwitchStmt, *ast.TypeSwitchStmt, *ast.SelectStmt:
				if x != n {
					visit(x, true)
					return false
				}
			}
			return true
		})
	}
	visit(body, false)
	return early
}
