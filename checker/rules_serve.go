package main

import (
	"fmt"
	"go/ast"
	"go/token"
	"go/types"
	"strings"
)

type serveInfo struct {
	f      *Func
	g      *Graph
	info   *types.Info
	listen *Node // serverListener(...)
	print  *Node // fmt.Printf of the handshake line
	init   *Node // server.Init()
	sync   *Node // os.Stdout.Sync()
	swap   *Node // os.Stdout = ...
	serve  *Node // go server.Serve(listener)
}

func (p *Prog) serveInfo(c *Ctx, rule string) *serveInfo {
	f := p.Fn("Serve")
	if f == nil {
		c.R.Undecided(rule, "Serve", "anchor", "function not found")
		return nil
	}
	si := &serveInfo{f: f, g: p.Graph(f), info: f.Pkg.TypesInfo}
	for _, n := range si.g.Nodes {
		if n.Ast == nil {
			continue
		}
		for _, call := range callsIn(n.Ast) {
			switch nm := p.CalleeName(f, call); {
			case nm == modPath+".serverListener":
				si.listen = n
			case nm == "fmt.Printf" || nm == "fmt.Println" || nm == "fmt.Print":
				si.print = n
			case nm == modPath+".ServerProtocol.Init":
				si.init = n
			case nm == "os.File.Sync":
				if se, ok := call.Fun.(*ast.SelectorExpr); ok {
					if x, ok := se.X.(*ast.SelectorExpr); ok && objFullName(si.info.Uses[x.Sel]) == "os.Stdout" {
						si.sync = n
					}
				}
			case nm == modPath+".ServerProtocol.Serve":
				if _, isGo := n.Ast.(*ast.GoStmt); isGo {
					si.serve = n
				}
			}
		}
		if as, ok := n.Ast.(*ast.AssignStmt); ok {
			for _, l := range as.Lhs {
				if se, ok := l.(*ast.SelectorExpr); ok && objFullName(si.info.Uses[se.Sel]) == "os.Stdout" {
					if _, inLit := p.Parent(as).(*ast.BlockStmt); inLit {
						si.swap = n
					}
				}
			}
		}
	}
	if si.listen == nil || si.print == nil || si.init == nil || si.swap == nil || si.serve == nil {
		c.R.Undecided(rule, f.Name, "anchors", fmt.Sprintf("listen=%v print=%v init=%v swap=%v serve=%v", si.listen != nil, si.print != nil, si.init != nil, si.swap != nil, si.serve != nil))
		return nil
	}
	return si
}

// ---------- G-cookie ----------

func ruleCookie(c *Ctx) {
	p := c.P
	si := p.serveInfo(c, "R-GATE/cookie")
	if si == nil {
		return
	}
	f, g, info := si.f, si.g, si.info
	testF := p.FieldObj(modPath, "ServeConfig", "Test")
	keyF := p.FieldObj(modPath, "HandshakeConfig", "MagicCookieKey")
	valF := p.FieldObj(modPath, "HandshakeConfig", "MagicCookieValue")
	sites := []*Node{si.listen, si.print}
	// entry edges: opts.Test == nil
	var entries []*Node
	for _, m := range g.Nodes {
		for _, e := range m.Succs {
			at, ok := edgeAtom(info, e)
			if ok && at.Kind == "nil" && at.Op == token.EQL && SelField(info, at.X) == testF {
				dom := true
				for _, s := range sites {
					if !g.Dominates(m, s) {
						dom = false
					}
				}
				if dom {
					entries = append(entries, e.To)
				}
			}
		}
	}
	// test mode is exempt from the gate: edges on which opts.Test is non-nil
	testMode := func(e *Edge) bool {
		at, ok := edgeAtom(info, e)
		return ok && at.Kind == "nil" && at.Op == token.NEQ && SelField(info, at.X) == testF
	}
	isGetenvKey := func(e ast.Expr) bool {
		call, ok := ast.Unparen(e).(*ast.CallExpr)
		return ok && p.CalleeName(f, call) == "os.Getenv" && len(call.Args) == 1 && SelField(info, call.Args[0]) == keyF
	}
	passes := []struct {
		name string
		cut  func(*Edge) bool
		why  string
	}{
		{"exact cookie comparison", func(e *Edge) bool {
			at, ok := edgeAtom(info, e)
			if !ok || at.Kind != "cmp" || at.Op != token.EQL {
				return false
			}
			return (isGetenvKey(at.X) && SelField(info, at.Y) == valF) || (isGetenvKey(at.Y) && SelField(info, at.X) == valF)
		}, "a plugin started with a different (or prefix/suffix/case-changed) cookie value serves"},
		{"non-empty configured key", func(e *Edge) bool {
			at, ok := edgeAtom(info, e)
			if !ok || at.Kind != "cmp" || at.Op != token.NEQ || SelField(info, at.X) != keyF {
				return false
			}
			s, isS := constString(info, at.Y)
			return isS && s == ""
		}, "a plugin with an empty configured cookie key serves"},
		{"non-empty configured value", func(e *Edge) bool {
			at, ok := edgeAtom(info, e)
			if !ok || at.Kind != "cmp" || at.Op != token.NEQ || SelField(info, at.X) != valF {
				return false
			}
			s, isS := constString(info, at.Y)
			return isS && s == ""
		}, "a plugin with an empty configured cookie value serves"},
	}
	for _, ps := range passes {
		ok := true
		cutPS := ps.cut
		// outside test mode, with this test's passing edges removed, neither site is
		// (feasibly) reachable from the entry of Serve
		fr := p.FeasibleReach(f, []*Node{g.Entry}, nil, func(e *Edge) bool { return cutPS(e) || testMode(e) })
		for _, s := range sites {
			if fr[s] {
				ok = false
			}
		}
		// the test must exist at all
		exists := false
		for _, m := range g.Nodes {
			for _, e := range m.Succs {
				if cutPS(e) {
					exists = true
				}
			}
		}
		if !exists {
			ok = false
		}
		if ok {
			c.R.Hold("R-GATE/cookie", p.Pos(f.Node()), f.Name, ps.name, "outside test mode the listen and print sites are reachable only through this test's passing edge", true)
		} else {
			c.R.Violate("R-GATE/cookie", p.Pos(f.Node()), f.Name, ps.name, "outside test mode a listener can be opened / the handshake printed without this test passing: "+ps.why, nil)
		}
	}
	// failing edges set the exit code to 1 and return; the deferred os.Exit reads that variable
	var exitV *types.Var
	for _, lf := range p.Funcs {
		if lf.Lit == nil || lf.Parent != f {
			continue
		}
		for _, call := range lf.Calls() {
			if p.CalleeName(lf, call) == "os.Exit" && len(call.Args) == 1 {
				exitV, _ = identObj(lf.Pkg.TypesInfo, call.Args[0]).(*types.Var)
				// the defer must be the first thing registered
				for _, m := range g.Nodes {
					if ds, ok := m.Ast.(*ast.DeferStmt); ok {
						if fl, ok := ast.Unparen(ds.Call.Fun).(*ast.FuncLit); ok && p.Lit(fl) == lf {
							for _, ps := range passes {
								for _, tn := range g.Nodes {
									for _, e := range tn.Succs {
										if ps.cut(e) && !g.Dominates(m, tn) {
											exitV = nil
										}
									}
								}
							}
						}
					}
				}
				// os.Exit under Test == nil && code >= 0
				lg := p.Graph(lf)
				ex := lg.NodeOf(call)
				if ex == nil || !lg.OnlyViaEdge(ex, func(e *Edge) bool {
					at, ok := edgeAtom(lf.Pkg.TypesInfo, e)
					return ok && at.Kind == "cmp" && (at.Op == token.GEQ || at.Op == token.GTR) && identObj(lf.Pkg.TypesInfo, at.X) == exitV
				}) {
					exitV = nil
				}
			}
		}
	}
	if exitV == nil {
		c.R.Violate("R-GATE/cookie", p.Pos(f.Node()), f.Name, "deferred os.Exit(exitCode)", "no deferred closure registered first in Serve exits the process with the code the gate sets", nil)
		return
	}
	isSet1 := func(x *Node) bool {
		as, ok := x.Ast.(*ast.AssignStmt)
		if !ok || len(as.Lhs) != 1 || identObj(info, as.Lhs[0]) != exitV {
			return false
		}
		k, isK := constInt(info, as.Rhs[0])
		return isK && k == 1
	}
	okFail := true
	nFail := 0
	for _, ps := range passes {
		for _, m := range g.Nodes {
			for _, e := range m.Succs {
				if !ps.cut(e) {
					continue
				}
				// the opposite edge is the failing one
				for _, e2 := range m.Succs {
					if e2 == e {
						continue
					}
					nFail++
					seen := g.Reach([]*Node{e2.To}, isSet1, func(x *Edge) bool {
						// other operands of the same || chain lead to the same failing block
						return false
					})
					_, miss := seen[g.Exit]
					// a panic (or any other abnormal end) before the status was set
					// ends the process with a status that is not 1
					if _, aborts := seen[g.Abort]; aborts && g.Abort != nil && p.FeasibleReach(f, []*Node{e2.To}, isSet1, testMode)[g.Abort] {
						okFail = false
					}
					if miss {
						// feasibility: the failure may only be recorded in a flag first
						miss = p.FeasibleReach(f, []*Node{e2.To}, isSet1, testMode)[g.Exit]
					}
					if miss {
						// allowed only if the path continues to another gate test (|| chain)
						cont := false
						for _, ps2 := range passes {
							for n2 := range seen {
								for _, e3 := range n2.Succs {
									if ps2.cut(e3) {
										cont = true
									}
								}
							}
						}
						if !cont {
							okFail = false
						}
					}
				}
			}
		}
	}
	if okFail && nFail >= 3 {
		c.R.Hold("R-GATE/cookie", p.Pos(f.Node()), f.Name, "failing gate exits with status 1", "every failing edge stores 1 in the variable the first-registered deferred os.Exit reads, and returns", true)
	} else {
		c.R.Violate("R-GATE/cookie", p.Pos(f.Node()), f.Name, "failing gate exits with status 1", "a failing cookie test does not lead to exit status 1", nil)
	}
}

// ---------- O6: ordering in Serve ----------

func ruleOrderServe(c *Ctx) {
	p := c.P
	si := p.serveInfo(c, "R-ORDER/O6")
	if si == nil {
		return
	}
	f, g := si.f, si.g
	chk := func(name string, ok bool, n *Node, good, bad string) {
		if ok {
			c.R.Hold("R-ORDER/O6", p.Pos(n.Ast), f.Name, name, good, true)
		} else {
			c.R.Violate("R-ORDER/O6", p.Pos(n.Ast), f.Name, name, bad, nil)
		}
	}
	chk("listener before the handshake line", g.Dominates(si.listen, si.print), si.print,
		"the listener is created (and therefore queueing connections) before the line is printed", "the handshake line can be printed before the listener exists: the host may dial an address that is not yet accepting")
	chk("server.Init before the handshake line", g.Dominates(si.init, si.print), si.print,
		"protocol initialisation dominates the print", "the handshake line can be printed before the protocol server was initialised")
	chk("server.Init before go server.Serve", g.Dominates(si.init, si.serve), si.serve,
		"Init dominates the go statement (single-threaded start-up, see R-GUARD)", "the server can be started before it was initialised")
	// (os.Stdout is an unbuffered *os.File: the line is on the real stdout when
	// the print returns, so the Sync() that follows it is not required; what
	// matters is that the print happens before stdout is swapped for the pipe)
	_, back := g.ReachAfter(si.swap, nil, nil)[si.print]
	chk("no print after the stdout swap", !back, si.swap, "the print is not reachable after the swap", "the handshake line can be printed after stdout was swapped for the pipe (it would go to the host's SyncStdout, not the real stdout)")
	// the listener printed is the one served
	lv := assignedVarOfNode(p, si.info, si.listen)
	served := false
	if gs, ok := si.serve.Ast.(*ast.GoStmt); ok && len(gs.Call.Args) == 1 && lv != nil && identObj(si.info, gs.Call.Args[0]) == lv {
		served = true
	}
	chk("the announced listener is the one served", served, si.serve, "go server.Serve(listener) receives the variable whose address was printed", "the server does not serve on the listener whose address was announced")
}

func assignedVarOfNode(p *Prog, info *types.Info, n *Node) *types.Var {
	as, ok := n.Ast.(*ast.AssignStmt)
	if !ok || len(as.Lhs) == 0 {
		return nil
	}
	v, _ := identObj(info, as.Lhs[0]).(*types.Var)
	return v
}

// ---------- R-STDOUT: who may write the plugin's real stdout ----------

func ruleStdout(c *Ctx) {
	p := c.P
	testF := p.FieldObj(modPath, "ServeConfig", "Test")
	nPrint := 0
	nUses := 0
	for _, f := range p.Funcs {
		if strings.HasSuffix(p.Fset.Position(f.Body.Pos()).Filename, "testing.go") {
			continue
		}
		info := f.Pkg.TypesInfo
		g := p.Graph(f)
		for _, call := range f.Calls() {
			nm := p.CalleeName(f, call)
			switch nm {
			case "fmt.Print", "fmt.Printf", "fmt.Println":
				nPrint++
				n := g.NodeOf(call)
				ok := f.Name == "Serve" && n != nil && g.OnlyViaEdge(n, func(e *Edge) bool {
					at, isAt := edgeAtom(info, e)
					return isAt && at.Kind == "nil" && at.Op == token.EQL && SelField(info, at.X) == testF
				})
				// format "%s\n" with one argument
				if ok && nm == "fmt.Printf" {
					if s, isS := constString(info, call.Args[0]); !isS || s != "%s\n" || len(call.Args) != 2 {
						ok = false
					}
				}
				if ok {
					c.R.Hold("R-STDOUT", p.Pos(call), f.Name, "write to stdout: "+shortName(nm), "the handshake line print in Serve, outside test mode, one line", true)
				} else {
					c.R.Violate("R-STDOUT", p.Pos(call), f.Name, "write to stdout: "+shortName(nm), "go-plugin writes to the plugin's real stdout somewhere other than the single handshake print: the host would read it as (part of) the handshake line", nil)
				}
			}
		}
		// other uses of os.Stdout
		walkNoLit(f.Body, func(x ast.Node) bool {
			se, ok := x.(*ast.SelectorExpr)
			if !ok || objFullName(info.Uses[se.Sel]) != "os.Stdout" {
				return true
			}
			nUses++
			par := p.Parent(se)
			construct := "use of os.Stdout"
			switch pp := par.(type) {
			case *ast.AssignStmt:
				for _, l := range pp.Lhs {
					if l == se {
						c.R.Hold("R-STDOUT", p.Pos(se), f.Name, construct+" (assignment target)", "swap/restore of the variable", false)
						return true
					}
				}
			case *ast.SelectorExpr:
				if pp.Sel.Name == "Sync" {
					c.R.Hold("R-STDOUT", p.Pos(se), f.Name, construct+" (Sync)", "flush only", false)
					return true
				}
			case *ast.CallExpr:
				nm := p.CalleeName(f, pp)
				if nm == "io.TeeReader" {
					n := g.NodeOf(pp)
					if n != nil && g.OnlyViaEdge(n, func(e *Edge) bool {
						at, isAt := edgeAtom(info, e)
						return isAt && at.Kind == "nil" && at.Op == token.NEQ && SelField(info, at.X) == testF
					}) {
						c.R.Hold("R-STDOUT", p.Pos(se), f.Name, construct+" (TeeReader)", "only in test mode", true)
						return true
					}
				}
				if _, isLit := ast.Unparen(pp.Fun).(*ast.FuncLit); isLit {
					if _, isDefer := p.Parent(pp).(*ast.DeferStmt); isDefer {
						c.R.Hold("R-STDOUT", p.Pos(se), f.Name, construct+" (saved for restore)", "argument of the deferred restore closure", false)
						return true
					}
				}
			}
			c.R.Violate("R-STDOUT", p.Pos(se), f.Name, construct, "os.Stdout is used in a way that can write to the plugin's real stdout outside the handshake print", nil)
			return true
		})
	}
	if nPrint != 1 {
		c.R.Violate("R-STDOUT", "-", "Serve", "exactly one stdout print", fmt.Sprintf("%d fmt.Print* calls in scope, expected exactly the handshake print", nPrint), nil)
	}
	if nUses < 4 {
		c.R.Undecided("R-STDOUT", "", "instance-floor", fmt.Sprintf("only %d uses of os.Stdout found, 5 were confirmed by hand", nUses))
	}
}

// ---------- R-TABLE/handshake ----------

func ruleHandshakeTable(c *Ctx) {
	p := c.P
	si := p.serveInfo(c, "R-TABLE/handshake")
	if si == nil {
		return
	}
	f, g, info := si.f, si.g, si.info
	// negotiated values
	var pvVars []*types.Var
	for _, m := range g.Nodes {
		for _, call := range callsIn(m.Ast) {
			if p.CalleeName(f, call) == modPath+".protocolVersion" {
				if as, ok := m.Ast.(*ast.AssignStmt); ok {
					for _, l := range as.Lhs {
						v, _ := identObj(info, l).(*types.Var)
						pvVars = append(pvVars, v)
					}
				}
			}
		}
	}
	lv := assignedVarOfNode(p, info, si.listen)
	var line *ast.CallExpr
	var lineVar *types.Var
	for _, call := range f.Calls() {
		if p.CalleeName(f, call) != "fmt.Sprintf" {
			continue
		}
		if s, ok := constString(info, call.Args[0]); ok && strings.Count(s, "|") == 5 {
			line = call
			lineVar = assignedVar(p, info, call)
		}
	}
	// alternative idiom: strings.Join(fields, "|") over a []string literal of six
	// elements (numbers through strconv.Itoa, the protocol through string())
	var joinFields []ast.Expr
	var fieldsVar *types.Var
	if line == nil {
		for _, call := range f.Calls() {
			if p.CalleeName(f, call) != "strings.Join" || len(call.Args) != 2 {
				continue
			}
			if sep, ok := constString(info, call.Args[1]); !ok || sep != "|" {
				continue
			}
			fv, _ := identObj(info, call.Args[0]).(*types.Var)
			if fv == nil {
				continue
			}
			ast.Inspect(f.Body, func(x ast.Node) bool {
				as, ok := x.(*ast.AssignStmt)
				if !ok || len(as.Lhs) != 1 || len(as.Rhs) != 1 || identObj(info, as.Lhs[0]) != fv {
					return true
				}
				if cl, ok := ast.Unparen(as.Rhs[0]).(*ast.CompositeLit); ok && len(cl.Elts) == 6 {
					joinFields = cl.Elts
				}
				return true
			})
			if joinFields != nil {
				line, fieldsVar = call, fv
				lineVar = assignedVar(p, info, call)
			}
		}
	}
	if line == nil || len(pvVars) != 3 || lv == nil {
		c.R.Violate("R-TABLE/handshake", p.Pos(f.Node()), f.Name, "six-field line", "no Sprintf with exactly five '|' builds the handshake line (or the negotiation call / listener variable was not found)", nil)
		return
	}
	format, _ := constString(info, line.Args[0])
	// unwrap the string conversions the Join form needs
	unwrap := func(e ast.Expr) ast.Expr {
		e = ast.Unparen(e)
		if call, ok := e.(*ast.CallExpr); ok && len(call.Args) == 1 {
			if tv, ok := info.Types[call.Fun]; ok && tv.IsType() {
				return ast.Unparen(call.Args[0])
			}
			switch p.CalleeName(f, call) {
			case "strconv.Itoa", "fmt.Sprint":
				inner := ast.Unparen(call.Args[0])
				if c2, ok := inner.(*ast.CallExpr); ok && len(c2.Args) == 1 {
					if tv, ok := info.Types[c2.Fun]; ok && tv.IsType() {
						return ast.Unparen(c2.Args[0]) // strconv.Itoa(int(x))
					}
				}
				return inner
			}
		}
		return e
	}
	joinCall := line // the strings.Join call itself (line is replaced by a stand-in below)
	if joinFields != nil {
		// present the six elements as if they were the Sprintf arguments
		format = "%d|%d|%s|%s|%s|%s"
		fake := &ast.CallExpr{Fun: line.Fun, Args: []ast.Expr{line.Args[0]}}
		for _, el := range joinFields {
			fake.Args = append(fake.Args, unwrap(el))
		}
		fake.Lparen, fake.Rparen = line.Lparen, line.Rparen
		line = &ast.CallExpr{Fun: line.Fun, Args: fake.Args, Lparen: line.Lparen, Rparen: line.Rparen}
	}
	addrCall := func(e ast.Expr, method string) bool {
		// listener.Addr().<method>()  (possibly through a local alias of listener.Addr())
		c1, ok := ast.Unparen(p.Deref(f, e)).(*ast.CallExpr)
		if !ok {
			return false
		}
		s1, ok := c1.Fun.(*ast.SelectorExpr)
		if !ok || s1.Sel.Name != method {
			return false
		}
		c2, ok := ast.Unparen(p.Deref(f, s1.X)).(*ast.CallExpr)
		if !ok {
			return false
		}
		s2, ok := c2.Fun.(*ast.SelectorExpr)
		return ok && s2.Sel.Name == "Addr" && identObj(info, s2.X) == lv
	}
	coreConst := p.Pkgs[modPath].Types.Scope().Lookup("CoreProtocolVersion")
	var certV *types.Var
	okArgs := format == "%d|%d|%s|%s|%s|%s" && len(line.Args) == 7 &&
		identObj(info, line.Args[1]) == coreConst &&
		identObj(info, line.Args[2]) == pvVars[0] &&
		addrCall(line.Args[3], "Network") && addrCall(line.Args[4], "String") &&
		identObj(info, line.Args[5]) == pvVars[1]
	if okArgs {
		certV, _ = identObj(info, line.Args[6]).(*types.Var)
	}
	if okArgs && certV != nil {
		c.R.Hold("R-TABLE/handshake", p.Pos(line), f.Name, "six-field line", "Sprintf(\"%d|%d|%s|%s|%s|%s\", CoreProtocolVersion, negotiated version, listener network, listener address, negotiated protocol, server certificate)", true)
	} else {
		c.R.Violate("R-TABLE/handshake", p.Pos(line), f.Name, "six-field line", "the handshake line's fields are not (core version, negotiated version, listener network, listener address, negotiated protocol, certificate) in this order: the client reads them positionally", nil)
	}
	// the seventh field only under os.Getenv(envMultiplexGRPC) != ""
	n7 := 0
	ok7 := true
	for _, m := range g.Nodes {
		as, ok := m.Ast.(*ast.AssignStmt)
		if fieldsVar != nil {
			// join form: fields = append(fields, x) is the extension
			if !ok || len(as.Lhs) != 1 || len(as.Rhs) != 1 || identObj(info, as.Lhs[0]) != fieldsVar {
				continue
			}
			ap, isAp := ast.Unparen(as.Rhs[0]).(*ast.CallExpr)
			if !isAp || p.CalleeName(f, ap) != "builtin.append" {
				continue
			}
			n7++
			if len(ap.Args) != 2 || identObj(info, ap.Args[0]) != fieldsVar {
				ok7 = false
			}
			mm := m
			if !g.OnlyViaEdge(mm, func(e *Edge) bool {
				at, isAt := p.EdgeAtom(f, e)
				if !isAt || at.Kind != "cmp" || at.Op != token.NEQ {
					return false
				}
				call, isC := ast.Unparen(p.Deref(f, at.X)).(*ast.CallExpr)
				if !isC || p.CalleeName(f, call) != "os.Getenv" {
					return false
				}
				k, _ := constString(info, call.Args[0])
				sv, isS := constString(info, at.Y)
				return k == "PLUGIN_MULTIPLEX_GRPC" && isS && sv == ""
			}) {
				ok7 = false
			}
			continue
		}
		if !ok || len(as.Lhs) != 1 || identObj(info, as.Lhs[0]) != lineVar || lineVar == nil || m == g.NodeOf(line) {
			continue
		}
		if as.Tok == token.ASSIGN || as.Tok == token.DEFINE {
			continue // a copy, not an extension
		}
		n7++
		mm := m
		if !g.OnlyViaEdge(mm, func(e *Edge) bool {
			at, isAt := p.EdgeAtom(f, e)
			if !isAt || at.Kind != "cmp" || at.Op != token.NEQ {
				return false
			}
			call, isC := ast.Unparen(p.Deref(f, at.X)).(*ast.CallExpr)
			if !isC || p.CalleeName(f, call) != "os.Getenv" {
				return false
			}
			k, _ := constString(info, call.Args[0])
			s, isS := constString(info, at.Y)
			return k == "PLUGIN_MULTIPLEX_GRPC" && isS && s == ""
		}) {
			ok7 = false
		}
		// appended text is "|" + one verb
		if as.Tok != token.ADD_ASSIGN {
			ok7 = false
		} else if be, isB := ast.Unparen(as.Rhs[0]).(*ast.BinaryExpr); isB && be.Op == token.ADD {
			// "|" + strconv.FormatBool(x): one separator, then one value
			if sv, isS := constString(info, be.X); !isS || sv != "|" {
				ok7 = false
			}
			if sv, isS := constString(info, be.Y); isS && strings.Contains(sv, "|") {
				ok7 = false
			}
			if _, isB2 := ast.Unparen(be.Y).(*ast.BinaryExpr); isB2 {
				ok7 = false
			}
		} else if call, isC := ast.Unparen(as.Rhs[0]).(*ast.CallExpr); isC && p.CalleeName(f, call) == "fmt.Sprintf" {
			if s, isS := constString(info, call.Args[0]); !isS || strings.Count(s, "|") != 1 || !strings.HasPrefix(s, "|") {
				ok7 = false
			}
		} else {
			ok7 = false
		}
	}
	if ok7 && n7 == 1 {
		c.R.Hold("R-TABLE/handshake", p.Pos(line), f.Name, "seventh field only when signalled", "one extra `|field` is appended, only under os.Getenv(PLUGIN_MULTIPLEX_GRPC) != \"\"", true)
	} else {
		c.R.Violate("R-TABLE/handshake", p.Pos(line), f.Name, "seventh field only when signalled", fmt.Sprintf("the line is extended %d time(s) and not only under os.Getenv(PLUGIN_MULTIPLEX_GRPC) != \"\": hosts that split into six fields would mis-read the certificate", n7), nil)
	}
	// the printed value is the line
	printed := false
	for _, call := range callsIn(si.print.Ast) {
		// the Join form printed directly: fmt.Println(strings.Join(fields, "|"))
		if fieldsVar != nil && lineVar == nil && len(call.Args) >= 1 {
			var a0 ast.Expr
			switch nm := p.CalleeName(f, call); {
			case nm == "fmt.Println" && len(call.Args) == 1:
				a0 = call.Args[0]
			case nm == "fmt.Printf" && len(call.Args) == 2:
				a0 = call.Args[1]
			}
			if a0 != nil && ast.Unparen(a0) == ast.Expr(joinCall) {
				printed = true
			}
		}
		if lineVar == nil {
			continue
		}
		var arg ast.Expr
		switch nm := p.CalleeName(f, call); {
		case nm == "fmt.Printf" && len(call.Args) == 2:
			arg = call.Args[1]
		case nm == "fmt.Println" && len(call.Args) == 1:
			arg = call.Args[0]
		case nm == "fmt.Print" && len(call.Args) == 1:
			// fmt.Print(line + "\n")
			if be, ok := ast.Unparen(call.Args[0]).(*ast.BinaryExpr); ok && be.Op == token.ADD {
				if s, isS := constString(info, be.Y); isS && s == "\n" {
					arg = be.X
				}
			}
		}
		if arg != nil && (identObj(info, arg) == lineVar || identObj(info, p.Deref(f, arg)) == lineVar) {
			printed = true
		}
	}
	if printed {
		c.R.Hold("R-TABLE/handshake", p.Pos(si.print.Ast), f.Name, "the line is what is printed", "", false)
	} else {
		c.R.Violate("R-TABLE/handshake", p.Pos(si.print.Ast), f.Name, "the line is what is printed", "the print does not output the assembled line", nil)
	}
	// certificate encoding agrees on both sides
	enc := func(fn *Func, method string) types.Object {
		var o types.Object
		for _, call := range fn.Calls() {
			se, ok := ast.Unparen(call.Fun).(*ast.SelectorExpr)
			if !ok || se.Sel.Name != method {
				continue
			}
			if x, ok := ast.Unparen(se.X).(*ast.SelectorExpr); ok {
				if v, ok := fn.Pkg.TypesInfo.Uses[x.Sel].(*types.Var); ok && v.Pkg() != nil && v.Pkg().Path() == "encoding/base64" {
					o = v
				}
			}
		}
		return o
	}
	lsc := p.Fn("Client.loadServerCert")
	if lsc != nil {
		se, sd := enc(f, "EncodeToString"), enc(lsc, "DecodeString")
		if se != nil && se == sd {
			c.R.Hold("R-TABLE/handshake", p.Pos(lsc.Node()), lsc.Name, "certificate encoding", "server encodes and client decodes with base64."+se.Name(), true)
		} else {
			c.R.Violate("R-TABLE/handshake", p.Pos(lsc.Node()), lsc.Name, "certificate encoding", "the server's certificate field encoding and the client's decoding differ", nil)
		}
	}
	// the certificate field is the server's own leaf
	okCert := false
	for _, m := range g.Nodes {
		as, ok := m.Ast.(*ast.AssignStmt)
		if !ok || len(as.Lhs) != len(as.Rhs) || certV == nil {
			continue
		}
		var rhs ast.Expr
		for i, l := range as.Lhs {
			if identObj(info, l) == certV {
				rhs = as.Rhs[i]
			}
		}
		if rhs == nil {
			continue
		}
		if call, ok := ast.Unparen(p.Deref(f, rhs)).(*ast.CallExpr); ok && len(call.Args) == 1 {
			if ix, ok := ast.Unparen(call.Args[0]).(*ast.IndexExpr); ok {
				if k, isK := constInt(info, ix.Index); isK && k == 0 {
					if se, ok := ast.Unparen(ix.X).(*ast.SelectorExpr); ok && se.Sel.Name == "Certificate" {
						okCert = true
					}
				}
			}
		}
	}
	if okCert {
		c.R.Hold("R-TABLE/handshake", p.Pos(line), f.Name, "announced certificate is the serving leaf", "field 6 = base64(cert.Certificate[0]) of the key pair put into the TLS config", true)
	} else {
		c.R.Violate("R-TABLE/handshake", p.Pos(line), f.Name, "announced certificate is the serving leaf", "the certificate announced in the handshake is not the leaf of the generated serving certificate", nil)
	}
}

// ---------- R-LISTEN/unix: the Unix listener is bound on the path that is announced ----------

// ruleUnixListen: in serverListener_unix every net.Listen("unix", a) binds the
// name of the temporary file created in the configured socket directory, as
// returned by (*os.File).Name() - not a name derived from it (a base name bound
// after a chdir gives a listener whose Addr(), which is what Serve and the
// broker announce, cannot be dialled by the other process) - and the library
// never changes the process's working directory.
func ruleUnixListen(c *Ctx) {
	p := c.P
	f := p.Fn("serverListener_unix")
	if f == nil {
		c.R.Undecided("R-LISTEN/unix", "serverListener_unix", "anchor", "function not found")
		return
	}
	info := f.Pkg.TypesInfo
	n := 0
	for _, call := range f.Calls() {
		if p.CalleeName(f, call) != "net.Listen" || len(call.Args) != 2 {
			continue
		}
		n++
		construct := fmt.Sprintf("net.Listen #%d binds the created path", n)
		nw, isS := constString(info, call.Args[0])
		ok := isS && nw == "unix"
		if ok {
			ok = false
			if nameCall, isC := ast.Unparen(p.Deref(f, call.Args[1])).(*ast.CallExpr); isC && p.CalleeName(f, nameCall) == "os.File.Name" {
				if se, isSel := ast.Unparen(nameCall.Fun).(*ast.SelectorExpr); isSel {
					recv := identObj(info, se.X)
					for _, mk := range f.Calls() {
						switch p.CalleeName(f, mk) {
						case "os.CreateTemp", "io/ioutil.TempFile":
							if len(mk.Args) == 2 && recv != nil && types.Object(assignedVar(p, info, mk)) == recv {
								if fv := SelField(info, mk.Args[0]); fv != nil && p.FieldName(fv) == "UnixSocketConfig.socketDir" {
									ok = true
								}
							}
						}
					}
				}
			}
		}
		if ok {
			c.R.Hold("R-LISTEN/unix", p.Pos(call), f.Name, construct, "the address bound is File.Name() of the temporary file created in UnixSocketConfig.socketDir", true)
		} else {
			c.R.Violate("R-LISTEN/unix", p.Pos(call), f.Name, construct, "the listener is bound on something other than the full name of the temporary file created in the socket directory: its Addr(), which Serve prints and the broker sends, is then not a path the other process can dial", nil)
		}
	}
	if n == 0 {
		c.R.Undecided("R-LISTEN/unix", f.Name, "net.Listen", "no net.Listen call found")
	}
	nChdir := 0
	for _, g := range p.Funcs {
		if strings.HasSuffix(p.Fset.Position(g.Body.Pos()).Filename, "testing.go") {
			continue
		}
		for _, call := range g.Calls() {
			if nm := p.CalleeName(g, call); nm == "os.Chdir" || nm == "syscall.Chdir" || nm == "os.File.Chdir" {
				nChdir++
				c.R.Violate("R-LISTEN/unix", p.Pos(call), g.Name, "no change of the working directory", "the library changes the working directory of the process it runs in: relative socket paths, the plugin's own relative file accesses and every other goroutine see it", nil)
			}
		}
	}
	if nChdir == 0 {
		c.R.Hold("R-LISTEN/unix", "-", "", "no change of the working directory", "no call of os.Chdir in the module", true)
	}
}

// ---------- R-ORDER/announce: once the version is chosen, Serve announces it unless something failed ----------

// ruleServeAnnounces: the host learns *why* a plugin cannot be used from the
// handshake line (an incompatible version, an unsupported protocol); a plugin
// that leaves before printing it shows up as "Unrecognized remote plugin
// message". So from the call of protocolVersion, outside test mode, every path
// to a return of Serve that does not pass the handshake print crosses the
// failure edge of some operation (err != nil: the listener, the TLS
// configuration, the pipes). A return decided by a plain predicate ("the host
// asked for none of my versions") has no such edge.
func ruleServeAnnounces(c *Ctx) {
	p := c.P
	si := p.serveInfo(c, "R-ORDER/announce")
	if si == nil {
		return
	}
	f, g, info := si.f, si.g, si.info
	testF := p.FieldObj(modPath, "ServeConfig", "Test")
	var negN *Node
	for _, m := range g.Nodes {
		if m.Ast == nil {
			continue
		}
		for _, call := range callsIn(m.Ast) {
			if p.CalleeName(f, call) == modPath+".protocolVersion" {
				negN = m
			}
		}
	}
	if negN == nil {
		c.R.Undecided("R-ORDER/announce", f.Name, "anchor", "no call of protocolVersion in Serve")
		return
	}
	cut := func(e *Edge) bool {
		if errNonNilEdge(info, e) {
			return true
		}
		at, ok := edgeAtom(info, e)
		if !ok {
			return false
		}
		// test mode hands the address over through a channel instead
		if at.Kind == "nil" && at.Op == token.NEQ && SelField(info, at.X) == testF && testF != nil {
			return true
		}
		return false
	}
	var starts []*Node
	for _, e := range negN.Succs {
		starts = append(starts, e.To)
	}
	seen := p.FeasibleReach(f, starts, func(x *Node) bool { return x == si.print }, cut)
	construct := "a chosen version is announced unless an operation failed"
	if seen[g.Exit] {
		var where *Node
		for x := range seen {
			if _, isR := x.Ast.(*ast.ReturnStmt); isR {
				if where == nil || x.Ast.Pos() < where.Ast.Pos() {
					where = x
				}
			}
		}
		pos := p.Pos(si.print.Ast)
		if where != nil {
			pos = p.Pos(where.Ast)
		}
		c.R.Violate("R-ORDER/announce", pos, f.Name, construct, "outside test mode Serve can return after protocolVersion without printing the handshake line and without any operation having failed: the host then sees a plugin that exits silently (\"Unrecognized remote plugin message\") instead of the line that tells it what is incompatible", nil)
	} else {
		c.R.Hold("R-ORDER/announce", p.Pos(si.print.Ast), f.Name, construct, "every print-free path from protocolVersion to a return crosses an err != nil edge (or is test mode)", true)
	}
}
