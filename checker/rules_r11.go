package main

import (
	"fmt"
	"go/ast"
	"go/token"
	"go/types"
	"sort"
	"strings"
)

// ---------- R-TABLE/stdio, joining receives ----------

// ruleStdioJoin: in grpcStdioServer.StreamStdio a chunk received outside the
// tagged arms of the select (a receive that adds to a message which already
// has its tag) comes from the channel of that tag. Decided by a forward
// dataflow over pairs (tag of the message, stream of each local channel
// alias), refined on comparisons of the tag: at every such receive, in every
// reaching pair, the stream of the channel received from equals the tag.
func ruleStdioJoin(c *Ctx) {
	p := c.P
	f := p.Fn("grpcStdioServer.StreamStdio")
	if f == nil {
		c.R.Undecided("R-TABLE/stdio", "grpcStdioServer.StreamStdio", "anchor", "function not found")
		return
	}
	info := f.Pkg.TypesInfo
	g := p.Graph(f)
	isByteChan := func(t types.Type) bool {
		if t == nil {
			return false
		}
		ch, ok := t.Underlying().(*types.Chan)
		if !ok {
			return false
		}
		s, ok := ch.Elem().Underlying().(*types.Slice)
		if !ok {
			return false
		}
		b, ok := s.Elem().Underlying().(*types.Basic)
		return ok && b.Kind() == types.Uint8
	}
	isTagSel := func(e ast.Expr) bool {
		se, ok := ast.Unparen(e).(*ast.SelectorExpr)
		return ok && se.Sel.Name == "Channel"
	}
	tagConst := func(e ast.Expr) (string, bool) {
		if o, ok := objOfExpr(info, e).(*types.Const); ok && strings.Contains(o.Name(), "StdioData_") {
			return streamLabel(o.Name()), true
		}
		return "", false
	}
	// local aliases of the stdio channels
	var aliases []*types.Var
	aliasIdx := map[types.Object]int{}
	walkNoLit(f.Body, func(x ast.Node) bool {
		if id, ok := x.(*ast.Ident); ok {
			if v, ok := info.Defs[id].(*types.Var); ok && isByteChan(v.Type()) {
				if _, dup := aliasIdx[v]; !dup {
					aliasIdx[v] = len(aliases) + 1
					aliases = append(aliases, v)
				}
			}
		}
		return true
	})
	// receives that are the communication of an arm which sets the tag
	main := map[*ast.UnaryExpr]bool{}
	walkNoLit(f.Body, func(x ast.Node) bool {
		cc, ok := x.(*ast.CommClause)
		if !ok || cc.Comm == nil {
			return true
		}
		sets := false
		for _, st := range cc.Body {
			if as, ok := st.(*ast.AssignStmt); ok {
				for _, l := range as.Lhs {
					if isTagSel(l) {
						sets = true
					}
				}
			}
		}
		if sets {
			walkNoLit(cc.Comm, func(y ast.Node) bool {
				if u, ok := y.(*ast.UnaryExpr); ok && u.Op == token.ARROW {
					main[u] = true
				}
				return true
			})
		}
		return true
	})
	var joins []*ast.UnaryExpr
	walkNoLit(f.Body, func(x ast.Node) bool {
		if u, ok := x.(*ast.UnaryExpr); ok && u.Op == token.ARROW && !main[u] && isByteChan(info.TypeOf(u.X)) {
			joins = append(joins, u)
		}
		return true
	})
	if len(joins) == 0 {
		c.R.Hold("R-TABLE/stdio", p.Pos(f.Node()), f.Name, "chunks joining a tagged message", "every receive of a stdio chunk is the communication of a select arm that sets the tag itself", false)
		return
	}
	// tuple: tag, then the stream of each alias
	type tuple = string
	get := func(t tuple, i int) string { return strings.Split(t, "|")[i] }
	set := func(t tuple, i int, v string) tuple {
		parts := strings.Split(t, "|")
		parts[i] = v
		return strings.Join(parts, "|")
	}
	chanLabel := func(t tuple, e ast.Expr) string {
		if i, ok := aliasIdx[identObj(info, ast.Unparen(e))]; ok {
			return get(t, i)
		}
		return p.exprLabel(f, e)
	}
	assign := func(t tuple, lhs, rhs ast.Expr) tuple {
		if isTagSel(lhs) {
			lab, _ := tagConst(rhs)
			return set(t, 0, lab)
		}
		if id, ok := ast.Unparen(lhs).(*ast.Ident); ok {
			o := info.Defs[id]
			if o == nil {
				o = info.Uses[id]
			}
			if i, ok := aliasIdx[o]; ok {
				if rhs == nil {
					return set(t, i, "")
				}
				return set(t, i, chanLabel(t, rhs))
			}
		}
		return t
	}
	transfer := func(n *Node, t tuple) tuple {
		switch s := n.Ast.(type) {
		case *ast.AssignStmt:
			if len(s.Lhs) == len(s.Rhs) {
				old := t
				for i := range s.Lhs {
					// right-hand sides are evaluated in the old state
					if _, isAlias := aliasIdx[identObj(info, ast.Unparen(s.Rhs[i]))]; isAlias {
						lab := chanLabel(old, s.Rhs[i])
						if id, ok := ast.Unparen(s.Lhs[i]).(*ast.Ident); ok {
							o := info.Defs[id]
							if o == nil {
								o = info.Uses[id]
							}
							if k, ok := aliasIdx[o]; ok {
								t = set(t, k, lab)
								continue
							}
						}
					}
					t = assign(t, s.Lhs[i], s.Rhs[i])
				}
			} else {
				for _, l := range s.Lhs {
					t = assign(t, l, nil)
				}
			}
		case *ast.ValueSpec:
			for i, nm := range s.Names {
				var rhs ast.Expr
				if i < len(s.Values) {
					rhs = s.Values[i]
				}
				t = assign(t, nm, rhs)
			}
		case *ast.DeclStmt:
			if gd, ok := s.Decl.(*ast.GenDecl); ok {
				for _, sp := range gd.Specs {
					if vs, ok := sp.(*ast.ValueSpec); ok {
						for i, nm := range vs.Names {
							var rhs ast.Expr
							if i < len(vs.Values) {
								rhs = vs.Values[i]
							}
							t = assign(t, nm, rhs)
						}
					}
				}
			}
		}
		return t
	}
	// refinement on a comparison of the tag with a tag constant
	admits := func(e *Edge, t tuple) bool {
		if e.Cond == nil || e.Branch == 0 {
			return true
		}
		var lab string
		var ok, neg bool
		if e.Tag != nil {
			if !isTagSel(e.Tag) {
				return true
			}
			lab, ok = tagConst(e.Cond)
		} else if be, isB := ast.Unparen(e.Cond).(*ast.BinaryExpr); isB && (be.Op == token.EQL || be.Op == token.NEQ) {
			neg = be.Op == token.NEQ
			if isTagSel(be.X) {
				lab, ok = tagConst(be.Y)
			} else if isTagSel(be.Y) {
				lab, ok = tagConst(be.X)
			}
		}
		if !ok || lab == "" {
			return true
		}
		eq := get(t, 0) == lab
		if neg {
			eq = !eq
		}
		if e.Branch > 0 {
			return eq
		}
		return !eq
	}
	in := map[*Node]map[tuple]bool{}
	init := strings.Repeat("|", len(aliases))
	in[g.Entry] = map[tuple]bool{init: true}
	work := []*Node{g.Entry}
	steps := 0
	for len(work) > 0 {
		n := work[len(work)-1]
		work = work[:len(work)-1]
		steps++
		if steps > 200000 {
			c.R.Undecided("R-TABLE/stdio", f.Name, "chunks joining a tagged message", "dataflow did not converge")
			return
		}
		for t := range in[n] {
			out := transfer(n, t)
			for _, e := range n.Succs {
				if !admits(e, out) {
					continue
				}
				if in[e.To] == nil {
					in[e.To] = map[tuple]bool{}
				}
				if !in[e.To][out] {
					in[e.To][out] = true
					work = append(work, e.To)
				}
			}
		}
	}
	name := map[string]string{"out": "stdout", "err": "stderr", "": "unknown"}
	for k, u := range joins {
		n := g.NodeOf(u)
		construct := fmt.Sprintf("chunk joining a tagged message #%d: <-%s", k+1, types.ExprString(u.X))
		if n == nil {
			c.R.Undecided("R-TABLE/stdio", f.Name, construct, "receive not found in the flow graph")
			continue
		}
		var bad []string
		for t := range in[n] {
			lab := chanLabel(t, u.X)
			if lab == "" || lab != get(t, 0) {
				bad = append(bad, fmt.Sprintf("a chunk of the %s channel joins a message tagged %s", name[lab], name[get(t, 0)]))
			}
		}
		sort.Strings(bad)
		if len(bad) > 0 {
			c.R.Violate("R-TABLE/stdio", p.Pos(u), f.Name, construct, bad[0]+" (the host writes it to the wrong stream)", nil)
		} else {
			c.R.Hold("R-TABLE/stdio", p.Pos(u), f.Name, construct, fmt.Sprintf("in each of the %d reaching states the channel received from is the channel of the message's tag", len(in[n])), true)
		}
	}
}

// ---------- R-GUARD/captured: a local written by a goroutine is not touched concurrently ----------

// ruleCapturedWrite: a variable of the enclosing function that a `go func`
// literal assigns is shared between that goroutine and whoever runs the
// enclosing function. After the go statement the enclosing function (and the
// other literals it creates from there on) may touch the variable only behind
// a join with the goroutine - a receive from (or range over) a channel the
// goroutine closes or sends on, or Wait on a WaitGroup the goroutine calls
// Done on - or with a mutex held that the goroutine also holds at its write.
// A go statement that can reach itself (a loop) shares the variable between
// the goroutines it starts.
func ruleCapturedWrite(c *Ctx) {
	p := c.P
	n, nGo := 0, 0
	for _, f := range p.Funcs {
		if strings.HasSuffix(p.Fset.Position(f.Body.Pos()).Filename, "testing.go") {
			continue
		}
		info := f.Pkg.TypesInfo
		var gos []*ast.GoStmt
		walkNoLit(f.Body, func(x ast.Node) bool {
			if gs, ok := x.(*ast.GoStmt); ok {
				if _, isLit := ast.Unparen(gs.Call.Fun).(*ast.FuncLit); isLit {
					gos = append(gos, gs)
				}
			}
			return true
		})
		if len(gos) == 0 {
			continue
		}
		g := p.Graph(f)
		for _, gs := range gos {
			nGo++
			lit := ast.Unparen(gs.Call.Fun).(*ast.FuncLit)
			lf := p.Lit(lit)
			goNode := g.NodeOf(gs)
			if lf == nil || goNode == nil {
				continue
			}
			outer := func(v *types.Var) bool {
				return v != nil && !v.IsField() && v.Pkg() != nil && v.Parent() != v.Pkg().Scope() &&
					(v.Pos() < lit.Pos() || v.Pos() > lit.End()) && v.Pos() >= f.Body.Pos()-2000 && f.Node().Pos() <= v.Pos() && v.Pos() <= f.Node().End()
			}
			// variables of f assigned inside the literal (nested literals included)
			written := map[*types.Var]ast.Node{}
			ast.Inspect(lit.Body, func(x ast.Node) bool {
				switch s := x.(type) {
				case *ast.AssignStmt:
					if s.Tok == token.DEFINE {
						// only the re-used names of a := are assignments
						for _, l := range s.Lhs {
							if id, ok := l.(*ast.Ident); ok && info.Defs[id] == nil {
								if v, ok := info.Uses[id].(*types.Var); ok && outer(v) {
									written[v] = s
								}
							}
						}
						return true
					}
					for _, l := range s.Lhs {
						if id, ok := ast.Unparen(l).(*ast.Ident); ok {
							if v, ok := info.Uses[id].(*types.Var); ok && outer(v) {
								written[v] = s
							}
						}
					}
				case *ast.IncDecStmt:
					if id, ok := ast.Unparen(s.X).(*ast.Ident); ok {
						if v, ok := info.Uses[id].(*types.Var); ok && outer(v) {
							written[v] = s
						}
					}
				}
				return true
			})
			if len(written) == 0 {
				continue
			}
			// what the goroutine signals on
			sig := map[types.Object]bool{}
			objOf := func(e ast.Expr) types.Object {
				e = ast.Unparen(e)
				if fv := SelField(info, e); fv != nil {
					return fv
				}
				return identObj(info, e)
			}
			ast.Inspect(lit.Body, func(x ast.Node) bool {
				switch s := x.(type) {
				case *ast.SendStmt:
					if o := objOf(s.Chan); o != nil {
						sig[o] = true
					}
				case *ast.CallExpr:
					if id, ok := ast.Unparen(s.Fun).(*ast.Ident); ok && id.Name == "close" && len(s.Args) == 1 {
						if _, isB := info.Uses[id].(*types.Builtin); isB {
							if o := objOf(s.Args[0]); o != nil {
								sig[o] = true
							}
						}
					}
					if se, ok := ast.Unparen(s.Fun).(*ast.SelectorExpr); ok && se.Sel.Name == "Done" && strings.HasSuffix(p.CalleeName(lf, s), "WaitGroup.Done") {
						if o := objOf(se.X); o != nil {
							sig[o] = true
						}
					}
				}
				return true
			})
			isJoin := func(m *Node) bool {
				if m.Ast == nil || m == goNode {
					return false
				}
				join := false
				walkNoLit(m.Ast, func(x ast.Node) bool {
					switch s := x.(type) {
					case *ast.UnaryExpr:
						if s.Op == token.ARROW {
							if o := objOf(s.X); o != nil && sig[o] {
								join = true
							}
						}
					case *ast.CallExpr:
						if se, ok := ast.Unparen(s.Fun).(*ast.SelectorExpr); ok && se.Sel.Name == "Wait" && strings.HasSuffix(p.CalleeName(f, s), "WaitGroup.Wait") {
							if o := objOf(se.X); o != nil && sig[o] {
								join = true
							}
						}
					}
					return true
				})
				if rs, ok := m.Ast.(*ast.RangeStmt); ok {
					if o := objOf(rs.X); o != nil && sig[o] {
						join = true
					}
				}
				return join
			}
			after := g.ReachAfter(goNode, isJoin, nil)
			_, loops := after[goNode]
			var vars []*types.Var
			for v := range written {
				vars = append(vars, v)
			}
			sort.Slice(vars, func(i, j int) bool { return vars[i].Pos() < vars[j].Pos() })
			for _, v := range vars {
				n++
				construct := fmt.Sprintf("%s assigned by the goroutine started at %s", v.Name(), p.Pos(gs))
				wNode := p.Graph(lf).NodeOf(written[v])
				var wHeld lockSet
				if wNode != nil && p.EnclosingFunc(written[v]) == lf {
					wHeld = p.MustHeldAt(lf, wNode)
				}
				var clash ast.Node
				if loops {
					clash = gs
				}
				for m := range after {
					if clash != nil {
						break
					}
					if m.Ast == nil || m == goNode {
						continue
					}
					// the node itself, and the literals created in it
					ast.Inspect(m.Ast, func(x ast.Node) bool {
						if x == ast.Node(lit) {
							return false
						}
						if id, ok := x.(*ast.Ident); ok && info.Uses[id] == types.Object(v) {
							common := false
							if p.EnclosingFunc(id) == f {
								for lk := range p.MustHeldAt(f, m) {
									if wHeld[lk] {
										common = true
									}
								}
							}
							if !common && clash == nil {
								clash = id
							}
						}
						return true
					})
				}
				if clash != nil {
					what := "is used at " + p.Pos(clash) + " with no join and no common mutex in between"
					if clash == ast.Node(gs) {
						what = "is shared by the goroutines this statement starts on successive iterations"
					}
					c.R.Violate("R-GUARD/captured", p.Pos(written[v]), lf.Name, construct, "the local "+v.Name()+" of "+f.Name+" is assigned inside the goroutine and "+what+": a data race (an `err :=` turned into `err =` is the usual way in)", nil)
				} else {
					c.R.Hold("R-GUARD/captured", p.Pos(written[v]), lf.Name, construct, "every later use in "+f.Name+" lies behind a join with the goroutine or under a common mutex", true)
				}
			}
		}
	}
	c.R.Hold("R-GUARD/captured", "-", "", "go statements with a literal examined", fmt.Sprintf("%d go statements, %d captured variables assigned in them", nGo, n), false)
	if nGo < 5 {
		c.R.Undecided("R-GUARD/captured", "", "instance-floor", fmt.Sprintf("only %d go statements with a function literal found, 10 were counted on the reference tree", nGo))
	}
}

// ---------- R-EXIT/launch: the process is launched by the call that reports the launch ----------

// ruleLaunchSync: exec.Cmd.Start is executed synchronously by the runner's
// Start, not in a goroutine that Start may stop waiting for. Client.Start
// installs its kill-on-error cleanup, the reaper and the pipe readers only
// after runner.Start has returned without error; a launch that completes after
// Start has already reported failure (a context that expired during fork/exec)
// leaves a live process nobody owns.
func ruleLaunchSync(c *Ctx) {
	p := c.P
	n := 0
	for _, f := range p.Funcs {
		if strings.HasSuffix(p.Fset.Position(f.Body.Pos()).Filename, "testing.go") {
			continue
		}
		for _, call := range callsIn(f.Body) {
			if p.CalleeName(f, call) != "os/exec.Cmd.Start" {
				continue
			}
			n++
			construct := "exec.Cmd.Start runs in the caller's goroutine"
			inGo := false
			for cur := f; cur != nil && cur.Lit != nil; cur = cur.Parent {
				if gs, ok := p.Parent(cur.Lit).(*ast.CallExpr); ok {
					if _, isGo := p.Parent(gs).(*ast.GoStmt); isGo && ast.Unparen(gs.Fun) == ast.Expr(cur.Lit) {
						inGo = true
					}
				}
			}
			if gs, ok := p.Parent(call).(*ast.GoStmt); ok && gs.Call == call {
				inGo = true
			}
			if inGo {
				c.R.Violate("R-EXIT/launch", p.Pos(call), f.Name, construct, "the plugin process is launched from a goroutine: the function that reports the outcome of the launch can return (with an error) before or while the process is being created, and the process then runs with no reaper, no kill-on-error cleanup and no reader on its pipes", nil)
			} else {
				c.R.Hold("R-EXIT/launch", p.Pos(call), f.Name, construct, "called directly by "+f.Name, true)
			}
		}
	}
	if n < 1 {
		c.R.Undecided("R-EXIT/launch", "", "instance-floor", "no call of exec.Cmd.Start found in the module")
	}
}
