package main

import (
	"fmt"
	"go/ast"
	"go/token"
	"go/types"
	"strings"
)

// launchNodes returns the CFG nodes of Client.Start that launch the plugin:
// the runner temp dir creation, the RunnerFunc call, NewCmdRunner, Runner.Start.
func (p *Prog) launchNodes(f *Func) map[*Node]string {
	info := f.Pkg.TypesInfo
	g := p.Graph(f)
	out := map[*Node]string{}
	runnerFuncF := p.FieldObj(modPath, "ClientConfig", "RunnerFunc")
	for _, call := range f.Calls() {
		n := g.NodeOf(call)
		if n == nil {
			continue
		}
		if fv := SelField(info, call.Fun); fv != nil && fv == runnerFuncF {
			out[n] = "config.RunnerFunc(...)"
			continue
		}
		switch p.CalleeName(f, call) {
		case "os.MkdirTemp":
			out[n] = "os.MkdirTemp"
		case modPath + "/internal/cmdrunner.NewCmdRunner":
			out[n] = "cmdrunner.NewCmdRunner"
		case modPath + "/runner.Runner.Start":
			out[n] = "runner.Start"
		}
	}
	return out
}

// R-ONCE — a Client launches its plugin at most once.
func ruleOnce(c *Ctx) {
	p := c.P
	f := p.Fn("Client.Start")
	if f == nil {
		c.R.Undecided("R-ONCE", "Client.Start", "anchor", "function not found")
		return
	}
	info := f.Pkg.TypesInfo
	g := p.Graph(f)
	launch := p.launchNodes(f)
	if len(launch) < 3 {
		c.R.Undecided("R-ONCE", f.Name, "launch sites", fmt.Sprintf("only %d launch sites found (expected MkdirTemp, RunnerFunc, NewCmdRunner, runner.Start)", len(launch)))
		return
	}
	_ = launch
	clientType := p.Pkgs[modPath].Types.Scope().Lookup("Client")
	cst := clientType.Type().Underlying().(*types.Struct)
	isClientField := func(fv *types.Var) bool {
		for i := 0; i < cst.NumFields(); i++ {
			if cst.Field(i) == fv {
				return true
			}
		}
		// a field grouped into a new sub-struct of Client (canonical name Client.x)
		return strings.HasPrefix(p.FieldName(fv), "Client.")
	}
	// candidate guard fields: conditions on a Client field whose "set" edge
	// avoids every launch site and whose "unset" edge is the only way to them.
	type candT struct {
		fv      *types.Var
		setEdge *Edge
		unset   *Edge
	}
	var cands []candT
	for _, n := range g.Nodes {
		if len(n.Succs) != 2 {
			continue
		}
		for _, e := range n.Succs {
			at, ok := edgeAtom(info, e)
			if !ok {
				continue
			}
			fv := SelField(info, at.X)
			if fv == nil || !isClientField(fv) {
				continue
			}
			isSet := (at.Kind == "nil" && at.Op == token.NEQ) || (at.Kind == "bool" && at.True)
			if !isSet {
				continue
			}
			var other *Edge
			for _, e2 := range n.Succs {
				if e2 != e {
					other = e2
				}
			}
			cands = append(cands, candT{fv, e, other})
		}
	}
	var report []string
	okAny := false
	markerSeen := map[string]bool{}
	for _, cd := range cands {
		name := p.FieldName(cd.fv)
		// (a) launch sites only via the unset edge
		a := true
		for ln := range launch {
			if !g.OnlyViaEdge(ln, func(e *Edge) bool { return e == cd.unset }) {
				a = false
			}
		}
		// (b) the set edge never reaches a launch site
		b := true
		seen := g.Reach([]*Node{cd.setEdge.To}, nil, nil)
		for ln := range launch {
			if _, hit := seen[ln]; hit {
				b = false
			}
		}
		if b {
			// Any field whose set value short-circuits Start ("already started")
			// is a started-marker: resetting it anywhere re-opens Start (for a
			// reattach client, whose path does not pass the launch flag, it
			// re-attaches a killed client).
			resetAt := ""
			for _, ff := range p.Funcs {
				finfo := ff.Pkg.TypesInfo
				walkNoLit(ff.Body, func(x ast.Node) bool {
					as, ok := x.(*ast.AssignStmt)
					if !ok {
						return true
					}
					for i, l := range as.Lhs {
						if SelField(finfo, l) == cd.fv && i < len(as.Rhs) {
							if isNilIdent(finfo, as.Rhs[i]) {
								resetAt = p.Pos(as)
							}
							if id, ok := as.Rhs[i].(*ast.Ident); ok && id.Name == "false" {
								resetAt = p.Pos(as)
							}
						}
					}
					return true
				})
			}
			if !markerSeen[name] {
				markerSeen[name] = true
				if resetAt != "" {
					c.R.Violate("R-ONCE", resetAt, f.Name, "started-marker "+name+" is never reset", "the field whose set value makes Start return without launching or attaching is cleared again: after that (e.g. after Kill) Start, Client or Protocol start or re-attach the plugin a second time", nil)
				} else {
					c.R.Hold("R-ONCE", p.Pos(cd.setEdge.From.Ast), f.Name, "started-marker "+name+" is never reset", "no store of nil/false to the field anywhere in the module", true)
				}
			}
		}
		if !a || !b {
			continue
		}
		// (c) a store of a non-zero value dominates every launch site
		cOK := false
		for _, n := range g.Nodes {
			as, ok := n.Ast.(*ast.AssignStmt)
			if !ok {
				continue
			}
			for i, l := range as.Lhs {
				if SelField(info, l) != cd.fv || i >= len(as.Rhs) {
					continue
				}
				nz := p.isNonNilExpr(f, as.Rhs[i])
				if id, ok := as.Rhs[i].(*ast.Ident); ok && id.Name == "true" {
					nz = true
				}
				if !nz {
					continue
				}
				dom := true
				for ln := range launch {
					if !g.Dominates(n, ln) {
						dom = false
					}
				}
				if dom {
					cOK = true
				}
			}
		}
		// (d) nothing resets the field
		dOK := true
		resetAt := ""
		for _, ff := range p.Funcs {
			finfo := ff.Pkg.TypesInfo
			walkNoLit(ff.Body, func(x ast.Node) bool {
				as, ok := x.(*ast.AssignStmt)
				if !ok {
					return true
				}
				for i, l := range as.Lhs {
					if SelField(finfo, l) == cd.fv && i < len(as.Rhs) {
						if isNilIdent(finfo, as.Rhs[i]) {
							dOK, resetAt = false, p.Pos(as)
						}
						if id, ok := as.Rhs[i].(*ast.Ident); ok && id.Name == "false" {
							dOK, resetAt = false, p.Pos(as)
						}
					}
				}
				return true
			})
		}
		if cOK && dOK {
			var feasAround map[*Node]bool
			// Client state is modified only by the Start that launches: every store
			// to a field of the Client itself (not of its config) in Start lies
			// behind the once-flag's unset edge. A store in front of it is repeated
			// by a later Start that is refused, and overwrites what Kill needs to
			// clean up after the first one (e.g. the socket directory).
			for _, n := range g.Nodes {
				as, ok := n.Ast.(*ast.AssignStmt)
				if !ok {
					continue
				}
				for _, l := range as.Lhs {
					base := ast.Unparen(l)
					for {
						if se, ok := base.(*ast.SelectorExpr); ok {
							if fv := SelField(info, se); fv != nil && isClientField(fv) {
								break
							}
							base = ast.Unparen(se.X)
							continue
						}
						break
					}
					fv := SelField(info, base)
					if fv == nil || !isClientField(fv) || fv == cd.fv {
						continue
					}
					if _, isPtrCfg := fv.Type().Underlying().(*types.Pointer); isPtrCfg {
						continue // c.config.X = ...: the caller's configuration, not client state
					}
					behind := g.OnlyViaEdge(n, func(e *Edge) bool { return e == cd.unset })
					if !behind {
						// a gate that records its refusal in the error variable (an
						// inlined helper): only feasible paths around the edge count
						if feasAround == nil {
							feasAround = p.FeasibleReach(f, []*Node{g.Entry}, nil, func(e *Edge) bool { return e == cd.unset })
						}
						behind = !feasAround[n]
					}
					construct := "store to " + p.FieldName(fv) + " only behind the launch gate"
					if behind {
						c.R.Hold("R-ONCE", p.Pos(as), f.Name, construct, "reachable only through the once-flag's unset edge", true)
					} else {
						c.R.Violate("R-ONCE", p.Pos(as), f.Name, construct,
							"Start overwrites "+p.FieldName(fv)+" before it tests "+name+": a second Start (or Client/Protocol) call that is refused because the plugin was already launched still resets this state, so Kill no longer cleans up what the first launch created", nil)
					}
				}
			}
			okAny = true
			c.R.Hold("R-ONCE", p.Pos(cd.setEdge.From.Ast), f.Name, "launch guarded by "+name,
				fmt.Sprintf("%s is tested before, and set on every path before, all %d launch sites; a set value returns without launching; nothing resets it", name, len(launch)), true)
		} else {
			why := name + ": tested before the launch sites"
			if !cOK {
				why += ", but not stored (non-zero) on every path before the first launch site — it is only set after a successful handshake, so a failed Start leaves it unset and the next Start launches again"
			}
			if !dOK {
				why += ", and reset at " + resetAt
			}
			report = append(report, why)
		}
	}
	if !okAny {
		var sites []string
		for _, s := range launch {
			sites = append(sites, s)
		}
		c.R.Violate("R-ONCE", p.Pos(f.Node()), f.Name, "launch at most once",
			"no Client field guards the launch region ("+strings.Join(sites, ", ")+") as a once-flag. Candidates: "+strings.Join(report, "; "), nil)
	}
	ruleClientCache(c)
}

// ruleClientCache: Client() creates a protocol client only when none is cached,
// returns the cached one otherwise, and clears the cache on failure.
func ruleClientCache(c *Ctx) {
	p := c.P
	cf := p.Fn("Client.Client")
	if cf == nil {
		c.R.Undecided("R-ONCE", "Client.Client", "anchor", "function not found")
		return
	}
	cinfo := cf.Pkg.TypesInfo
	cg := p.Graph(cf)
	clientF := p.FieldObj(modPath, "Client", "client")
	// the cached field, or a local bound once to a read of it (a "lookup" helper
	// that returns the field, inlined)
	isClientRead := func(e ast.Expr) bool {
		e = ast.Unparen(e)
		if SelField(cinfo, e) == clientF {
			return true
		}
		if v, ok := identObj(cinfo, e).(*types.Var); ok && !v.IsField() {
			if d := p.singleDef(cf, v); d != nil && SelField(cinfo, ast.Unparen(d)) == clientF {
				return true
			}
		}
		return false
	}
	var stores []*Node
	for _, n := range cg.Nodes {
		if as, ok := n.Ast.(*ast.AssignStmt); ok {
			for i, l := range as.Lhs {
				if SelField(cinfo, l) == clientF {
					var rhs ast.Expr
					if len(as.Rhs) == len(as.Lhs) {
						rhs = as.Rhs[i]
					} else {
						rhs = as.Rhs[0]
					}
					if !isNilIdent(cinfo, rhs) {
						stores = append(stores, n)
					}
				}
			}
		}
	}
	if len(stores) < 1 {
		c.R.Undecided("R-ONCE", cf.Name, "cache stores", "no store to Client.client found")
		return
	}
	for i, st := range stores {
		construct := fmt.Sprintf("Client.client store #%d behind the cache test", i+1)
		ok := cg.OnlyViaEdge(st, func(e *Edge) bool {
			at, isAt := edgeAtom(cinfo, e)
			return isAt && at.Kind == "nil" && at.Op == token.EQL && isClientRead(at.X)
		})
		if ok {
			c.R.Hold("R-ONCE", p.Pos(st.Ast), cf.Name, construct, "reachable only when Client.client == nil was observed (under the client lock, see R-GUARD)", true)
		} else {
			c.R.Violate("R-ONCE", p.Pos(st.Ast), cf.Name, construct, "a protocol client can be created although one is already cached: successive Client() calls return different clients", nil)
		}
	}
	// test and store form one critical section
	var testN *Node
	for _, n := range cg.Nodes {
		for _, e := range n.Succs {
			if at, ok := edgeAtom(cinfo, e); ok && at.Kind == "nil" && isClientRead(at.X) {
				testN = n
			}
		}
	}
	if testN != nil {
		atomicOK := true
		for _, st := range stores {
			seen := cg.ReachAfter(testN, func(x *Node) bool { return x == st }, nil)
			for x := range seen {
				if x.Ast == nil || !reachable(cg, x, st) {
					continue
				}
				if len(p.MustHeldAt(cf, x)) == 0 {
					atomicOK = false
				}
			}
			if len(p.MustHeldAt(cf, st)) == 0 || len(p.MustHeldAt(cf, testN)) == 0 {
				atomicOK = false
			}
		}
		if atomicOK {
			c.R.Hold("R-ONCE", p.Pos(testN.Ast), cf.Name, "cache test and store are one critical section", "the client lock is held continuously from the nil test to the store", true)
		} else {
			c.R.Violate("R-ONCE", p.Pos(testN.Ast), cf.Name, "cache test and store are one critical section", "the lock is released between testing Client.client and storing it: concurrent Client() calls each create, and return, their own protocol client", nil)
		}
	}
	// the cached value is returned on the hit edge
	hit := false
	for _, n := range cg.Nodes {
		if rs, ok := n.Ast.(*ast.ReturnStmt); ok && len(rs.Results) == 2 && isClientRead(rs.Results[0]) && isNilIdent(cinfo, rs.Results[1]) {
			if cg.OnlyViaEdge(n, func(e *Edge) bool {
				at, isAt := edgeAtom(cinfo, e)
				return isAt && at.Kind == "nil" && at.Op == token.NEQ && isClientRead(at.X)
			}) {
				hit = true
			}
		}
	}
	if !hit {
		// `if c.client == nil { create } ; return c.client, nil`: from the non-nil edge of
		// the cache test every path reaches such a return without passing a store
		isGoodRet := func(n *Node) bool {
			rs, ok := n.Ast.(*ast.ReturnStmt)
			return ok && len(rs.Results) == 2 && isClientRead(rs.Results[0]) && isNilIdent(cinfo, rs.Results[1])
		}
		isStore := func(n *Node) bool {
			for _, st := range stores {
				if st == n {
					return true
				}
			}
			return false
		}
		for _, n := range cg.Nodes {
			for _, e := range n.Succs {
				at, isAt := edgeAtom(cinfo, e)
				if !isAt || at.Kind != "nil" || at.Op != token.NEQ || !isClientRead(at.X) {
					continue
				}
				if isGoodRet(e.To) {
					hit = true
					continue
				}
				seen := cg.Reach([]*Node{e.To}, isGoodRet, nil)
				okPath := !isStore(e.To)
				for x := range seen {
					if x == cg.Exit || x == cg.Abort || isStore(x) {
						okPath = false
					}
				}
				if okPath {
					hit = true
				}
			}
		}
	}
	if hit {
		c.R.Hold("R-ONCE", p.Pos(cf.Node()), cf.Name, "cache hit returns Client.client", "", true)
	} else {
		c.R.Violate("R-ONCE", p.Pos(cf.Node()), cf.Name, "cache hit returns Client.client", "no `return c.client, nil` on the non-nil edge of the cache test", nil)
	}
	// failure clears the cache: after a store, the err != nil edge passes `c.client = nil`
	isClear := func(n *Node) bool {
		if as, ok := n.Ast.(*ast.AssignStmt); ok {
			for i, l := range as.Lhs {
				if SelField(cinfo, l) == clientF && i < len(as.Rhs) && isNilIdent(cinfo, as.Rhs[i]) {
					return true
				}
			}
		}
		return false
	}
	bad := false
	for _, n := range cg.Nodes {
		for _, e := range n.Succs {
			at, isAt := edgeAtom(cinfo, e)
			if !isAt || at.Kind != "nil" || at.Op != token.NEQ || !isErrorType(cinfo.TypeOf(at.X)) {
				continue
			}
			// only error tests that follow a store
			after := false
			for _, st := range stores {
				if _, r := cg.ReachAfter(st, nil, nil)[n]; r {
					after = true
				}
			}
			if !after {
				continue
			}
			seen := cg.Reach([]*Node{e.To}, isClear, nil)
			if _, leak := seen[cg.Exit]; leak && !isClear(e.To) {
				bad = true
				c.R.Violate("R-ONCE", p.Pos(n.Ast), cf.Name, "failed connect clears the cache", "a failed protocol-client construction can leave a non-nil (typed-nil) value cached in Client.client", p.PathTo(seen, cg.Exit))
			}
		}
	}
	// and the error that comes with a stored value is examined at all: a store
	// `c.client, err = ctor(...)` whose err reaches the return untested hands
	// the failure to the caller but keeps the typed nil
	for _, st := range stores {
		as, ok := st.Ast.(*ast.AssignStmt)
		if !ok || len(as.Lhs) != 2 || len(as.Rhs) != 1 {
			continue
		}
		if _, isCall := ast.Unparen(as.Rhs[0]).(*ast.CallExpr); !isCall || !isErrorType(cinfo.TypeOf(as.Lhs[1])) {
			continue
		}
		errV := identObj(cinfo, as.Lhs[1])
		tested := func(e *Edge) bool {
			at, isAt := edgeAtom(cinfo, e)
			return isAt && at.Kind == "nil" && identObj(cinfo, at.X) == errV && errV != nil
		}
		seen := cg.ReachAfter(st, isClear, tested)
		if _, leak := seen[cg.Exit]; leak {
			bad = true
			c.R.Violate("R-ONCE", p.Pos(st.Ast), cf.Name, "failed connect clears the cache", "the error that comes with the stored protocol client reaches a return without having been tested: a failed construction is reported to the caller while its typed-nil result stays cached in Client.client, and the next Client() call returns it as a working client", p.PathTo(seen, cg.Exit))
		}
	}
	if !bad {
		c.R.Hold("R-ONCE", p.Pos(cf.Node()), cf.Name, "failed connect clears the cache", "every error exit after a store passes Client.client = nil", true)
	}
}
