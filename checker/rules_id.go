package main

import (
	"fmt"
	"go/ast"
	"go/token"
	"go/types"
	"strings"
)

// R-ID — brokered ids are carried, never computed.
//
// In every listed function, each expression in an "id position" (argument of
// an id-taking module function, index of an id-keyed map, ServiceId of a
// ConnInfo literal, value written to / read from the wire, the dispense
// response) must be a carrier: the function's id parameter, a local bound once
// from an id source (wire read, NextId(), rpc reply, knock channel), or the
// ServiceId of the received message. All id positions of one function must
// name the same carrier.

type idSpec struct {
	Func string
	Min  int // minimum number of id positions confirmed by hand
}

func isUint32(t types.Type) bool {
	if t == nil {
		return false
	}
	// the plain uint32 of the broker ids; named types with that underlying
	// type (os.FileMode, codes.Code, ...) are something else
	if nt, isNamed := types.Unalias(t).(*types.Named); isNamed && nt.Obj().Pkg() != nil && !strings.HasPrefix(nt.Obj().Pkg().Path(), modPath) {
		return false
	}
	b, ok := t.Underlying().(*types.Basic)
	return ok && b.Kind() == types.Uint32
}

// idCarrier renders the carrier an expression denotes, or "" if it is not one.
func (p *Prog) idCarrier(f *Func, e ast.Expr) string {
	info := f.Pkg.TypesInfo
	e = ast.Unparen(e)
	if u, ok := e.(*ast.UnaryExpr); ok && u.Op == token.AND {
		e = ast.Unparen(u.X)
	}
	switch x := e.(type) {
	case *ast.Ident:
		v, ok := info.Uses[x].(*types.Var)
		if !ok || !isUint32(v.Type()) {
			return ""
		}
		if isParamOf(info, f, v) {
			return "param " + v.Name()
		}
		// enclosing function's parameter (closure)
		for q := f.Parent; q != nil; q = q.Parent {
			if isParamOf(q.Pkg.TypesInfo, q, v) {
				return "param " + v.Name()
			}
		}
		// a local with exactly one definition from an id source
		src := p.idLocalSource(f, v)
		if src == "" {
			return ""
		}
		return "local " + v.Name() + " <- " + src
	case *ast.SelectorExpr:
		if fv := SelField(info, x); fv != nil && fv.Name() == "ServiceId" {
			if rv, ok := identObj(info, x.X).(*types.Var); ok {
				return "msg " + rv.Name() + ".ServiceId"
			}
		}
	}
	return ""
}

func (p *Prog) idLocalSource(f *Func, v *types.Var) string {
	src := ""
	n := 0
	for cur := f; cur != nil; cur = cur.Parent {
		info := cur.Pkg.TypesInfo
		ast.Inspect(cur.Body, func(x ast.Node) bool {
			switch s := x.(type) {
			case *ast.AssignStmt:
				for i, l := range s.Lhs {
					if identObj(info, l) != v {
						continue
					}
					n++
					var rhs ast.Expr
					if len(s.Rhs) == len(s.Lhs) {
						rhs = s.Rhs[i]
					} else {
						rhs = s.Rhs[0]
					}
					rhs = ast.Unparen(rhs)
					if call, ok := rhs.(*ast.CallExpr); ok {
						if nm := p.CalleeName(cur, call); strings.HasSuffix(nm, ".NextId") {
							src = "NextId()"
						}
					}
					if u, ok := rhs.(*ast.UnaryExpr); ok && u.Op == token.ARROW {
						src = "receive"
					}
				}
			case *ast.ValueSpec:
				for _, nm := range s.Names {
					if info.Defs[nm] == v && len(s.Values) == 0 {
						// `var id uint32` filled through &id by a wire read / rpc reply
						ast.Inspect(cur.Body, func(y ast.Node) bool {
							call, ok := y.(*ast.CallExpr)
							if !ok {
								return true
							}
							nm := p.CalleeName(cur, call)
							for _, a := range call.Args {
								if u, ok := ast.Unparen(a).(*ast.UnaryExpr); ok && u.Op == token.AND && identObj(info, u.X) == v {
									switch nm {
									case "encoding/binary.Read":
										src = "wire read"
										n++
									case "net/rpc.Client.Call":
										src = "rpc reply"
										n++
									}
								}
							}
							return true
						})
					}
				}
			}
			return true
		})
	}
	if n != 1 {
		return ""
	}
	return src
}

// idPositions collects the id positions of f's body (including nested literals).
func (p *Prog) idPositions(f *Func) []ast.Expr {
	var out []ast.Expr
	var visit func(fn *Func)
	visit = func(fn *Func) {
		info := fn.Pkg.TypesInfo
		walkNoLit(fn.Body, func(x ast.Node) bool {
			switch s := x.(type) {
			case *ast.CallExpr:
				nm := p.CalleeName(fn, s)
				if ce := p.FnOf(asFunc(p.Callee(fn, s))); ce != nil || strings.Contains(nm, "grpcmux.GRPCMuxer.") {
					sig, _ := info.TypeOf(s.Fun).(*types.Signature)
					if sig != nil {
						for i := 0; i < sig.Params().Len() && i < len(s.Args); i++ {
							if isUint32(sig.Params().At(i).Type()) && !sig.Variadic() {
								out = append(out, s.Args[i])
							}
						}
					}
				}
				switch nm {
				case "encoding/binary.Write":
					if len(s.Args) == 3 && isUint32(info.TypeOf(s.Args[2])) {
						out = append(out, s.Args[2])
					}
				case "builtin.delete":
					if len(s.Args) == 2 && isUint32(info.TypeOf(s.Args[1])) {
						out = append(out, s.Args[1])
					}
				}
			case *ast.IndexExpr:
				if mt, ok := info.TypeOf(s.X).Underlying().(*types.Map); ok && isUint32(mt.Key()) {
					out = append(out, s.Index)
				}
			case *ast.KeyValueExpr:
				if k, ok := s.Key.(*ast.Ident); ok && k.Name == "ServiceId" {
					out = append(out, s.Value)
				}
			case *ast.AssignStmt:
				// *response = id
				for i, l := range s.Lhs {
					if st, ok := ast.Unparen(l).(*ast.StarExpr); ok && i < len(s.Rhs) && isUint32(info.TypeOf(st)) {
						out = append(out, s.Rhs[i])
					}
				}
			case *ast.SendStmt:
				if isUint32(info.TypeOf(s.Value)) {
					out = append(out, s.Value)
				}
			}
			return true
		})
		for _, lf := range p.Funcs {
			if lf.Lit != nil && lf.Parent == fn {
				visit(lf)
			}
		}
	}
	visit(f)
	return out
}

func (p *Prog) ruleIDs(c *Ctx, rule string, specs []idSpec) {
	for _, sp := range specs {
		f := p.Fn(sp.Func)
		if f == nil {
			c.R.Undecided(rule, sp.Func, "anchor", "function not found")
			continue
		}
		pos := p.idPositions(f)
		carriers := map[string]int{}
		bad := false
		for _, e := range pos {
			// find the innermost function holding e for name resolution
			holder := p.EnclosingFunc(e)
			if holder == nil {
				holder = f
			}
			cr := p.idCarrier(holder, e)
			if cr == "" {
				bad = true
				c.R.Violate(rule, p.Pos(e), f.Name, "id position "+exprStr(e),
					"the value used as a brokered connection id here is not the id this function was given / received (it is computed, constant or re-bound): the two ends of the connection would disagree on the id", nil)
				continue
			}
			carriers[cr]++
		}
		if bad {
			continue
		}
		if len(pos) < sp.Min {
			c.R.Undecided(rule, f.Name, "id positions", fmt.Sprintf("only %d id positions found, %d were confirmed by hand", len(pos), sp.Min))
			continue
		}
		if len(carriers) > 1 {
			var names []string
			for k := range carriers {
				names = append(names, k)
			}
			c.R.Violate(rule, p.Pos(f.Node()), f.Name, "single id carrier", "different id values are used within one brokered operation: "+strings.Join(names, " / "), nil)
			continue
		}
		var name string
		for k := range carriers {
			name = k
		}
		c.R.Hold(rule, p.Pos(f.Node()), f.Name, "id carried", fmt.Sprintf("%d id positions, all `%s`", len(pos), name), true)
		// no arithmetic on ids
		p.noIDArithmetic(c, rule, f)
	}
}

func (p *Prog) noIDArithmetic(c *Ctx, rule string, f *Func) {
	info := f.Pkg.TypesInfo
	ast.Inspect(f.Body, func(x ast.Node) bool {
		switch s := x.(type) {
		case *ast.BinaryExpr:
			switch s.Op {
			case token.ADD, token.SUB, token.MUL, token.QUO, token.REM, token.AND, token.OR, token.XOR, token.SHL, token.SHR:
				if isUint32(info.TypeOf(s)) {
					c.R.Violate(rule, p.Pos(s), f.Name, "no arithmetic on ids", "arithmetic on a uint32 in a broker function: ids must only be allocated by NextId and carried", nil)
				}
			}
		case *ast.IncDecStmt:
			if isUint32(info.TypeOf(s.X)) {
				c.R.Violate(rule, p.Pos(s), f.Name, "no arithmetic on ids", "increment/decrement of a uint32 in a broker function", nil)
			}
		}
		return true
	})
}

// idCompare: in f, the value `what` read from the peer is compared with the id
// parameter and a mismatch leads to an error return.
func (p *Prog) idCompare(c *Ctx, rule string, fname string, isPeer func(info *types.Info, e ast.Expr) bool, what string) {
	f := p.Fn(fname)
	if f == nil {
		c.R.Undecided(rule, fname, "anchor", "function not found")
		return
	}
	info := f.Pkg.TypesInfo
	g := p.Graph(f)
	found := false
	ok := true
	for _, m := range g.Nodes {
		for _, e := range m.Succs {
			at, isAt := edgeAtom(info, e)
			if !isAt || at.Kind != "cmp" || at.Op != token.NEQ {
				continue
			}
			var other ast.Expr
			if isPeer(info, at.X) {
				other = at.Y
			} else if isPeer(info, at.Y) {
				other = at.X
			} else {
				continue
			}
			if !strings.HasPrefix(p.idCarrier(f, other), "param ") {
				continue
			}
			found = true
			// mismatch edge: every path returns a non-nil error
			if !p.failsOnEveryPath(f, e.To) {
				ok = false
			}
			// and success returns are only behind the equality
			for _, m2 := range g.Nodes {
				rs, isR := m2.Ast.(*ast.ReturnStmt)
				if !isR || len(rs.Results) == 0 || !isNilIdent(info, rs.Results[len(rs.Results)-1]) {
					continue
				}
				if reachable(g, m, m2) && !g.OnlyViaEdge(m2, func(x *Edge) bool {
					a2, isA2 := edgeAtom(info, x)
					return isA2 && a2.Kind == "cmp" && a2.Op == token.EQL && x.From == m
				}) && g.Dominates(m, m2) {
					ok = false
				}
			}
		}
	}
	construct := what + " compared with the id"
	if found && ok {
		c.R.Hold(rule, p.Pos(f.Node()), f.Name, construct, "a mismatch returns an error; success only on equality", true)
	} else {
		c.R.Violate(rule, p.Pos(f.Node()), f.Name, construct, "the id echoed/announced by the peer is not checked against the id of this operation (a connection for another id would be accepted)", nil)
	}
}

func ruleIDMux(c *Ctx) {
	p := c.P
	p.ruleIDs(c, "R-ID/mux", []idSpec{
		{"MuxBroker.Dial", 1}, {"MuxBroker.Accept", 1}, {"MuxBroker.Run", 1}, {"MuxBroker.getStream", 1}, {"MuxBroker.timeoutWait", 1},
		{"MuxBroker.AcceptAndServe", 1}, {"dispenseServer.Dispense", 1}, {"RPCClient.Dispense", 1},
	})
	// Dial: the echoed ack must equal the id
	p.idCompare(c, "R-ID/mux", "MuxBroker.Dial", func(info *types.Info, e ast.Expr) bool {
		v, ok := identObj(info, e).(*types.Var)
		if !ok || !isUint32(v.Type()) {
			return false
		}
		f := p.Fn("MuxBroker.Dial")
		return p.idLocalSource(f, v) == "wire read"
	}, "ack")
	// Run parks the stream it read the id from
	if f := p.Fn("MuxBroker.Run"); f != nil {
		info := f.Pkg.TypesInfo
		var streamV, readFrom, sent types.Object
		for _, call := range f.Calls() {
			switch p.CalleeName(f, call) {
			case "github.com/hashicorp/yamux.Session.AcceptStream":
				if v := assignedVar(p, info, call); v != nil {
					streamV = v
				}
			case "encoding/binary.Read":
				readFrom = identObj(info, call.Args[0])
			}
		}
		ast.Inspect(f.Body, func(x ast.Node) bool {
			if ss, ok := x.(*ast.SendStmt); ok {
				sent = identObj(info, ss.Value)
			}
			return true
		})
		if streamV != nil && readFrom == streamV && sent == streamV {
			c.R.Hold("R-ID/mux", p.Pos(f.Node()), f.Name, "stream parked under the id read from it", "the accepted stream is the one the id is read from and the one sent to the slot", true)
		} else {
			c.R.Violate("R-ID/mux", p.Pos(f.Node()), f.Name, "stream parked under the id read from it", "the stream parked in the slot is not the stream the id was read from", nil)
		}
	}
	// Accept returns the connection taken from the slot of its id
	if f := p.Fn("MuxBroker.Accept"); f != nil {
		info := f.Pkg.TypesInfo
		var connV types.Object
		ast.Inspect(f.Body, func(x ast.Node) bool {
			if as, ok := x.(*ast.AssignStmt); ok && len(as.Rhs) == 1 {
				if u, ok := ast.Unparen(as.Rhs[0]).(*ast.UnaryExpr); ok && u.Op == token.ARROW {
					connV = identObj(info, as.Lhs[0])
				}
			}
			return true
		})
		ok := false
		ast.Inspect(f.Body, func(x ast.Node) bool {
			if rs, isR := x.(*ast.ReturnStmt); isR && len(rs.Results) == 2 && isNilIdent(info, rs.Results[1]) && connV != nil && identObj(info, rs.Results[0]) == connV {
				ok = true
			}
			return true
		})
		if ok {
			c.R.Hold("R-ID/mux", p.Pos(f.Node()), f.Name, "returns the parked connection", "", true)
		} else {
			c.R.Violate("R-ID/mux", p.Pos(f.Node()), f.Name, "returns the parked connection", "Accept does not return the connection it took from its id's slot", nil)
		}
	}
}

func ruleIDGRPC(c *Ctx) {
	p := c.P
	p.ruleIDs(c, "R-ID/grpc", []idSpec{
		{"GRPCBroker.Accept", 1}, {"GRPCBroker.Run", 1}, {"GRPCBroker.DialWithOptions", 1}, {"GRPCBroker.getClientStream", 1},
		{"GRPCBroker.getServerStream", 1}, {"GRPCBroker.timeoutWait", 1}, {"GRPCBroker.AcceptAndServe", 1},
	})
	// Accept advertises the address of the listener it just opened
	if f := p.Fn("GRPCBroker.Accept"); f != nil {
		info := f.Pkg.TypesInfo
		var lv types.Object
		for _, call := range f.Calls() {
			if p.CalleeName(f, call) == modPath+".serverListener" {
				lv = assignedVar(p, info, call)
			}
		}
		fromListener := func(v types.Object, method string) bool {
			ok := false
			ast.Inspect(f.Body, func(x ast.Node) bool {
				as, isAs := x.(*ast.AssignStmt)
				if !isAs {
					return true
				}
				for i, l := range as.Lhs {
					if identObj(info, l) != v || len(as.Rhs) != len(as.Lhs) {
						continue
					}
					if c1, isC := ast.Unparen(as.Rhs[i]).(*ast.CallExpr); isC {
						if s1, isS := c1.Fun.(*ast.SelectorExpr); isS && s1.Sel.Name == method {
							// listener.Addr().Network(), or through a local bound once to listener.Addr()
							if c2, isC2 := ast.Unparen(p.Deref(f, s1.X)).(*ast.CallExpr); isC2 {
								if s2, isS2 := c2.Fun.(*ast.SelectorExpr); isS2 && s2.Sel.Name == "Addr" && identObj(info, s2.X) == lv {
									ok = true
								}
							}
						}
					}
				}
				return true
			})
			return ok
		}
		okLit := false
		ast.Inspect(f.Body, func(x ast.Node) bool {
			cl, isCl := x.(*ast.CompositeLit)
			if !isCl || !strings.HasSuffix(fmt.Sprint(info.TypeOf(cl)), "plugin.ConnInfo") {
				return true
			}
			var nw, ad types.Object
			for _, el := range cl.Elts {
				if kv, isKv := el.(*ast.KeyValueExpr); isKv {
					switch kv.Key.(*ast.Ident).Name {
					case "Network":
						nw = identObj(info, kv.Value)
					case "Address":
						ad = identObj(info, kv.Value)
					}
				}
			}
			if nw != nil && ad != nil && lv != nil && fromListener(nw, "Network") && fromListener(ad, "String") {
				okLit = true
			}
			return true
		})
		// and the listener returned is that listener
		okRet := false
		ast.Inspect(f.Body, func(x ast.Node) bool {
			if rs, isR := x.(*ast.ReturnStmt); isR && len(rs.Results) == 2 && lv != nil {
				if identObj(info, rs.Results[0]) == lv {
					okRet = true
				}
				// or a wrapper that embeds that listener: &T{Listener: lv, ...}
				r := ast.Unparen(p.Deref(f, rs.Results[0]))
				if u, isU := r.(*ast.UnaryExpr); isU && u.Op == token.AND {
					r = u.X
				}
				if cl, isCl := r.(*ast.CompositeLit); isCl {
					for _, el := range cl.Elts {
						if kv, isKv := el.(*ast.KeyValueExpr); isKv && identObj(info, kv.Value) == lv {
							if k, isId := kv.Key.(*ast.Ident); isId {
								if fv, isF := info.Uses[k].(*types.Var); isF && fv.Embedded() {
									okRet = true
								}
							}
						}
					}
				}
			}
			return true
		})
		if okLit && okRet {
			c.R.Hold("R-ID/grpc", p.Pos(f.Node()), f.Name, "advertises its own fresh listener", "ConnInfo{Network, Address} come from Addr() of the listener that is returned", true)
		} else {
			c.R.Violate("R-ID/grpc", p.Pos(f.Node()), f.Name, "advertises its own fresh listener", "the address sent for the id is not the address of the listener returned for that id", nil)
		}
	}
	// Dial dials the address of the message it received for its id
	if f := p.Fn("GRPCBroker.DialWithOptions"); f != nil {
		info := f.Pkg.TypesInfo
		// pairwise copies between locals (x := y; x, e = y, nil), as written or as
		// left behind by inlining a helper
		type copyEdge struct{ dst, src *types.Var }
		var copies []copyEdge
		other := map[*types.Var][]ast.Expr{} // non-copy right-hand sides per local
		ast.Inspect(f.Body, func(x ast.Node) bool {
			as, ok := x.(*ast.AssignStmt)
			if !ok {
				return true
			}
			if len(as.Lhs) == len(as.Rhs) {
				for i, l := range as.Lhs {
					dv, _ := identObj(info, l).(*types.Var)
					if dv == nil || dv.IsField() {
						continue
					}
					if sv, ok := identObj(info, ast.Unparen(as.Rhs[i])).(*types.Var); ok && !sv.IsField() {
						copies = append(copies, copyEdge{dv, sv})
					} else if !isNilIdent(info, as.Rhs[i]) {
						other[dv] = append(other[dv], as.Rhs[i])
					}
				}
			} else if len(as.Rhs) == 1 {
				for _, l := range as.Lhs {
					if dv, _ := identObj(info, l).(*types.Var); dv != nil && !dv.IsField() {
						other[dv] = append(other[dv], as.Rhs[0])
					}
				}
			}
			return true
		})
		msgVs := map[types.Object]bool{}
		ast.Inspect(f.Body, func(x ast.Node) bool {
			if as, ok := x.(*ast.AssignStmt); ok && len(as.Rhs) == 1 {
				if u, ok := ast.Unparen(as.Rhs[0]).(*ast.UnaryExpr); ok && u.Op == token.ARROW {
					if o := identObj(info, as.Lhs[0]); o != nil {
						msgVs[o] = true
					}
				}
			}
			return true
		})
		for changed := true; changed; {
			changed = false
			for _, ce := range copies {
				if msgVs[ce.src] && !msgVs[ce.dst] {
					// the copy target holds the message only if it has no other source
					if len(other[ce.dst]) == 0 {
						msgVs[ce.dst] = true
						changed = true
					}
				}
			}
		}
		uses := 0
		ast.Inspect(f.Body, func(x ast.Node) bool {
			if se, ok := x.(*ast.SelectorExpr); ok && (se.Sel.Name == "Network" || se.Sel.Name == "Address") && msgVs[identObj(info, se.X)] {
				uses++
			}
			return true
		})
		// the address resolved is what netAddrDialer receives: following copies
		// backwards from its argument, every value comes from a net.Resolve*Addr call
		okDial := false
		for _, call := range f.Calls() {
			if p.CalleeName(f, call) == modPath+".netAddrDialer" {
				if av, ok := identObj(info, call.Args[0]).(*types.Var); ok {
					set := map[*types.Var]bool{av: true}
					for changed := true; changed; {
						changed = false
						for _, ce := range copies {
							if set[ce.dst] && !set[ce.src] {
								set[ce.src] = true
								changed = true
							}
						}
					}
					nRes, bad := 0, false
					for v := range set {
						for _, r := range other[v] {
							c2, isCall := ast.Unparen(r).(*ast.CallExpr)
							nm := ""
							if isCall {
								nm = p.CalleeName(f, c2)
							}
							if nm == "net.ResolveTCPAddr" || nm == "net.ResolveUnixAddr" {
								nRes++
							} else {
								bad = true
							}
						}
					}
					okDial = nRes > 0 && !bad
				}
			}
		}
		if uses >= 2 && okDial {
			c.R.Hold("R-ID/grpc", p.Pos(f.Node()), f.Name, "dials the address received for its id", "Network/Address of the message taken from the id's slot are resolved and dialled", true)
		} else {
			c.R.Violate("R-ID/grpc", p.Pos(f.Node()), f.Name, "dials the address received for its id", "the address dialled is not the one announced in the message received for this id", nil)
		}
	}
}

func ruleIDKnock(c *Ctx) {
	p := c.P
	p.ruleIDs(c, "R-ID/knock", []idSpec{
		{"GRPCBroker.knock", 1}, {"GRPCBroker.listenForKnocks", 1}, {"GRPCBroker.muxDial", 1},
		{"grpcmux.GRPCServerMuxer.Listener", 1}, {"grpcmux.GRPCServerMuxer.AcceptKnock", 1}, {"grpcmux.GRPCServerMuxer.Accept", 1},
		{"grpcmux.GRPCClientMuxer.Listener", 1}, {"grpcmux.GRPCClientMuxer.AcceptKnock", 1},
	})
	isMsgID := func(info *types.Info, e ast.Expr) bool {
		fv := SelField(info, e)
		return fv != nil && fv.Name() == "ServiceId"
	}
	p.idCompare(c, "R-ID/knock", "GRPCBroker.knock", isMsgID, "ack ServiceId")
	p.idCompare(c, "R-ID/knock", "GRPCBroker.listenForKnocks", isMsgID, "knock ServiceId")
	// the multiplexed branch of Accept uses its id for the slot, the listener and the knock listener
	if f := p.Fn("GRPCBroker.Accept"); f != nil {
		n := 0
		bad := false
		for _, e := range p.idPositions(f) {
			holder := p.EnclosingFunc(e)
			if holder == nil {
				holder = f
			}
			if !strings.HasPrefix(p.idCarrier(holder, e), "param ") {
				bad = true
			}
			n++
		}
		if !bad && n >= 5 {
			c.R.Hold("R-ID/knock", p.Pos(f.Node()), f.Name, "multiplexed accept uses its id throughout", fmt.Sprintf("%d id positions, all the id parameter", n), true)
		} else {
			c.R.Violate("R-ID/knock", p.Pos(f.Node()), f.Name, "multiplexed accept uses its id throughout", "slot, listener registration, knock listener and clean-up do not all use the id parameter", nil)
		}
	}
}

// ---------- R-SLOT ----------

func ruleSlot(c *Ctx) {
	p := c.P
	want := map[string]string{
		"muxBrokerPending.ch":                  "target of the non-blocking park in MuxBroker.Run",
		"gRPCBrokerPending.ch":                 "target of the non-blocking park in GRPCBroker.Run",
		"grpcmux.GRPCServerMuxer.knockCh":      "AcceptKnock must be able to leave its token before the muxer's Accept loop reads it",
		"grpcmux.blockedClientListener.waitCh": "unblock() is called with acceptMutex held and must not wait for the listener's Accept",
	}
	// rendezvous channels: Send() offers its request in a select against the
	// quit channel and then waits for the reply. With a buffered request channel
	// the offer can succeed after the pump goroutine has gone (both arms ready,
	// Go picks at random), and the caller waits for a reply that never comes.
	wantZero := map[string]string{
		"gRPCBrokerServer.send":     "request hand-off to the stream pump (plugin side)",
		"gRPCBrokerClientImpl.send": "request hand-off to the stream pump (host side)",
	}
	found := map[string]int{}
	for _, f := range p.Funcs {
		info := f.Pkg.TypesInfo
		ast.Inspect(f.Body, func(x ast.Node) bool {
			kv, ok := x.(*ast.KeyValueExpr)
			if !ok {
				return true
			}
			k, ok := kv.Key.(*ast.Ident)
			if !ok {
				return true
			}
			fv, _ := info.Uses[k].(*types.Var)
			if fv == nil || !fv.IsField() {
				return true
			}
			name := p.FieldName(fv)
			whyZ, isZ := wantZero[name]
			if !isZ {
				// the same channel moved into a shared helper type: recognised by
				// its element type (the request record that carries the reply channel)
				if ch, isCh := fv.Type().Underlying().(*types.Chan); isCh && strings.HasSuffix(ch.Elem().String(), ".sendErr") {
					whyZ, isZ = "request hand-off to the stream pump", true
					for k := range wantZero {
						found[k]++
					}
				}
			}
			if isZ {
				found[name]++
				construct := "capacity of " + name
				call, isC := ast.Unparen(kv.Value).(*ast.CallExpr)
				zero := false
				if isC && p.CalleeName(f, call) == "builtin.make" {
					if len(call.Args) == 1 {
						zero = true
					} else if n, isN := constInt(info, call.Args[1]); isN && n == 0 {
						zero = true
					}
				}
				if zero {
					c.R.Hold("R-SLOT", p.Pos(kv), f.Name, construct, "unbuffered (rendezvous)", true)
				} else {
					c.R.Violate("R-SLOT", p.Pos(kv), f.Name, construct, "the "+whyZ+" is buffered: after the broker stream has ended (plugin died) Send can still deposit a request that nobody will answer instead of seeing the closed quit channel, so the caller (Accept, knock) blocks forever", nil)
				}
				return true
			}
			why, isWanted := want[name]
			if !isWanted {
				return true
			}
			found[name]++
			construct := "capacity of " + name
			call, isC := ast.Unparen(kv.Value).(*ast.CallExpr)
			capOK := false
			if isC && p.CalleeName(f, call) == "builtin.make" && len(call.Args) == 2 {
				if n, isN := constInt(info, call.Args[1]); isN && n >= 1 {
					capOK = true
				}
			}
			if capOK {
				c.R.Hold("R-SLOT", p.Pos(kv), f.Name, construct, "made with a constant capacity >= 1", true)
			} else {
				c.R.Violate("R-SLOT", p.Pos(kv), f.Name, construct, "the hand-off channel is unbuffered (or its capacity is not a positive constant): "+why, nil)
			}
			return true
		})
	}
	// every such field must be initialised by a literal (no other stores)
	for name := range want {
		if found[name] == 0 {
			c.R.Undecided("R-SLOT", "", name, "no composite-literal initialisation of this channel field found")
		}
	}
	for name := range wantZero {
		if found[name] == 0 {
			c.R.Undecided("R-SLOT", "", name, "no composite-literal initialisation of this channel field found")
		}
	}
	// the park in both Run loops is non-blocking
	for _, fn := range []string{"MuxBroker.Run", "GRPCBroker.Run"} {
		f := p.Fn(fn)
		if f == nil {
			continue
		}
		ok := false
		for _, op := range p.BlockOps(f) {
			if op.Class == "A" && op.Kind == "select" {
				for _, a := range op.Arms {
					if strings.HasPrefix(a, "send ") && strings.HasSuffix(a, "Pending.ch") {
						ok = true
					}
				}
			}
		}
		// and there is no blocking send on the slot anywhere in Run
		for _, op := range p.BlockOps(f) {
			if op.Kind == "send" && strings.HasSuffix(op.Desc, "Pending.ch") {
				ok = false
			}
		}
		if ok {
			c.R.Hold("R-SLOT", p.Pos(f.Node()), f.Name, "park is a non-blocking send", "select with default", true)
		} else {
			c.R.Violate("R-SLOT", p.Pos(f.Node()), f.Name, "park is a non-blocking send", "Run parks an inbound connection with a send that can block: one unmatched id stalls the broker for every id", nil)
		}
	}
}

// ---------- R-MUXSER ----------

func ruleMuxSer(c *Ctx) {
	p := c.P
	f := p.Fn("GRPCBroker.muxDial")
	if f == nil {
		c.R.Undecided("R-MUXSER", "GRPCBroker.muxDial", "anchor", "function not found")
		return
	}
	var lit *Func
	for _, lf := range p.Funcs {
		if lf.Lit != nil && lf.Parent == f {
			lit = lf
		}
	}
	if lit == nil {
		// muxDial is itself the dial step (knock, then open the stream) and the
		// dialer closure that calls it lives in the caller: every call of it must
		// come from a function literal, so that it runs once per transport
		ci := p.Calls()
		perDial := len(ci.callers[f]) > 0
		for _, cs := range ci.callers[f] {
			if cs.Caller == nil || cs.Caller.Lit == nil || cs.Kind != "call" {
				perDial = false
			}
		}
		if perDial {
			lit = f
		}
	}
	if lit == nil {
		c.R.Undecided("R-MUXSER", f.Name, "dialer literal", "the dialer closure was not found")
		return
	}
	g := p.Graph(lit)
	n := 0
	for _, call := range lit.Calls() {
		nm := p.CalleeName(lit, call)
		if nm != modPath+".GRPCBroker.knock" && !strings.HasSuffix(nm, "grpcmux.GRPCMuxer.Dial") {
			continue
		}
		n++
		node := g.NodeOf(call)
		held := p.MustHeldAt(lit, node)
		hasDial := false
		for v := range held {
			if p.lockName(v) == "GRPCBroker.dialMutex" || strings.Contains(strings.ToLower(v.Name()), "dial") {
				hasDial = true
			}
		}
		// rename-robust: some mutex of GRPCBroker other than the embedded map mutex
		if !hasDial {
			for v := range held {
				if strings.HasPrefix(p.lockName(v), "GRPCBroker.") && p.lockName(v) != "GRPCBroker.Mutex" {
					hasDial = true
				}
			}
		}
		construct := "serialised: " + shortName(nm)
		if hasDial {
			c.R.Hold("R-MUXSER", p.Pos(call), lit.Name, construct, "executes with the broker's dial mutex held: {"+held.names(p)+"}", true)
		} else {
			c.R.Violate("R-MUXSER", p.Pos(call), lit.Name, construct, "knock and stream dial of a multiplexed connection are not serialised by the dial mutex: two concurrent dials can have their streams delivered to each other's listeners", nil)
		}
	}
	if n < 2 {
		c.R.Undecided("R-MUXSER", lit.Name, "knock and dial", fmt.Sprintf("only %d of the two calls found", n))
	}
	// knock precedes the dial
	var kn, dn *Node
	for _, call := range lit.Calls() {
		nm := p.CalleeName(lit, call)
		if nm == modPath+".GRPCBroker.knock" {
			kn = g.NodeOf(call)
		}
		if strings.HasSuffix(nm, "grpcmux.GRPCMuxer.Dial") {
			dn = g.NodeOf(call)
		}
	}
	if kn != nil && dn != nil && g.Dominates(kn, dn) {
		c.R.Hold("R-MUXSER", p.Pos(dn.Ast), lit.Name, "knock before dial", "the stream is opened only after the knock was acknowledged", true)
	} else {
		c.R.Violate("R-MUXSER", p.Pos(lit.Node()), lit.Name, "knock before dial", "a multiplexed stream can be opened before the other side was told which listener it is for", nil)
	}
	// server muxer: the knocked id is read only after a stream was accepted; default arm returns to the main listener
	sm := p.Fn("grpcmux.GRPCServerMuxer.Accept")
	if sm == nil {
		c.R.Undecided("R-MUXSER", "grpcmux.GRPCServerMuxer.Accept", "anchor", "function not found")
		return
	}
	sg := p.Graph(sm)
	sinfo := sm.Pkg.TypesInfo
	var accN *Node
	var connV types.Object
	for _, call := range sm.Calls() {
		if p.CalleeName(sm, call) == "github.com/hashicorp/yamux.Session.Accept" {
			accN = sg.NodeOf(call)
			if as, ok := accN.Ast.(*ast.AssignStmt); ok {
				connV = identObj(sinfo, as.Lhs[0])
			}
		}
	}
	okSel := false
	for _, op := range p.BlockOps(sm) {
		if op.Kind != "select" || op.Class != "A" {
			continue
		}
		hasKnock := false
		for _, a := range op.Arms {
			if a == "recv grpcmux.GRPCServerMuxer.knockCh" {
				hasKnock = true
			}
		}
		if hasKnock && accN != nil && op.Node != nil && sg.Dominates(accN, op.Node) {
			// default arm returns the accepted conn
			s := op.Ast.(*ast.SelectStmt)
			for _, cl := range s.Body.List {
				cc := cl.(*ast.CommClause)
				if cc.Comm != nil {
					continue
				}
				for _, st := range cc.Body {
					if rs, ok := st.(*ast.ReturnStmt); ok && len(rs.Results) == 2 && identObj(sinfo, rs.Results[0]) == connV {
						okSel = true
					}
				}
			}
		}
	}
	if okSel {
		c.R.Hold("R-MUXSER", p.Pos(sm.Node()), sm.Name, "route after accept", "the knock channel is polled only after session.Accept returned; without a knock the stream goes to the main listener", true)
	} else {
		c.R.Violate("R-MUXSER", p.Pos(sm.Node()), sm.Name, "route after accept", "the server muxer does not decide the target listener after accepting the stream (knocked id, else the main listener)", nil)
	}
	// the knocked stream is handed to the channel registered for that id
	okRoute := false
	routeDrops := ""
	ast.Inspect(sm.Body, func(x ast.Node) bool {
		ss, ok := x.(*ast.SendStmt)
		if !ok {
			return true
		}
		if cl, ok := ast.Unparen(p.Deref(sm, ss.Value)).(*ast.CompositeLit); ok {
			for _, el := range cl.Elts {
				if kv, ok := el.(*ast.KeyValueExpr); ok && identObj(sinfo, kv.Value) == connV {
					okRoute = true
					// the hand-off must wait for the listener: a send that can give up
					// (default or timer arm) drops a stream whose listener has not yet
					// reached Accept, and the dialer's first call fails
					if cc, inSel := p.Parent(ss).(*ast.CommClause); inSel && cc.Comm == ast.Stmt(ss) {
						if body, ok := p.Parent(cc).(*ast.BlockStmt); ok {
							for _, other := range body.List {
								oc := other.(*ast.CommClause)
								if oc == cc {
									continue
								}
								if oc.Comm == nil {
									routeDrops = "a default arm"
								} else if u := recvChanOf(oc.Comm); u != nil {
									if isT, _ := p.isTimerChan(sm, u); isT {
										routeDrops = "a timer arm"
									}
								}
							}
						}
					}
				}
			}
		}
		return true
	})
	if okRoute && routeDrops != "" {
		c.R.Violate("R-MUXSER", p.Pos(sm.Node()), sm.Name, "knocked stream waits for its listener", "the hand-off of the accepted stream to the knocked id's listener has "+routeDrops+": when the brokered server has not reached Accept yet the stream is dropped and the first call on the dialled connection fails", nil)
	} else if okRoute {
		c.R.Hold("R-MUXSER", p.Pos(sm.Node()), sm.Name, "knocked stream waits for its listener", "the hand-off is a send that cannot give up", true)
	}
	if okRoute {
		c.R.Hold("R-MUXSER", p.Pos(sm.Node()), sm.Name, "knocked stream handed to its listener", "", true)
	} else {
		c.R.Violate("R-MUXSER", p.Pos(sm.Node()), sm.Name, "knocked stream handed to its listener", "the accepted stream is not what is sent to the knocked id's listener", nil)
	}
}

// failsOnEveryPath: every feasible path from start ends in a return whose
// last (error) result is certainly non-nil: a fresh error value, or an error
// variable that is non-nil on that path (path domain).
func (p *Prog) failsOnEveryPath(f *Func, start *Node) bool {
	g := p.Graph(f)
	info := f.Pkg.TypesInfo
	isRet := func(x *Node) bool { _, ok := x.Ast.(*ast.ReturnStmt); return ok }
	if rs, ok := start.Ast.(*ast.ReturnStmt); ok {
		return len(rs.Results) > 0 && p.isNonNilExpr(f, rs.Results[len(rs.Results)-1])
	}
	states := p.FeasibleStates(f, []*Node{start}, NewStore(), nil, nil, nil, isRet)
	if _, r := states[g.Exit]; r {
		return false
	}
	n := 0
	for m, sts := range states {
		rs, ok := m.Ast.(*ast.ReturnStmt)
		if !ok {
			continue
		}
		n++
		if len(rs.Results) == 0 {
			return false
		}
		last := rs.Results[len(rs.Results)-1]
		if p.isNonNilExpr(f, last) {
			continue
		}
		v, isV := identObj(info, last).(*types.Var)
		if !isV || v.IsField() {
			return false
		}
		for _, st := range sts {
			if st.Get("P:"+varKey(v)) != "NN" {
				return false
			}
		}
	}
	return n > 0
}

// recvChanOf returns the channel operand of a receive comm statement.
func recvChanOf(comm ast.Stmt) ast.Expr {
	switch cm := comm.(type) {
	case *ast.ExprStmt:
		if u, ok := ast.Unparen(cm.X).(*ast.UnaryExpr); ok && u.Op == token.ARROW {
			return u.X
		}
	case *ast.AssignStmt:
		if len(cm.Rhs) == 1 {
			if u, ok := ast.Unparen(cm.Rhs[0]).(*ast.UnaryExpr); ok && u.Op == token.ARROW {
				return u.X
			}
		}
	}
	return nil
}
