package main

import (
	"encoding/json"
	"flag"
	"fmt"
	"os"
	"os/exec"
	"path/filepath"
	"runtime/debug"
	"sort"
	"strconv"
	"strings"
)

// Ctx is what a rule sees: the loaded program and the report to fill.
type Ctx struct {
	P *Prog
	R *Report
	// Thorough is set in the thorough tier.
	Thorough bool

	doneAtomicIDs bool
}

type propDef struct {
	ID          string
	Technique   string
	Ready       bool
	Rules       []func(*Ctx)
	Explanation string
	NotDecided  string
	Assume      []string
}

var props = map[string]*propDef{}

var dumpAll bool

func register(p *propDef) { props[p.ID] = p }

func main() {
	prop := flag.String("prop", "", "property id (C01..C20)")
	tier := flag.String("tier", "quick", "quick|thorough")
	repo := flag.String("repo", "/repo", "repository to analyse")
	verif := flag.String("verif", "/verif", "verif directory (evidence, replay, known findings)")
	replay := flag.String("replay", "", "replay file: re-run the rule of one recorded obligation")
	list := flag.Bool("list", false, "list properties and rules")
	all := flag.Bool("all", false, "run every property once on one load and list the non-holding obligations (no evidence written)")
	benign := flag.Bool("benign", false, "apply every behaviour-preserving edit under /verif/benign and require all checks to stay silent")
	manifest := flag.Bool("manifest", false, "write MANIFEST.json from the property registry")
	selftest := flag.Bool("selftest", false, "run fixtures for every rule")
	flag.BoolVar(&dumpAll, "dump", false, "print every obligation")
	genKF := flag.Bool("genknownfields", false, "print knownfields.go for the tree at -repo")
	mutants := flag.Bool("mutants", false, "run the overlay-mutant sweep for -prop (or all)")
	flag.Parse()

	if *genKF {
		p, err := loadWith(*repo, "", "", nil)
		if err != nil {
			fmt.Fprintln(os.Stderr, err)
			os.Exit(2)
		}
		fmt.Print(p.genKnownFields())
		return
	}
	if *list {
		var ids []string
		for id := range props {
			ids = append(ids, id)
		}
		sort.Strings(ids)
		for _, id := range ids {
			fmt.Printf("%s: %d rules\n", id, len(props[id].Rules))
		}
		return
	}
	if *all {
		os.Exit(runAll(*repo))
	}
	if *benign {
		os.Exit(runBenign(*repo, *verif))
	}
	if *manifest {
		os.Exit(writeManifest(*repo, *verif))
	}
	if *selftest {
		os.Exit(runSelftest(*repo, *verif))
	}
	if *replay != "" {
		b, err := os.ReadFile(*replay)
		if err != nil {
			fmt.Println(err)
			os.Exit(2)
		}
		var rp struct {
			Property   string      `json:"property"`
			Tier       string      `json:"tier"`
			Obligation *Obligation `json:"obligation"`
		}
		if err := json.Unmarshal(b, &rp); err != nil {
			fmt.Println(err)
			os.Exit(2)
		}
		*prop = rp.Property
		if rp.Tier != "" {
			*tier = rp.Tier
		}
		fmt.Printf("replaying %s: rule %s at %s (%s)\n", rp.Property, rp.Obligation.Rule, rp.Obligation.Site, rp.Obligation.Key)
	}
	if t := os.Getenv("VERIF_TIER"); t != "" && *tier == "" {
		*tier = t
	}
	seed := 0
	if s := os.Getenv("VERIF_SEED"); s != "" {
		seed, _ = strconv.Atoi(s)
	}
	pd := props[*prop]
	if pd == nil {
		fmt.Printf("unknown property %q\n", *prop)
		os.Exit(2)
	}
	if *mutants {
		os.Exit(runMutants(*repo, *verif, pd, true))
	}
	os.Exit(runProp(*repo, *verif, pd, *tier, seed))
}

func runProp(repo, verif string, pd *propDef, tier string, seed int) (code int) {
	r := NewReport(pd.ID, tier)
	defer func() {
		if e := recover(); e != nil {
			r.Undecided("checker", "", "panic", fmt.Sprintf("analyzer panic: %v\n%s", e, debug.Stack()))
			code = r.Finish(verif, levelOf(pd), seed)
		}
	}()
	configs := [][2]string{{"", ""}}
	if tier == "thorough" {
		configs = append(configs, [2]string{"windows", "amd64"}, [2]string{"linux", "386"})
	}
	for i, cf := range configs {
		p, err := Load(repo, cf[0], cf[1])
		if err != nil {
			r.Undecided("load", "", "load "+cf[0]+"/"+cf[1], err.Error())
			continue
		}
		c := &Ctx{P: p, R: r, Thorough: tier == "thorough"}
		if i > 0 {
			// extra build configurations: run the rules into a scratch report and
			// merge only non-holding verdicts, tagged with the configuration.
			sub := NewReport(pd.ID, tier)
			c.R = sub
			runRules(c, pd)
			nh := 0
			for _, o := range sub.Obs {
				if o.Verdict == "violated" || o.Verdict == "undecided" {
					o.Detail = "[" + cf[0] + "/" + cf[1] + "] " + o.Detail
					dup := false
					for _, q := range r.Obs {
						if q.Key == o.Key && q.Verdict == o.Verdict {
							dup = true
						}
					}
					if !dup {
						r.add(o)
					}
				} else {
					nh++
				}
			}
			r.Notes = append(r.Notes, fmt.Sprintf("configuration %s/%s: %d obligations re-decided, %d files", cf[0], cf[1], len(sub.Obs), countFiles(p)))
			continue
		}
		r.Notes = append(r.Notes, fmt.Sprintf("loaded %d packages, %d function bodies in scope, %d files", len(p.All), len(p.Funcs), countFiles(p)))
		r.Notes = append(r.Notes, p.InlineNotes...)
		runRules(c, pd)
	}
	if tier == "thorough" {
		mr := mutantSweep(repo, verif, pd)
		r.Mutants = mr
		// engine self-check: the AST call index covers every VTA edge between functions in scope
		if p, err := Load(repo, "", ""); err == nil {
			n, missing, verr := p.vtaCrossCheck()
			switch {
			case verr != nil:
				r.Notes = append(r.Notes, "call-graph cross-check (go/ssa + VTA over CHA) could not be built: "+verr.Error())
			case len(missing) == 0:
				r.Hold("R-CALLGRAPH", "-", "", "AST call index covers the VTA call graph", fmt.Sprintf("all %d VTA edges between functions in scope are edges of the call index the rules use", n), true)
			default:
				r.Notes = append(r.Notes, fmt.Sprintf("WARNING: %d VTA call edges are not in the AST call index (reachability-based rules may miss callees): %s", len(missing), strings.Join(missing, "; ")))
				fmt.Printf("WARNING: call-graph cross-check: %d VTA edges missing from the AST call index: %s\n", len(missing), strings.Join(missing, "; "))
			}
		}
	}
	r.Assume(pd.Assume...)
	return r.Finish(verif, levelOf(pd), seed)
}

func runRules(c *Ctx, pd *propDef) {
	for _, rule := range pd.Rules {
		rule(c)
	}
}

func countFiles(p *Prog) int {
	n := 0
	for _, sp := range scopePkgs {
		for _, f := range p.Pkgs[sp].Syntax {
			if inScopeFile(p.Fset.Position(f.Pos()).Filename) {
				n++
			}
		}
	}
	return n
}

func levelOf(pd *propDef) levelInfo {
	return levelInfo{
		Explanation: pd.Explanation + " NOT decided: " + pd.NotDecided,
		Rule: "an obligation is one (rule, function, construct) instance found in the type-checked source of /repo on this run; " +
			"it is non-trivial when deciding it needed a path, dominance, lock-region or origin query rather than a pure syntactic match; " +
			"distinct = distinct obligation keys",
		Trusted: []string{"go/types, go/cfg, go/packages of golang.org/x/tools v0.29.0", "Go memory model (mutex => happens-before)", "documented contracts of the libraries named under assumptions"},
	}
}

func verifDirOf(exe string) string {
	return filepath.Dir(filepath.Dir(exe))
}

func has(list []string, s string) bool {
	for _, x := range list {
		if x == s {
			return true
		}
	}
	return false
}

func joinNonEmpty(sep string, parts ...string) string {
	var out []string
	for _, p := range parts {
		if p != "" {
			out = append(out, p)
		}
	}
	return strings.Join(out, sep)
}

// writeManifest generates /verif/MANIFEST.json from the registry. A property
// whose rule list still contains an unimplemented rule is listed under
// not_applicable with that reason instead of being claimed.
func writeManifest(repo, verif string) int {
	p, err := Load(repo, "", "")
	if err != nil {
		fmt.Println(err)
		return 1
	}
	var ids []string
	for id := range props {
		if strings.HasPrefix(id, "C") {
			ids = append(ids, id)
		}
	}
	sort.Strings(ids)
	type check map[string]interface{}
	var checks []check
	var na []map[string]string
	var served []string
	for _, id := range ids {
		pd := props[id]
		pendingRules = map[string]bool{}
		func() {
			defer func() { recover() }()
			runRules(&Ctx{P: p, R: NewReport(id, "quick")}, pd)
		}()
		if len(pendingRules) > 0 {
			var pr []string
			for r := range pendingRules {
				pr = append(pr, r)
			}
			sort.Strings(pr)
			na = append(na, map[string]string{"property_id": id, "reason": "not claimed yet: the static rules " + strings.Join(pr, ", ") + " that DESIGN.md lists for this property are not implemented; no weaker proxy is substituted"})
			continue
		}
		served = append(served, id)
		checks = append(checks, check{
			"property_id":         id,
			"quick_cmd":           "./check.sh " + id + " quick",
			"thorough_cmd":        "./check.sh " + id + " thorough",
			"evidence_file":       "/verif/evidence/" + id + ".json",
			"replay_cmd_template": "bin/gpcheck -replay {path}",
			"engine":              "gpcheck",
			"technique":           "static analysis: " + pd.Technique,
			"level_claimed": map[string]string{
				"category":   "other",
				"text":       "Structural necessary conditions of the property decided on every path / every site of the current type-checked source (no execution). " + pd.Explanation,
				"design_ref": "DESIGN.md section 5 (" + id + ") and section 4 (rule catalogue)",
			},
			"level_note": "NOT decided (run-time values, timing, library contracts): " + pd.NotDecided + " Trusted base: go/types, go/cfg, go/packages (x/tools v0.29.0); Go memory model; " + strings.Join(pd.Assume, "; "),
		})
	}
	m := map[string]interface{}{
		"version":   1,
		"setup_cmd": "cd /verif/checker && GOFLAGS=-mod=mod GOPROXY=off go build -o ../bin/gpcheck . && cd /verif && bin/gpcheck -selftest",
		"hooks": map[string]interface{}{
			"guard":            "verif",
			"enable":           "none: static analysis needs no instrumentation; no hook commits exist in /repo",
			"baseline_off_cmd": "cd /repo && GOFLAGS=-mod=mod GOPROXY=off go test -mod=mod -json -vet=off -count=1 -timeout 25m ./...",
			"source_commits":   []string{},
			"add_only":         true,
		},
		"engines": []map[string]interface{}{{
			"name": "gpcheck", "path": "/verif/checker", "serves_properties": served,
			"kind_free_text": "repository-specific static analyser: go/packages loader, node-level CFG from go/cfg with short-circuit expansion, path-sensitive abstract interpreter, lock regions, AST call graph with CHA, rule tables with reviewed exceptions",
		}},
		"checks":         checks,
		"not_applicable": na,
		"notes":          "Technique family: static analysis only. Every check type-checks /repo's working tree on each run and decides rule instances (obligations); undecided obligations fail the check. Known findings: /verif/known_findings.txt.",
	}
	if na == nil {
		m["not_applicable"] = []map[string]string{}
	}
	b, _ := json.MarshalIndent(m, "", " ")
	if err := os.WriteFile(filepath.Join(verif, "MANIFEST.json"), append(b, '\n'), 0o644); err != nil {
		fmt.Println(err)
		return 1
	}
	fmt.Printf("MANIFEST.json: %d checks, %d not claimed\n", len(checks), len(na))
	return 0
}

// runAll decides every property on one load; used by the false-alarm tests.
func runAll(repo string) int {
	p, err := Load(repo, "", "")
	if err != nil {
		fmt.Println("LOAD-ERROR", err)
		return 3
	}
	for _, n := range p.InlineNotes {
		fmt.Println("INLINE", n)
	}
	if d := os.Getenv("GP_DUMP_OVERLAY"); d != "" {
		for fn, b := range p.Overlay {
			os.WriteFile(filepath.Join(d, filepath.Base(fn)), b, 0o644)
		}
	}
	var ids []string
	for id := range props {
		ids = append(ids, id)
	}
	sort.Strings(ids)
	bad := 0
	for _, id := range ids {
		r := NewReport(id, "quick")
		func() {
			defer func() {
				if e := recover(); e != nil {
					r.Undecided("checker", "", "panic", fmt.Sprint(e))
				}
			}()
			runRules(&Ctx{P: p, R: r}, props[id])
		}()
		for _, o := range r.Obs {
			if o.Verdict == "violated" || o.Verdict == "undecided" {
				bad++
				fmt.Printf("ALARM %s %s %s %s | %s | %s\n", id, o.Verdict, o.Rule, o.Func, o.Construct, firstLine(o.Detail))
			}
		}
	}
	if bad > 0 {
		return 1
	}
	return 0
}

func runBenign(repo, verif string) int {
	files, _ := filepath.Glob(filepath.Join(verif, "benign", "*.diff"))
	sort.Strings(files)
	self, _ := os.Executable()
	type res struct {
		name, out string
		code      int
	}
	results := make([]res, len(files))
	sem := make(chan struct{}, 8)
	done := make(chan int)
	for i, f := range files {
		go func(i int, f string) {
			sem <- struct{}{}
			defer func() { <-sem; done <- i }()
			name := strings.TrimSuffix(filepath.Base(f), ".diff")
			tmp, err := os.MkdirTemp("", "gpben-")
			if err != nil {
				results[i] = res{name, err.Error(), 3}
				return
			}
			defer os.RemoveAll(tmp)
			work := filepath.Join(tmp, "repo")
			if err := copyTree(repo, work); err != nil {
				results[i] = res{name, err.Error(), 3}
				return
			}
			ap := exec.Command("git", "apply", "--whitespace=nowarn", f)
			ap.Dir = work
			if out, err := ap.CombinedOutput(); err != nil {
				results[i] = res{name, "patch does not apply: " + firstLine(string(out)), 2}
				return
			}
			cmd := exec.Command(self, "-all", "-repo", work)
			cmd.Env = append(os.Environ(), "GOFLAGS=-mod=mod", "GOPROXY=off")
			out, err := cmd.CombinedOutput()
			code := 0
			if err != nil {
				code = 1
				if ee, ok := err.(*exec.ExitError); ok {
					code = ee.ExitCode()
				}
			}
			results[i] = res{name, string(out), code}
		}(i, f)
	}
	for range files {
		<-done
	}
	fails := 0
	for _, r := range results {
		switch r.code {
		case 0:
			fmt.Printf("benign %-36s silent\n", r.name)
		case 2:
			fmt.Printf("benign %-36s skipped (%s)\n", r.name, r.out)
		case 3:
			fmt.Printf("benign %-36s skipped (does not compile / load error)\n", r.name)
		default:
			fails++
			fmt.Printf("benign %-36s FALSE ALARM\n%s", r.name, r.out)
		}
	}
	fmt.Printf("benign: %d edits, %d false alarms\n", len(files), fails)
	if fails > 0 {
		return 1
	}
	return 0
}
