package main

import (
	"fmt"
	"go/ast"
	"go/token"
	"go/types"
	"sort"
	"strconv"
	"strings"
)

// Rules added after the fourth round of seeded changes (additions and
// deletions): each one is a structural necessary condition of a clause of a
// property; the clause is named in the obligation's construct.

// ---------- R-ADDR: a successful Start has resolved an address ----------

// ruleAddrResolved: no feasible path reaches a return of Client.Start whose
// error result may be nil while the address result still holds its zero value
// (no assignment to it on the path), and no such return names a nil address.
func ruleAddrResolved(c *Ctx) {
	p := c.P
	f := p.Fn("Client.Start")
	if f == nil {
		c.R.Undecided("R-ADDR", "Client.Start", "anchor", "function not found")
		return
	}
	info := f.Pkg.TypesInfo
	g := p.Graph(f)
	res := f.Type.Results
	if res == nil || len(res.List) == 0 {
		c.R.Undecided("R-ADDR", f.Name, "anchor", "no results")
		return
	}
	var addrV, errV *types.Var
	for _, fd := range res.List {
		for _, nm := range fd.Names {
			if v, ok := info.Defs[nm].(*types.Var); ok {
				if isErrorType(v.Type()) {
					errV = v
				} else {
					addrV = v
				}
			}
		}
	}
	if addrV == nil || errV == nil {
		// unnamed results: the returned address expression is inspected at each return
		c.R.Hold("R-ADDR", p.Pos(f.Node()), f.Name, "successful Start returns a resolved address", "results are unnamed; explicit returns are checked by R-ERR/L2", false)
		return
	}
	definesAddr := func(m *Node) bool {
		if m.Ast == nil {
			return false
		}
		defs, _ := nodeDefsUses(info, m.Ast)
		rhs, ok := defs[addrV]
		if !ok {
			return false
		}
		if isVarDeclNode(m.Ast) && rhs == nil {
			return false
		}
		if rhs != nil && isNilIdent(info, rhs) {
			return false
		}
		return true
	}
	isReturn := func(m *Node) bool {
		_, ok := m.Ast.(*ast.ReturnStmt)
		return ok
	}
	// the launched-once fast path returns the recorded address: c.address
	states := p.FeasibleStates(f, []*Node{g.Entry}, NewStore().With("P:"+varKey(errV), "N"), definesAddr, nil, nil, isReturn)
	nRet := 0
	bad := 0
	var rets []*Node
	for m := range states {
		if isReturn(m) {
			rets = append(rets, m)
		}
	}
	sort.Slice(rets, func(i, j int) bool { return rets[i].ID < rets[j].ID })
	for _, m := range rets {
		rs := m.Ast.(*ast.ReturnStmt)
		for _, s := range states[m] {
			var errState string
			var addrExpr ast.Expr
			switch len(rs.Results) {
			case 0:
				errState = s.Get("P:" + varKey(errV))
			case 2:
				addrExpr = rs.Results[0]
				e := rs.Results[1]
				switch {
				case isNilIdent(info, e):
					errState = "N"
				case p.isNonNilExpr(f, e):
					errState = "NN"
				default:
					if v, ok := identObj(info, e).(*types.Var); ok {
						errState = s.Get("P:" + varKey(v))
					}
				}
			default:
				continue
			}
			if errState == "NN" {
				continue
			}
			// the error may be nil here: the address must not be the zero value
			zero := addrExpr == nil || isNilIdent(info, addrExpr)
			if addrExpr != nil {
				if v, ok := identObj(info, addrExpr).(*types.Var); ok && v == addrV {
					zero = true
				}
			}
			nRet++
			if zero && errState == "N" {
				bad++
				c.R.Violate("R-ADDR", p.Pos(rs), f.Name, "successful Start returns a resolved address",
					"a path reaches this return with a nil error although no address was resolved on it (the address result still has its zero value): Start reports success with a nil address, and the caller's first dial dereferences it", nil)
				break
			}
		}
	}
	// the address the launching call returns is the address it records: later
	// calls return the recorded one (Client.address), so the two must be one
	// value - the store's right-hand side is the address result itself, not
	// re-bound before the return, or the returns that follow name the field
	addrF := p.FieldObj(modPath, "Client", "address")
	for _, m := range g.Nodes {
		as, ok := m.Ast.(*ast.AssignStmt)
		if !ok || len(as.Lhs) != len(as.Rhs) {
			continue
		}
		for i, l := range as.Lhs {
			if SelField(info, l) != addrF || addrF == nil {
				continue
			}
			construct := "the address returned is the address recorded"
			after := g.ReachAfter(m, nil, nil)
			same := identObj(info, ast.Unparen(as.Rhs[i])) == types.Object(addrV)
			okSame := true
			why := ""
			for x := range after {
				if x.Ast == nil {
					continue
				}
				if same && definesAddr(x) {
					okSame, why = false, "the address result is assigned again at "+p.Pos(x.Ast)+" after it was recorded"
				}
				if rs, isR := x.Ast.(*ast.ReturnStmt); isR && !same {
					if len(rs.Results) == 2 && SelField(info, ast.Unparen(rs.Results[0])) == addrF {
						continue
					}
					if len(rs.Results) == 2 && !isNilIdent(info, rs.Results[1]) && p.isNonNilExpr(f, rs.Results[1]) {
						continue
					}
					okSame, why = false, "Client.address is set to "+exprStr(as.Rhs[i])+" while the return at "+p.Pos(rs)+" hands back the address result"
				}
			}
			if okSame {
				c.R.Hold("R-ADDR", p.Pos(as), f.Name, construct, "the recorded value is the address result (not re-bound afterwards), or the returns after the store name Client.address", true)
			} else {
				c.R.Violate("R-ADDR", p.Pos(as), f.Name, construct, why+": the call that launches the plugin returns one address and every later Start call another", nil)
			}
		}
	}
	if bad == 0 {
		c.R.Hold("R-ADDR", p.Pos(f.Node()), f.Name, "successful Start returns a resolved address", fmt.Sprintf("no return is reached with a certainly-nil error on a path without an assignment to the address result (%d address-free return states examined)", nRet), true)
	}
}

// ---------- R-ROUTE/all: every healthy iteration of a broker's Run offers the message to its slot ----------

func isPendingChSend(p *Prog, info *types.Info, s ast.Stmt) bool {
	ss, ok := s.(*ast.SendStmt)
	if !ok {
		return false
	}
	return isPendingField(p, info, ss.Chan, "ch")
}

// isPendingField: e selects the field with canonical name want ("ch",
// "doneCh") of one of the brokers' pending-slot structs. Canonical names
// survive a rename of the field (known-field table).
func isPendingField(p *Prog, info *types.Info, e ast.Expr, want string) bool {
	fv := SelField(info, e)
	if fv == nil {
		return false
	}
	n := p.FieldName(fv)
	return strings.HasSuffix(n, "Pending."+want)
}

func ruleRunDispatch(c *Ctx) {
	p := c.P
	ci := p.Calls()
	for _, spec := range []struct{ fn, recv string }{
		{"MuxBroker.Run", "github.com/hashicorp/yamux.Session.AcceptStream"},
		{"GRPCBroker.Run", modPath + ".streamer.Recv"},
	} {
		f := p.Fn(spec.fn)
		if f == nil {
			c.R.Undecided("R-ROUTE/all", spec.fn, "anchor", "function not found")
			continue
		}
		info := f.Pkg.TypesInfo
		g := p.Graph(f)
		var recvNode *Node
		for _, cs := range ci.sites[f] {
			if cs.Full == spec.recv {
				recvNode = cs.Node
			}
		}
		if recvNode == nil {
			c.R.Undecided("R-ROUTE/all", f.Name, "anchor", "receive call not found")
			continue
		}
		// hand-off: a send on a pending slot's channel, alone or as a select arm
		// (with a default arm the attempt itself is the hand-off)
		handSel := map[*ast.SelectStmt]bool{}
		hand := map[*Node]bool{}
		walkNoLit(f.Body, func(n ast.Node) bool {
			switch x := n.(type) {
			case *ast.SelectStmt:
				for _, cl := range x.Body.List {
					if cc := cl.(*ast.CommClause); cc.Comm != nil && isPendingChSend(p, info, cc.Comm) {
						handSel[x] = true
					}
				}
			case *ast.SendStmt:
				if isPendingChSend(p, info, x) {
					if m := g.NodeOf(x); m != nil {
						hand[m] = true
					}
				}
			}
			return true
		})
		for _, m := range g.Nodes {
			for _, e := range m.Succs {
				// go/cfg hangs the default arm's statements on the last "after case"
				// block, so the select is identified by the nodes its arms leave from
				if e.Select != nil && handSel[e.Select] {
					hand[e.From] = true
					hand[e.To] = true
				}
			}
		}
		if len(hand) == 0 {
			c.R.Undecided("R-ROUTE/all", f.Name, "hand-off", "no send on a pending slot's channel found in the dispatch loop")
			continue
		}
		// error variables whose every definition in f is a call outside the module (I/O)
		ioErr := map[*types.Var]bool{}
		notIO := map[*types.Var]bool{}
		for _, m := range g.Nodes {
			if m.Ast == nil {
				continue
			}
			defs, _ := nodeDefsUses(info, m.Ast)
			for v, rhs := range defs {
				if !isErrorType(v.Type()) {
					continue
				}
				ext := false
				var call *ast.CallExpr
				if rhs != nil {
					call, _ = ast.Unparen(rhs).(*ast.CallExpr)
				} else if as, ok := m.Ast.(*ast.AssignStmt); ok && len(as.Rhs) == 1 {
					call, _ = ast.Unparen(as.Rhs[0]).(*ast.CallExpr)
				}
				if call != nil {
					if n := p.CalleeName(f, call); n != "" && !strings.HasPrefix(n, modPath+".") || n == modPath+".streamer.Recv" {
						ext = true
					}
				}
				if ext {
					ioErr[v] = true
				} else {
					notIO[v] = true
				}
			}
		}
		cut := func(e *Edge) bool {
			at, isAt := edgeAtom(info, e)
			if !isAt || at.Kind != "nil" || at.Op != token.NEQ {
				return false
			}
			v, ok := identObj(info, at.X).(*types.Var)
			return ok && ioErr[v] && !notIO[v]
		}
		seen := g.ReachAfter(recvNode, func(x *Node) bool { return hand[x] }, cut)
		if _, again := seen[recvNode]; again {
			c.R.Violate("R-ROUTE/all", p.Pos(recvNode.Ast), f.Name, "every received message is offered to its id's slot",
				"a path returns to the receive without offering the inbound message/stream to the pending slot of its id and without an I/O error having occurred: messages for some ids (or in some states) are dropped, so the matching Accept/Dial on that id times out", p.PathTo(seen, recvNode))
		} else {
			c.R.Hold("R-ROUTE/all", p.Pos(recvNode.Ast), f.Name, "every received message is offered to its id's slot", "every path from a successful receive back to the receive passes the slot hand-off (or an I/O error edge)", true)
		}
	}
}

// ---------- R-PEND/done: the consumer of a parked connection cancels its expiry ----------

func rulePendDone(c *Ctx) {
	p := c.P
	for _, fn := range []string{"MuxBroker.Accept", "GRPCBroker.DialWithOptions"} {
		f := p.Fn(fn)
		if f == nil {
			c.R.Undecided("R-PEND/done", fn, "anchor", "function not found")
			continue
		}
		info := f.Pkg.TypesInfo
		g := p.Graph(f)
		n := 0
		for _, m := range g.Nodes {
			// the receive from the slot: first node of its comm clause, or a plain receive
			var rx ast.Expr
			switch s := m.Ast.(type) {
			case *ast.AssignStmt:
				if len(s.Rhs) == 1 {
					if u, ok := ast.Unparen(s.Rhs[0]).(*ast.UnaryExpr); ok && u.Op == token.ARROW {
						rx = u.X
					}
				}
			case *ast.ExprStmt:
				if u, ok := ast.Unparen(s.X).(*ast.UnaryExpr); ok && u.Op == token.ARROW {
					rx = u.X
				}
			}
			if rx == nil {
				continue
			}
			if !isPendingField(p, info, rx, "ch") {
				continue
			}
			n++
			isClose := func(x *Node) bool {
				if x.Ast == nil {
					return false
				}
				for _, call := range callsIn(x.Ast) {
					if p.CalleeName(f, call) == "builtin.close" && len(call.Args) == 1 {
						if isPendingField(p, info, call.Args[0], "doneCh") {
							return true
						}
					}
					// once.Do(func() { close(p.doneCh) }): closed here unless it was already
					if p.CalleeName(f, call) == "sync.Once.Do" && len(call.Args) == 1 {
						if fl, ok := ast.Unparen(call.Args[0]).(*ast.FuncLit); ok {
							closes := false
							ast.Inspect(fl.Body, func(y ast.Node) bool {
								if c2, ok := y.(*ast.CallExpr); ok && len(c2.Args) == 1 {
									if id, ok := c2.Fun.(*ast.Ident); ok && id.Name == "close" && isPendingField(p, info, c2.Args[0], "doneCh") {
										closes = true
									}
								}
								return true
							})
							if closes {
								return true
							}
						}
					}
				}
				return false
			}
			seen := g.ReachAfter(m, isClose, nil)
			_, out := seen[g.Exit]
			if out {
				c.R.Violate("R-PEND/done", p.Pos(m.Ast), f.Name, "expiry cancelled once the parked connection was taken",
					"after taking the connection from the slot the function can return without closing the slot's doneCh: the slot's expiry goroutine keeps the (now stale) entry in the map until the window ends and then closes whatever connection is parked there, so a re-use of the id inside the window loses its connection", p.PathTo(seen, g.Exit))
			} else {
				c.R.Hold("R-PEND/done", p.Pos(m.Ast), f.Name, "expiry cancelled once the parked connection was taken", "doneCh is closed on every path from the slot receive to a return", true)
			}
		}
		if n == 0 {
			c.R.Undecided("R-PEND/done", f.Name, "slot receive", "no receive from a pending slot's channel found")
		}
	}
}

// ---------- R-CFG/writers: who may write the configuration fields a property depends on ----------

// cfgWriters lists, per configuration field, the functions that may assign it
// (reviewed on the reference tree) and why.
var cfgWriters = map[string]map[string]string{
	"ServeConfig.VersionedPlugins":     {"protocolVersion": "folds the legacy Plugins/ProtocolVersion pair into the version map before negotiating"},
	"ServeConfig.Plugins":              {},
	"ServeConfig.GRPCServer":           {},
	"ServeConfig.TLSProvider":          {},
	"ClientConfig.VersionedPlugins":    {"Client.Start": "folds the legacy Plugins/ProtocolVersion pair into the version map before launching", "NewClient": "the same fold, applied with the other configuration defaults (R-NEG checks its condition wherever it is)"},
	"ClientConfig.Plugins":             {"Client.Start": "records the plugin set of the negotiated version after the handshake"},
	"ClientConfig.TLSConfig":           {"Client.Start": "AutoMTLS: installs the generated client certificate configuration"},
	"ClientConfig.AutoMTLS":            {},
	"ClientConfig.GRPCBrokerMultiplex": {},
	"ClientConfig.SkipHostEnv":         {},
	"ClientConfig.Cmd":                 {},
	"ClientConfig.Reattach":            {},
	"ClientConfig.RunnerFunc":          {},
	"ClientConfig.SecureConfig":        {},
	"ClientConfig.Managed":             {},
	"ClientConfig.HandshakeConfig":     {},
	"ClientConfig.UnixSocketConfig":    {"NewClient": "a nil field may be replaced by an empty configuration with the other defaults (R-DEFAULTS checks that only an unset field is defaulted; R-COPY/sockcfg that the client does not keep the caller's pointer)"},
	"ClientConfig.AllowedProtocols":    {"NewClient": "nil list defaults to {netrpc} (R-SIB/switch checks the value)"},
	"HandshakeConfig.ProtocolVersion":  {},
	"HandshakeConfig.MagicCookieKey":   {},
	"HandshakeConfig.MagicCookieValue": {},
	"SecureConfig.Checksum":            {},
	"SecureConfig.Hash":                {},
	"ReattachConfig.Test":              {},
	"ReattachConfig.Protocol":          {},
	"ReattachConfig.Addr":              {},
}

func cfgWritersFor(fields ...string) func(*Ctx) {
	return func(c *Ctx) { ruleCfgWriters(c, fields) }
}

func ruleCfgWriters(c *Ctx, fields []string) {
	p := c.P
	want := map[string]bool{}
	for _, f := range fields {
		if _, ok := cfgWriters[f]; !ok {
			c.R.Undecided("R-CFG/writers", "", f, "field not in the writers table")
		}
		want[f] = true
	}
	found := map[string]int{}
	for _, f := range p.Funcs {
		if strings.HasSuffix(p.Fset.Position(f.Body.Pos()).Filename, "testing.go") {
			continue
		}
		info := f.Pkg.TypesInfo
		fresh := freshLocals(p, f)
		for _, a := range p.fieldAccesses(f, func(v *types.Var) bool { return v.IsField() && want[p.FieldName(v)] }) {
			fn := p.FieldName(a.fv)
			if !a.write {
				// a nested write (c.config.SecureConfig.Checksum = x) reads the outer field
				continue
			}
			if rv := rootVar(info, a.sel); rv != nil && fresh[rv] {
				continue // object under construction in this function
			}
			root := f
			for root.Parent != nil {
				root = root.Parent
			}
			found[fn]++
			if reason, ok := cfgWriters[fn][root.Name]; ok {
				c.R.Except("R-CFG/writers", p.Pos(a.sel), f.Name, "write "+fn, reason)
				continue
			}
			c.R.Violate("R-CFG/writers", p.Pos(a.sel), f.Name, "write "+fn,
				"the library assigns the caller's configuration field "+fn+" here; only the reviewed sites may do so ("+writersList(fn)+"): the behaviour the property ties to the caller's configuration is then determined by this assignment instead", nil)
		}
	}
	for _, fn := range fields {
		construct := "writers of " + fn
		if found[fn] == 0 {
			c.R.Hold("R-CFG/writers", "-", "", construct, "no assignment to the field outside construction of a fresh value", true)
		}
	}
}

func writersList(fn string) string {
	var l []string
	for k := range cfgWriters[fn] {
		l = append(l, k)
	}
	sort.Strings(l)
	if len(l) == 0 {
		return "none"
	}
	return strings.Join(l, ", ")
}

// ---------- R-NILGUARD/proc: exec.Cmd.Process is nil until the command was started ----------

// ruleProcNil: every dereference of an exec.Cmd's Process field is dominated by
// a non-nil test of the same access path or by a call of that command's Start
// (runner methods such as Kill are reachable after a failed launch).
func ruleProcNil(c *Ctx) {
	p := c.P
	n := 0
	for _, f := range p.Funcs {
		if strings.HasSuffix(p.Fset.Position(f.Body.Pos()).Filename, "testing.go") {
			continue
		}
		info := f.Pkg.TypesInfo
		type site struct {
			expr ast.Expr
			at   ast.Node
		}
		var sites []site
		walkNoLit(f.Body, func(x ast.Node) bool {
			se, ok := x.(*ast.SelectorExpr)
			if !ok {
				return true
			}
			inner := ast.Unparen(se.X)
			if fv := SelField(info, inner); fv != nil && fv.Name() == "Process" && fv.Pkg() != nil && fv.Pkg().Path() == "os/exec" {
				sites = append(sites, site{inner, se})
			}
			return true
		})
		if len(sites) == 0 {
			continue
		}
		g := p.Graph(f)
		res := Interp(g, &factsDomain{p, f, func(ap string) bool {
			for _, st := range sites {
				if ap == accessPath(info, st.expr) {
					return true
				}
			}
			return false
		}}, NewStore())
		for i, st := range sites {
			n++
			construct := fmt.Sprintf("deref exec.Cmd.Process #%d", i+1)
			node := g.NodeOf(st.at)
			ap := accessPath(info, st.expr)
			if node == nil || ap == "" || res.Capped {
				c.R.Undecided("R-NILGUARD/proc", f.Name, construct, "site is not inside a CFG node, has no access path, or the state cap was hit")
				continue
			}
			okAll := true
			for _, s := range res.In[node] {
				if !s.Has("nn:" + ap) {
					okAll = false
				}
			}
			if okAll {
				c.R.Hold("R-NILGUARD/proc", p.Pos(st.at), f.Name, construct, "a non-nil test of the same access path dominates the dereference", true)
				continue
			}
			// dominated by this command's Start()
			cmdAP := accessPath(info, ast.Unparen(st.expr).(*ast.SelectorExpr).X)
			isStart := func(m *Node) bool {
				if m.Ast == nil {
					return false
				}
				for _, call := range callsIn(m.Ast) {
					if p.CalleeName(f, call) == "os/exec.Cmd.Start" || p.CalleeName(f, call) == "os/exec.Cmd.Run" {
						if se, ok := ast.Unparen(call.Fun).(*ast.SelectorExpr); ok && accessPath(info, se.X) == cmdAP {
							return true
						}
					}
				}
				return false
			}
			seen := g.Reach([]*Node{g.Entry}, isStart, nil)
			if _, r := seen[node]; !r {
				c.R.Hold("R-NILGUARD/proc", p.Pos(st.at), f.Name, construct, "every path to the dereference passes this command's Start()", true)
				continue
			}
			c.R.Violate("R-NILGUARD/proc", p.Pos(st.at), f.Name, construct,
				"exec.Cmd.Process is nil until the command was started successfully, and this dereference is neither guarded by a non-nil test nor preceded by the command's Start(): after a failed launch (binary missing or not executable) the call panics with a nil pointer dereference", nil)
		}
	}
	if n < 2 {
		c.R.Undecided("R-NILGUARD/proc", "", "instance-floor", fmt.Sprintf("only %d dereferences of exec.Cmd.Process found, 3 expected", n))
	}
}

// ---------- R-GLOBAL/killed: the library does not branch on the Killed flag ----------

// ruleKilledFlag: the exported Killed flag is a signal for the application. It
// is set by CleanupClients before the managed clients are killed, so any read
// of it on the Kill path (Client(), Start, the protocol clients) changes how
// those kills proceed. The only access is the atomic store in CleanupClients.
func ruleKilledFlag(c *Ctx) {
	p := c.P
	pk := p.Pkgs[modPath]
	obj, _ := pk.Types.Scope().Lookup("Killed").(*types.Var)
	if obj == nil {
		c.R.Undecided("R-GLOBAL/killed", "", "anchor", "package variable Killed not found")
		return
	}
	stores := 0
	for _, f := range p.Funcs {
		if strings.HasSuffix(p.Fset.Position(f.Body.Pos()).Filename, "testing.go") {
			continue
		}
		info := f.Pkg.TypesInfo
		walkNoLit(f.Body, func(x ast.Node) bool {
			id, ok := x.(*ast.Ident)
			if !ok || info.Uses[id] != obj {
				return true
			}
			// &Killed as the first argument of an atomic store
			isStore := false
			if u, ok := p.Parent(id).(*ast.UnaryExpr); ok && u.Op == token.AND {
				if call, ok := p.Parent(u).(*ast.CallExpr); ok && len(call.Args) > 0 && call.Args[0] == ast.Expr(u) {
					switch p.CalleeName(f, call) {
					case "sync/atomic.StoreUint32", "sync/atomic.SwapUint32", "sync/atomic.CompareAndSwapUint32":
						isStore = true
					}
				}
			}
			root := f
			for root.Parent != nil {
				root = root.Parent
			}
			if isStore && root.Name == "CleanupClients" {
				stores++
				c.R.Hold("R-GLOBAL/killed", p.Pos(id), f.Name, "store Killed", "set by CleanupClients", true)
				return true
			}
			c.R.Violate("R-GLOBAL/killed", p.Pos(id), f.Name, "access Killed",
				"the library reads (or stores outside CleanupClients) the Killed flag: CleanupClients sets it before it kills the managed clients, so behaviour that depends on it changes how those clients are shut down (for instance the graceful request is skipped and every plugin is force-killed)", nil)
			return true
		})
	}
	if stores == 0 {
		c.R.Undecided("R-GLOBAL/killed", "CleanupClients", "store Killed", "the atomic store in CleanupClients was not found")
	}
}

// ---------- R-EXPIRY/drain: an expired slot closes the connection parked in it ----------

func commRecvExpr(cc *ast.CommClause) ast.Expr {
	if cc == nil || cc.Comm == nil {
		return nil
	}
	var e ast.Expr
	switch s := cc.Comm.(type) {
	case *ast.ExprStmt:
		e = s.X
	case *ast.AssignStmt:
		if len(s.Rhs) == 1 {
			e = s.Rhs[0]
		}
	}
	if u, ok := ast.Unparen(e).(*ast.UnaryExpr); ok && u.Op == token.ARROW {
		return ast.Unparen(u.X)
	}
	return nil
}

func ruleExpiryDrain(c *Ctx) {
	p := c.P
	f := p.Fn("MuxBroker.timeoutWait")
	if f == nil {
		c.R.Undecided("R-EXPIRY/drain", "MuxBroker.timeoutWait", "anchor", "function not found")
		return
	}
	info := f.Pkg.TypesInfo
	g := p.Graph(f)
	// the timer arm's first node
	var timerHeads []*Node
	for _, m := range g.Nodes {
		for _, e := range m.Succs {
			if rx := commRecvExpr(e.Comm); rx != nil {
				if isT, _ := p.isTimerChan(f, rx); isT {
					timerHeads = append(timerHeads, e.To)
				}
			}
		}
	}
	if len(timerHeads) == 0 {
		c.R.Undecided("R-EXPIRY/drain", f.Name, "timer arm", "no select arm on a timer found")
		return
	}
	// the drain: a receive from the slot's channel whose value is closed
	drain := map[*Node]bool{}
	walkNoLit(f.Body, func(x ast.Node) bool {
		cc, ok := x.(*ast.CommClause)
		if !ok {
			return true
		}
		rx := commRecvExpr(cc)
		if rx == nil || !isPendingField(p, info, rx, "ch") {
			return true
		}
		as, ok := cc.Comm.(*ast.AssignStmt)
		if !ok || len(as.Lhs) == 0 {
			return true
		}
		v := identObj(info, as.Lhs[0])
		closes := false
		for _, st := range cc.Body {
			for _, call := range callsIn(st) {
				if se, ok := ast.Unparen(call.Fun).(*ast.SelectorExpr); ok && se.Sel.Name == "Close" && identObj(info, se.X) == v && v != nil {
					closes = true
				}
			}
		}
		if closes {
			if m := g.NodeOf(cc.Comm); m != nil {
				drain[m] = true
			}
			// the select is what must be reached: the slot may be empty
			if sel, ok := p.Parent(p.Parent(cc)).(*ast.SelectStmt); ok {
				for _, m := range g.Nodes {
					for _, e := range m.Succs {
						if e.Select == sel {
							drain[e.From] = true
						}
					}
				}
			}
		}
		return true
	})
	if len(drain) == 0 {
		c.R.Violate("R-EXPIRY/drain", p.Pos(f.Node()), f.Name, "expired slot closes its parked connection", "no receive-and-Close of the slot's parked connection found: a connection dialled for an id nobody accepts stays open, and its dialer waits for the ack forever", nil)
		return
	}
	// states in which the timer arm is entered (flags set before the select keep their values)
	isHead := map[*Node]bool{}
	for _, h := range timerHeads {
		isHead[h] = true
	}
	atHead := p.FeasibleStates(f, []*Node{g.Entry}, NewStore(), nil, nil, nil, func(m *Node) bool { return isHead[m] })
	escapes := false
	for _, h := range timerHeads {
		for _, st := range atHead[h] {
			seen := p.FeasibleStates(f, []*Node{h}, st, func(m *Node) bool { return drain[m] }, nil, nil, nil)
			if _, out := seen[g.Exit]; out {
				escapes = true
			}
		}
	}
	if escapes {
		c.R.Violate("R-EXPIRY/drain", p.Pos(timerHeads[0].Ast), f.Name, "expired slot closes its parked connection",
			"from the timer arm the function can return without reaching the receive-and-Close of the parked connection (the condition guarding it cannot hold on this path): a connection dialled for an id nobody accepts is never closed, so its dialer blocks forever instead of failing after the pending window", nil)
	} else {
		c.R.Hold("R-EXPIRY/drain", p.Pos(timerHeads[0].Ast), f.Name, "expired slot closes its parked connection", "every feasible path from the timer arm to the return passes the non-blocking receive that closes the parked connection", true)
	}
}

// ---------- R-IDX/out: constant indexes into plugin output are in bounds ----------

// readerReach: functions reachable from the goroutines Client.Start starts to
// read the plugin's stdout/stderr (the code that sees plugin-controlled bytes).
func (p *Prog) readerReach() (map[*Func]bool, int) {
	start := p.Fn("Client.Start")
	if start == nil {
		return nil, 0
	}
	ci := p.Calls()
	var roots []*Func
	for _, cs := range ci.sites[start] {
		if cs.Kind == "go" {
			roots = append(roots, cs.Callees...)
		}
	}
	for _, f := range p.Funcs {
		if f.Lit != nil && f.Parent == start {
			for _, cs := range ci.sites[f] {
				if cs.Kind == "go" {
					roots = append(roots, cs.Callees...)
				}
			}
		}
	}
	out := map[*Func]bool{}
	for f := range p.ReachableFuncs(roots, true) {
		out[f] = true
	}
	return out, len(roots)
}

func ruleIdxOutput(c *Ctx) {
	p := c.P
	reach, nroots := p.readerReach()
	if nroots < 3 {
		c.R.Undecided("R-IDX/out", "Client.Start", "anchor", fmt.Sprintf("reader goroutines not found (roots=%d)", nroots))
		return
	}
	var fs []*Func
	for f := range reach {
		fs = append(fs, f)
	}
	sort.Slice(fs, func(i, j int) bool { return fs[i].Name < fs[j].Name })
	n := 0
	for _, f := range fs {
		if strings.HasSuffix(p.Fset.Position(f.Body.Pos()).Filename, "testing.go") {
			continue
		}
		info := f.Pkg.TypesInfo
		type site struct {
			at   ast.Node
			base ast.Expr
			k    int64 // length needed
		}
		var sites []site
		walkNoLit(f.Body, func(x ast.Node) bool {
			switch e := x.(type) {
			case *ast.IndexExpr:
				t := info.TypeOf(e.X)
				if t == nil {
					return true
				}
				switch u := t.Underlying().(type) {
				case *types.Slice:
				case *types.Basic:
					if u.Info()&types.IsString == 0 {
						return true
					}
				default:
					return true // maps, arrays (bounds known to the compiler), type parameters
				}
				if k, ok := constInt(info, e.Index); ok {
					sites = append(sites, site{e, e.X, k + 1})
				}
			case *ast.SliceExpr:
				t := info.TypeOf(e.X)
				if t == nil {
					return true
				}
				switch u := t.Underlying().(type) {
				case *types.Slice:
				case *types.Basic:
					if u.Info()&types.IsString == 0 {
						return true
					}
				default:
					return true
				}
				var need int64
				for _, b := range []ast.Expr{e.Low, e.High} {
					if b == nil {
						continue
					}
					if k, ok := constInt(info, b); ok && k > need {
						need = k
					}
				}
				if need > 0 {
					// for a slice, x[:k] is limited by cap, not len; only strings are decided
					if _, isStr := t.Underlying().(*types.Basic); isStr {
						sites = append(sites, site{e, e.X, need})
					}
				}
			}
			return true
		})
		if len(sites) == 0 {
			continue
		}
		g := p.Graph(f)
		res := Interp(g, &factsDomain{p, f, nil}, NewStore())
		ord := 0
		for _, st := range sites {
			n++
			ord++
			construct := fmt.Sprintf("%s #%d", exprStr(st.at), ord)
			base := ast.Unparen(st.base)
			// a call result cannot have been measured: only calls with a known minimum length pass
			if call, ok := base.(*ast.CallExpr); ok {
				min := int64(0)
				switch p.CalleeName(f, call) {
				case "strings.Split", "strings.SplitN", "bytes.Split":
					if sep, isK := constString(info, call.Args[1]); isK && sep != "" {
						min = 1
					}
				}
				if min >= st.k {
					c.R.Hold("R-IDX/out", p.Pos(st.at), f.Name, construct, "the call returns at least that many elements", true)
				} else {
					c.R.Violate("R-IDX/out", p.Pos(st.at), f.Name, construct,
						fmt.Sprintf("constant index into the result of %s, whose length was never tested (a test of the argument's length says nothing about the result's): on plugin output for which the result is shorter than %d the host panics", exprStr(call.Fun), st.k), nil)
				}
				continue
			}
			ap := accessPath(info, base)
			node := g.NodeOf(st.at)
			if ap == "" || node == nil || res.Capped {
				c.R.Undecided("R-IDX/out", f.Name, construct, "indexed expression has no access path / site outside the CFG / state cap")
				continue
			}
			worst := int64(1 << 40)
			var ws Store
			for _, s := range res.In[node] {
				lb, _ := strconv.ParseInt(s.Get("len:"+ap), 10, 64)
				if lb < worst {
					worst, ws = lb, s
				}
			}
			if len(res.In[node]) == 0 || worst >= st.k {
				c.R.Hold("R-IDX/out", p.Pos(st.at), f.Name, construct, fmt.Sprintf("len >= %d on every path reaching the index", st.k), true)
			} else {
				c.R.Violate("R-IDX/out", p.Pos(st.at), f.Name, construct,
					fmt.Sprintf("on some path only len(%s) >= %d is established, so the constant index/slice bound can be out of range: plugin output of that shape panics the host", exprStr(base), worst), res.PathOf(p, node, ws))
			}
		}
	}
	c.R.Hold("R-IDX/out", "-", "", "reachability", fmt.Sprintf("%d functions reachable from %d reader goroutines, %d constant index/slice sites examined", len(reach), nroots, n), true)
}

// ---------- R-TABLE/kv: every key/value field of a JSON record is carried over ----------

// ruleKVForward: in the loops that carry the key/value remainder of an hclog
// JSON record (parseJSON's loop over the decoded map, flattenKVPairs' loop over
// the pairs) every iteration reaches every append of the loop body: no element
// is skipped.
func ruleKVForward(c *Ctx) {
	p := c.P
	total := 0
	for _, fn := range []string{"parseJSON", "flattenKVPairs"} {
		f := p.Fn(fn)
		if f == nil {
			c.R.Undecided("R-TABLE/kv", fn, "anchor", "function not found")
			continue
		}
		g := p.Graph(f)
		n := 0
		walkNoLit(f.Body, func(x ast.Node) bool {
			rs, ok := x.(*ast.RangeStmt)
			if !ok || len(rs.Body.List) == 0 {
				return true
			}
			inBody := func(m *Node) bool {
				return m.Ast != nil && m.Ast.Pos() >= rs.Body.Pos() && m.Ast.End() <= rs.Body.End()
			}
			var appends []*Node
			seenN := map[*Node]bool{}
			for _, call := range callsIn(rs.Body) {
				if p.CalleeName(f, call) == "builtin.append" {
					if m := g.NodeOf(call); m != nil && !seenN[m] {
						seenN[m] = true
						appends = append(appends, m)
					}
				}
			}
			first := g.NodeOf(rs.Body.List[0])
			if len(appends) == 0 || first == nil {
				return true
			}
			for i, a := range appends {
				n++
				construct := fmt.Sprintf("every element reaches append #%d of the loop at line %d of %s", i+1, p.Fset.Position(rs.Pos()).Line-p.Fset.Position(f.Node().Pos()).Line, f.Name)
				// walk from the first statement of the body, not through a
				skipped := false
				vis := map[*Node]bool{}
				work := []*Node{first}
				for len(work) > 0 && !skipped {
					m := work[len(work)-1]
					work = work[:len(work)-1]
					if vis[m] || m == a {
						continue
					}
					vis[m] = true
					if m.Ast != nil && !inBody(m) || m == g.Exit {
						skipped = true
						break
					}
					for _, e := range m.Succs {
						work = append(work, e.To)
					}
				}
				if skipped {
					c.R.Violate("R-TABLE/kv", p.Pos(a.Ast), f.Name, construct,
						"an iteration can end without executing this append: some key/value fields of the plugin's JSON log record (those for which the skipping condition holds) are missing from the record the host emits", nil)
				} else {
					c.R.Hold("R-TABLE/kv", p.Pos(a.Ast), f.Name, construct, "every path through the loop body executes it", true)
				}
			}
			return true
		})
		total += n
	}
	if total < 2 {
		c.R.Undecided("R-TABLE/kv", "", "instance-floor", fmt.Sprintf("only %d appends in key/value loops found, at least 2 expected (one per loop)", total))
	}
}

// ---------- R-OWN/writer: the library never closes a writer it was only given to write to ----------

// ruleNoCloseWriter: a value that the library holds as an io.Writer (the sync
// writers, the stderr writer, a copy destination) belongs to the caller and may
// be shared between streams and plugins. Asserting it to a closer and closing
// it ends every other stream that writes to it.
func ruleNoCloseWriter(c *Ctx) {
	p := c.P
	nAssert, nWriters := 0, 0
	isWriterType := func(t types.Type) bool {
		return t != nil && t.String() == "io.Writer"
	}
	hasClose := func(t types.Type) bool {
		if t == nil {
			return false
		}
		ms := types.NewMethodSet(t)
		for i := 0; i < ms.Len(); i++ {
			if ms.At(i).Obj().Name() == "Close" {
				return true
			}
		}
		return false
	}
	for _, f := range p.Funcs {
		if strings.HasSuffix(p.Fset.Position(f.Body.Pos()).Filename, "testing.go") {
			continue
		}
		info := f.Pkg.TypesInfo
		if f.Type.Params != nil {
			for _, fd := range f.Type.Params.List {
				if isWriterType(info.TypeOf(fd.Type)) {
					nWriters += len(fd.Names)
				}
			}
		}
		walkNoLit(f.Body, func(x ast.Node) bool {
			ta, ok := x.(*ast.TypeAssertExpr)
			if !ok || ta.Type == nil || !isWriterType(info.TypeOf(ta.X)) {
				return true
			}
			nAssert++
			at := info.TypeOf(ta.Type)
			if !hasClose(at) {
				c.R.Hold("R-OWN/writer", p.Pos(ta), f.Name, "assertion on a writer: "+exprStr(ta), "the asserted type has no Close method", false)
				return true
			}
			c.R.Violate("R-OWN/writer", p.Pos(ta), f.Name, "assertion on a writer: "+exprStr(ta),
				"a value the library was given as an io.Writer is asserted to a type with a Close method: closing the caller's writer (os.Stdout, a file, a writer shared by both streams or by several plugins) drops every byte that another still-live stream writes to it afterwards", nil)
			return true
		})
	}
	if nWriters < 3 {
		c.R.Undecided("R-OWN/writer", "", "instance-floor", fmt.Sprintf("only %d io.Writer parameters found in the module, at least 3 expected (copyStream, grpcStdioClient.Run)", nWriters))
	} else {
		c.R.Hold("R-OWN/writer", "-", "", "writers are only written to", fmt.Sprintf("%d io.Writer parameters, %d type assertions on writer values, none to a closer", nWriters, nAssert), true)
	}
}

// ---------- R-RES/handle: a process handle kept for Kill is not released ----------

// ruleProcHandle: the *os.Process stored in the attached runner is what Kill
// signals later. Process.Release invalidates the handle (every later Kill or
// Signal fails with "process already released"), so a handle that is stored or
// returned must not be released in the function that obtained it.
func ruleProcHandle(c *Ctx) {
	p := c.P
	nKept := 0
	for _, f := range p.Funcs {
		if !strings.Contains(f.Pkg.PkgPath, "cmdrunner") {
			continue
		}
		info := f.Pkg.TypesInfo
		isProc := func(t types.Type) bool { return t != nil && t.String() == "*os.Process" }
		// handles that escape: stored in a composite literal / field, or returned
		kept := map[*types.Var]ast.Node{}
		walkNoLit(f.Body, func(x ast.Node) bool {
			switch s := x.(type) {
			case *ast.KeyValueExpr:
				if v, ok := identObj(info, s.Value).(*types.Var); ok && isProc(v.Type()) {
					kept[v] = s
				}
			case *ast.AssignStmt:
				for i, l := range s.Lhs {
					if SelField(info, l) != nil && i < len(s.Rhs) {
						if v, ok := identObj(info, s.Rhs[i]).(*types.Var); ok && isProc(v.Type()) && !v.IsField() {
							kept[v] = s
						}
					}
				}
			case *ast.ReturnStmt:
				for _, r := range s.Results {
					if v, ok := identObj(info, r).(*types.Var); ok && isProc(v.Type()) && !v.IsField() {
						kept[v] = s
					}
				}
			}
			return true
		})
		for v, at := range kept {
			nKept++
			var rel ast.Node
			ast.Inspect(f.Body, func(x ast.Node) bool {
				if call, ok := x.(*ast.CallExpr); ok && p.CalleeName(f, call) == "os.Process.Release" {
					if se, ok := ast.Unparen(call.Fun).(*ast.SelectorExpr); ok && identObj(info, se.X) == v {
						rel = call
					}
				}
				return true
			})
			construct := "process handle " + v.Name() + " kept for Kill stays valid"
			if rel != nil {
				c.R.Violate("R-RES/handle", p.Pos(rel), f.Name, construct,
					"the handle is stored in the runner ("+p.Pos(at)+") and released in the same function: after Release every Kill on the reattached runner fails with \"process already released\", so killing the reattached client no longer terminates the plugin", nil)
			} else {
				c.R.Hold("R-RES/handle", p.Pos(at), f.Name, construct, "no Release of the stored handle", true)
			}
		}
	}
	if nKept == 0 {
		c.R.Undecided("R-RES/handle", "cmdrunner.ReattachFunc", "anchor", "no *os.Process stored in a runner found")
	}
}

// ---------- R-RES/brokerls: brokered listeners are closed before the plugin process can exit ----------

// ruleBrokerListeners: the servers started by AcceptAndServe stop
// asynchronously after GRPCBroker.Close, while the plugin process exits as soon
// as the main gRPC server has stopped (Serve returns when DoneCh is closed).
// The brokered listeners' socket files are therefore removed only if
//
//	(a) every listener Accept creates on a successful path is recorded in the broker,
//	(b) GRPCBroker.Close closes every recorded listener synchronously, and
//	(c) GRPCServer.Stop closes the broker before it stops the server.
func ruleBrokerListeners(c *Ctx) {
	p := c.P
	acc, cl, stop := p.Fn("GRPCBroker.Accept"), p.Fn("GRPCBroker.Close"), p.Fn("GRPCServer.Stop")
	if acc == nil || cl == nil || stop == nil {
		c.R.Undecided("R-RES/brokerls", "GRPCBroker.Accept", "anchor", "Accept, Close or GRPCServer.Stop not found")
		return
	}
	// (a)
	info := acc.Pkg.TypesInfo
	g := p.Graph(acc)
	var lnVar *types.Var
	var mkNode *Node
	for _, m := range g.Nodes {
		as, ok := m.Ast.(*ast.AssignStmt)
		if !ok || len(as.Rhs) != 1 {
			continue
		}
		if call, ok := ast.Unparen(as.Rhs[0]).(*ast.CallExpr); ok && p.CalleeName(acc, call) == modPath+".serverListener" {
			lnVar, _ = identObj(info, as.Lhs[0]).(*types.Var)
			mkNode = m
		}
	}
	if lnVar == nil {
		c.R.Undecided("R-RES/brokerls", acc.Name, "anchor", "no listener created by serverListener() found in Accept")
		return
	}
	var regField *types.Var
	isReg := func(m *Node) bool {
		as, ok := m.Ast.(*ast.AssignStmt)
		if !ok {
			return false
		}
		for i, l := range as.Lhs {
			l = ast.Unparen(l)
			if ix, ok := l.(*ast.IndexExpr); ok {
				if fv := SelField(info, ix.X); fv != nil {
					if identObj(info, ix.Index) == lnVar || (i < len(as.Rhs) && identObj(info, as.Rhs[i]) == lnVar) {
						regField = fv
						return true
					}
				}
			}
			if fv := SelField(info, l); fv != nil && i < len(as.Rhs) {
				if call, ok := ast.Unparen(as.Rhs[i]).(*ast.CallExpr); ok && p.CalleeName(acc, call) == "builtin.append" {
					for _, a := range call.Args[1:] {
						if identObj(info, a) == lnVar {
							regField = fv
							return true
						}
					}
				}
			}
		}
		return false
	}
	for _, m := range g.Nodes {
		isReg(m)
	}
	seen := g.ReachAfter(mkNode, isReg, nil)
	missed := false
	for m := range seen {
		if rs, ok := m.Ast.(*ast.ReturnStmt); ok && len(rs.Results) == 2 && isNilIdent(info, rs.Results[1]) && !isNilIdent(info, rs.Results[0]) {
			missed = true
		}
	}
	if regField == nil || missed {
		c.R.Violate("R-RES/brokerls", p.Pos(mkNode.Ast), acc.Name, "every brokered listener is recorded in the broker",
			"Accept can hand out a listener (with its Unix socket file) that the broker keeps no record of: GRPCBroker.Close can then only signal the goroutine serving on it, and a plugin process that exits right after Close (it does, once the main server has stopped) leaves the socket file behind", nil)
		return
	}
	c.R.Hold("R-RES/brokerls", p.Pos(mkNode.Ast), acc.Name, "every brokered listener is recorded in the broker", "stored in "+p.FieldName(regField)+" on every successful path", true)
	// (a') a record stays until its own listener is closed: a map entry keyed
	// by a value the caller of Accept chooses (the service ID) is replaced by a
	// second Accept with the same value, and removing "the" entry of one
	// listener removes the other's
	if sig, ok := acc.Obj.Type().(*types.Signature); ok {
		params := map[types.Object]bool{}
		for i := 0; i < sig.Params().Len(); i++ {
			params[sig.Params().At(i)] = true
		}
		var keyed ast.Node
		guarded := false
		for _, m := range g.Nodes {
			as, ok := m.Ast.(*ast.AssignStmt)
			if !ok {
				continue
			}
			for i, l := range as.Lhs {
				ix, ok := ast.Unparen(l).(*ast.IndexExpr)
				if !ok || SelField(info, ix.X) != regField || i >= len(as.Rhs) || identObj(info, as.Rhs[i]) != lnVar {
					continue
				}
				if o := identObj(info, ast.Unparen(ix.Index)); o != nil && params[o] {
					keyed = as
				}
			}
			// a comma-ok lookup of the registry before the store: the duplicate is seen
			if len(as.Lhs) == 2 && len(as.Rhs) == 1 {
				if ix, ok := ast.Unparen(as.Rhs[0]).(*ast.IndexExpr); ok && SelField(info, ix.X) == regField {
					guarded = true
				}
			}
		}
		if keyed != nil && !guarded {
			c.R.Violate("R-RES/brokerls", p.Pos(keyed), acc.Name, "a record stays until its listener is closed",
				"the listener is recorded under a key the caller of Accept chooses: a second Accept with the same value replaces the record of a listener that is still open (and removing one listener's record removes the other's), so GRPCBroker.Close does not close it and its socket file stays behind", nil)
		} else {
			c.R.Hold("R-RES/brokerls", p.Pos(mkNode.Ast), acc.Name, "a record stays until its listener is closed", "the record is not keyed by a parameter of Accept (or the store follows a lookup of the same key)", true)
		}
	}
	// (b)
	cinfo := cl.Pkg.TypesInfo
	var fromField func(f *Func, e ast.Expr, depth int) bool
	fromField = func(f *Func, e ast.Expr, depth int) bool {
		if depth > 6 || e == nil {
			return false
		}
		fi := f.Pkg.TypesInfo
		e = ast.Unparen(e)
		if SelField(fi, e) == regField {
			return true
		}
		// maps.Keys(b.F), slices.Collect(maps.Keys(b.F)), slices.Sorted(...)
		if call, ok := e.(*ast.CallExpr); ok && len(call.Args) >= 1 {
			switch p.CalleeName(f, call) {
			case "maps.Keys", "maps.Values", "slices.Collect", "slices.Sorted", "slices.Clone", "slices.Values":
				return fromField(f, call.Args[0], depth+1)
			}
		}
		v, ok := identObj(fi, e).(*types.Var)
		if !ok || v.IsField() {
			return false
		}
		found := false
		ast.Inspect(f.Body, func(x ast.Node) bool {
			switch s := x.(type) {
			case *ast.RangeStmt:
				// v is the key/value of a range over something that comes from the field
				if (s.Key != nil && identObj(fi, s.Key) == v) || (s.Value != nil && identObj(fi, s.Value) == v) {
					if fromField(f, s.X, depth+1) {
						found = true
					}
				}
			case *ast.AssignStmt:
				for i, l := range s.Lhs {
					if identObj(fi, l) != v || i >= len(s.Rhs) {
						continue
					}
					r := ast.Unparen(s.Rhs[i])
					if call, ok := r.(*ast.CallExpr); ok && p.CalleeName(f, call) == "builtin.append" {
						for _, a := range call.Args[1:] {
							if fromField(f, a, depth+1) {
								found = true
							}
						}
					} else if fromField(f, r, depth+1) {
						found = true
					}
				}
			}
			return true
		})
		return found
	}
	closesSync := false
	var where ast.Node
	walkNoLit(cl.Body, func(x ast.Node) bool {
		if _, isGo := x.(*ast.GoStmt); isGo {
			return false
		}
		call, ok := x.(*ast.CallExpr)
		if !ok {
			return true
		}
		se, ok := ast.Unparen(call.Fun).(*ast.SelectorExpr)
		if !ok || se.Sel.Name != "Close" {
			return true
		}
		if t := cinfo.TypeOf(se.X); t == nil || t.String() != "net.Listener" {
			return true
		}
		if fromField(cl, se.X, 0) {
			closesSync, where = true, call
		}
		return true
	})
	if closesSync {
		c.R.Hold("R-RES/brokerls", p.Pos(where), cl.Name, "Close closes the recorded listeners itself", "each element of "+p.FieldName(regField)+" is closed in Close's own goroutine", true)
		// and every one of them: the loop that closes them is not left early
		var loop *ast.RangeStmt
		for cur := p.Parent(where); cur != nil && loop == nil; cur = p.Parent(cur) {
			if rs, ok := cur.(*ast.RangeStmt); ok {
				loop = rs
			}
			if _, isFn := cur.(*ast.FuncDecl); isFn {
				break
			}
		}
		if loop != nil {
			var early ast.Node
			var visit func(n ast.Node, breakable bool)
			visit = func(n ast.Node, breakable bool) {
				ast.Inspect(n, func(x ast.Node) bool {
					if x == nil || early != nil {
						return false
					}
					switch s := x.(type) {
					case *ast.FuncLit:
						return false
					case *ast.ReturnStmt:
						early = s
					case *ast.BranchStmt:
						if s.Tok == token.GOTO || (s.Tok == token.BREAK && (s.Label != nil || !breakable)) {
							early = s
						}
					case *ast.ForStmt, *ast.RangeStmt, *ast.SwitchStmt, *ast.TypeSwitchStmt, *ast.SelectStmt:
						if x != n {
							visit(x, true)
							return false
						}
					}
					return true
				})
			}
			visit(loop.Body, false)
			if early != nil {
				c.R.Violate("R-RES/brokerls", p.Pos(early), cl.Name, "Close closes every recorded listener", "the loop that closes the recorded listeners is left at this statement (the Close of a Unix listener whose socket file is already gone reports an error): the listeners not yet visited stay open and their socket files stay behind", nil)
			} else {
				c.R.Hold("R-RES/brokerls", p.Pos(loop), cl.Name, "Close closes every recorded listener", "no return, break or goto leaves the closing loop", true)
			}
		}
	} else {
		c.R.Violate("R-RES/brokerls", p.Pos(cl.Node()), cl.Name, "Close closes the recorded listeners itself",
			"GRPCBroker.Close does not close the listeners recorded in "+p.FieldName(regField)+" in its own goroutine: their removal is left to the serving goroutines, which a plugin process that exits right after Close never gets to run", nil)
	}
	// (c)
	sg := p.Graph(stop)
	closesBroker := func(m *Node) bool {
		if m.Ast == nil {
			return false
		}
		for _, call := range callsIn(m.Ast) {
			if p.CalleeName(stop, call) == modPath+".GRPCBroker.Close" {
				return true
			}
			if ce := p.FnOf(asFunc(p.Callee(stop, call))); ce != nil {
				for _, cc := range ce.Calls() {
					if p.CalleeName(ce, cc) == modPath+".GRPCBroker.Close" {
						return true
					}
				}
			}
		}
		return false
	}
	var stopNode *Node
	var stopNodes []*Node
	sinfo := stop.Pkg.TypesInfo
	isStopName := func(n string) bool {
		return n == "google.golang.org/grpc.Server.Stop" || n == "google.golang.org/grpc.Server.GracefulStop"
	}
	for _, m := range sg.Nodes {
		if m.Ast == nil {
			continue
		}
		for _, call := range callsIn(m.Ast) {
			hit := isStopName(p.CalleeName(stop, call))
			if !hit {
				// a call through a local bound once to the method value s.server.Stop
				if v, ok := identObj(sinfo, call.Fun).(*types.Var); ok && !v.IsField() {
					if d := p.singleDef(stop, v); d != nil {
						if se, ok := ast.Unparen(d).(*ast.SelectorExpr); ok {
							if fn, ok := sinfo.Uses[se.Sel].(*types.Func); ok && fn.Pkg() != nil && isStopName(fn.Pkg().Path()+".Server."+fn.Name()) {
								hit = true
							}
						}
					}
				}
			}
			if hit {
				stopNode = m
				stopNodes = append(stopNodes, m)
			}
		}
	}
	if stopNode == nil {
		c.R.Undecided("R-RES/brokerls", stop.Name, "anchor", "no call of grpc.Server.Stop found")
		return
	}
	// with no broker there is nothing to close: the nil edge of a test of the
	// broker field (or of a local bound once to it) counts as closed
	brokerF := p.FieldObj(modPath, "GRPCServer", "broker")
	noBroker := func(e *Edge) bool {
		at, ok := edgeAtom(sinfo, e)
		if !ok || at.Kind != "nil" || at.Op != token.EQL {
			return false
		}
		if SelField(sinfo, at.X) == brokerF {
			return true
		}
		if v, ok := identObj(sinfo, at.X).(*types.Var); ok && !v.IsField() {
			if d := p.singleDef(stop, v); d != nil && SelField(sinfo, ast.Unparen(d)) == brokerF {
				return true
			}
		}
		return false
	}
	before := sg.Reach([]*Node{sg.Entry}, closesBroker, noBroker)
	feasBefore := p.FeasibleReach(stop, []*Node{sg.Entry}, closesBroker, noBroker)
	early := false
	for _, sn := range stopNodes {
		if _, r := before[sn]; r && feasBefore[sn] {
			early = true
			stopNode = sn
		}
	}
	if early {
		c.R.Violate("R-RES/brokerls", p.Pos(stopNode.Ast), stop.Name, "broker closed before the server stops",
			"GRPCServer.Stop stops the main gRPC server before it closes the broker: Serve returns as soon as the server has stopped and the plugin process exits, racing with (and usually beating) the removal of the brokered listeners' socket files", nil)
	} else {
		c.R.Hold("R-RES/brokerls", p.Pos(stopNode.Ast), stop.Name, "broker closed before the server stops", "every path to grpc.Server.Stop has closed the broker", true)
	}
}

// ruleShutdownStopOrder: clause (c) of R-RES/brokerls for everything the
// controller's Shutdown handler can reach (including goroutines it starts): a
// function on that path that stops the main gRPC server - Stop or GracefulStop
// on the grpc.Server - has closed the broker first, in itself or through a
// module function it calls before. (GRPCServer.Stop itself is clause (c).)
func ruleShutdownStopOrder(c *Ctx) {
	p := c.P
	sh := p.Fn("grpcControllerServer.Shutdown")
	if sh == nil {
		c.R.Undecided("R-RES/brokerls", "grpcControllerServer.Shutdown", "anchor", "function not found")
		return
	}
	n := 0
	for rf := range p.ReachableFuncs([]*Func{sh}, true) {
		if rf.Name == "GRPCServer.Stop" || !strings.HasPrefix(rf.Pkg.PkgPath, modPath) {
			continue
		}
		g := p.Graph(rf)
		closesBroker := func(m *Node) bool {
			if m.Ast == nil {
				return false
			}
			for _, call := range callsIn(m.Ast) {
				if p.CalleeName(rf, call) == modPath+".GRPCBroker.Close" {
					return true
				}
				if ce := p.FnOf(asFunc(p.Callee(rf, call))); ce != nil {
					for _, cc := range ce.Calls() {
						if p.CalleeName(ce, cc) == modPath+".GRPCBroker.Close" {
							return true
						}
					}
				}
			}
			return false
		}
		before := g.Reach([]*Node{g.Entry}, closesBroker, nil)
		for _, m := range g.Nodes {
			if m.Ast == nil {
				continue
			}
			for _, call := range callsIn(m.Ast) {
				nm := p.CalleeName(rf, call)
				if nm != "google.golang.org/grpc.Server.Stop" && nm != "google.golang.org/grpc.Server.GracefulStop" {
					continue
				}
				n++
				construct := "broker closed before the server stops (shutdown path)"
				if _, early := before[m]; early {
					c.R.Violate("R-RES/brokerls", p.Pos(call), rf.Name, construct,
						"on the path of the host's shutdown request the main gRPC server is stopped before the broker is closed: Serve returns as soon as the server has stopped and the plugin process exits while the brokered listeners (and their socket files) are still being closed", nil)
				} else {
					c.R.Hold("R-RES/brokerls", p.Pos(call), rf.Name, construct, "the broker is closed on every path before this stop", true)
				}
			}
		}
	}
	_ = n
}

// ---------- R-PEND/present: an existing pending entry is never a reason to refuse ----------

// rulePendingPresentOK: a broker's pending table gets an entry for an id from
// whichever side comes first - the peer's message handled by Run, or the local
// Accept / Dial. Neither order is an error, so in Accept and Dial no error
// return is decided by finding the id already present in a pending table
// (serverStreams, clientStreams, streams): the test would refuse every
// connection whose other half arrived first.
func rulePendingPresentOK(c *Ctx) {
	p := c.P
	tables := map[*types.Var]bool{}
	for _, nm := range [][2]string{{"GRPCBroker", "serverStreams"}, {"GRPCBroker", "clientStreams"}, {"MuxBroker", "streams"}} {
		if fv := p.FieldObj(modPath, nm[0], nm[1]); fv != nil {
			tables[fv] = true
		}
	}
	n, bad := 0, false
	for _, name := range []string{"GRPCBroker.Accept", "GRPCBroker.DialWithOptions", "GRPCBroker.AcceptAndServe", "MuxBroker.Accept", "MuxBroker.Dial", "GRPCBroker.muxDial", "GRPCBroker.knock"} {
		f := p.Fn(name)
		if f == nil {
			continue
		}
		n++
		info := f.Pkg.TypesInfo
		g := p.Graph(f)
		// comma-ok results of lookups in a pending table
		oks := map[types.Object]bool{}
		ast.Inspect(f.Body, func(x ast.Node) bool {
			as, ok := x.(*ast.AssignStmt)
			if !ok || len(as.Lhs) != 2 || len(as.Rhs) != 1 {
				return true
			}
			if ix, isIx := ast.Unparen(as.Rhs[0]).(*ast.IndexExpr); isIx && tables[SelField(info, ix.X)] {
				if o := identObj(info, as.Lhs[1]); o != nil {
					oks[o] = true
				}
			}
			return true
		})
		if len(oks) == 0 {
			continue
		}
		for _, m := range g.Nodes {
			rs, isR := m.Ast.(*ast.ReturnStmt)
			if !isR || len(rs.Results) == 0 {
				continue
			}
			last := rs.Results[len(rs.Results)-1]
			if !isErrorType(info.TypeOf(last)) || isNilIdent(info, last) {
				continue
			}
			if g.OnlyViaEdge(m, func(e *Edge) bool {
				at, ok := edgeAtom(info, e)
				return ok && at.Kind == "bool" && at.True && oks[identObj(info, at.X)]
			}) {
				bad = true
				c.R.Violate("R-PEND/present", p.Pos(rs), f.Name, "an id already present in the pending table is not refused",
					"this error return is taken exactly when the id is already in the broker's pending table - but the entry is also created by Run when the peer's half of the hand-off arrives first, so every connection whose dial (or knock) precedes the local call is refused", nil)
			}
		}
	}
	if n < 4 {
		c.R.Undecided("R-PEND/present", "", "instance-floor", fmt.Sprintf("only %d of the broker entry points found", n))
	} else if !bad {
		c.R.Hold("R-PEND/present", "-", "", "an id already present in the pending table is not refused", "no error return of Accept / Dial lies on the found-edge of a pending-table lookup", true)
	}
}

// ---------- R-PEND/keep: whoever parks an item in a pending slot leaves the slot in the table ----------

// rulePendingKept: the function that offers an inbound stream / message to the
// slot of its id (a send on the slot's channel) does not also delete from the
// pending table: the slot has to stay findable for the Accept / Dial that has
// not been called yet - taking it out "because it now has its connection"
// breaks the dial-first order. Entries leave the table through the expiry
// wait (and through Accept's own timeout), which run after the item was
// claimed or given up.
func rulePendingKept(c *Ctx) {
	p := c.P
	n, bad := 0, false
	for _, f := range p.Funcs {
		if f.Lit != nil || !notTesting(p, f) {
			continue
		}
		offers := false
		var dels []*ast.CallExpr
		var visit func(fn *Func)
		visit = func(fn *Func) {
			info := fn.Pkg.TypesInfo
			walkNoLit(fn.Body, func(x ast.Node) bool {
				switch y := x.(type) {
				case *ast.SendStmt:
					if isPendingChSend(p, info, y) {
						offers = true
					}
				case *ast.CallExpr:
					if id, ok := callFunIdent(y); ok && id.Name == "delete" && len(y.Args) == 2 {
						if mt, isMap := info.TypeOf(y.Args[0]).Underlying().(*types.Map); isMap {
							if strings.HasSuffix(strings.TrimPrefix(mt.Elem().String(), "*"), "Pending") {
								dels = append(dels, y)
							}
						}
					}
				case *ast.FuncLit:
					if lf := p.Lit(y); lf != nil {
						visit(lf)
					}
				}
				return true
			})
		}
		visit(f)
		if !offers {
			continue
		}
		n++
		construct := "the dispatcher leaves the slot in the table"
		if len(dels) > 0 {
			bad = true
			c.R.Violate("R-PEND/keep", p.Pos(dels[0]), f.Name, construct, "the function that parks an inbound item in the pending slot of its id also deletes from the pending table: an Accept (or Dial) for that id that has not been called yet creates a fresh slot and never sees the parked item - the hand-off works only when the local call comes first", nil)
		} else {
			c.R.Hold("R-PEND/keep", p.Pos(f.Node()), f.Name, construct, "no delete from a pending table in the function that fills the slots", true)
		}
	}
	if n < 2 && !bad {
		c.R.Undecided("R-PEND/keep", "", "instance-floor", fmt.Sprintf("only %d functions that offer to a pending slot found, 2 expected (MuxBroker.Run, GRPCBroker.Run)", n))
	}
}

// ---------- R-COPY: objects that carry synchronisation state are never copied ----------

// ruleNoCopySync: a struct that (transitively, by value) contains a sync
// primitive, an atomic type, or a counter used through sync/atomic is shared by
// reference. A value receiver, a by-value parameter or result, a dereferencing
// assignment or a by-value range variable operates on a copy: locks taken on
// the copy protect nothing and atomic counters advance on the copy only (two
// NextId calls return the same id).
func ruleNoCopySync(c *Ctx) {
	p := c.P
	// fields whose address is passed to sync/atomic functions
	atomicField := map[*types.Var]bool{}
	for _, f := range p.Funcs {
		info := f.Pkg.TypesInfo
		for _, call := range f.Calls() {
			if !strings.HasPrefix(p.CalleeName(f, call), "sync/atomic.") || len(call.Args) == 0 {
				continue
			}
			if u, ok := ast.Unparen(call.Args[0]).(*ast.UnaryExpr); ok && u.Op == token.AND {
				if fv := SelField(info, u.X); fv != nil {
					atomicField[fv] = true
				}
			}
		}
	}
	memo := map[types.Type]bool{}
	var carries func(t types.Type, depth int) bool
	carries = func(t types.Type, depth int) bool {
		if t == nil || depth > 6 {
			return false
		}
		if v, ok := memo[t]; ok {
			return v
		}
		memo[t] = false
		res := false
		switch ts := t.String(); ts {
		case "sync.Mutex", "sync.RWMutex", "sync.WaitGroup", "sync.Once", "sync.Cond", "sync.Map", "sync.Pool":
			res = true
		default:
			if strings.HasPrefix(ts, "sync/atomic.") {
				res = true
			}
		}
		if !res {
			switch u := t.Underlying().(type) {
			case *types.Struct:
				for i := 0; i < u.NumFields(); i++ {
					fv := u.Field(i)
					if atomicField[fv] || carries(fv.Type(), depth+1) {
						res = true
					}
				}
			case *types.Array:
				res = carries(u.Elem(), depth+1)
			}
		}
		memo[t] = res
		return res
	}
	inModule := func(t types.Type) bool {
		if n, ok := t.(*types.Named); ok && n.Obj().Pkg() != nil {
			return strings.HasPrefix(n.Obj().Pkg().Path(), modPath)
		}
		return false
	}
	nTypes := 0
	for _, sp := range scopePkgs {
		pk := p.Pkgs[sp]
		if pk == nil {
			continue
		}
		sc := pk.Types.Scope()
		for _, n := range sc.Names() {
			if tn, ok := sc.Lookup(n).(*types.TypeName); ok && carries(tn.Type(), 0) {
				nTypes++
			}
		}
	}
	bad := 0
	report := func(f *Func, at ast.Node, what string, t types.Type) {
		bad++
		c.R.Violate("R-COPY", p.Pos(at), f.Name, what+" of "+types.TypeString(t, func(pk *types.Package) string { return pk.Name() }),
			"a struct that carries synchronisation state (a mutex, Once, WaitGroup or an atomically updated counter) is copied here: the copy's lock protects nothing and its counter advances separately, so the guarded data races and ids handed out by atomic increments repeat", nil)
	}
	for _, f := range p.Funcs {
		if strings.HasSuffix(p.Fset.Position(f.Body.Pos()).Filename, "testing.go") {
			continue
		}
		info := f.Pkg.TypesInfo
		if f.Decl != nil && f.Decl.Recv != nil {
			for _, fd := range f.Decl.Recv.List {
				if t := info.TypeOf(fd.Type); t != nil && inModule(t) && carries(t, 0) {
					report(f, fd, "value receiver", t)
				}
			}
		}
		for _, fl := range []*ast.FieldList{f.Type.Params, f.Type.Results} {
			if fl == nil {
				continue
			}
			for _, fd := range fl.List {
				if t := info.TypeOf(fd.Type); t != nil && inModule(t) && carries(t, 0) {
					report(f, fd, "by-value parameter/result", t)
				}
			}
		}
		walkNoLit(f.Body, func(x ast.Node) bool {
			switch s := x.(type) {
			case *ast.AssignStmt:
				if len(s.Lhs) != len(s.Rhs) {
					return true
				}
				for _, r := range s.Rhs {
					r = ast.Unparen(r)
					switch r.(type) {
					case *ast.CompositeLit, *ast.CallExpr:
						continue
					}
					if t := info.TypeOf(r); t != nil && inModule(t) && carries(t, 0) {
						report(f, s, "copying assignment", t)
					}
				}
			case *ast.RangeStmt:
				if s.Value != nil {
					if t := info.TypeOf(s.Value); t != nil && inModule(t) && carries(t, 0) {
						report(f, s, "by-value range variable", t)
					}
				}
			}
			return true
		})
	}
	if nTypes < 8 {
		c.R.Undecided("R-COPY", "", "instance-floor", fmt.Sprintf("only %d module types carrying synchronisation state found, at least 8 expected (Client, both brokers, both muxers, the servers, the pending slots)", nTypes))
	} else if bad == 0 {
		c.R.Hold("R-COPY", "-", "", "no copy of an object carrying synchronisation state", fmt.Sprintf("%d module types carry a sync primitive or an atomically updated field; none has a value receiver, is passed, returned, assigned or ranged by value", nTypes), true)
	}
}

// ---------- R-CARRY: state carried between iterations of the stderr loop survives the iteration ----------

// ruleLoopCarried: in the functions that read the plugin's output, an assignment
// to a local inside a loop must be able to reach a use of that local. An
// assignment made at the end of an iteration to a variable that the next
// iteration re-declares is dead: the flag it was meant to carry (previous line
// was a prefix, inside a panic trace) is lost, and the next line is classified
// as if it were the first.
func ruleLoopCarried(c *Ctx) {
	p := c.P
	reach, nroots := p.readerReach()
	if nroots < 3 {
		c.R.Undecided("R-CARRY", "Client.Start", "anchor", fmt.Sprintf("reader goroutines not found (roots=%d)", nroots))
		return
	}
	var fs []*Func
	for f := range reach {
		fs = append(fs, f)
	}
	sort.Slice(fs, func(i, j int) bool { return fs[i].Name < fs[j].Name })
	n := 0
	for _, f := range fs {
		if strings.HasSuffix(p.Fset.Position(f.Body.Pos()).Filename, "testing.go") {
			continue
		}
		info := f.Pkg.TypesInfo
		g := p.Graph(f)
		// loops of f
		var loops []ast.Node
		walkNoLit(f.Body, func(x ast.Node) bool {
			switch x.(type) {
			case *ast.ForStmt, *ast.RangeStmt:
				loops = append(loops, x)
			}
			return true
		})
		if len(loops) == 0 {
			continue
		}
		inLoop := func(pos token.Pos) bool {
			for _, l := range loops {
				if pos >= l.Pos() && pos <= l.End() {
					return true
				}
			}
			return false
		}
		for _, m := range g.Nodes {
			as, ok := m.Ast.(*ast.AssignStmt)
			if !ok || as.Tok != token.ASSIGN || !inLoop(as.Pos()) {
				continue
			}
			for _, l := range as.Lhs {
				id, ok := ast.Unparen(l).(*ast.Ident)
				if !ok || id.Name == "_" {
					continue
				}
				v, ok := info.Uses[id].(*types.Var)
				if !ok || v.IsField() || v.Parent() == nil || v.Parent() == f.Pkg.Types.Scope() {
					continue
				}
				// only state flags and counters: booleans, integers, strings
				if b, ok := v.Type().Underlying().(*types.Basic); !ok || b.Info()&(types.IsBoolean|types.IsInteger|types.IsString) == 0 {
					continue
				}
				// named results are read by the caller
				isResult := false
				if f.Type.Results != nil {
					for _, fd := range f.Type.Results.List {
						for _, nm := range fd.Names {
							if info.Defs[nm] == v {
								isResult = true
							}
						}
					}
				}
				if isResult {
					continue
				}
				n++
				live := false
				seen := map[*Node]bool{}
				var work []*Node
				for _, e := range m.Succs {
					work = append(work, e.To)
				}
				for len(work) > 0 && !live {
					x := work[len(work)-1]
					work = work[:len(work)-1]
					if seen[x] {
						continue
					}
					seen[x] = true
					if x.Ast != nil {
						defs, uses := nodeDefsUses(info, x.Ast)
						if uses[v] {
							live = true
							break
						}
						// uses inside function literals started/deferred here
						ast.Inspect(x.Ast, func(y ast.Node) bool {
							if yid, ok := y.(*ast.Ident); ok && info.Uses[yid] == v {
								if _, isDef := defs[v]; !isDef {
									live = true
								}
							}
							return true
						})
						if _, re := defs[v]; re {
							continue
						}
					}
					for _, e := range x.Succs {
						work = append(work, e.To)
					}
				}
				construct := "assignment to " + v.Name() + " in a loop reaches a use"
				if live {
					c.R.Hold("R-CARRY", p.Pos(as), f.Name, construct, "", false)
				} else {
					c.R.Violate("R-CARRY", p.Pos(as), f.Name, construct,
						"the value assigned to `"+v.Name()+"` here can never be read: every path to a use passes a re-declaration or re-assignment (the variable is re-initialised at the top of each iteration). State that was meant to carry over to the next chunk or line of the plugin's output is lost, so that line is classified as if nothing preceded it", nil)
				}
			}
		}
	}
	c.R.Hold("R-CARRY", "-", "", "loop-carried state", fmt.Sprintf("%d assignments to scalar locals inside loops of the output readers examined", n), true)
}

// ---------- R-SIB/runnerwait: the attached runner waits for a process that is not its child ----------

// ruleRunnerWait: a reattached plugin is in general not a child of this host,
// and os.Process.Wait works for children only (it fails at once with "no
// child processes" otherwise). The attached runner's Wait must therefore not be
// built on os.Process.Wait / exec.Cmd.Wait but on a liveness poll of the pid;
// the command runner's Wait reaps its child with exec.Cmd.Wait.
func ruleRunnerWait(c *Ctx) {
	p := c.P
	n := 0
	for _, f := range p.Funcs {
		if f.Decl == nil || f.Obj == nil || f.Obj.Name() != "Wait" || f.Decl.Recv == nil || f.Pkg.PkgPath != modPath+"/internal/cmdrunner" {
			continue
		}
		n++
		reach := p.ReachableFuncs([]*Func{f}, false)
		reach[f] = nil
		childWait, polls := false, false
		var where ast.Node
		for rf := range reach {
			for _, call := range rf.Calls() {
				switch nm := p.CalleeName(rf, call); {
				case nm == "os.Process.Wait" || nm == "os/exec.Cmd.Wait":
					childWait, where = true, call
				case nm == "os.FindProcess" || nm == "os.Process.Signal" || strings.HasSuffix(nm, "._pidAlive") || strings.HasSuffix(nm, ".pidAlive"):
					polls = true
				}
			}
		}
		attached := strings.Contains(recvNamed(f), "Attached")
		switch {
		case attached && childWait:
			c.R.Violate("R-SIB/runnerwait", p.Pos(where), f.Name, "attached runner waits by polling the pid",
				"the reattached runner's Wait uses os.Process.Wait, which only works for child processes: for a plugin started by another host it returns at once with an error, the client marks the plugin as exited and cancels its context immediately after reattaching, and Kill then returns without waiting for (or force-killing) the still running plugin", nil)
		case attached && !polls:
			c.R.Violate("R-SIB/runnerwait", p.Pos(f.Node()), f.Name, "attached runner waits by polling the pid",
				"the reattached runner's Wait neither polls the pid nor signals the process: it cannot observe the exit of a process that is not a child of this host", nil)
		case attached:
			c.R.Hold("R-SIB/runnerwait", p.Pos(f.Node()), f.Name, "attached runner waits by polling the pid", "Wait reaches the pid liveness poll and no child-only wait", true)
		case !childWait:
			c.R.Violate("R-SIB/runnerwait", p.Pos(f.Node()), f.Name, "command runner reaps its child",
				"the command runner's Wait does not reach exec.Cmd.Wait / os.Process.Wait: the plugin process is never reaped (it stays a zombie) and its exit is not observed", nil)
		default:
			c.R.Hold("R-SIB/runnerwait", p.Pos(f.Node()), f.Name, "command runner reaps its child", "Wait reaches exec.Cmd.Wait", true)
		}
	}
	if n < 2 {
		c.R.Undecided("R-SIB/runnerwait", "", "instance-floor", fmt.Sprintf("only %d runner Wait implementations found in internal/cmdrunner, 2 expected", n))
	}
}

// ---------- R-ROUTE/stdio: every received stdio chunk is written; the net/rpc copy runs to EOF ----------

func ruleStdioDelivery(c *Ctx) {
	p := c.P
	// (a) gRPC client side: on a recognised channel, every path from the
	// channel dispatch back to the next Recv writes the chunk's bytes
	if f := p.Fn("grpcStdioClient.Run"); f != nil {
		info := f.Pkg.TypesInfo
		g := p.Graph(f)
		var recvN *Node
		var dataV *types.Var
		for _, m := range g.Nodes {
			as, ok := m.Ast.(*ast.AssignStmt)
			if !ok || len(as.Rhs) != 1 || len(as.Lhs) != 2 {
				continue
			}
			if call, ok := ast.Unparen(as.Rhs[0]).(*ast.CallExpr); ok && strings.HasSuffix(p.CalleeName(f, call), "GRPCStdio_StreamStdioClient.Recv") {
				recvN = m
				dataV, _ = identObj(info, as.Lhs[0]).(*types.Var)
			}
		}
		if recvN == nil || dataV == nil {
			c.R.Undecided("R-ROUTE/stdio", f.Name, "anchor", "the Recv call on the stdio stream was not found")
		} else {
			mentionsData := func(e ast.Node) bool {
				found := false
				ast.Inspect(e, func(x ast.Node) bool {
					if se, ok := x.(*ast.SelectorExpr); ok && se.Sel.Name == "Data" && identObj(info, se.X) == dataV {
						found = true
					}
					return true
				})
				return found
			}
			// locals bound to the chunk's bytes
			alias := map[*types.Var]bool{}
			for _, m := range g.Nodes {
				if m.Ast == nil {
					continue
				}
				defs, _ := nodeDefsUses(info, m.Ast)
				for v, rhs := range defs {
					if rhs != nil && mentionsData(rhs) {
						alias[v] = true
					}
				}
			}
			isWrite := func(m *Node) bool {
				if m.Ast == nil {
					return false
				}
				for _, call := range callsIn(m.Ast) {
					nm := p.CalleeName(f, call)
					isW := nm == "io.Copy" || nm == "io.CopyBuffer" || strings.HasSuffix(nm, ".Write") || nm == "io.WriteString"
					if !isW {
						continue
					}
					for _, a := range call.Args {
						if mentionsData(a) {
							return true
						}
						if v, ok := identObj(info, a).(*types.Var); ok && alias[v] {
							return true
						}
					}
				}
				return false
			}
			// Which locals hold one of the two writer parameters is tracked along
			// every path from the Recv (copies propagate, nil and declarations
			// clear, a write of the chunk clears everything). Reaching the next Recv
			// or the end of Run while the local that the write call uses as its
			// destination still holds a writer means: a writer was selected for
			// this chunk and the chunk was not written.
			isWriterParam := map[*types.Var]bool{}
			for _, fd := range f.Type.Params.List {
				for _, nm := range fd.Names {
					if v, ok := info.Defs[nm].(*types.Var); ok && v.Type().String() == "io.Writer" {
						isWriterParam[v] = true
					}
				}
			}
			idx := map[*types.Var]uint{}
			var tracked []*types.Var
			bit := func(v *types.Var) uint64 {
				i, ok := idx[v]
				if !ok {
					if len(tracked) >= 60 {
						return 0
					}
					i = uint(len(tracked))
					idx[v] = i
					tracked = append(tracked, v)
				}
				return 1 << i
			}
			destMask := uint64(0)
			nDest := 0
			writeDest := map[*Node][]*types.Var{}
			badNil := false
			for _, m := range g.Nodes {
				if m.Ast == nil || !isWrite(m) {
					continue
				}
				for _, call := range callsIn(m.Ast) {
					var d ast.Expr
					switch nm := p.CalleeName(f, call); {
					case (nm == "io.Copy" || nm == "io.CopyBuffer" || nm == "io.WriteString") && len(call.Args) >= 1:
						d = call.Args[0]
					case strings.HasSuffix(nm, ".Write"):
						if se, ok := ast.Unparen(call.Fun).(*ast.SelectorExpr); ok {
							d = se.X
						}
					}
					if v, ok := identObj(info, d).(*types.Var); ok && d != nil && !v.IsField() {
						nDest++
						writeDest[m] = append(writeDest[m], v)
						if !isWriterParam[v] {
							destMask |= bit(v)
						}
					}
				}
			}
			// a table of the writers (map[Channel]io.Writer{STDOUT: stdout, …}) assigned
			// once: a comma-ok lookup selects a writer exactly when ok is true
			tableDefs := map[*types.Var]int{}
			isTable := map[*types.Var]bool{}
			for _, m := range g.Nodes {
				if m.Ast == nil {
					continue
				}
				defs, _ := nodeDefsUses(info, m.Ast)
				for v, rhs := range defs {
					if _, isMap := v.Type().Underlying().(*types.Map); !isMap || v.IsField() {
						continue
					}
					tableDefs[v]++
					cl, ok := ast.Unparen(rhs).(*ast.CompositeLit)
					if rhs == nil || !ok || len(cl.Elts) == 0 {
						continue
					}
					all := true
					for _, el := range cl.Elts {
						kv, ok := el.(*ast.KeyValueExpr)
						if !ok {
							all = false
							break
						}
						if u, ok := identObj(info, ast.Unparen(kv.Value)).(*types.Var); !ok || !isWriterParam[u] {
							all = false
						}
					}
					isTable[v] = all
				}
			}
			for _, m := range g.Nodes {
				// an element store or delete disqualifies the table
				if m.Ast == nil {
					continue
				}
				ast.Inspect(m.Ast, func(x ast.Node) bool {
					switch y := x.(type) {
					case *ast.AssignStmt:
						for _, l := range y.Lhs {
							if ie, ok := ast.Unparen(l).(*ast.IndexExpr); ok {
								if v, ok := identObj(info, ie.X).(*types.Var); ok {
									isTable[v] = false
								}
							}
						}
					case *ast.CallExpr:
						if id, ok := ast.Unparen(y.Fun).(*ast.Ident); ok && (id.Name == "delete" || id.Name == "clear") && len(y.Args) > 0 {
							if v, ok := identObj(info, y.Args[0]).(*types.Var); ok {
								isTable[v] = false
							}
						}
					}
					return true
				})
			}
			for v, k := range tableDefs {
				if k != 1 {
					isTable[v] = false
				}
			}
			// the walk carries the path domain's facts too (ok := true … if !ok)
			pd := &pathDomain{p: p, f: f}
			type item struct {
				n *Node
				s Store
			}
			holdKey := func(v *types.Var) string { return "H:" + varKey(v) }
			seenSt := map[*Node]map[string]bool{}
			var work []item
			push := func(n *Node, s0 Store) {
				k := s0.Key()
				if seenSt[n] == nil {
					seenSt[n] = map[string]bool{}
				}
				if seenSt[n][k] || len(seenSt[n]) >= stateCap {
					return
				}
				seenSt[n][k] = true
				work = append(work, item{n, s0})
			}
			// a lookup's value is a writer only while its ok flag is not known false
			condDrop := func(s0 Store) Store {
				for _, k := range s0.Keys("HC:") {
					if s0.Get("P:"+s0.Get(k)) == "false" {
						s0 = s0.Without("H:" + strings.TrimPrefix(k, "HC:")).Without(k)
					}
				}
				return s0
			}
			for _, e := range recvN.Succs {
				if s2, ok := pd.Refine(e, NewStore()); ok {
					push(e.To, s2)
				}
			}
			destHeld := func(s0 Store) bool {
				for _, v := range tracked {
					if destMask&(1<<idx[v]) != 0 && s0.Has(holdKey(v)) {
						return true
					}
				}
				return false
			}
			nArms, bad := nDest, false
			for len(work) > 0 && !bad {
				cur := work[len(work)-1]
				work = work[:len(work)-1]
				if cur.n == recvN || cur.n == g.Exit {
					if destHeld(cur.s) {
						bad = true
					}
					continue
				}
				outs := []Store{cur.s}
				if cur.n.Kind == NNormal {
					outs = pd.Transfer(cur.n, cur.s)
				}
				for _, o := range outs {
					if cur.n.Ast != nil {
						if isWrite(cur.n) {
							// the destination must hold a writer here
							for _, dv := range writeDest[cur.n] {
								if !isWriterParam[dv] && !o.Has(holdKey(dv)) {
									badNil = true
								}
							}
							for _, k := range o.Keys("H:") {
								o = o.Without(k)
							}
						} else {
							defs, _ := nodeDefsUses(info, cur.n.Ast)
							as, isAs := cur.n.Ast.(*ast.AssignStmt)
							for v, rhs := range defs {
								if v.IsField() {
									continue
								}
								if isAs && len(as.Lhs) == len(as.Rhs) {
									for i, l := range as.Lhs {
										if identObj(info, l) == v {
											rhs = as.Rhs[i]
										}
									}
								}
								holds := false
								if rhs != nil {
									if u, ok := identObj(info, ast.Unparen(rhs)).(*types.Var); ok {
										holds = isWriterParam[u] || cur.s.Has(holdKey(u))
									}
								}
								if holds {
									o = o.With(holdKey(v), "1")
								} else {
									o = o.Without(holdKey(v))
								}
								o = o.Without("HC:" + varKey(v))
							}
							if isAs && len(as.Lhs) == 2 && len(as.Rhs) == 1 {
								if ie, ok := ast.Unparen(as.Rhs[0]).(*ast.IndexExpr); ok {
									tv, _ := identObj(info, ie.X).(*types.Var)
									wv, _ := identObj(info, as.Lhs[0]).(*types.Var)
									okv, _ := identObj(info, as.Lhs[1]).(*types.Var)
									if tv != nil && isTable[tv] && wv != nil && okv != nil && !wv.IsField() && !okv.IsField() {
										o = o.With(holdKey(wv), "1").With("HC:"+varKey(wv), varKey(okv))
									}
								}
							}
						}
					}
					for _, e := range cur.n.Succs {
						if s2, ok := pd.Refine(e, o); ok {
							push(e.To, condDrop(s2))
						}
					}
				}
			}
			// a failed write to the user's writer is logged and the loop goes on
			writeEnds := false
			for _, m := range g.Nodes {
				if m.Ast == nil || !isWrite(m) {
					continue
				}
				defs, _ := nodeDefsUses(info, m.Ast)
				// tests of the write's error: those reached from the write before
				// the next receive (the variable may be the one Recv assigns too)
				fromWrite := g.ReachAfter(m, func(y *Node) bool { return y == recvN }, nil)
				for ev := range defs {
					if !isErrorType(ev.Type()) {
						continue
					}
					for _, x := range g.Nodes {
						if _, r := fromWrite[x]; !r && x != m {
							continue
						}
						for _, e := range x.Succs {
							at, isAt := edgeAtom(info, e)
							if !isAt || at.Kind != "nil" || at.Op != token.NEQ || identObj(info, at.X) != ev {
								continue
							}
							seenW := g.Reach([]*Node{e.To}, func(y *Node) bool { return y == recvN }, nil)
							if _, out := seenW[g.Exit]; out {
								// feasible paths only: an inlined receive-and-write helper
								// reports nil after logging, and the caller tests that
								if p.FeasibleReach(f, []*Node{e.To}, func(y *Node) bool { return y == recvN }, nil)[g.Exit] {
									writeEnds = true
								}
							}
						}
					}
				}
			}
			if writeEnds {
				c.R.Violate("R-ROUTE/stdio", p.Pos(recvN.Ast), f.Name, "a failed write does not end the stream",
					"after a write to the user's sync writer failed the receive loop can end: one transient write error on either writer stops the forwarding of both streams for the rest of the connection", nil)
			} else {
				c.R.Hold("R-ROUTE/stdio", p.Pos(recvN.Ast), f.Name, "a failed write does not end the stream", "from the error edge of the write every path returns to the Recv", true)
			}
			construct := "every chunk received on a known channel is written"
			switch {
			case nArms < 1:
				c.R.Undecided("R-ROUTE/stdio", f.Name, construct, fmt.Sprintf("only %d write call(s) with a variable destination found, 1 expected", nArms))
			case badNil:
				c.R.Violate("R-ROUTE/stdio", p.Pos(recvN.Ast), f.Name, "a chunk is written only to a selected writer",
					"the write of a received chunk can execute on a path on which no writer was selected for it (the unknown-channel branch no longer skips the chunk): the destination is a nil io.Writer and the host panics on data for a channel it does not know", nil)
			case bad:
				c.R.Violate("R-ROUTE/stdio", p.Pos(recvN.Ast), f.Name, construct,
					"a chunk received for stdout or stderr can reach the next Recv (or the end of Run) without its bytes being written to the selected writer (the write became conditional): those bytes of the plugin's output are dropped", nil)
			default:
				c.R.Hold("R-ROUTE/stdio", p.Pos(recvN.Ast), f.Name, construct, "no path reaches the next Recv (or the end of Run) while the write destination still holds a selected writer", true)
			}
		}
	} else {
		c.R.Undecided("R-ROUTE/stdio", "grpcStdioClient.Run", "anchor", "function not found")
	}
	// (b) net/rpc: copyStream copies until the source ends
	if f := p.Fn("copyStream"); f != nil {
		info := f.Pkg.TypesInfo
		var params []*types.Var
		for _, fd := range f.Type.Params.List {
			for _, nm := range fd.Names {
				if v, ok := info.Defs[nm].(*types.Var); ok {
					params = append(params, v)
				}
			}
		}
		isParam := func(e ast.Expr) bool {
			v, _ := identObj(info, e).(*types.Var)
			for _, pv := range params {
				if v == pv {
					return true
				}
			}
			return false
		}
		whole, limited := false, ""
		for _, call := range f.Calls() {
			nm := p.CalleeName(f, call)
			if !strings.HasPrefix(nm, "io.") {
				continue
			}
			np := 0
			for _, a := range call.Args {
				if isParam(a) {
					np++
				}
			}
			switch nm {
			case "io.Copy", "io.CopyBuffer":
				if np >= 2 {
					whole = true
				}
			case "io.CopyN", "io.LimitReader", "io.ReadFull", "io.ReadAtLeast", "io.NewSectionReader":
				if np >= 1 {
					limited = nm
				}
			}
		}
		construct := "stream copy runs until the source ends"
		switch {
		case limited != "":
			c.R.Violate("R-ROUTE/stdio", p.Pos(f.Node()), f.Name, construct,
				"the net/rpc stdio copy is bounded by "+limited+": after that many bytes the copy goroutine ends and everything the plugin writes afterwards is silently dropped", nil)
		case whole:
			c.R.Hold("R-ROUTE/stdio", p.Pos(f.Node()), f.Name, construct, "io.Copy(dst, src) on the two parameters", true)
		default:
			c.R.Undecided("R-ROUTE/stdio", f.Name, construct, "no io.Copy of the source parameter into the destination parameter found")
		}
	} else {
		c.R.Undecided("R-ROUTE/stdio", "copyStream", "anchor", "function not found")
	}
}
