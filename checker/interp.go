package main

import (
	"fmt"
	"go/ast"
	"go/token"
	"go/types"
	"sort"
	"strings"
)

// Engine E3: a small path-sensitive abstract interpreter over the node graph.
// States are finite stores (string -> string); the set of states per program
// point is kept disjunctive and capped.

type Store struct {
	m   map[string]string
	key string
}

func NewStore() Store { return Store{m: map[string]string{}} }

func (s Store) Get(k string) string { return s.m[k] }

func (s Store) Has(k string) bool { _, ok := s.m[k]; return ok }

func (s Store) With(k, v string) Store {
	if cur, ok := s.m[k]; ok && cur == v {
		return s
	}
	m := make(map[string]string, len(s.m)+1)
	for a, b := range s.m {
		m[a] = b
	}
	m[k] = v
	return Store{m: m}
}

func (s Store) Without(k string) Store {
	if _, ok := s.m[k]; !ok {
		return s
	}
	m := make(map[string]string, len(s.m))
	for a, b := range s.m {
		if a != k {
			m[a] = b
		}
	}
	return Store{m: m}
}

func (s Store) Keys(prefix string) []string {
	var out []string
	for k := range s.m {
		if strings.HasPrefix(k, prefix) {
			out = append(out, k)
		}
	}
	sort.Strings(out)
	return out
}

func (s *Store) Key() string {
	if s.key != "" || len(s.m) == 0 {
		return s.key
	}
	ks := make([]string, 0, len(s.m))
	for k := range s.m {
		ks = append(ks, k)
	}
	sort.Strings(ks)
	var b strings.Builder
	for _, k := range ks {
		b.WriteString(k)
		b.WriteByte('=')
		b.WriteString(s.m[k])
		b.WriteByte(';')
	}
	s.key = b.String()
	return s.key
}

type Domain interface {
	// Transfer applies the effect of node n to state s.
	Transfer(n *Node, s Store) []Store
	// Refine applies the condition of edge e; ok=false means infeasible.
	Refine(e *Edge, s Store) (Store, bool)
}

type InterpResult struct {
	In     map[*Node][]Store
	Capped bool
	Steps  int
	pred   map[string]predItem
}

type predItem struct {
	n   *Node
	key string
}

// PathOf reconstructs one abstract path (positions) leading to state s at n.
func (r *InterpResult) PathOf(p *Prog, n *Node, s Store) []string {
	var rev []string
	k := s.Key()
	cur := n
	for i := 0; i < 5000 && cur != nil; i++ {
		if cur.Ast != nil {
			rev = append(rev, p.Pos(cur.Ast))
		} else if cur.Kind == NExit {
			rev = append(rev, "exit")
		}
		pi, ok := r.pred[fmt.Sprintf("%d|%s", cur.ID, k)]
		if !ok {
			break
		}
		cur, k = pi.n, pi.key
	}
	var out []string
	for i := len(rev) - 1; i >= 0; i-- {
		if len(out) == 0 || out[len(out)-1] != rev[i] {
			out = append(out, rev[i])
		}
	}
	if len(out) > 16 {
		out = append(append([]string{}, out[:7]...), append([]string{"..."}, out[len(out)-8:]...)...)
	}
	return out
}

const stateCap = 1024

func Interp(g *Graph, d Domain, init Store) *InterpResult {
	res := &InterpResult{In: map[*Node][]Store{}, pred: map[string]predItem{}}
	seen := map[*Node]map[string]bool{}
	type item struct {
		n *Node
		s Store
	}
	var work []item
	push := func(n *Node, s Store, from *Node, fromKey string) {
		k := s.Key()
		m := seen[n]
		if m == nil {
			m = map[string]bool{}
			seen[n] = m
		}
		if m[k] {
			return
		}
		if len(m) >= stateCap {
			res.Capped = true
			return
		}
		m[k] = true
		if from != nil {
			res.pred[fmt.Sprintf("%d|%s", n.ID, k)] = predItem{from, fromKey}
		}
		res.In[n] = append(res.In[n], s)
		work = append(work, item{n, s})
	}
	push(g.Entry, init, nil, "")
	for len(work) > 0 {
		it := work[len(work)-1]
		work = work[:len(work)-1]
		res.Steps++
		outs := []Store{it.s}
		if it.n.Kind == NNormal {
			outs = d.Transfer(it.n, it.s)
		}
		for _, o := range outs {
			for _, e := range it.n.Succs {
				s2, ok := d.Refine(e, o)
				if !ok {
					continue
				}
				push(e.To, s2, it.n, it.s.Key())
			}
		}
	}
	return res
}

// ---- condition decomposition ----

// accessPath renders a side-effect-free variable or field chain as a stable
// string ("c.config.TLSConfig" with the root identified by its object), or "".
func accessPath(info *types.Info, e ast.Expr) string {
	switch x := ast.Unparen(e).(type) {
	case *ast.Ident:
		o := info.Uses[x]
		if o == nil {
			o = info.Defs[x]
		}
		if v, ok := o.(*types.Var); ok {
			return fmt.Sprintf("%s#%d", v.Name(), v.Pos())
		}
		return ""
	case *ast.SelectorExpr:
		if s := info.Selections[x]; s != nil && s.Kind() == types.FieldVal {
			base := accessPath(info, x.X)
			if base == "" {
				return ""
			}
			return base + "." + x.Sel.Name
		}
		// package-qualified variable
		if v, ok := info.Uses[x.Sel].(*types.Var); ok && !v.IsField() {
			return fmt.Sprintf("%s#%d", v.Name(), v.Pos())
		}
		return ""
	case *ast.StarExpr:
		return accessPath(info, x.X)
	}
	return ""
}

// pathDisplay strips the "#pos" disambiguators from an access path.
func pathDisplay(ap string) string {
	var b strings.Builder
	skip := false
	for _, r := range ap {
		if r == '#' {
			skip = true
			continue
		}
		if skip {
			if r >= '0' && r <= '9' {
				continue
			}
			skip = false
		}
		b.WriteRune(r)
	}
	return b.String()
}

// condAtom is a normalised branch condition.
type condAtom struct {
	Kind string // "nil" (X ==/!= nil), "bool" (X), "len" (len(X) op k), "cmp" (A op B), "call", "other"
	X    ast.Expr
	Y    ast.Expr
	Op   token.Token // for nil: EQL means "X == nil holds on this edge"
	K    int64
	True bool // for bool: X is true on this edge
}

func flipOp(op token.Token) token.Token {
	switch op {
	case token.EQL:
		return token.NEQ
	case token.NEQ:
		return token.EQL
	case token.LSS:
		return token.GEQ
	case token.GEQ:
		return token.LSS
	case token.GTR:
		return token.LEQ
	case token.LEQ:
		return token.GTR
	}
	return op
}

func swapOp(op token.Token) token.Token {
	switch op {
	case token.LSS:
		return token.GTR
	case token.GTR:
		return token.LSS
	case token.LEQ:
		return token.GEQ
	case token.GEQ:
		return token.LEQ
	}
	return op
}

// edgeAtom decomposes the condition that holds on edge e.
func edgeAtom(info *types.Info, e *Edge) (condAtom, bool) {
	if e.Cond == nil || e.Branch == 0 {
		return condAtom{}, false
	}
	if e.Tag != nil {
		op := token.EQL
		if e.Branch < 0 {
			op = token.NEQ
		}
		if isNilIdent(info, e.Cond) {
			return condAtom{Kind: "nil", X: e.Tag, Op: op}, true
		}
		return condAtom{Kind: "cmp", X: e.Tag, Y: e.Cond, Op: op}, true
	}
	inner, neg := stripNot(e.Cond)
	holds := e.Branch > 0
	if neg {
		holds = !holds
	}
	if be, ok := inner.(*ast.BinaryExpr); ok {
		op := be.Op
		switch op {
		case token.EQL, token.NEQ, token.LSS, token.LEQ, token.GTR, token.GEQ:
		default:
			return condAtom{Kind: "other", X: inner, True: holds}, true
		}
		if !holds {
			op = flipOp(op)
		}
		x, y := be.X, be.Y
		// `b == false`, `true != b`: a boolean atom
		if op == token.EQL || op == token.NEQ {
			for _, pair := range [][2]ast.Expr{{x, y}, {y, x}} {
				if id, ok := ast.Unparen(pair[1]).(*ast.Ident); ok && (id.Name == "true" || id.Name == "false") {
					if _, isConst := info.Uses[id].(*types.Const); isConst {
						val := id.Name == "true"
						if op == token.NEQ {
							val = !val
						}
						return condAtom{Kind: "bool", X: ast.Unparen(pair[0]), True: val}, true
					}
				}
			}
		}
		if isNilIdent(info, x) {
			x, y = y, x
			op = swapOp(op)
		}
		if isNilIdent(info, y) && (op == token.EQL || op == token.NEQ) {
			return condAtom{Kind: "nil", X: x, Op: op}, true
		}
		// len(x) op k
		if k, ok := constInt(info, y); ok {
			if c, ok := ast.Unparen(x).(*ast.CallExpr); ok {
				if id, ok := c.Fun.(*ast.Ident); ok && id.Name == "len" && len(c.Args) == 1 {
					if _, isB := info.Uses[id].(*types.Builtin); isB {
						return condAtom{Kind: "len", X: c.Args[0], Op: op, K: k}, true
					}
				}
			}
		}
		if k, ok := constInt(info, x); ok {
			if c, ok := ast.Unparen(y).(*ast.CallExpr); ok {
				if id, ok := c.Fun.(*ast.Ident); ok && id.Name == "len" && len(c.Args) == 1 {
					if _, isB := info.Uses[id].(*types.Builtin); isB {
						return condAtom{Kind: "len", X: c.Args[0], Op: swapOp(op), K: k}, true
					}
				}
			}
		}
		return condAtom{Kind: "cmp", X: x, Y: y, Op: op}, true
	}
	if _, ok := inner.(*ast.CallExpr); ok {
		return condAtom{Kind: "call", X: inner, True: holds}, true
	}
	return condAtom{Kind: "bool", X: inner, True: holds}, true
}

// ---- feasible reachability ----

// pathDomain tracks just enough to prune infeasible paths in reachability
// queries: nil-ness of local error variables (nil / non-nil / unknown) and the
// value of local booleans assigned from constants. It lets a gate be
// recognised when its failing edge only *records* the failure in a variable
// that is tested later (typical after a helper was extracted and inlined).
type pathDomain struct {
	p     *Prog
	f     *Func
	cut   func(*Edge) bool
	avoid func(*Node) bool
	// force lets a query assume the value ("N"/"NN") an error variable gets at a
	// particular definition (e.g. "assume this call failed").
	force func(n *Node, v *types.Var) string
	// syms holds the conditions that boolean locals were bound to
	// (`ok := x == nil`), by the key stored in the state ("sym:<key>").
	syms map[string]ast.Expr
}

func (d *pathDomain) Transfer(n *Node, s Store) []Store {
	if d.avoid != nil && d.avoid(n) {
		return nil
	}
	info := d.f.Pkg.TypesInfo
	defs, _ := nodeDefsUses(info, n.Ast)
	as, isAssign := n.Ast.(*ast.AssignStmt)
	tuple := isAssign && len(as.Rhs) == 1 && len(as.Lhs) > 1
	type upd struct{ k, v string }
	var ups []upd
	for v, rhs := range defs {
		if v.IsField() || v.Name() == "_" {
			continue
		}
		k := "P:" + varKey(v)
		switch {
		case isErrorType(v.Type()) || isNilableLocalType(v.Type()):
			val := "?"
			switch {
			case tuple:
				val = "?"
			case rhs == nil:
				if isVarDeclNode(n.Ast) {
					val = "N"
				}
			case isNilIdent(info, rhs):
				val = "N"
			case d.p.isNonNilExpr(d.f, rhs):
				val = "NN"
			default:
				if rv, ok := identObj(info, rhs).(*types.Var); ok {
					if cur := s.Get("P:" + varKey(rv)); cur != "" {
						val = cur
					}
				}
			}
			if d.force != nil {
				if fv := d.force(n, v); fv != "" {
					val = fv
				}
			}
			ups = append(ups, upd{k, val})
		case types.Identical(v.Type().Underlying(), types.Typ[types.Bool]):
			val := "?"
			if !tuple && rhs != nil {
				// b = !c / b = c with c known; b = <condition> remembered symbolically
				r := ast.Unparen(rhs)
				neg := false
				for {
					if u, ok := r.(*ast.UnaryExpr); ok && u.Op == token.NOT {
						neg = !neg
						r = ast.Unparen(u.X)
						continue
					}
					break
				}
				if rv, ok := identObj(info, r).(*types.Var); ok && !rv.IsField() {
					cur := s.Get("P:" + varKey(rv))
					switch {
					case cur == "true" || cur == "false":
						val = map[bool]string{true: "true", false: "false"}[(cur == "true") != neg]
					case strings.HasPrefix(cur, "sym:") || strings.HasPrefix(cur, "nsym:"):
						isN := strings.HasPrefix(cur, "nsym:")
						key := strings.TrimPrefix(strings.TrimPrefix(cur, "nsym:"), "sym:")
						if isN != neg {
							val = "nsym:" + key
						} else {
							val = "sym:" + key
						}
					}
				} else {
					switch r.(type) {
					case *ast.BinaryExpr, *ast.CallExpr, *ast.SelectorExpr:
						if _, isConst := constInt(info, r); !isConst {
							if d.syms == nil {
								d.syms = map[string]ast.Expr{}
							}
							key := d.p.Pos(r)
							d.syms[key] = r
							if neg {
								val = "nsym:" + key
							} else {
								val = "sym:" + key
							}
						}
					}
				}
			}
			if val == "?" && !tuple && rhs != nil {
				if id, ok := ast.Unparen(rhs).(*ast.Ident); ok {
					if _, isConst := info.Uses[id].(*types.Const); isConst && (id.Name == "true" || id.Name == "false") {
						val = id.Name
					}
				}
				// b = err == nil / err != nil with known err
				if be, ok := ast.Unparen(rhs).(*ast.BinaryExpr); ok && (be.Op == token.EQL || be.Op == token.NEQ) && isNilIdent(info, be.Y) {
					if ev, ok := identObj(info, be.X).(*types.Var); ok {
						switch s.Get("P:" + varKey(ev)) {
						case "N":
							val = map[bool]string{true: "true", false: "false"}[be.Op == token.EQL]
						case "NN":
							val = map[bool]string{true: "false", false: "true"}[be.Op == token.EQL]
						}
					}
				}
			} else if rhs == nil {
				if isVarDeclNode(n.Ast) {
					val = "false"
				}
			}
			ups = append(ups, upd{k, val})
		}
	}
	if len(d.syms) > 0 && len(defs) > 0 {
		for _, k := range s.Keys("P:") {
			val := s.Get(k)
			if !strings.HasPrefix(k, "P:") || !(strings.HasPrefix(val, "sym:") || strings.HasPrefix(val, "nsym:")) {
				continue
			}
			ex := d.syms[strings.TrimPrefix(strings.TrimPrefix(val, "nsym:"), "sym:")]
			stale := false
			if ex != nil {
				ast.Inspect(ex, func(x ast.Node) bool {
					if id, ok := x.(*ast.Ident); ok {
						if ov, ok := info.Uses[id].(*types.Var); ok {
							if _, re := defs[ov]; re {
								stale = true
							}
						}
					}
					return true
				})
			}
			if stale {
				s = s.Without(k)
			}
		}
	}
	for _, u := range ups {
		if u.v == "?" {
			s = s.Without(u.k)
		} else {
			s = s.With(u.k, u.v)
		}
	}
	return []Store{s}
}

func (d *pathDomain) Refine(e *Edge, s Store) (Store, bool) {
	if d.cut != nil && d.cut(e) {
		return s, false
	}
	info := d.f.Pkg.TypesInfo
	at, ok := edgeAtom(info, e)
	if !ok {
		return s, true
	}
	switch at.Kind {
	case "nil":
		v, ok := identObj(info, at.X).(*types.Var)
		if !ok || !(isErrorType(v.Type()) || isNilableLocalType(v.Type())) || v.IsField() {
			return s, true
		}
		if v.Parent() == nil || (v.Pkg() != nil && v.Parent() == v.Pkg().Scope()) {
			return s, true // package-level variables can change behind our back
		}
		k := "P:" + varKey(v)
		cur := s.Get(k)
		if at.Op == token.EQL {
			if cur == "NN" {
				return s, false
			}
			return s.With(k, "N"), true
		}
		if cur == "N" {
			return s, false
		}
		return s.With(k, "NN"), true
	case "bool":
		if id, isID := ast.Unparen(at.X).(*ast.Ident); isID && (id.Name == "true" || id.Name == "false") {
			if _, isConst := info.Uses[id].(*types.Const); isConst {
				// a literal condition (a constant argument substituted by the inliner)
				return s, (id.Name == "true") == at.True
			}
		}
		v, ok := identObj(info, at.X).(*types.Var)
		if !ok || v.IsField() {
			return s, true
		}
		k := "P:" + varKey(v)
		want := "false"
		if at.True {
			want = "true"
		}
		cur := s.Get(k)
		if strings.HasPrefix(cur, "sym:") || strings.HasPrefix(cur, "nsym:") {
			// the flag stands for a condition: take the corresponding edge of it
			ex := d.syms[strings.TrimPrefix(strings.TrimPrefix(cur, "nsym:"), "sym:")]
			holds := at.True != strings.HasPrefix(cur, "nsym:")
			if ex != nil {
				branch := +1
				if !holds {
					branch = -1
				}
				fake := &Edge{From: e.From, To: e.To, Cond: ex, Branch: branch}
				s2, ok := d.Refine(fake, s)
				if !ok {
					return s, false
				}
				return s2.With(k, want), true
			}
			return s.With(k, want), true
		}
		if cur != "" && cur != want {
			return s, false
		}
		return s.With(k, want), true
	}
	return s, true
}

// FeasibleReach returns the nodes reachable from starts along paths that are
// not pruned by pathDomain, never entering avoid nodes nor taking cut edges.
func (p *Prog) FeasibleReach(f *Func, starts []*Node, avoid func(*Node) bool, cut func(*Edge) bool) map[*Node]bool {
	return p.FeasibleReachAssuming(f, starts, avoid, cut, nil)
}

// FeasibleReachAssuming is FeasibleReach under assumptions about the outcome of
// particular error-producing definitions (see pathDomain.force).
func (p *Prog) FeasibleReachAssuming(f *Func, starts []*Node, avoid func(*Node) bool, cut func(*Edge) bool, force func(*Node, *types.Var) string) map[*Node]bool {
	st := p.FeasibleStates(f, starts, NewStore(), avoid, cut, force, nil)
	out := map[*Node]bool{}
	for n := range st {
		out[n] = true
	}
	return out
}

// FeasibleStates is the general form: it returns, for every node reached, the
// path-domain states in which it is reached, starting from init at starts.
// Nodes for which stop returns true record their arriving states but are not expanded.
func (p *Prog) FeasibleStates(f *Func, starts []*Node, init Store, avoid func(*Node) bool, cut func(*Edge) bool, force func(*Node, *types.Var) string, stop func(*Node) bool) map[*Node][]Store {
	d := &pathDomain{p: p, f: f, cut: cut, avoid: avoid, force: force}
	seen := map[*Node]map[string]bool{}
	out := map[*Node][]Store{}
	type item struct {
		n *Node
		s Store
	}
	var work []item
	push := func(n *Node, s Store) {
		k := s.Key()
		m := seen[n]
		if m == nil {
			m = map[string]bool{}
			seen[n] = m
		}
		if m[k] || len(m) >= stateCap {
			return
		}
		m[k] = true
		out[n] = append(out[n], s)
		work = append(work, item{n, s})
	}
	isStart := map[*Node]bool{}
	for _, st := range starts {
		if st != nil && !(avoid != nil && avoid(st)) {
			isStart[st] = true
			push(st, init)
		}
	}
	for len(work) > 0 {
		it := work[len(work)-1]
		work = work[:len(work)-1]
		if stop != nil && stop(it.n) && !isStart[it.n] {
			continue
		}
		outs := []Store{it.s}
		if it.n.Kind == NNormal {
			outs = d.Transfer(it.n, it.s)
		}
		for _, o := range outs {
			for _, e := range it.n.Succs {
				if s2, ok := d.Refine(e, o); ok {
					if avoid != nil && avoid(e.To) {
						continue
					}
					push(e.To, s2)
				}
			}
		}
	}
	return out
}

// singleDef returns the right-hand side of the only assignment to local v in
// f (nil if v has no or several definitions, or is assigned as part of a tuple).
func (p *Prog) singleDef(f *Func, v *types.Var) ast.Expr {
	if v == nil || v.IsField() {
		return nil
	}
	info := f.Pkg.TypesInfo
	root := f
	for root.Parent != nil {
		root = root.Parent
	}
	var rhs ast.Expr
	n := 0
	ast.Inspect(root.Body, func(x ast.Node) bool {
		switch s := x.(type) {
		case *ast.AssignStmt:
			for i, l := range s.Lhs {
				if identObj(info, l) == v {
					n++
					if len(s.Rhs) == len(s.Lhs) && (s.Tok == token.ASSIGN || s.Tok == token.DEFINE) {
						rhs = s.Rhs[i]
					} else {
						n++ // tuple or op-assign: not a simple alias
					}
				}
			}
		case *ast.ValueSpec:
			for i, nm := range s.Names {
				if info.Defs[nm] == v {
					if i < len(s.Values) {
						n++
						rhs = s.Values[i]
					}
				}
			}
		case *ast.IncDecStmt:
			if identObj(info, s.X) == v {
				n += 2
			}
		}
		return true
	})
	if n == 1 {
		return rhs
	}
	return nil
}

// Deref follows single-definition local aliases: `x := e` ... `x` denotes e.
func (p *Prog) Deref(f *Func, e ast.Expr) ast.Expr {
	info := f.Pkg.TypesInfo
	for i := 0; i < 5; i++ {
		// X.f where X is a local struct bound once to a literal, or where the
		// struct type is one the reference tree does not have (a parameter /
		// result bundle introduced by a refactoring) and f is assigned once
		if se, isSel := ast.Unparen(e).(*ast.SelectorExpr); isSel {
			if r := p.derefField(f, se); r != nil {
				e = r
				continue
			}
			return e
		}
		v, ok := identObj(info, ast.Unparen(e)).(*types.Var)
		if !ok {
			return e
		}
		d := p.singleDef(f, v)
		if d == nil {
			return e
		}
		e = d
	}
	return e
}

// EdgeAtom is edgeAtom that looks through boolean aliases: `b := x != ""; if b {`.
func (p *Prog) EdgeAtom(f *Func, e *Edge) (condAtom, bool) {
	info := f.Pkg.TypesInfo
	at, ok := edgeAtom(info, e)
	// a flag bound once to a condition (possibly through further single
	// bindings, as left by an inlined helper's parameter) stands for it
	for depth := 0; depth < 4; depth++ {
		if !ok || at.Kind != "bool" {
			return at, ok
		}
		v, isV := identObj(info, at.X).(*types.Var)
		if !isV {
			return at, ok
		}
		d := p.singleDef(f, v)
		if d == nil {
			return at, ok
		}
		branch := +1
		if !at.True {
			branch = -1
		}
		fake := &Edge{Cond: d, Branch: branch}
		a2, ok2 := edgeAtom(info, fake)
		if !ok2 {
			return at, ok
		}
		at = a2
	}
	return at, ok
}

// derefField resolves X.f to the expression stored in that field, when that is
// unambiguous (see Deref). Returns nil otherwise.
func (p *Prog) derefField(f *Func, se *ast.SelectorExpr) ast.Expr {
	info := f.Pkg.TypesInfo
	fv := SelField(info, se)
	if fv == nil {
		return nil
	}
	root := f
	for root.Parent != nil {
		root = root.Parent
	}
	// (a) local struct variable defined once by a composite literal
	if bv, ok := identObj(info, ast.Unparen(se.X)).(*types.Var); ok && !bv.IsField() {
		if d := p.singleDef(f, bv); d != nil {
			d = ast.Unparen(d)
			if u, ok := d.(*ast.UnaryExpr); ok && u.Op == token.AND {
				d = ast.Unparen(u.X)
			}
			if cl, ok := d.(*ast.CompositeLit); ok {
				for _, el := range cl.Elts {
					if kv, ok := el.(*ast.KeyValueExpr); ok {
						if k, ok := kv.Key.(*ast.Ident); ok && info.Uses[k] == fv {
							return kv.Value
						}
					}
				}
			}
		}
	}
	// (b) field of a struct type the reference tree does not have, assigned exactly once in the function
	owner := ""
	if n := p.FieldName(fv); strings.Contains(n, ".") {
		owner = n[:strings.LastIndex(n, ".")]
	}
	if owner == "" || knownFields[owner] != nil {
		return nil
	}
	var rhs ast.Expr
	cnt := 0
	ast.Inspect(root.Body, func(x ast.Node) bool {
		switch st := x.(type) {
		case *ast.AssignStmt:
			for i, l := range st.Lhs {
				if SelField(info, l) == fv {
					cnt++
					if len(st.Rhs) == len(st.Lhs) {
						rhs = st.Rhs[i]
					} else {
						cnt++
					}
				}
			}
		case *ast.KeyValueExpr:
			if k, ok := st.Key.(*ast.Ident); ok && info.Uses[k] == fv {
				cnt++
				rhs = st.Value
			}
		}
		return true
	})
	if cnt == 1 {
		return rhs
	}
	return nil
}

// isNilableLocalType: pointers, maps, slices, channels and functions - a local
// of such a type declared without a value is nil, one bound to &x / a literal
// is not, and a nil test on it refines (or contradicts) that.
func isNilableLocalType(t types.Type) bool {
	switch t.Underlying().(type) {
	case *types.Pointer, *types.Map, *types.Slice, *types.Chan, *types.Signature:
		return true
	}
	return false
}
